(* C10 — the [flushes_ok] conjunct of spec_ok on the model's run of a sequential case, and the
   composed theorem  spec_ok (CSeq c) (run_case (CSeq c)) = true.
   Part A: every body a flush commits is one line (from the structure of C09's [render]);
   Part B: the message list of a flush is well formed; Part C: timestamps; Part D/E: composition. *)
From Coq Require Import List NArith ZArith Bool Lia.
Import ListNotations.
Require Import MV.C10.Model MV.C10.Spec MV.C10.Exec MV.C10.ExecProofs MV.C10.ProofsSeq MV.C10.ProofsRefine
               MV.C10.ProofsWire MV.C10.ProofsCompose.
Require MV.C09.Spec MV.C09.Inv MV.C09.Abs MV.C09.Render.
Module WR := MV.C09.Render.
Open Scope N_scope.

(* ------------------------------------------------------------------ Part A: one line per body *)
Definition nl (b : bytes) : bool := WR.nod 10 b.
Definition nl_label (t : label) : bool := nl (fst t) && nl (snd t).
(* no newline byte in the configured strings *)
Definition text_wf (c : ocase) : Prop :=
  (forall p, o_prefix c = Some p -> nl p = true) /\
  forallb nl_label (o_glabels c) = true /\
  forallb (fun k => nl (fst k) && forallb nl_label (snd k)) (o_keys c) = true.

Lemma nl_app a b : nl (a ++ b) = nl a && nl b.
Proof. apply WR.nod_app. Qed.

Lemma one_line_of_nl x : nl x = true -> x <> [] -> one_line (x ++ [10]) = true.
Proof.
  intros H Hne. unfold one_line. rewrite rev_app_distr. cbn [rev app].
  apply andb_true_iff. split.
  - unfold nl, WR.nod in H. rewrite forallb_forall in *. intros y Hy. apply H. apply in_rev. exact Hy.
  - destruct (rev x) eqn:E; [|reflexivity]. exfalso. apply Hne.
    rewrite <- (rev_involutive x), E. reflexivity.
Qed.

Lemma nl_tag t : nl_label t = true -> nl (WR.tag_bytes t) = true.
Proof.
  unfold nl_label, WR.tag_bytes. intros H. apply andb_true_iff in H. destruct H as [H1 H2].
  rewrite nl_app. apply andb_true_iff. split; [exact H1|].
  destruct t as [k v]. cbn [fst snd] in *. destruct v; [reflexivity|exact H2].
Qed.
Lemma nl_flat_map {A} (f : A -> bytes) l : (forall x, In x l -> nl (f x) = true) -> nl (flat_map f l) = true.
Proof.
  induction l as [|x r IH]; intros H; [reflexivity|]. cbn [flat_map]. rewrite nl_app, (H x (or_introl eq_refl)), IH; auto.
  intros; apply H; right; auto.
Qed.
Lemma nl_tags ts : forallb nl_label ts = true -> nl (WR.tags_sec ts) = true.
Proof.
  intros H. rewrite forallb_forall in H. destruct ts as [|t r]; [reflexivity|].
  cbn [WR.tags_sec WR.join_tags]. change (nl (124 :: 35 :: ?x)) with (nl x).
  rewrite nl_app. apply andb_true_iff. split; [apply nl_tag; apply H; left; reflexivity|].
  apply nl_flat_map. intros x Hx. change (nl (44 :: ?y)) with (nl y). apply nl_tag. apply H. right; exact Hx.
Qed.
Lemma nl_opt cc o : cc <> 10 -> (forall x, o = Some x -> nl x = true) -> nl (WR.opt_sec cc o) = true.
Proof.
  intros Hne H. destruct o as [x|]; [|reflexivity]. cbn [WR.opt_sec].
  change (nl (124 :: cc :: x)) with (negb (cc =? 10) && nl x). apply N.eqb_neq in Hne. rewrite Hne. apply (H x eq_refl).
Qed.

Lemma render_split m :
  WR.render m = (WS.m_name m ++ MV.C09.Abs.vals_bytes (WS.m_values m) ++ [124; WS.m_type m] ++
                 WR.opt_sec 64 (WS.m_rate m) ++ WR.tags_sec (WS.m_tags m) ++ WR.opt_sec 84 (WS.m_ts m)) ++ [10].
Proof. unfold WR.render. repeat rewrite <- app_assoc. reflexivity. Qed.

Lemma render_one_line m :
  nl (WS.m_name m) = true -> (forall v, In v (WS.m_values m) -> nl v = true) -> WS.m_type m <> 10 ->
  (forall x, WS.m_rate m = Some x -> nl x = true) -> forallb nl_label (WS.m_tags m) = true ->
  (forall x, WS.m_ts m = Some x -> nl x = true) ->
  one_line (WR.render m) = true.
Proof.
  intros Hn Hv Ht Hr Hg Hs. rewrite render_split. apply one_line_of_nl.
  - rewrite !nl_app, Hn. cbn [andb].
    apply andb_true_iff. split.
    { unfold MV.C09.Abs.vals_bytes. apply nl_flat_map. intros v Hin. change (nl (58 :: v)) with (nl v). apply Hv. exact Hin. }
    apply andb_true_iff. split.
    { change (nl [124; WS.m_type m]) with (negb (WS.m_type m =? 10) && true). apply N.eqb_neq in Ht. rewrite Ht. reflexivity. }
    apply andb_true_iff. split; [apply nl_opt; [discriminate|exact Hr]|].
    apply andb_true_iff. split; [apply nl_tags; exact Hg|apply nl_opt; [discriminate|exact Hs]].
  - intros E. apply (f_equal (@length N)) in E. rewrite !app_length in E. cbn in E. lia.
Qed.

Lemma dec_aux_nl f : forall n acc, nl acc = true -> nl (dec_aux f n acc) = true.
Proof.
  induction f as [|f IH]; intros n acc H; cbn [dec_aux]; [exact H|].
  assert (Hd : nl ((48 + n mod 10) :: acc) = true).
  { change (nl ((48 + n mod 10) :: acc)) with (negb (48 + n mod 10 =? 10) && nl acc). rewrite H.
    assert (E : (48 + n mod 10 =? 10) = false) by (apply N.eqb_neq; lia). rewrite E. reflexivity. }
  destruct (n <? 10); [exact Hd|apply IH; exact Hd].
Qed.
Lemma dec_nl n : nl (dec n) = true.
Proof. unfold dec. apply dec_aux_nl. reflexivity. Qed.
Lemma fmt_z_nl z : nl (fmt_z z) = true.
Proof.
  unfold fmt_z. rewrite !nl_app, dec_nl. destruct (z <? 0)%Z; reflexivity.
Qed.

Lemma key_nl c k : text_wf c ->
  nl (fst (key_of c k)) = true /\ forallb nl_label (snd (key_of c k)) = true.
Proof.
  intros (_ & _ & Hk). unfold key_of. rewrite forallb_forall in Hk.
  destruct (nth_in_or_default (N.to_nat k) (o_keys c) ([], [])) as [Hin| ->]; [|split; reflexivity].
  specialize (Hk _ Hin). apply andb_true_iff in Hk. exact Hk.
Qed.

Lemma op_values_nl c x v : In v (WS.op_values (op_of_call c x)) -> nl v = true.
Proof.
  unfold op_of_call. destruct x as [k d u ts|k z u ts|k b]; destruct (key_of c k) as [name labels]; cbn [WS.op_values].
  - intros [<-|[]]. apply dec_nl.
  - intros [<-|[]]. apply fmt_z_nl.
  - intros Hin. apply in_map_iff in Hin. destruct Hin as (y & <- & _). apply fmt_z_nl.
Qed.

Lemma forallb_app_true {A} (f : A -> bool) a b : forallb f a = true -> forallb f b = true -> forallb f (a ++ b) = true.
Proof. intros. rewrite forallb_app. apply andb_true_iff. auto. Qed.

Lemma body_one_line c x ch : text_wf c ->
  (forall v, In v ch -> In v (WS.op_values (op_of_call c x))) ->
  one_line (WR.render (WS.expect (cfg_of_call c x) (op_of_call c x) ch)) = true.
Proof.
  intros Hwf Hch. pose proof Hwf as (Hp & Hg & _).
  assert (Hvals : forall v, In v ch -> nl v = true) by (intros v Hv; eapply op_values_nl; eauto).
  assert (Hname : forall name, nl name = true -> nl (WS.full_name (cfg_of_call c x) name) = true).
  { intros name Hn. unfold WS.full_name, cfg_of_call. cbn [W.c_env env_of W.prefix].
    destruct (starts_with telemetry_prefix _); [exact Hn|].
    destruct (o_prefix c) as [p|] eqn:Ep; [|exact Hn]. rewrite nl_app, (Hp p eq_refl). exact Hn. }
  unfold op_of_call, cfg_of_call in *.
  destruct x as [k d u ts|k z u ts|k b]; destruct (key_nl c k Hwf) as [Kn Kl]; destruct (key_of c k) as [name labels]; cbn [fst snd] in *;
    cbn [WS.expect]; apply render_one_line; cbn [WS.m_name WS.m_values WS.m_type WS.m_rate WS.m_tags WS.m_ts W.c_env env_of W.glabels];
    try (apply Hname; exact Kn); try exact Hvals; try discriminate; try (apply forallb_app_true; assumption).
  - intros y E. destruct ts; inversion E. apply dec_nl.
  - intros y E. destruct ts; inversion E. apply dec_nl.
  - destruct (o_dist c); discriminate.
  - intros y E. destruct (o_samp c); inversion E. reflexivity.
Qed.

Lemma bodies_one_line c : text_wf c -> forall xs fs, bodies_rel c xs fs -> Forall (fun b => one_line b = true) fs.
Proof.
  intros Hwf xs fs H. induction H as [|x xs chunks fs Hne Hcat Hb IH]; [constructor|].
  apply Forall_app. split; [|exact IH]. apply Forall_forall. intros body Hin.
  apply in_map_iff in Hin. destruct Hin as (ch & <- & Hch). apply body_one_line; [exact Hwf|].
  intros v Hv. assert (Hk : In v (WS.kept (cfg_of_call c x) (op_of_call c x))).
  { rewrite <- Hcat. apply in_concat. exists ch. split; assumption. }
  unfold WS.kept in Hk. apply filter_In in Hk. tauto.
Qed.

(* ------------------------------------------------------------------ Part B/C: the messages of one flush *)
Lemma nth_some_in {A} (x : A) : forall i l, nth i l None = Some x -> In (Some x) l.
Proof.
  induction i as [|i IH]; intros [|y r] H; cbn in H; try discriminate.
  - left. exact H.
  - right. apply IH. exact H.
Qed.

Lemma crun_out_lt fx : forall es st d u, In (Some (d, u)) (crun fx st es) -> d < two64.
Proof.
  induction es as [|e r IH]; intros st d u H; [destruct H|]. cbn [crun] in H.
  destruct (cstep fx st e) as [st' o] eqn:E. apply in_app_or in H. destruct H as [H|H]; [|eapply IH; eauto].
  destruct e; cbn [cstep] in E; try (inversion E; subst; destruct H).
  destruct (c_reg st); [|inversion E; subst; destruct H as [H|[]]; discriminate].
  unfold seq_cflush in E. cbn -[decide sub64 two64] in E.
  destruct (decide fx (c_idle st) (sub64 (cur (c_cell st)) (last (c_cell st))) (upd (c_cell st))) as [i' o'] eqn:Ed.
  inversion E; subst. destruct H as [H|[]]. destruct o' as [x|]; [|discriminate].
  assert (Hx : x = sub64 (cur (c_cell st)) (last (c_cell st))) by (unfold decide in Ed; destruct (_ && _), (c_idle st); inversion Ed; reflexivity).
  inversion H. subst d. rewrite Hx. unfold sub64. apply N.mod_lt. discriminate.
Qed.

Lemma keyids_lt c k : In k (keyids c) -> k < N.of_nat (length (o_keys c)).
Proof. unfold keyids. intros H. apply in_map_iff in H. destruct H as (j & <- & Hj). apply in_seq in Hj. lia. Qed.

Lemma insert_z_nonempty x l : insert_z x l <> [].
Proof. destruct l; cbn; [discriminate|]. destruct (x <=? z)%Z; discriminate. Qed.
Lemma sort_z_nonempty l : l <> [] -> sort_z l <> [].
Proof. destruct l; [congruence|]. intros _. unfold sort_z. cbn [fold_right]. apply insert_z_nonempty. Qed.

Definition mk (kd k : N) (vs : list Z) (ts : option N) : msg := {| m_kind := kd; m_key := k; m_vals := vs; m_ts := ts |}.

Section OneFlush.
Variable c : ocase.
Variable i : nat.
Variable now : N.
Let ts := agg_timestamp all_fixed (o_aggr c) now.
Let co (k : N) := nth i (crun all_fixed cst0 (flat_map (projC k) (o_ops c))) None.
Let go (k : N) := nth i (grun gst0 (flat_map (projG k) (o_ops c))) None.
Let hv (k : N) := flat_map (hsel k) (flush_calls all_fixed c i now).
Let xs := flush_calls all_fixed c i now.

Definition cpart := flat_map (fun k => match co k with Some (d, _) => [mk 0 k [Z.of_N d] ts] | None => [] end) (keyids c).
Definition gpart := flat_map (fun k => match go k with Some (z, _) => [mk 1 k [z] ts] | None => [] end) (keyids c).
Definition hpart := flat_map (fun k => match hv k with [] => [] | vs => [mk 2 k (sort_z vs) None] end) (keyids c).

Lemma msgs_of_parts : msgs_of c xs = cpart ++ gpart ++ hpart.
Proof.
  unfold xs. rewrite msgs_of_split. unfold scalar_msgs. rewrite flush_calls_shape, !flat_map_app, !flat_map_flat_map.
  rewrite <- !app_assoc. f_equal; [|f_equal].
  - apply flat_map_ext. intros k. unfold cmsg, co. destruct (nth i _ None) as [[d u]|]; reflexivity.
  - apply flat_map_ext. intros k. unfold gmsg, go. destruct (nth i _ None) as [[z u]|]; reflexivity.
  - rewrite (flat_map_all_nil _ (keyids c)).
    + reflexivity.
    + intros k _. induction (nth i (hrun (o_samp c) hst0 (flat_map (projH k) (o_ops c))) []); [reflexivity|exact IHl].
Qed.

Definition tag (m : msg) : N * N := (m_kind m, m_key m).

Lemma part_tags kd (g : N -> list msg) :
  (forall k m, In m (g k) -> tag m = (kd, k)) -> (forall k, (length (g k) <= 1)%nat) ->
  forall L, NoDup L -> NoDup (map tag (flat_map g L)) /\ (forall t, In t (map tag (flat_map g L)) -> fst t = kd /\ In (snd t) L).
Proof.
  intros Ht Hl. induction L as [|a r IH]; intros Hnd; [split; [constructor|intros t []]|].
  inversion Hnd as [|? ? Hna Hnd']; subst. destruct (IH Hnd') as [N1 N2]. cbn [flat_map]. rewrite map_app.
  pose proof (Ht a) as Ha. pose proof (Hl a) as Hla.
  destruct (g a) as [|m [|m2 rr]]; cbn [map app] in *; [split; [exact N1|intros t Hin; destruct (N2 t Hin); split; [|right]; assumption]| |cbn in Hla; lia].
  rewrite (Ha m (or_introl eq_refl)). split.
  - constructor; [|exact N1]. intros Hin. destruct (N2 _ Hin) as [_ X]. cbn in X. contradiction.
  - intros t [<-|Hin]; [split; [reflexivity|left; reflexivity]|]. destruct (N2 t Hin); split; [|right]; assumption.
Qed.

Lemma NoDup_app_disj {A} (a b : list A) : NoDup a -> NoDup b -> (forall x, In x a -> ~ In x b) -> NoDup (a ++ b).
Proof.
  induction a as [|x r IH]; intros Ha Hb Hd; [exact Hb|]. inversion Ha; subst. cbn. constructor.
  - intros Hin. apply in_app_or in Hin. destruct Hin; [contradiction|]. apply (Hd x); [left; reflexivity|assumption].
  - apply IH; auto. intros y Hy. apply Hd. right; exact Hy.
Qed.

Lemma nodup_of_tags ms : NoDup (map tag ms) -> nodup_msgs ms = true.
Proof.
  induction ms as [|m r IH]; intros H; [reflexivity|]. inversion H as [|? ? Hn Hr]; subst. cbn [nodup_msgs].
  rewrite IH by exact Hr. rewrite andb_true_r. apply negb_true_iff.
  destruct (existsb _ r) eqn:E; [|reflexivity]. exfalso. apply Hn.
  apply existsb_exists in E. destruct E as (m' & Hin & Hm). apply andb_true_iff in Hm. destruct Hm as [E1 E2].
  apply N.eqb_eq in E1, E2. apply in_map_iff. exists m'. split; [|exact Hin]. unfold tag. congruence.
Qed.

Lemma flush_msgs_nodup : nodup_msgs (msgs_of c xs) = true.
Proof.
  apply nodup_of_tags. rewrite msgs_of_parts, !map_app.
  destruct (part_tags 0 (fun k => match co k with Some (d, _) => [mk 0 k [Z.of_N d] ts] | None => [] end)) with (L := keyids c) as [C1 C2];
    [intros k m; destruct (co k) as [[d u]|]; intros []; [subst; reflexivity|contradiction]|intros k; destruct (co k) as [[d u]|]; cbn; lia|apply keyids_nodup|].
  destruct (part_tags 1 (fun k => match go k with Some (z, _) => [mk 1 k [z] ts] | None => [] end)) with (L := keyids c) as [G1 G2];
    [intros k m; destruct (go k) as [[z u]|]; intros []; [subst; reflexivity|contradiction]|intros k; destruct (go k) as [[z u]|]; cbn; lia|apply keyids_nodup|].
  destruct (part_tags 2 (fun k => match hv k with [] => [] | vs => [mk 2 k (sort_z vs) None] end)) with (L := keyids c) as [H1 H2];
    [intros k m; destruct (hv k); intros []; [subst; reflexivity|contradiction]|intros k; destruct (hv k); cbn; lia|apply keyids_nodup|].
  fold cpart in C1, C2. fold gpart in G1, G2. fold hpart in H1, H2.
  apply NoDup_app_disj; [exact C1| |].
  - apply NoDup_app_disj; [exact G1|exact H1|]. intros t Ht Ht'. destruct (G2 t Ht) as [X _]. destruct (H2 t Ht') as [Y _]. congruence.
  - intros t Ht Ht'. destruct (C2 t Ht) as [X _]. apply in_app_or in Ht'. destruct Ht' as [Ht'|Ht'].
    + destruct (G2 t Ht') as [Y _]. congruence.
    + destruct (H2 t Ht') as [Y _]. congruence.
Qed.

Lemma flush_msgs_cases m : In m (msgs_of c xs) ->
  (exists k d u, In k (keyids c) /\ co k = Some (d, u) /\ m = mk 0 k [Z.of_N d] ts) \/
  (exists k z u, In k (keyids c) /\ go k = Some (z, u) /\ m = mk 1 k [z] ts) \/
  (exists k vs, In k (keyids c) /\ vs <> [] /\ m = mk 2 k (sort_z vs) None).
Proof.
  rewrite msgs_of_parts. intros H. apply in_app_or in H. destruct H as [H|H]; [|apply in_app_or in H; destruct H as [H|H]].
  - left. apply in_flat_map in H. destruct H as (k & Hk & H). destruct (co k) as [[d u]|] eqn:E; [|destruct H].
    destruct H as [<-|[]]. eauto 8.
  - right; left. apply in_flat_map in H. destruct H as (k & Hk & H). destruct (go k) as [[z u]|] eqn:E; [|destruct H].
    destruct H as [<-|[]]. eauto 8.
  - right; right. apply in_flat_map in H. destruct H as (k & Hk & H). destruct (hv k) as [|v vs] eqn:E; [destruct H|].
    destruct H as [<-|[]]. exists k, (v :: vs). split; [exact Hk|]. split; [discriminate|reflexivity].
Qed.

Lemma flush_msgs_wf : msgs_wf (N.of_nat (length (o_keys c))) (msgs_of c xs) = true.
Proof.
  unfold msgs_wf. rewrite flush_msgs_nodup, andb_true_r. apply forallb_forall. intros m Hm.
  destruct (flush_msgs_cases m Hm) as [(k & d & u & Hk & Ec & ->)|[(k & z & u & Hk & Eg & ->)|(k & vs & Hk & Hne & ->)]];
    cbn [mk m_kind m_key m_vals]; rewrite (proj2 (N.ltb_lt _ _) (keyids_lt c k Hk)).
  - cbn. assert (Hd : d < two64) by (eapply crun_out_lt; eapply nth_some_in; exact Ec).
    unfold two64 in Hd. apply andb_true_iff. split; [apply Z.leb_le; lia|apply Z.ltb_lt; lia].
  - reflexivity.
  - cbn. pose proof (sort_z_nonempty vs Hne). destruct (sort_z vs) as [|a [|b r]]; [congruence|reflexivity|reflexivity].
Qed.

Lemma flush_msgs_ts : forallb (ts_ok (o_aggr c) now) (msgs_of c xs) = true.
Proof.
  apply forallb_forall. intros m Hm.
  destruct (flush_msgs_cases m Hm) as [(k & d & u & Hk & Ec & ->)|[(k & z & u & Hk & Eg & ->)|(k & vs & Hk & Hne & ->)]];
    unfold ts_ok, ts, agg_timestamp; cbn [mk m_kind m_ts fix_ts all_fixed]; try reflexivity;
    destruct (o_aggr c); cbn; rewrite ?N.eqb_refl; reflexivity.
Qed.
End OneFlush.

(* ------------------------------------------------------------------ Part D: flushes_ok on the run *)
Lemma frame_ok_wi lp mx b : W.len b <= mx -> one_line b = true -> frame_ok lp mx (MV.C09.Inv.frame lp b) = true.
Proof.
  intros Hl Ho. destruct lp.
  - change (MV.C09.Inv.frame true b) with (frame b). apply frame_ok_frame; assumption.
  - change (MV.C09.Inv.frame false b) with b. unfold frame_ok. rewrite Ho. apply N.leb_le. exact Hl.
Qed.

Lemma flushes_ok_run c : text_wf c -> forall ns i fl,
  Forall2 (fun xs f => exists fs cp gp hp, f = FOut (msgs_of c xs) (map (MV.C09.Inv.frame (o_lp c)) fs) cp gp hp /\
                       bodies_rel c xs fs /\ Forall (fun b => W.len b <= o_max c) fs)
          (all_calls_from all_fixed c i ns) fl ->
  flushes_ok c ns fl = true.
Proof.
  intros Hwf. induction ns as [|n r IH]; intros i fl H; cbn [all_calls_from] in H.
  - inversion H; subst. reflexivity.
  - inversion H as [|xs f l1 l2 (fs & cp & gp & hp & -> & Hb & Hlen) Hr]; subst.
    cbn [flushes_ok]. rewrite (flush_msgs_wf c i n), (flush_msgs_ts c i n), (IH (S i) l2 Hr). cbn [andb]. rewrite andb_true_r.
    apply forallb_forall. intros p Hp. apply in_map_iff in Hp. destruct Hp as (b & <- & Hin).
    pose proof (bodies_one_line c Hwf _ _ Hb) as Hol. rewrite Forall_forall in Hol, Hlen.
    apply frame_ok_wi; [apply Hlen; exact Hin|apply Hol; exact Hin].
Qed.

(* ------------------------------------------------------------------ Part E: the composed theorem *)
Definition seq_wf (c : ocase) : Prop := ops_wf c /\ hist_wf c /\ text_wf c.

Theorem spec_ok_on_model_seq c : seq_wf c -> spec_ok (CSeq c) (run_case (CSeq c)) = true.
Proof.
  intros (Hops & Hh & Ht). destruct (N.lt_ge_cases (o_max c) 4294967296) as [Hm|Hm].
  - destruct (key_clauses_on_run c Hm Hops Hh) as (fl & Er & Hk).
    destruct (seq_wire c Hm) as (fl' & Er' & HF).
    assert (fl' = fl).
    { unfold run_case, run_with, impl_fixes in Er. rewrite Er' in Er. inversion Er. reflexivity. }
    subst fl'. rewrite Er. cbn [spec_ok seq_spec_ok]. unfold two32.
    rewrite (proj2 (N.ltb_lt _ _) Hm), Hk. unfold all_calls in HF. rewrite (flushes_ok_run c Ht _ 0%nat fl HF). reflexivity.
  - unfold run_case, run_with, impl_fixes, run_seq, W.new.
    assert (E : (W.two32 <=? o_max c) = true) by (apply N.leb_le; exact Hm). rewrite E.
    cbn [spec_ok seq_spec_ok]. apply N.leb_le. exact Hm.
Qed.
