(* C10 — lemmas about the executable entry points: witnesses for the open finding, satisfiable
   examples, and the stream framing model. *)
From Coq Require Import List NArith ZArith Bool Lia.
Import ListNotations.
Require Import MV.Common.Interleave MV.C10.Model MV.C10.Spec MV.C10.Exec.
Open Scope N_scope.

Ltac Zify.zify_post_hook ::= Z.to_euclidean_division_equations.

(* open finding C10-rebase-straddle: the flush loads current = 5, the first absolute(100) stores
   last = 100, the flush swaps last and reports 5 - 100 (mod 2^64) *)
Definition straddle_case : case :=
  CSched [[UInc 5; UAbs 100]; [FCnt; FCnt]] [0;0;0;0;1;1;1;1;1;0;0;1;1].

Lemma rebase_straddle_refutes :
  known_class straddle_case = Some 1 /\ spec_ok straddle_case (run_case straddle_case) = false /\
  exists tr rs dn fin, run_case straddle_case = OSched tr rs dn fin /\
                       In (RCnt 18446744073709551521 0) (concat rs).
Proof.
  split; [vm_compute; reflexivity|]. split; [vm_compute; reflexivity|].
  vm_compute. do 4 eexists. split; [reflexivity|]. cbn. auto.
Qed.

(* the hypotheses of the theorems are satisfiable on non-trivial cases, and the property holds there *)
Definition example_seq : case :=
  CSeq {| o_aggr := true; o_dist := false; o_samp := false; o_rsv := 16; o_max := 8192; o_lp := true;
          o_prefix := Some [112; 120]; o_glabels := [([101], [49])];
          o_keys := [([99], []); ([103], [([107], [])])];
          o_ops := [OInc 0 3; OInc 0 4; OGau 1 (WSet 42); ORec 1 5; ORec 1 (-6); OFlush 7; OFlush 8; OFlush 9;
                    OAbs 0 10; OFlush 10] |}.
Definition example_sched : case :=
  CSched [[UInc 5; UInc 7]; [FState; FState; FCnt]; [USet (WSet 3)]] [1;0;0;1;1;0;2;2;1;1;0;1;1;0].

Example examples_ok :
  spec_ok example_seq (run_case example_seq) = true /\ known_class example_seq = None /\
  spec_ok example_sched (run_case example_sched) = true /\ known_class example_sched = None.
Proof. vm_compute. repeat split. Qed.

(* the code as found fails the property on the corpus witnesses (same cases, model of the old code) *)
Definition witness_ts : case :=
  CSeq {| o_aggr := false; o_dist := false; o_samp := false; o_rsv := 16; o_max := 8192; o_lp := false;
          o_prefix := None; o_glabels := []; o_keys := [([99], []); ([103], [])];
          o_ops := [OInc 0 3; OGau 1 (WSet 42); OFlush 7] |}.
Definition witness_abs : case :=
  CSeq {| o_aggr := false; o_dist := false; o_samp := false; o_rsv := 16; o_max := 8192; o_lp := false;
          o_prefix := None; o_glabels := []; o_keys := [([99], [])];
          o_ops := [OAbs 0 15; OFlush 7; OAbs 0 5; OFlush 8] |}.
Definition witness_idle : case :=
  CSched [[UInc 5]; [FState; FState; FState]] [1;1;1;1;1;1;0;0;0;1;1;1;1;1].

Lemma refuted_before_fix :
  spec_ok witness_ts (run_with as_found witness_ts) = false /\
  spec_ok witness_abs (run_with as_found witness_abs) = false /\
  spec_ok witness_idle (run_with as_found witness_idle) = false /\
  spec_ok witness_ts (run_case witness_ts) = true /\
  spec_ok witness_abs (run_case witness_abs) = true /\
  spec_ok witness_idle (run_case witness_idle) = true.
Proof. vm_compute. repeat split. Qed.

(* ------------------------------------------------------------------ stream framing *)
Definition frame (b : bytes) : bytes := le32 (N.of_nat (length b)) ++ b.
Definition dec32 (h : bytes) : N :=
  match h with [a; b; c; d] => a + 256 * b + 65536 * c + 16777216 * d | _ => 0 end.
Fixpoint split_frames (fuel : nat) (s : bytes) : list bytes :=
  match fuel with
  | O => []
  | S f => match s with
           | [] => []
           | _ => let n := N.to_nat (dec32 (firstn 4 s)) in
                  firstn n (skipn 4 s) :: split_frames f (skipn n (skipn 4 s))
           end
  end.

Lemma dec32_le32 n : n < 4294967296 -> dec32 (le32 n) = n.
Proof. intros H. unfold dec32, le32. lia. Qed.

(* what a stream socket receives (the concatenation of the length-prefixed payloads) decodes to
   exactly the payload bodies, in order *)
Theorem wire_framing ps :
  Forall (fun b => N.of_nat (length b) < 4294967296) ps ->
  split_frames (length ps) (concat (map frame ps)) = ps.
Proof.
  induction ps as [|b r IH]; intros H; [reflexivity|].
  inversion H as [|? ? Hb Hr]; subst.
  cbn [length map concat]. unfold frame at 1. rewrite <- app_assoc.
  assert (F4 : forall n x, firstn 4 (le32 n ++ x) = le32 n) by reflexivity.
  assert (S4 : forall n x, skipn 4 (le32 n ++ x) = x) by reflexivity.
  assert (NE : forall n x, exists y z, le32 n ++ x = y :: z) by (intros; unfold le32; cbn; eauto).
  destruct (NE (N.of_nat (length b)) (b ++ concat (map frame r))) as (y & z & Eyz).
  cbn [split_frames]. rewrite Eyz. rewrite <- Eyz. clear y z Eyz.
  rewrite F4, S4. rewrite dec32_le32 by exact Hb. rewrite Nat2N.id.
  rewrite firstn_app, Nat.sub_diag, firstn_all. cbn [firstn]. rewrite app_nil_r.
  rewrite skipn_app, Nat.sub_diag, skipn_all. cbn [skipn app].
  f_equal. apply IH; exact Hr.
Qed.

Lemma frame_ok_frame mx b : N.of_nat (length b) <= mx -> one_line b = true -> frame_ok true mx (frame b) = true.
Proof.
  intros Hm Ho. unfold frame_ok, frame, le32. cbn [app firstn skipn length].
  rewrite Ho. cbn [andb].
  assert (E : forall x, bytes_eqb x x = true) by (induction x; cbn; auto; rewrite N.eqb_refl; auto).
  rewrite E. cbn [andb]. apply andb_true_intro. split; [|apply N.leb_le; exact Hm].
  apply andb_true_intro. split; [|reflexivity]. apply N.leb_le. lia.
Qed.
