(* C10 — absolutes under concurrency: no wrapped delta along hazard-free schedules.
   Programs: absolutes (values <= A < 2^64), gauge writes, flushes - no increments; any number of
   updating threads; ONE counter-flushing thread f.  A configuration is HAZARDOUS when a counter
   flush is between its 1008 load and its 1009 swap (pc PF2) while some thread is between the
   `last.store` (1005) and the `current.store` (1006) of a re-basing absolute (pc PB3 true), or when
   two threads are inside such a window.  For a run that completes, "some prefix configuration is
   hazardous" is exactly the step pattern of the open finding C10-rebase-straddle (known_class = Some 1:
   the taint of [straddle_walk] is set precisely when PF2 and PB3-true coexist, and a second 1005
   inside a window means two PB3-true threads).
   Along every schedule none of whose configurations is hazardous: last <= current outside the
   window, every delta computed is exact (no wrap-around) and at most A. *)
From Coq Require Import List NArith ZArith Bool Lia.
Import ListNotations.
Require Import MV.Common.Interleave MV.C10.Model MV.C10.ProofsConc MV.C10.ProofsBound.
Open Scope N_scope.

Notation lupd := (@MV.Common.Interleave.upd _).
Ltac Zify.zify_post_hook ::= Z.to_euclidean_division_equations.

Definition is_pf2 (p : pc) : Prop := match p with PF2 _ _ => True | _ => False end.
Definition is_win (p : pc) : Prop := match p with PB3 true _ => True | _ => False end.

Definition W (ls : list local) : Prop := exists u l, nth_error ls u = Some l /\ is_win (pcl l).
Definition hazard (ls : list local) : Prop :=
  (exists u l u' l', nth_error ls u = Some l /\ nth_error ls u' = Some l' /\ is_pf2 (pcl l) /\ is_win (pcl l')) \/
  (exists u l u' l', u <> u' /\ nth_error ls u = Some l /\ nth_error ls u' = Some l' /\ is_win (pcl l) /\ is_win (pcl l')).

Section Abs.
Variable A : N.
Hypothesis HA : A < two64.

Definition abs_op (o : uop) : Prop := match o with UInc _ => False | UAbs v => v <= A | _ => True end.
Definition abs_pc (p : pc) : Prop :=
  match p with
  | PA1 _ | PA2 _ | PA3 => False
  | PB1 v | PB2 v | PB3 _ v => v <= A
  | _ => True
  end.
Definition alocal (l : local) : Prop := Forall abs_op (todo l) /\ abs_pc (pcl l).

Definition AInv (f : nat) (c : config) : Prop :=
  cur (cnt (fst c)) <= A /\
  Forall (fun d => d <= A) (sent (fst c) ++ rawd (fst c) ++ lost (fst c)) /\
  Forall alocal (snd c) /\
  (forall u l, nth_error (snd c) u = Some l -> u <> f -> noflush_local l) /\
  (forall u l v, nth_error (snd c) u = Some l -> pcl l = PB3 true v -> last (cnt (fst c)) = v) /\
  (~ W (snd c) -> last (cnt (fst c)) <= cur (cnt (fst c))) /\
  (exists lf, nth_error (snd c) f = Some lf /\
     match pcl lf with
     | PF2 _ sn => last (cnt (fst c)) <= sn /\ sn <= cur (cnt (fst c))
     | PF3 _ d => d <= A
     | _ => True
     end).

Lemma enter_alocal td rs : Forall abs_op td -> alocal (enter td rs).
Proof.
  intros H. destruct td as [|o r]; [split; [constructor|exact I]|].
  inversion H as [|? ? Ho Hr]; subst. destruct o; cbn in Ho; try contradiction; split; cbn; auto.
Qed.
Lemma enter_not_win td rs : ~ is_win (pcl (enter td rs)).
Proof. destruct td as [|[] r]; cbn; auto. Qed.
Lemma enter_not_pf td rs : match pcl (enter td rs) with PF2 _ _ | PF3 _ _ => False | _ => True end.
Proof. destruct td as [|[] r]; exact I. Qed.

(* replacing a thread that is not in the window by one that is not in the window *)
Lemma W_upd_out ls t l l' : nth_error ls t = Some l -> ~ is_win (pcl l) -> ~ is_win (pcl l') ->
  (W (lupd ls t l') <-> W ls).
Proof.
  intros Hn H1 H2. split; intros (u & x & Hu & Hw).
  - apply nth_error_upd_cases in Hu. destruct Hu as [[-> ->]|[Hne Hu]]; [contradiction|]. exists u, x. auto.
  - destruct (Nat.eq_dec u t) as [->|Hne].
    + rewrite Hn in Hu. inversion Hu; subst. contradiction.
    + exists u, x. split; [rewrite nth_error_upd_other by congruence; exact Hu|exact Hw].
Qed.

Lemma win_last_upd (lastv : N) ls t l l' :
  nth_error ls t = Some l ->
  (forall u x v, nth_error ls u = Some x -> pcl x = PB3 true v -> lastv = v) ->
  (forall v, pcl l' = PB3 true v -> lastv = v) ->
  forall u x v, nth_error (lupd ls t l') u = Some x -> pcl x = PB3 true v -> lastv = v.
Proof.
  intros Hn H Hl' u x v Hu Hp. apply nth_error_upd_cases in Hu. destruct Hu as [[-> ->]|[Hne Hu]]; eauto.
Qed.

(* a step that does not touch the counter's last/current, the delta lists, nor any window/flush pc *)
Lemma aframe f s s' ls t l l' :
  AInv f (s, ls) -> nth_error ls t = Some l ->
  last (cnt s') = last (cnt s) -> cur (cnt s') = cur (cnt s) ->
  sent s' = sent s -> rawd s' = rawd s -> lost s' = lost s ->
  ~ is_win (pcl l) -> ~ is_win (pcl l') ->
  match pcl l with PF2 _ _ | PF3 _ _ => False | _ => True end ->
  match pcl l' with PF2 _ _ | PF3 _ _ => False | _ => True end ->
  alocal l' -> (noflush_local l -> noflush_local l') ->
  AInv f (s', lupd ls t l').
Proof.
  intros (I1 & I2 & I3 & I4 & I5 & I6 & (lf & Ef & I7)) Hn El Ec Es Er Elo Hw Hw' Hp Hp' Hal Hnf.
  unfold AInv. cbn [fst snd] in *. rewrite El, Ec, Es, Er, Elo.
  split; [exact I1|]. split; [exact I2|]. split; [apply Forall_upd; assumption|].
  split.
  { intros u x Hu Hne. apply nth_error_upd_cases in Hu. destruct Hu as [[-> ->]|[_ Hu]]; [apply Hnf; eapply I4; eauto|eapply I4; eauto]. }
  split.
  { eapply win_last_upd; eauto. intros v E. rewrite E in Hw'. cbn in Hw'. tauto. }
  split.
  { intros HW. apply I6. intros HW'. apply HW. apply (W_upd_out ls t l l' Hn Hw Hw'). exact HW'. }
  destruct (Nat.eq_dec t f) as [->|Hne].
  - exists l'. split; [eapply nth_error_upd_same; eauto|]. destruct (pcl l'); try contradiction; exact I.
  - exists lf. split; [rewrite nth_error_upd_other by exact Hne; exact Ef|exact I7].
Qed.

Ltac aside Htd Hpc Hent Hnfe :=
  first [ reflexivity | apply enter_not_win | apply enter_not_pf | apply Hent | apply Hnfe
        | (cbn; exact I) | (cbn; tauto)
        | (split; [exact Htd | cbn; first [exact Hpc | exact I]])
        | (intros [?X _]; split; [exact X | exact I]) ].

Lemma step_AInv f s ls t l s' l' :
  AInv f (s, ls) -> nth_error ls t = Some l -> step all_fixed s l = Some (s', l') ->
  ~ hazard ls -> ~ hazard (lupd ls t l') ->
  AInv f (s', lupd ls t l').
Proof.
  intros HI Hnth Hstep Hz Hz'.
  pose proof HI as (I1 & I2 & I3 & I4 & I5 & I6 & (lf & Ef & I7)). cbn [fst snd] in *.
  pose proof (Forall_nth_error _ _ _ _ I3 Hnth) as [Htd Hpc].
  unfold step in Hstep. destruct l as [p td rs]. cbn [pcl todo results] in *.
  assert (Hent : forall rs', alocal (enter td rs')) by (intros; apply enter_alocal; exact Htd).
  assert (Hnfe : forall rs', noflush_local {| pcl := p; todo := td; results := rs |} -> noflush_local (enter td rs'))
    by (intros rs' [X _]; apply enter_noflush; exact X).
  assert (Hupd_same : forall x, nth_error (lupd ls t x) t = Some x) by (intros; eapply nth_error_upd_same; eauto).
  destruct p; cbn in Hpc; try contradiction; cbn in Hstep.
  - (* Start *) inversion Hstep; subst s' l'; clear Hstep.
    eapply aframe; [exact HI|exact Hnth|..]; aside Htd Hpc Hent Hnfe.
  - (* Done *) discriminate.
  - (* PB1 *) destruct (is_abs (cnt s)); inversion Hstep; subst s' l'; clear Hstep;
      (eapply aframe; [exact HI|exact Hnth|..]; aside Htd Hpc Hent Hnfe).
  - (* PB2: last := v, the window opens *)
    inversion Hstep; subst s' l'; clear Hstep.
    assert (Hno : forall u x, nth_error ls u = Some x -> u <> t -> ~ is_win (pcl x)).
    { intros u x Hu Hne Hx. apply Hz'. right. exists t, (goto {| pcl := PB2 v; todo := td; results := rs |} (PB3 true v)), u, x.
      split; [congruence|]. split; [apply Hupd_same|]. split; [rewrite nth_error_upd_other by congruence; exact Hu|]. split; [exact I|exact Hx]. }
    unfold AInv. cbn [fst snd cnt set_cnt b2 last cur sent rawd lost].
    split; [exact I1|]. split; [exact I2|]. split; [apply Forall_upd; [exact I3|split; [exact Htd|exact Hpc]]|].
    split.
    { intros u x Hu Hne. apply nth_error_upd_cases in Hu. destruct Hu as [[-> ->]|[_ Hu]]; [|eapply I4; eauto].
      destruct (I4 t _ Hnth Hne) as [X _]. split; [exact X|exact I]. }
    split.
    { intros u x v0 Hu Hp. apply nth_error_upd_cases in Hu. destruct Hu as [[-> ->]|[Hne Hu]].
      - cbn in Hp. inversion Hp. reflexivity.
      - exfalso. apply (Hno u x Hu Hne). rewrite Hp. exact I. }
    split.
    { intros HW. exfalso. apply HW. exists t. eexists. split; [apply Hupd_same|exact I]. }
    destruct (Nat.eq_dec t f) as [->|Hne].
    + eexists. split; [apply Hupd_same|]. exact I.
    + exists lf. split; [rewrite nth_error_upd_other by exact Hne; exact Ef|].
      destruct (pcl lf) eqn:Ep; auto.
      exfalso. apply Hz'. left. exists f, lf, t. eexists.
      split; [rewrite nth_error_upd_other by exact Hne; exact Ef|]. split; [apply Hupd_same|]. rewrite Ep. split; exact I.
  - (* PB3 *)
    inversion Hstep; subst s' l'; clear Hstep.
    destruct first.
    + (* re-basing store: current := v, the window closes *)
      assert (Hl : last (cnt s) = v) by (apply (I5 t _ v Hnth); reflexivity).
      assert (Hno : forall u x, nth_error ls u = Some x -> u <> t -> ~ is_win (pcl x)).
      { intros u x Hu Hne Hx. apply Hz. right. exists t. eexists. exists u, x.
        split; [congruence|]. split; [exact Hnth|]. split; [exact Hu|]. split; [exact I|exact Hx]. }
      unfold AInv. cbn [fst snd cnt set_cnt b3 last cur sent rawd lost]. rewrite andb_false_r.
      split; [exact Hpc|]. split; [exact I2|]. split; [apply Forall_upd; [exact I3|split; [exact Htd|exact I]]|].
      split.
      { intros u x Hu Hne. apply nth_error_upd_cases in Hu. destruct Hu as [[-> ->]|[_ Hu]]; [|eapply I4; eauto].
        destruct (I4 t _ Hnth Hne) as [X _]. split; [exact X|exact I]. }
      split.
      { intros u x v0 Hu Hp. apply nth_error_upd_cases in Hu. destruct Hu as [[-> ->]|[Hne Hu]]; [discriminate Hp|eauto]. }
      split; [intros _; rewrite Hl; lia|].
      destruct (Nat.eq_dec t f) as [->|Hne].
      * eexists. split; [apply Hupd_same|]. exact I.
      * exists lf. split; [rewrite nth_error_upd_other by exact Hne; exact Ef|].
        destruct (pcl lf) eqn:Ep; auto.
        exfalso. apply Hz. left. exists f, lf, t. eexists. split; [exact Ef|]. split; [exact Hnth|]. rewrite Ep. split; exact I.
    + (* fetch_max of a non-first absolute *)
      unfold AInv. cbn [fst snd cnt set_cnt b3 last cur sent rawd lost fix_absmax all_fixed negb andb].
      split; [lia|]. split; [exact I2|]. split; [apply Forall_upd; [exact I3|split; [exact Htd|exact I]]|].
      split.
      { intros u x Hu Hne. apply nth_error_upd_cases in Hu. destruct Hu as [[-> ->]|[_ Hu]]; [|eapply I4; eauto].
        destruct (I4 t _ Hnth Hne) as [X _]. split; [exact X|exact I]. }
      split.
      { eapply (win_last_upd (last (cnt s))); eauto. intros v0 E. discriminate E. }
      split.
      { intros HW. assert (last (cnt s) <= cur (cnt s)).
        { apply I6. intros HW'. apply HW. apply (W_upd_out ls t _ _ Hnth); cbn; auto. }
        lia. }
      destruct (Nat.eq_dec t f) as [->|Hne].
      * eexists. split; [apply Hupd_same|]. exact I.
      * exists lf. split; [rewrite nth_error_upd_other by exact Hne; exact Ef|].
        destruct (pcl lf); auto. lia.
  - (* PB4 *) inversion Hstep; subst s' l'; clear Hstep.
    eapply aframe; [exact HI|exact Hnth|..]; aside Htd Hpc Hent Hnfe.
  - (* PG1 *) inversion Hstep; subst s' l'; clear Hstep.
    eapply aframe; [exact HI|exact Hnth|..]; aside Htd Hpc Hent Hnfe.
  - (* PG2 *) inversion Hstep; subst s' l'; clear Hstep.
    eapply aframe; [exact HI|exact Hnth|..]; aside Htd Hpc Hent Hnfe.
  - (* PF1: load current; no window may be open *)
    inversion Hstep; subst s' l'; clear Hstep.
    destruct (Nat.eq_dec t f) as [->|Hne]; [|exfalso; destruct (I4 _ _ Hnth Hne) as [_ X]; exact X].
    assert (HnW : ~ W ls).
    { intros (u & x & Hu & Hx). apply Hz'. left. exists f. eexists. exists u, x.
      split; [apply Hupd_same|]. split; [|split; [exact I|exact Hx]].
      destruct (Nat.eq_dec u f) as [->|Hn]; [rewrite Hnth in Hu; inversion Hu; subst; contradiction|].
      rewrite nth_error_upd_other by congruence. exact Hu. }
    unfold AInv. cbn [fst snd cnt last cur sent rawd lost].
    split; [exact I1|]. split; [exact I2|]. split; [apply Forall_upd; [exact I3|split; [exact Htd|exact I]]|].
    split.
    { intros u x Hu Hne. apply nth_error_upd_cases in Hu. destruct Hu as [[-> ->]|[_ Hu]]; [congruence|eapply I4; eauto]. }
    split.
    { eapply (win_last_upd (last (cnt s))); eauto. intros v0 E. discriminate E. }
    split.
    { intros _. apply I6. exact HnW. }
    eexists. split; [apply Hupd_same|]. cbn. split; [apply I6; exact HnW|lia].
  - (* PF2: swap last *)
    inversion Hstep; subst s' l'; clear Hstep.
    destruct (Nat.eq_dec t f) as [->|Hne]; [|exfalso; destruct (I4 _ _ Hnth Hne) as [_ X]; exact X].
    rewrite Hnth in Ef. inversion Ef; subst lf. cbn [pcl] in I7. destruct I7 as [L1 L2].
    assert (HnW : ~ W ls).
    { intros (u & x & Hu & Hx). apply Hz. left. exists f. eexists. exists u, x.
      split; [exact Hnth|]. split; [exact Hu|]. split; [exact I|exact Hx]. }
    unfold AInv. cbn [fst snd cnt set_cnt f2 last cur sent rawd lost].
    split; [exact I1|]. split; [exact I2|]. split; [apply Forall_upd; [exact I3|split; [exact Htd|exact I]]|].
    split.
    { intros u x Hu Hne. apply nth_error_upd_cases in Hu. destruct Hu as [[-> ->]|[_ Hu]]; [congruence|eapply I4; eauto]. }
    split.
    { intros u x v0 Hu Hp. exfalso. apply nth_error_upd_cases in Hu. destruct Hu as [[-> ->]|[Hne Hu]]; [discriminate Hp|].
      apply HnW. exists u, x. split; [exact Hu|]. rewrite Hp. exact I. }
    split; [intros _; exact L2|].
    eexists. split; [apply Hupd_same|]. cbn.
    unfold sub64, two64 in *. lia.
  - (* PF3 *)
    destruct (Nat.eq_dec t f) as [->|Hne]; [|exfalso; destruct (I4 _ _ Hnth Hne) as [_ X]; exact X].
    rewrite Hnth in Ef. inversion Ef; subst lf. cbn [pcl] in I7.
    assert (Hlists : forall o : option N, (forall x, o = Some x -> x = d) ->
              Forall (fun x => x <= A) (match o with Some x => x :: sent s | None => sent s end ++ rawd s ++
                                        match o with Some _ => lost s | None => d :: lost s end)).
    { intros o Ho. apply Forall_app in I2. destruct I2 as [Q1 Q2]. apply Forall_app in Q2. destruct Q2 as [Q2 Q3].
      apply Forall_app. split; [destruct o as [x|]; [constructor; [rewrite (Ho x eq_refl); exact I7|exact Q1]|exact Q1]|].
      apply Forall_app. split; [exact Q2|]. destruct o; [exact Q3|constructor; assumption]. }
    destruct st.
    + destruct (decide all_fixed (idle s) d (upd (cnt s))) as [i' o] eqn:Ed. inversion Hstep; subst s' l'; clear Hstep.
      assert (Ho : forall x, o = Some x -> x = d).
      { intros x ->. unfold decide in Ed. destruct (_ && _), (idle s); inversion Ed; auto. }
      unfold AInv. cbn [fst snd cnt f3 last cur sent rawd lost].
      split; [exact I1|]. split; [apply Hlists; exact Ho|]. split; [apply Forall_upd; [exact I3|split; [exact Htd|exact I]]|].
      split.
      { intros u x Hu Hne. apply nth_error_upd_cases in Hu. destruct Hu as [[-> ->]|[_ Hu]]; [congruence|eapply I4; eauto]. }
      split.
      { eapply (win_last_upd (last (cnt s))); eauto. intros v0 E. discriminate E. }
      split.
      { intros HW. apply I6. intros HW'. apply HW. apply (W_upd_out ls f _ _ Hnth); cbn; auto. }
      eexists. split; [apply Hupd_same|]. exact I.
    + inversion Hstep; subst s' l'; clear Hstep.
      unfold AInv. cbn [fst snd cnt f3 last cur sent rawd lost].
      split; [exact I1|].
      split.
      { apply Forall_app in I2. destruct I2 as [Q1 Q2]. apply Forall_app in Q2. destruct Q2 as [Q2 Q3].
        apply Forall_app. split; [exact Q1|]. apply Forall_app. split; [constructor; assumption|exact Q3]. }
      split; [apply Forall_upd; [exact I3|apply Hent]|].
      split.
      { intros u x Hu Hne. apply nth_error_upd_cases in Hu. destruct Hu as [[-> ->]|[_ Hu]]; [congruence|eapply I4; eauto]. }
      split.
      { eapply (win_last_upd (last (cnt s))); eauto. intros v0 E. exfalso. apply (enter_not_win td (RCnt d (upd (cnt s)) :: rs)). rewrite E. exact I. }
      split.
      { intros HW. apply I6. intros HW'. apply HW. apply (W_upd_out ls f _ _ Hnth); cbn; auto. apply enter_not_win. }
      eexists. split; [apply Hupd_same|].
      pose proof (enter_not_pf td (RCnt d (upd (cnt s)) :: rs)) as X. destruct (pcl (enter td (RCnt d (upd (cnt s)) :: rs))); try contradiction; exact I.
  - (* PH1 *) inversion Hstep; subst s' l'; clear Hstep.
    eapply aframe; [exact HI|exact Hnth|..]; aside Htd Hpc Hent Hnfe.
  - (* PH2 *) inversion Hstep; subst s' l'; clear Hstep.
    eapply aframe; [exact HI|exact Hnth|..]; aside Htd Hpc Hent Hnfe.
Qed.

(* a schedule none of whose configurations is hazardous *)
Fixpoint safe (c : config) (sched : list nat) : Prop :=
  ~ hazard (snd c) /\
  match sched with
  | [] => True
  | t :: r => safe (fst (step_thread (step all_fixed) site c t)) r
  end.

Lemma AInv_safe f : forall sched c, AInv f c -> safe c sched -> AInv f (fst (exec (step all_fixed) site c sched)).
Proof.
  induction sched as [|t r IH]; intros c HI Hs; [exact HI|].
  cbn [exec]. destruct Hs as [Hz Hs].
  destruct (step_thread (step all_fixed) site c t) as [c1 e] eqn:E1. cbn [fst] in Hs.
  assert (H1 : AInv f c1).
  { unfold step_thread in E1. destruct c as [s ls]. cbn [fst snd] in *.
    destruct (nth_error ls t) as [l|] eqn:En; [|inversion E1; subst; exact HI].
    destruct (step all_fixed s l) as [[s' l']|] eqn:Es; inversion E1; subst; [|exact HI].
    eapply step_AInv; eauto. destruct r; cbn in Hs; tauto. }
  specialize (IH c1 H1 Hs). destruct (exec (step all_fixed) site c1 r) as [c2 es]. exact IH.
Qed.

Definition abs_prog (p : list uop) : Prop := Forall abs_op p.

Lemma AInv_init f ps : Forall abs_prog ps -> one_flusher f ps -> AInv f (init_config ps).
Proof.
  intros Hp [Hlt Hof]. unfold AInv, init_config. cbn [fst snd init_shared cnt cell0 cur last sent rawd lost app].
  split; [lia|]. split; [constructor|]. split.
  { clear Hlt Hof. induction Hp; cbn; constructor; auto. split; [assumption|exact I]. }
  split.
  { intros u l Hu Hne. rewrite nth_error_map in Hu. destruct (nth_error ps u) as [p|] eqn:E; [|discriminate].
    inversion Hu; subst. split; [exact (Hof u p E Hne)|exact I]. }
  split.
  { intros u l v Hu Hpc. rewrite nth_error_map in Hu. destruct (nth_error ps u); [|discriminate]. inversion Hu; subst. discriminate Hpc. }
  split; [intros _; lia|].
  destruct (nth_error ps f) as [p|] eqn:E; [|apply nth_error_None in E; lia].
  exists (init_local p). split; [rewrite nth_error_map, E; reflexivity|exact I].
Qed.

Theorem absolute_no_wrap_hazard_free f ps sched :
  Forall abs_prog ps -> one_flusher f ps -> safe (init_config ps) sched ->
  let c := fst (exec (step all_fixed) site (init_config ps) sched) in
  Forall (fun d => d <= A) (sent (fst c) ++ rawd (fst c) ++ lost (fst c)) /\
  cur (cnt (fst c)) <= A /\
  (~ W (snd c) -> last (cnt (fst c)) <= cur (cnt (fst c))) /\
  (forall u l v, nth_error (snd c) u = Some l -> pcl l = PB3 true v -> last (cnt (fst c)) = v).
Proof.
  intros Hp Hof Hs c.
  pose proof (AInv_safe f sched _ (AInv_init f ps Hp Hof) Hs) as (I1 & I2 & _ & _ & I5 & I6 & _). fold c in I1, I2, I5, I6.
  auto.
Qed.
End Abs.
