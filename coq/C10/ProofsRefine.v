(* C10 — refinement of the window-based reference semantics (Spec.v) by the per-key counter
   machine (Model.v, fixed code): for every sequential history of one counter key the walker
   [counter_ok] accepts the model's outputs. *)
From Coq Require Import List NArith ZArith Bool Lia.
Import ListNotations.
Require Import MV.C10.Model MV.C10.Spec.
Open Scope N_scope.

Ltac Zify.zify_post_hook ::= Z.to_euclidean_division_equations.

Definition cev_wf (e : cev) : Prop := match e with CInc v | CAbs v => v < two64 | _ => True end.
Definition incs (es : list cev) : N := fold_right (fun e a => match e with CInc v => a + v | _ => a end) 0 es.
Definition amax (es : list cev) : N := fold_right (fun e a => match e with CAbs v => N.max a v | _ => a end) 0 es.

Lemma total_bound_eq es : total_bound es = incs es + amax es.
Proof. reflexivity. Qed.

Definition phase_rel (ph : phase) (up : N) (idl rg : bool) : Prop :=
  match ph with
  | Active => up <> 0 /\ rg = true
  | Owed => up = 0 /\ idl = false /\ rg = true
  | Quiet => up = 0 /\ ((rg = true /\ idl = true) \/ (rg = false /\ idl = false))
  end.

Definition abs_rel (ia : bool) (la cu : N) (ba mx : option N) : Prop :=
  match mx with
  | None => ia = false /\ cu = 0 /\ la = 0 /\ ba = None
  | Some m => ia = true /\ cu = m /\ ba = Some la /\ la <= m
  end.

(* model state (cell fields, idle, registered) vs reference state, given the flags and the rest of the history *)
Definition Rel (io ao : bool) (bound : N) (ia : bool) (la cu up : N) (idl rg : bool) (r : cref) (rest : list cev) : Prop :=
  rg = r_reg r /\ phase_rel (r_phase r) up idl rg /\
  (up = 0 -> cu = la) /\ cu < two64 /\ la < two64 /\
  (io = true -> sub64 cu la = r_sum r) /\
  (ao = true -> abs_rel ia la cu (r_base r) (r_max r)) /\
  (bound < two64 -> la <= cu /\ N.max cu (amax rest) + incs rest <= bound).

Lemma sub64_add cu la v : cu < two64 -> la < two64 -> v < two64 ->
  sub64 (add64 cu v) la = (sub64 cu la + v) mod two64.
Proof. unfold sub64, add64, two64. intros. lia. Qed.
Lemma sub64_self a : sub64 a a = 0.
Proof. unfold sub64, two64. lia. Qed.
Lemma sub64_exact a b : b <= a -> a < two64 -> sub64 a b = a - b.
Proof. unfold sub64, two64. intros. lia. Qed.
Lemma add64_lt a b : add64 a b < two64.
Proof. unfold add64. apply N.mod_lt. discriminate. Qed.
Lemma add64_small a b : a + b < two64 -> add64 a b = a + b.
Proof. unfold add64. intros. apply N.mod_small. assumption. Qed.

Definition mk (ia : bool) (la cu up : N) (idl rg : bool) : cst :=
  {| c_cell := {| is_abs := ia; last := la; cur := cu; upd := up |}; c_idle := idl; c_reg := rg |}.

Lemma cst_eta st : st = mk (is_abs (c_cell st)) (last (c_cell st)) (cur (c_cell st)) (upd (c_cell st)) (c_idle st) (c_reg st).
Proof. destruct st as [[? ? ? ?] ? ?]. reflexivity. Qed.

Lemma decide_fixed idl d u :
  decide all_fixed idl d u =
  if (u =? 0) && (d =? 0) then (if idl then (true, None) else (true, Some d)) else (false, Some d).
Proof. reflexivity. Qed.

Theorem counter_refines io ao bound : forall es ia la cu up idl rg r,
  Rel io ao bound ia la cu up idl rg r es ->
  Forall cev_wf es ->
  (io = true -> has_abs es = false) -> (ao = true -> has_inc es = false) ->
  cref_walk io ao bound r es (map (option_map fst) (crun all_fixed (mk ia la cu up idl rg) es)) = true.
Proof.
  induction es as [|e rest IH]; intros ia la cu up idl rg r HR Hwf Hio Hao; [reflexivity|].
  inversion Hwf as [|? ? He Hwf']; subst.
  destruct HR as (Rrg & Rph & Ru & Rcu & Rla & Rio & Rao & Rb).
  destruct r as [rr ph su ba mx]. cbn [r_reg r_phase r_sum r_base r_max] in *.
  destruct e as [|v|v|].
  - (* CReg *)
    cbn [crun cstep app cref_walk r_reg r_phase r_sum r_base r_max c_cell c_idle c_reg mk].
    apply (IH ia la cu up idl true); auto.
    unfold Rel. cbn [r_reg r_phase r_sum r_base r_max].
    split; [reflexivity|]. split.
    { destruct rr; subst rg.
      - destruct ph; cbn in *; tauto.
      - destruct ph; cbn in *; intuition congruence. }
    repeat split; auto; try (apply Rb; assumption).
  - (* CInc *)
    assert (Hna : ao = false).
    { destruct ao; [specialize (Hao eq_refl); cbn in Hao; discriminate|reflexivity]. }
    cbn in He.
    cbn [crun cstep app cref_walk r_reg r_phase r_sum r_base r_max c_cell c_idle c_reg mk].
    unfold seq_inc, a1, a2, a3. cbn [is_abs last cur upd].
    apply (IH false la (add64 cu v) (up + 1) idl true);
      [|exact Hwf'|intros E; specialize (Hio E); cbn in Hio; exact Hio|intros E; rewrite Hna in E; discriminate].
    unfold Rel. cbn [r_reg r_phase r_sum r_base r_max].
      split; [reflexivity|]. split; [cbn; split; [lia|reflexivity]|].
      split; [lia|]. split; [apply add64_lt|]. split; [exact Rla|].
      split; [intros E; rewrite <- (Rio E); apply sub64_add; assumption|].
      split; [rewrite Hna; discriminate|].
      intros Hb. destruct (Rb Hb) as [B1 B2]. cbn [amax incs fold_right] in B2.
      fold (amax rest) in B2. fold (incs rest) in B2.
      rewrite add64_small by lia. split; lia.
  - (* CAbs *)
    assert (Hni : io = false).
    { destruct io; [specialize (Hio eq_refl); cbn in Hio; discriminate|reflexivity]. }
    cbn in He.
    cbn [crun cstep app cref_walk r_reg r_phase r_sum r_base r_max c_cell c_idle c_reg mk].
    unfold seq_abs, b1. cbn [is_abs].
    destruct ia.
    + (* already absolute: fetch_max *)
      unfold b3, a3. cbn [is_abs last cur upd fix_absmax all_fixed negb andb].
      apply (IH true la (N.max cu v) (up + 1) idl true);
        [|exact Hwf'|intros E; rewrite Hni in E; discriminate|intros E; specialize (Hao E); cbn in Hao; exact Hao].
      unfold Rel. cbn [r_reg r_phase r_sum r_base r_max].
        split; [reflexivity|]. split; [cbn; split; [lia|reflexivity]|].
        split; [lia|]. split; [lia|]. split; [exact Rla|].
        split; [rewrite Hni; discriminate|].
        split.
        { intros E. specialize (Rao E). unfold abs_rel in *. destruct mx as [m|].
          - destruct Rao as (_ & -> & -> & Hle). cbn. repeat split; auto. lia.
          - destruct Rao as (X & _). discriminate. }
        intros Hb. destruct (Rb Hb) as [B1 B2]. cbn [amax incs fold_right] in B2.
        fold (amax rest) in B2. fold (incs rest) in B2. split; lia.
    + (* re-basing absolute *)
      unfold b2, b3, a3. cbn [is_abs last cur upd fix_absmax all_fixed negb andb].
      apply (IH true v v (up + 1) idl true);
        [|exact Hwf'|intros E; rewrite Hni in E; discriminate|intros E; specialize (Hao E); cbn in Hao; exact Hao].
      unfold Rel. cbn [r_reg r_phase r_sum r_base r_max].
        split; [reflexivity|]. split; [cbn; split; [lia|reflexivity]|].
        split; [reflexivity|]. split; [exact He|]. split; [exact He|].
        split; [rewrite Hni; discriminate|].
        split.
        { intros E. specialize (Rao E). unfold abs_rel in *. destruct mx as [m|].
          - destruct Rao as (X & _). discriminate.
          - destruct Rao as (_ & _ & _ & ->). cbn. repeat split; auto. lia. }
        intros Hb. destruct (Rb Hb) as [B1 B2]. cbn [amax incs fold_right] in B2.
        fold (amax rest) in B2. fold (incs rest) in B2. split; lia.
  - (* CFlush *)
    cbn [crun cstep c_reg mk].
    assert (Hrest_io : io = true -> has_abs rest = false) by (intros E; specialize (Hio E); cbn in Hio; exact Hio).
    assert (Hrest_ao : ao = true -> has_inc rest = false) by (intros E; specialize (Hao E); cbn in Hao; exact Hao).
    assert (Hb' : bound < two64 -> N.max cu (amax rest) + incs rest <= bound).
    { intros Hb. destruct (Rb Hb) as [_ B2]. exact B2. }
    destruct rg.
    + (* registered *)
      unfold seq_cflush, f2, f3. cbn [c_cell c_idle is_abs last cur upd mk].
      rewrite decide_fixed.
      destruct (up =? 0) eqn:Eu.
      * (* no update in the window *)
        apply N.eqb_eq in Eu. subst up. specialize (Ru eq_refl). subst la.
        rewrite sub64_self. cbn [N.eqb andb].
        assert (Hsu : io = true -> su = 0) by (intros E; rewrite <- (Rio E); apply sub64_self).
        assert (Hod : ao = true -> odiff mx ba = 0).
        { intros E. specialize (Rao E). unfold abs_rel in Rao. destruct mx as [m|].
          - destruct Rao as (_ & -> & -> & _). cbn. lia.
          - reflexivity. }
        destruct ph; cbn in Rph.
        -- (* Quiet: idle *)
           destruct Rph as [_ [[_ ->]|[X _]]]; [|discriminate]. subst rr.
           cbn [app map option_map cref_walk r_reg r_phase r_sum r_base r_max andb negb].
           apply (IH ia cu cu 0 true true); auto.
           unfold Rel. cbn [r_reg r_phase r_sum r_base r_max].
           split; [reflexivity|]. split; [cbn; auto|]. split; [auto|]. split; [exact Rcu|]. split; [exact Rcu|].
           split; [intros; apply sub64_self|].
           split.
           { intros E. specialize (Rao E). unfold abs_rel in *. destruct mx as [m|]; [|destruct Rao as (A1 & A2 & A3 & A4); subst; repeat split; auto].
             destruct Rao as (A1 & A2 & A3 & A4). subst. repeat split; auto; lia. }
           intros Hb. split; [lia|auto].
        -- (* Owed: send the closing zero *)
           destruct Rph as (_ & -> & _). subst rr.
           cbn [app map option_map fst cref_walk r_reg r_phase r_sum r_base r_max andb negb].
           assert (C1 : (if io then 0 =? su else true) = true) by (destruct io; auto; rewrite (Hsu eq_refl); reflexivity).
           assert (C2 : (if ao then 0 =? odiff mx ba else true) = true) by (destruct ao; auto; rewrite (Hod eq_refl); reflexivity).
           assert (C3 : (if bound <? two64 then 0 <=? bound else true) = true) by (destruct (bound <? two64); [apply N.leb_le; lia|reflexivity]).
           rewrite C1, C2, C3. cbn [andb].
           apply (IH ia cu cu 0 true true); auto.
           unfold Rel. cbn [r_reg r_phase r_sum r_base r_max].
           split; [reflexivity|]. split; [cbn; auto|]. split; [auto|]. split; [exact Rcu|]. split; [exact Rcu|].
           split; [intros; apply sub64_self|].
           split.
           { intros E. specialize (Rao E). unfold abs_rel in *. destruct mx as [m|]; [|destruct Rao as (A1 & A2 & A3 & A4); subst; repeat split; auto].
             destruct Rao as (A1 & A2 & A3 & A4). subst. repeat split; auto; lia. }
           intros Hb. split; [lia|auto].
        -- destruct Rph as [X _]. congruence.
      * (* updated in the window *)
        apply N.eqb_neq in Eu. cbn [andb].
        destruct ph; cbn in Rph; try (destruct Rph as [X _]; congruence).
        destruct Rph as [_ _]. subst rr.
        cbn [app map option_map fst cref_walk r_reg r_phase r_sum r_base r_max andb negb].
        assert (C1 : (if io then sub64 cu la =? su else true) = true)
          by (destruct io; auto; rewrite (Rio eq_refl); apply N.eqb_refl).
        assert (C2 : (if ao then sub64 cu la =? odiff mx ba else true) = true).
        { destruct ao; auto. specialize (Rao eq_refl). unfold abs_rel in Rao. destruct mx as [m|].
          - destruct Rao as (_ & -> & -> & Hle). cbn. rewrite sub64_exact by assumption. apply N.eqb_refl.
          - destruct Rao as (_ & -> & -> & _). rewrite sub64_self. reflexivity. }
        assert (C3 : (if bound <? two64 then sub64 cu la <=? bound else true) = true).
        { destruct (bound <? two64) eqn:Eb; auto. apply N.ltb_lt in Eb. destruct (Rb Eb) as [B1 B2].
          rewrite sub64_exact by assumption. apply N.leb_le. lia. }
        rewrite C1, C2, C3. cbn [andb].
        apply (IH ia cu cu 0 false true); auto.
        unfold Rel. cbn [r_reg r_phase r_sum r_base r_max].
        split; [reflexivity|]. split; [cbn; auto|]. split; [auto|]. split; [exact Rcu|]. split; [exact Rcu|].
        split; [intros; apply sub64_self|].
        split.
        { intros E. specialize (Rao E). unfold abs_rel in *. destruct mx as [m|]; [|destruct Rao as (A1 & A2 & A3 & A4); subst; repeat split; auto].
          destruct Rao as (A1 & A2 & A3 & A4). subst. repeat split; auto; lia. }
        intros Hb. split; [lia|auto].
    + (* not registered *)
      subst rr. cbn [app map option_map cref_walk r_reg r_phase r_sum r_base r_max andb negb].
      destruct ph; cbn in Rph; try (exfalso; intuition congruence).
      destruct Rph as [Hu [[X _]|[_ ->]]]; [discriminate|]. subst up. specialize (Ru eq_refl). subst la.
      apply (IH ia cu cu 0 false false); auto.
      unfold Rel. cbn [r_reg r_phase r_sum r_base r_max].
      split; [reflexivity|]. split; [cbn; auto|]. split; [auto|]. split; [exact Rcu|]. split; [exact Rcu|].
      split; [intros; apply sub64_self|].
      split.
      { intros E. specialize (Rao E). unfold abs_rel in *. destruct mx as [m|]; [|destruct Rao as (A1 & A2 & A3 & A4); subst; repeat split; auto].
        destruct Rao as (A1 & A2 & A3 & A4). subst. repeat split; auto; lia. }
      intros Hb. split; [lia|auto].
Qed.

Theorem counter_ok_on_model es : Forall cev_wf es ->
  counter_ok es (map (option_map fst) (crun all_fixed cst0 es)) = true.
Proof.
  intros Hwf. unfold counter_ok. change cst0 with (mk false 0 0 0 false false).
  apply counter_refines; auto.
  - unfold Rel, cref0. cbn [r_reg r_phase r_sum r_base r_max].
    split; [reflexivity|]. split; [cbn; auto|]. split; [auto|]. split; [reflexivity|]. split; [reflexivity|].
    split; [intros; reflexivity|]. split; [intros; cbn; auto|].
    intros Hb. split; [lia|]. rewrite total_bound_eq. rewrite N.max_0_l. lia.
  - intros E. apply negb_true_iff in E. exact E.
  - intros E. apply negb_true_iff in E. exact E.
Qed.

(* ------------------------------------------------------------------ histogram walker on the model *)
From Coq Require Import Permutation.
Require Import MV.C10.ProofsSeq.

Lemma insert_comm x y : forall l, insert_z x (insert_z y l) = insert_z y (insert_z x l).
Proof.
  induction l as [|a r IH]; cbn.
  - destruct (x <=? y)%Z eqn:E1, (y <=? x)%Z eqn:E2; try reflexivity.
    + apply Z.leb_le in E1, E2. assert (x = y) by lia. subst. reflexivity.
    + apply Z.leb_gt in E1, E2. lia.
  - destruct (y <=? a)%Z eqn:Eya, (x <=? a)%Z eqn:Exa; cbn.
    + destruct (x <=? y)%Z eqn:E1, (y <=? x)%Z eqn:E2; cbn; rewrite ?Eya, ?Exa; try reflexivity.
      * apply Z.leb_le in E1, E2. assert (x = y) by lia. subst. reflexivity.
      * apply Z.leb_gt in E1, E2. lia.
    + destruct (x <=? y)%Z eqn:E1; cbn; rewrite ?Eya, ?Exa; try reflexivity.
      apply Z.leb_le in E1, Eya. apply Z.leb_gt in Exa. lia.
    + destruct (y <=? x)%Z eqn:E2; cbn; rewrite ?Eya, ?Exa; try reflexivity.
      apply Z.leb_le in E2, Exa. apply Z.leb_gt in Eya. lia.
    + rewrite Eya, Exa. f_equal. apply IH.
Qed.

Lemma sort_perm a b : Permutation a b -> sort_z a = sort_z b.
Proof.
  induction 1.
  - reflexivity.
  - unfold sort_z in *. cbn [fold_right]. rewrite IHPermutation. reflexivity.
  - unfold sort_z. cbn [fold_right]. apply insert_comm.
  - congruence.
Qed.

Lemma zlist_eqb_refl l : zlist_eqb l l = true.
Proof. induction l; cbn; auto. rewrite Z.eqb_refl. exact IHl. Qed.

(* sampling on: no window exceeds the reservoir (beyond that the reservoir replaces at random: C16) *)
Fixpoint hwin_ok (rsv : N) (n : nat) (es : list hev) : bool :=
  match es with
  | [] => true
  | HReg :: r => hwin_ok rsv n r
  | HRec _ :: r => hwin_ok rsv (S n) r
  | HFlush :: r => (N.of_nat n <=? rsv) && hwin_ok rsv 0 r
  end.

Lemma histogram_refines samp rsv : forall es st win,
  Permutation win (h_bag st) ->
  (samp = true -> hwin_ok rsv (length win) es = true) ->
  href_walk samp rsv win es (map (fun bl => sort_z (concat bl)) (hrun samp st es)) = true.
Proof.
  induction es as [|e r IH]; intros st win Hp Hw; [reflexivity|].
  destruct e; cbn [hrun hstep app map href_walk].
  - apply (IH {| h_bag := h_bag st; h_reg := true |}); auto.
  - apply (IH {| h_bag := h_bag st ++ [z]; h_reg := true |}).
    + cbn [h_bag]. eapply Permutation_trans; [|apply Permutation_cons_append]. constructor. exact Hp.
    + intros E. specialize (Hw E). exact Hw.
  - assert (Hc : (samp && (rsv <? N.of_nat (length win))) = false).
    { destruct samp; [|reflexivity]. specialize (Hw eq_refl). cbn in Hw. apply andb_true_iff in Hw.
      destruct Hw as [Hw _]. apply N.leb_le in Hw. cbn. apply N.ltb_ge. exact Hw. }
    rewrite Hc.
    assert (Es : sort_z (concat (blocks_of samp (h_bag st))) = sort_z win).
    { apply sort_perm. eapply Permutation_trans; [apply blocks_perm|]. apply Permutation_sym. exact Hp. }
    rewrite Es, zlist_eqb_refl. cbn [andb].
    apply (IH {| h_bag := []; h_reg := h_reg st |}); [constructor|].
    intros E. specialize (Hw E). cbn in Hw. apply andb_true_iff in Hw. tauto.
Qed.

Theorem histogram_ok_on_model samp rsv es :
  (samp = true -> hwin_ok rsv 0 es = true) ->
  histogram_ok samp rsv es (map (fun bl => sort_z (concat bl)) (hrun samp hst0 es)) = true.
Proof. intros H. apply histogram_refines; [constructor|exact H]. Qed.
