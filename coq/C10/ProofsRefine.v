(* C10 — refinement of the window-based reference semantics (Spec.v) by the per-key counter
   machine (Model.v, fixed code): for every sequential history of one counter key the walker
   [counter_ok] accepts the model's outputs. *)
From Coq Require Import List NArith ZArith Bool Lia.
Import ListNotations.
Require Import MV.C10.Model MV.C10.Spec.
Open Scope N_scope.

Ltac Zify.zify_post_hook ::= Z.to_euclidean_division_equations.

Definition cev_wf (e : cev) : Prop := match e with CInc v | CAbs v => v < two64 | _ => True end.
Definition incs (es : list cev) : N := fold_right (fun e a => match e with CInc v => a + v | _ => a end) 0 es.
Definition amax (es : list cev) : N := fold_right (fun e a => match e with CAbs v => N.max a v | _ => a end) 0 es.

Lemma total_bound_eq es : total_bound es = incs es + amax es.
Proof. reflexivity. Qed.

Definition phase_rel (ph : phase) (up : N) (idl rg : bool) : Prop :=
  match ph with
  | Active => up <> 0 /\ rg = true
  | Owed => up = 0 /\ idl = false /\ rg = true
  | Quiet => up = 0 /\ ((rg = true /\ idl = true) \/ (rg = false /\ idl = false))
  end.

Definition abs_rel (ia : bool) (la cu : N) (ba mx : option N) : Prop :=
  match mx with
  | None => ia = false /\ cu = 0 /\ la = 0 /\ ba = None
  | Some m => ia = true /\ cu = m /\ ba = Some la /\ la <= m
  end.

(* model state (cell fields, idle, registered) vs reference state, given the flags and the rest of the history *)
Definition Rel (io ao : bool) (bound : N) (ia : bool) (la cu up : N) (idl rg : bool) (r : cref) (rest : list cev) : Prop :=
  rg = r_reg r /\ phase_rel (r_phase r) up idl rg /\
  (up = 0 -> cu = la) /\ cu < two64 /\ la < two64 /\
  (io = true -> sub64 cu la = r_sum r) /\
  (ao = true -> abs_rel ia la cu (r_base r) (r_max r)) /\
  (bound < two64 -> la <= cu /\ N.max cu (amax rest) + incs rest <= bound).

Lemma sub64_add cu la v : cu < two64 -> la < two64 -> v < two64 ->
  sub64 (add64 cu v) la = (sub64 cu la + v) mod two64.
Proof. unfold sub64, add64, two64. intros. lia. Qed.
Lemma sub64_self a : sub64 a a = 0.
Proof. unfold sub64, two64. lia. Qed.
Lemma sub64_exact a b : b <= a -> a < two64 -> sub64 a b = a - b.
Proof. unfold sub64, two64. intros. lia. Qed.
Lemma add64_lt a b : add64 a b < two64.
Proof. unfold add64. apply N.mod_lt. discriminate. Qed.
Lemma add64_small a b : a + b < two64 -> add64 a b = a + b.
Proof. unfold add64. intros. apply N.mod_small. assumption. Qed.

Definition mk (ia : bool) (la cu up : N) (idl rg : bool) : cst :=
  {| c_cell := {| is_abs := ia; last := la; cur := cu; upd := up |}; c_idle := idl; c_reg := rg |}.

Lemma cst_eta st : st = mk (is_abs (c_cell st)) (last (c_cell st)) (cur (c_cell st)) (upd (c_cell st)) (c_idle st) (c_reg st).
Proof. destruct st as [[? ? ? ?] ? ?]. reflexivity. Qed.

Lemma decide_fixed idl d u :
  decide all_fixed idl d u =
  if (u =? 0) && (d =? 0) then (if idl then (true, None) else (true, Some d)) else (false, Some d).
Proof. reflexivity. Qed.

Theorem counter_refines io ao bound : forall es ia la cu up idl rg r,
  Rel io ao bound ia la cu up idl rg r es ->
  Forall cev_wf es ->
  (io = true -> has_abs es = false) -> (ao = true -> has_inc es = false) ->
  cref_walk io ao bound r es (map (option_map fst) (crun all_fixed (mk ia la cu up idl rg) es)) = true.
Proof.
  induction es as [|e rest IH]; intros ia la cu up idl rg r HR Hwf Hio Hao; [reflexivity|].
  inversion Hwf as [|? ? He Hwf']; subst.
  destruct HR as (Rrg & Rph & Ru & Rcu & Rla & Rio & Rao & Rb).
  destruct r as [rr ph su ba mx]. cbn [r_reg r_phase r_sum r_base r_max] in *.
  destruct e as [|v|v|].
  - (* CReg *)
    cbn [crun cstep app cref_walk r_reg r_phase r_sum r_base r_max c_cell c_idle c_reg mk].
    apply (IH ia la cu up idl true); auto.
    unfold Rel. cbn [r_reg r_phase r_sum r_base r_max].
    split; [reflexivity|]. split.
    { destruct rr; subst rg.
      - destruct ph; cbn in *; tauto.
      - destruct ph; cbn in *; try (destruct Rph as [? ?]; congruence).
        destruct Rph as [U [[X _]|[_ Y]]]; [discriminate|]. auto. }
    repeat split; auto; try (apply Rb; assumption).
  - (* CInc *)
    assert (Hna : ao = false).
    { destruct ao; auto. specialize (Hao eq_refl). cbn in Hao. discriminate. }
    cbn in He.
    cbn [crun cstep app cref_walk r_reg r_phase r_sum r_base r_max c_cell c_idle c_reg mk].
    unfold seq_inc, a1, a2, a3. cbn [is_abs last cur upd].
    apply (IH false la (add64 cu v) (up + 1) idl true); auto.
    + unfold Rel. cbn [r_reg r_phase r_sum r_base r_max].
      split; [reflexivity|]. split; [cbn; split; [lia|reflexivity]|].
      split; [lia|]. split; [apply add64_lt|]. split; [exact Rla|].
      split; [intros E; rewrite <- (Rio E); apply sub64_add; assumption|].
      split; [rewrite Hna; discriminate|].
      intros Hb. destruct (Rb Hb) as [B1 B2]. cbn [amax incs fold_right] in B2.
      fold (amax rest) in B2. fold (incs rest) in B2.
      rewrite add64_small by lia. split; lia.
    + intros E. specialize (Hio E). cbn in Hio. exact Hio.
  - (* CAbs *)
    assert (Hni : io = false).
    { destruct io; auto. specialize (Hio eq_refl). cbn in Hio. discriminate. }
    cbn in He.
    cbn [crun cstep app cref_walk r_reg r_phase r_sum r_base r_max c_cell c_idle c_reg mk].
    unfold seq_abs, b1. cbn [is_abs].
    destruct ia.
    + (* already absolute: fetch_max *)
      unfold b3, a3. cbn [is_abs last cur upd fix_absmax all_fixed negb andb].
      apply (IH true la (N.max cu v) (up + 1) idl true); auto.
      * unfold Rel. cbn [r_reg r_phase r_sum r_base r_max].
        split; [reflexivity|]. split; [cbn; split; [lia|reflexivity]|].
        split; [lia|]. split; [lia|]. split; [exact Rla|].
        split; [rewrite Hni; discriminate|].
        split.
        { intros E. specialize (Rao E). unfold abs_rel in *. destruct mx as [m|].
          - destruct Rao as (_ & -> & -> & Hle). cbn. repeat split; auto. lia.
          - destruct Rao as (X & _). discriminate. }
        intros Hb. destruct (Rb Hb) as [B1 B2]. cbn [amax incs fold_right] in B2.
        fold (amax rest) in B2. fold (incs rest) in B2. split; lia.
      * intros E. specialize (Hao E). cbn in Hao. exact Hao.
    + (* re-basing absolute *)
      unfold b2, b3, a3. cbn [is_abs last cur upd fix_absmax all_fixed negb andb].
      apply (IH true v v (up + 1) idl true); auto.
      * unfold Rel. cbn [r_reg r_phase r_sum r_base r_max].
        split; [reflexivity|]. split; [cbn; split; [lia|reflexivity]|].
        split; [reflexivity|]. split; [exact He|]. split; [exact He|].
        split; [rewrite Hni; discriminate|].
        split.
        { intros E. specialize (Rao E). unfold abs_rel in *. destruct mx as [m|].
          - destruct Rao as (X & _). discriminate.
          - destruct Rao as (_ & _ & _ & ->). cbn. repeat split; auto. lia. }
        intros Hb. destruct (Rb Hb) as [B1 B2]. cbn [amax incs fold_right] in B2.
        fold (amax rest) in B2. fold (incs rest) in B2. split; lia.
      * intros E. specialize (Hao E). cbn in Hao. exact Hao.
  - (* CFlush *)
    cbn [crun cstep c_reg mk].
    assert (Hrest_io : io = true -> has_abs rest = false) by (intros E; specialize (Hio E); cbn in Hio; exact Hio).
    assert (Hrest_ao : ao = true -> has_inc rest = false) by (intros E; specialize (Hao E); cbn in Hao; exact Hao).
    assert (Hb' : bound < two64 -> N.max cu (amax rest) + incs rest <= bound).
    { intros Hb. destruct (Rb Hb) as [_ B2]. exact B2. }
    destruct rg.
    + (* registered *)
      unfold seq_cflush, f2, f3. cbn [c_cell c_idle is_abs last cur upd mk].
      rewrite decide_fixed.
      destruct (up =? 0) eqn:Eu.
      * (* no update in the window *)
        apply N.eqb_eq in Eu. subst up. specialize (Ru eq_refl). subst la.
        rewrite sub64_self. cbn [N.eqb andb].
        assert (Hsu : io = true -> su = 0) by (intros E; rewrite <- (Rio E); apply sub64_self).
        assert (Hod : ao = true -> odiff mx ba = 0).
        { intros E. specialize (Rao E). unfold abs_rel in Rao. destruct mx as [m|].
          - destruct Rao as (_ & -> & -> & _). cbn. lia.
          - reflexivity. }
        destruct ph; cbn in Rph.
        -- (* Quiet: idle *)
           destruct Rph as [_ [[_ ->]|[X _]]]; [|discriminate]. subst rr.
           cbn [app map option_map cref_walk r_reg r_phase r_sum r_base r_max andb negb].
           apply (IH ia cu cu 0 true true); auto.
           unfold Rel. cbn [r_reg r_phase r_sum r_base r_max].
           split; [reflexivity|]. split; [cbn; auto|]. split; [auto|]. split; [exact Rcu|]. split; [exact Rcu|].
           split; [intros; apply sub64_self|].
           split.
           { intros E. specialize (Rao E). unfold abs_rel in *. destruct mx as [m|]; [|exact Rao].
             destruct Rao as (A1 & A2 & A3 & A4). repeat split; auto. rewrite A2. reflexivity. lia. }
           intros Hb. split; [lia|auto].
        -- (* Owed: send the closing zero *)
           destruct Rph as (_ & -> & _). subst rr.
           cbn [app map option_map fst cref_walk r_reg r_phase r_sum r_base r_max andb negb].
           assert (C1 : (if io then 0 =? su else true) = true) by (destruct io; auto; rewrite (Hsu eq_refl); reflexivity).
           assert (C2 : (if ao then 0 =? odiff mx ba else true) = true) by (destruct ao; auto; rewrite (Hod eq_refl); reflexivity).
           assert (C3 : (if bound <? two64 then 0 <=? bound else true) = true) by (destruct (bound <? two64); auto).
           rewrite C1, C2, C3. cbn [andb].
           apply (IH ia cu cu 0 true true); auto.
           unfold Rel. cbn [r_reg r_phase r_sum r_base r_max].
           split; [reflexivity|]. split; [cbn; auto|]. split; [auto|]. split; [exact Rcu|]. split; [exact Rcu|].
           split; [intros; apply sub64_self|].
           split.
           { intros E. specialize (Rao E). unfold abs_rel in *. destruct mx as [m|]; [|exact Rao].
             destruct Rao as (A1 & A2 & A3 & A4). repeat split; auto. rewrite A2. reflexivity. lia. }
           intros Hb. split; [lia|auto].
        -- destruct Rph as [X _]. congruence.
      * (* updated in the window *)
        apply N.eqb_neq in Eu. cbn [andb].
        destruct ph; cbn in Rph; try (destruct Rph as [X _]; congruence).
        destruct Rph as [_ _]. subst rr.
        cbn [app map option_map fst cref_walk r_reg r_phase r_sum r_base r_max andb negb].
        assert (C1 : (if io then sub64 cu la =? su else true) = true)
          by (destruct io; auto; rewrite (Rio eq_refl); apply N.eqb_refl).
        assert (C2 : (if ao then sub64 cu la =? odiff mx ba else true) = true).
        { destruct ao; auto. specialize (Rao eq_refl). unfold abs_rel in Rao. destruct mx as [m|].
          - destruct Rao as (_ & -> & -> & Hle). cbn. rewrite sub64_exact by assumption. apply N.eqb_refl.
          - destruct Rao as (_ & -> & -> & _). rewrite sub64_self. reflexivity. }
        assert (C3 : (if bound <? two64 then sub64 cu la <=? bound else true) = true).
        { destruct (bound <? two64) eqn:Eb; auto. apply N.ltb_lt in Eb. destruct (Rb Eb) as [B1 B2].
          rewrite sub64_exact by assumption. apply N.leb_le. lia. }
        rewrite C1, C2, C3. cbn [andb].
        apply (IH ia cu cu 0 false true); auto.
        unfold Rel. cbn [r_reg r_phase r_sum r_base r_max].
        split; [reflexivity|]. split; [cbn; auto|]. split; [auto|]. split; [exact Rcu|]. split; [exact Rcu|].
        split; [intros; apply sub64_self|].
        split.
        { intros E. specialize (Rao E). unfold abs_rel in *. destruct mx as [m|]; [|exact Rao].
          destruct Rao as (A1 & A2 & A3 & A4). repeat split; auto. rewrite A2. reflexivity. lia. }
        intros Hb. split; [lia|auto].
    + (* not registered *)
      subst rr. cbn [app map option_map cref_walk r_reg r_phase r_sum r_base r_max andb negb].
      destruct ph; cbn in Rph; try (destruct Rph as (_ & X); try destruct X; congruence).
      destruct Rph as [Hu [[X _]|[_ ->]]]; [discriminate|]. subst up. specialize (Ru eq_refl). subst la.
      apply (IH ia cu cu 0 false false); auto.
      unfold Rel. cbn [r_reg r_phase r_sum r_base r_max].
      split; [reflexivity|]. split; [cbn; auto|]. split; [auto|]. split; [exact Rcu|]. split; [exact Rcu|].
      split; [intros; apply sub64_self|].
      split.
      { intros E. specialize (Rao E). unfold abs_rel in *. destruct mx as [m|]; [|exact Rao].
        destruct Rao as (A1 & A2 & A3 & A4). repeat split; auto. rewrite A2. reflexivity. lia. }
      intros Hb. split; [lia|auto].
Qed.

Theorem counter_ok_on_model es : Forall cev_wf es ->
  counter_ok es (map (option_map fst) (crun all_fixed cst0 es)) = true.
Proof.
  intros Hwf. unfold counter_ok. change cst0 with (mk false 0 0 0 false false).
  apply counter_refines; auto.
  - unfold Rel, cref0. cbn [r_reg r_phase r_sum r_base r_max].
    split; [reflexivity|]. split; [cbn; auto|]. split; [auto|]. split; [reflexivity|]. split; [reflexivity|].
    split; [intros; reflexivity|]. split; [intros; cbn; auto|].
    intros Hb. split; [lia|]. rewrite total_bound_eq. rewrite N.max_0_l. lia.
  - intros E. apply negb_true_iff in E. exact E.
  - intros E. apply negb_true_iff in E. exact E.
Qed.
