(* C18 — containment: the mask arithmetic of ipnet equals "equal top plen bits"; block bounds; allowlists. *)
From Coq Require Import List NArith Bool Lia.
Import ListNotations.
Require Import MV.C18.Model MV.C18.Spec.
Open Scope N_scope.

Lemma high_bits_zero a w i : a < 2 ^ w -> w <= i -> N.testbit a i = false.
Proof.
  intros Ha Hi. rewrite <- (N.mod_small a (2 ^ w)) by exact Ha. apply N.mod_pow2_bits_high. exact Hi.
Qed.

Lemma network_div w a p : a < 2 ^ w -> p <= w -> network w a p = a / 2 ^ (w - p) * 2 ^ (w - p).
Proof.
  intros Ha Hp. unfold network, netmask.
  destruct (N.eqb_spec p 0) as [->|Hp0].
  - rewrite N.land_0_r, N.sub_0_r, N.div_small by exact Ha. reflexivity.
  - rewrite <- N.shiftr_div_pow2, <- N.shiftl_mul_pow2.
    apply N.bits_inj. intros i. rewrite N.land_spec.
    destruct (N.ltb_spec i (w - p)) as [Hlt|Hge].
    + rewrite !N.shiftl_spec_low by exact Hlt. apply andb_false_r.
    + rewrite !N.shiftl_spec_high' by exact Hge. rewrite N.shiftr_spec'.
      replace (i - (w - p) + (w - p)) with i by lia.
      destruct (N.ltb_spec (i - (w - p)) p) as [Hl|Hh].
      * rewrite N.ones_spec_low by exact Hl. apply andb_true_r.
      * rewrite N.ones_spec_high by exact Hh. rewrite andb_false_r.
        symmetry. apply (high_bits_zero a w); [exact Ha | lia].
Qed.

Lemma lor_ones a k : N.lor a (N.ones k) = a / 2 ^ k * 2 ^ k + (2 ^ k - 1).
Proof.
  rewrite <- N.shiftr_div_pow2, <- N.shiftl_mul_pow2.
  assert (Hd : N.land (N.shiftl (N.shiftr a k) k) (N.ones k) = 0).
  { apply N.bits_inj. intros i. rewrite N.land_spec, N.bits_0.
    destruct (N.ltb_spec i k) as [Hlt|Hge].
    - rewrite N.shiftl_spec_low by exact Hlt. reflexivity.
    - rewrite N.ones_spec_high by exact Hge. apply andb_false_r. }
  replace (2 ^ k - 1) with (N.ones k) by (rewrite N.ones_equiv; apply N.pred_sub).
  rewrite (N.add_nocarry_lxor _ _ Hd), (N.lxor_lor _ _ Hd).
  apply N.bits_inj. intros i. rewrite !N.lor_spec.
  destruct (N.ltb_spec i k) as [Hlt|Hge].
  - rewrite N.ones_spec_low by exact Hlt. rewrite !orb_true_r. reflexivity.
  - rewrite N.shiftl_spec_high' by exact Hge. rewrite N.shiftr_spec'.
    replace (i - k + k) with i by lia. reflexivity.
Qed.

Lemma broadcast_div w a p : p <= w -> broadcast w a p = a / 2 ^ (w - p) * 2 ^ (w - p) + (2 ^ (w - p) - 1).
Proof.
  intros Hp. unfold broadcast, hostmask.
  destruct (N.eqb_spec p w) as [->|Hne].
  - rewrite N.lor_0_r, N.sub_diag. cbn [N.pow]. rewrite N.div_1_r. lia.
  - apply lor_ones.
Qed.

Lemma pow2_pos k : 0 < 2 ^ k.
Proof. apply N.neq_0_lt_0. apply N.pow_nonzero. discriminate. Qed.

(* q*m <= x <= q*m + (m-1)  <->  x / m = q *)
Lemma block_div q m x : 0 < m -> (q * m <= x /\ x <= q * m + (m - 1)) <-> x / m = q.
Proof.
  intros Hm. split.
  - intros [H1 H2]. symmetry. apply (N.div_unique x m q (x - q * m)); lia.
  - intros <-. pose proof (N.div_mod x m ltac:(lia)) as E.
    pose proof (N.mod_lt x m ltac:(lia)) as L.
    remember (x / m) as d. remember (x mod m) as r. clear Heqd Heqr. nia.
Qed.

Theorem contains_iff n peer :
  wf_net n = true -> wf_ip peer = true ->
  contains n peer = spec_contains n peer.
Proof.
  destruct n as [a p]. unfold wf_net, wf_ip, contains, spec_contains. cbn [fst snd].
  intros Hn Hpeer. apply andb_prop in Hn as [Ha Hp].
  apply N.ltb_lt in Ha. apply N.leb_le in Hp.
  destruct (same_family a peer) eqn:Hf; [|reflexivity]. cbn [andb].
  rewrite network_div, broadcast_div by assumption.
  set (k := width a - p). pose proof (pow2_pos k) as Hk.
  apply eq_true_iff_eq. rewrite andb_true_iff, N.leb_le, N.leb_le, N.eqb_eq.
  rewrite (block_div (ipval a / 2 ^ k) (2 ^ k) (ipval peer) Hk). split; intros H; congruence.
Qed.

Lemma spec_contains_true_iff a p peer :
  spec_contains (a, p) peer = true <->
  same_family a peer = true /\ ipval a / 2 ^ (width a - p) = ipval peer / 2 ^ (width a - p).
Proof. unfold spec_contains. rewrite andb_true_iff, N.eqb_eq. tauto. Qed.

Theorem cidr_edges a p peer :
  wf_net (a, p) = true -> wf_ip peer = true ->
  (contains (a, p) peer = true <->
   same_family a peer = true /\ ipval a / 2 ^ (width a - p) = ipval peer / 2 ^ (width a - p)).
Proof. intros H1 H2. rewrite contains_iff by assumption. apply spec_contains_true_iff. Qed.

(* an address of the same family as [a] *)
Definition with_val (a : ip) (v : N) : ip := match a with V4 _ => V4 v | V6 _ => V6 v end.
Lemma with_val_family a v : same_family a (with_val a v) = true.
Proof. destruct a; reflexivity. Qed.
Lemma with_val_width a v : width (with_val a v) = width a.
Proof. destruct a; reflexivity. Qed.
Lemma with_val_val a v : ipval (with_val a v) = v.
Proof. destruct a; reflexivity. Qed.

Definition block_first (a : ip) (p : N) : N := ipval a / 2 ^ (width a - p) * 2 ^ (width a - p).
Definition block_last (a : ip) (p : N) : N := block_first a p + (2 ^ (width a - p) - 1).

Lemma block_last_lt a p : wf_net (a, p) = true -> block_last a p < 2 ^ width a.
Proof.
  unfold wf_net, wf_ip, block_last, block_first. cbn [fst snd]. intros H.
  apply andb_prop in H as [Ha Hp]. apply N.ltb_lt in Ha. apply N.leb_le in Hp.
  set (k := width a - p). pose proof (pow2_pos k) as Hk.
  assert (E : 2 ^ width a = 2 ^ p * 2 ^ k).
  { rewrite <- N.pow_add_r. f_equal. unfold k. lia. }
  assert (Hq : ipval a / 2 ^ k < 2 ^ p).
  { apply N.div_lt_upper_bound; [lia|]. rewrite N.mul_comm, <- E. exact Ha. }
  rewrite E. nia.
Qed.

Theorem cidr_block_bounds a p :
  wf_net (a, p) = true ->
  contains (a, p) (with_val a (block_first a p)) = true /\
  contains (a, p) (with_val a (block_last a p)) = true /\
  (0 < block_first a p -> contains (a, p) (with_val a (block_first a p - 1)) = false) /\
  (block_last a p + 1 < 2 ^ width a -> contains (a, p) (with_val a (block_last a p + 1)) = false) /\
  (forall v, v < 2 ^ width a ->
     (contains (a, p) (with_val a v) = true <-> block_first a p <= v <= block_last a p)).
Proof.
  intros Hwf. pose proof (block_last_lt a p Hwf) as Hlast.
  assert (Hall : forall v, v < 2 ^ width a ->
     (contains (a, p) (with_val a v) = true <-> block_first a p <= v <= block_last a p)).
  { intros v Hv. rewrite cidr_edges; [|exact Hwf|unfold wf_ip; rewrite with_val_val, with_val_width; apply N.ltb_lt; exact Hv].
    rewrite with_val_family, with_val_val. unfold block_last, block_first.
    rewrite (block_div _ _ v (pow2_pos _)). split; [intros [_ E]; congruence | intros E; split; congruence]. }
  unfold block_last in *.
  assert (Hfl : block_first a p <= block_first a p + (2 ^ (width a - p) - 1)) by lia.
  split; [|split; [|split; [|split]]].
  - apply Hall; lia.
  - apply Hall; [exact Hlast | lia].
  - intros Hpos. apply not_true_is_false. intros C. apply Hall in C; lia.
  - intros Hlt. apply not_true_is_false. intros C. apply Hall in C; [lia | exact Hlt].
  - exact Hall.
Qed.

Theorem cidr_extremes a peer :
  wf_ip a = true -> wf_ip peer = true ->
  (contains (a, 0) peer = same_family a peer) /\
  (contains (a, width a) peer = true <-> same_family a peer = true /\ ipval peer = ipval a).
Proof.
  intros Ha Hpeer. split.
  - rewrite contains_iff; [|unfold wf_net; cbn [fst snd]; rewrite Ha; destruct a; reflexivity|exact Hpeer].
    unfold spec_contains. rewrite N.sub_0_r.
    destruct (same_family a peer) eqn:Hf; [|reflexivity]. cbn [andb].
    unfold wf_ip in *. apply N.ltb_lt in Ha, Hpeer.
    assert (width peer = width a) as Ew by (destruct a, peer; try discriminate; reflexivity).
    rewrite Ew in Hpeer. rewrite !N.div_small by assumption. reflexivity.
  - rewrite cidr_edges; [|unfold wf_net; cbn [fst snd]; rewrite Ha; destruct a; reflexivity|exact Hpeer].
    rewrite N.sub_diag. cbn [N.pow]. rewrite !N.div_1_r. split; intros [H1 H2]; split; congruence.
Qed.

(* allowlists: disjunction over the listed networks *)
Theorem allowed_some_iff nets peer :
  allowed (Some nets) peer = true <-> exists n, In n nets /\ contains n peer = true.
Proof. cbn [allowed]. apply existsb_exists. Qed.

Theorem allowed_app l1 l2 peer :
  allowed (Some (l1 ++ l2)) peer = allowed (Some l1) peer || allowed (Some l2) peer.
Proof. cbn [allowed]. apply existsb_app. Qed.

Theorem allowed_nested n m peer :
  (contains n peer = true -> contains m peer = true) ->
  allowed (Some [n; m]) peer = contains m peer.
Proof.
  intros H. cbn [allowed existsb]. rewrite orb_false_r.
  destruct (contains n peer); [rewrite H; reflexivity | reflexivity].
Qed.

Lemma allowed_spec al peer :
  (forall n, match al with Some l => In n l -> wf_net n = true | None => True end) -> wf_ip peer = true ->
  allowed al peer = spec_allowed al peer.
Proof.
  destruct al as [l|]; [|reflexivity]. intros Hwf Hp. cbn [allowed spec_allowed].
  induction l as [|n l IH]; [reflexivity|]. cbn [existsb].
  rewrite contains_iff; [|apply Hwf; left; reflexivity|exact Hp]. f_equal.
  apply IH. intros m Hm. apply Hwf. right. exact Hm.
Qed.

(* ---- access control clauses on respond/allowed *)
Theorem outside_all_nets_forbidden nets peer target render_out :
  forallb (fun n => negb (contains n peer)) nets = true ->
  respond (allowed (Some nets) peer) target render_out = (403, []).
Proof.
  intros H. cbn [allowed].
  assert (E : existsb (fun n => contains n peer) nets = false).
  { induction nets as [|n l IH]; [reflexivity|]. cbn [forallb existsb] in *.
    apply andb_prop in H as [H1 H2]. apply negb_true_iff in H1. rewrite H1, IH by exact H2. reflexivity. }
  rewrite E. reflexivity.
Qed.

(* ---- address families never cross: an IPv6 peer (whatever IPv4 address its low bits spell, mapped or
   compatible) is matched by IPv6 networks only, and an IPv4 peer by IPv4 networks only *)
Theorem other_family_never_matches a p peer : same_family a peer = false -> contains (a, p) peer = false.
Proof. intros H. unfold contains. rewrite H. reflexivity. Qed.

Theorem only_other_family_listed_forbidden nets peer target render_out :
  forallb (fun n => negb (same_family (fst n) peer)) nets = true ->
  respond (allowed (Some nets) peer) target render_out = (403, []).
Proof.
  intros H. apply outside_all_nets_forbidden.
  rewrite forallb_forall in *. intros [a p] Hin. specialize (H _ Hin). cbn [fst] in H.
  apply negb_true_iff in H. rewrite (other_family_never_matches a p peer H). reflexivity.
Qed.

Theorem inside_any_net_served nets n peer target render_out :
  In n nets -> contains n peer = true ->
  respond (allowed (Some nets) peer) target render_out =
    (200, if bytes_eqb (req_path target) health then ok_body else render_out).
Proof.
  intros Hin Hc.
  assert (E : allowed (Some nets) peer = true) by (apply allowed_some_iff; exists n; split; assumption).
  rewrite E. unfold respond. destruct (bytes_eqb (req_path target) health); reflexivity.
Qed.

Theorem none_allows_all peer target render_out :
  respond (allowed None peer) target render_out =
    (200, if bytes_eqb (req_path target) health then ok_body else render_out).
Proof. cbn [allowed]. unfold respond. destruct (bytes_eqb (req_path target) health); reflexivity. Qed.

Lemma bytes_eqb_eq a : forall b, bytes_eqb a b = true <-> a = b.
Proof.
  induction a as [|x a IH]; intros [|y b]; cbn [bytes_eqb]; split; intros H; try discriminate; try reflexivity.
  - apply andb_prop in H as [H1 H2]. apply N.eqb_eq in H1. apply IH in H2. congruence.
  - inversion H; subst. rewrite N.eqb_refl. apply IH. reflexivity.
Qed.

Lemma req_path_spec t : req_path t = spec_path t.
Proof. induction t as [|c r IH]; [reflexivity|]. cbn [req_path spec_path]. rewrite IH. reflexivity. Qed.

Theorem paths target render_out :
  (spec_path target = health -> respond true target render_out = (200, ok_body)) /\
  (spec_path target <> health -> respond true target render_out = (200, render_out)) /\
  (forall t q, ~ In 63 t -> ~ In 35 t -> spec_path (t ++ 63 :: q) = t /\ spec_path (t ++ 35 :: q) = t /\ spec_path t = t).
Proof.
  unfold respond. change (req_path target) with (spec_path target). repeat split.
  - intros E. rewrite E. reflexivity.
  - intros NE. destruct (bytes_eqb (spec_path target) health) eqn:B; [|reflexivity].
    apply bytes_eqb_eq in B. contradiction.
  - induction t as [|c r IH]; [reflexivity|]. cbn [app spec_path].
    destruct (N.eqb_spec c 63); [exfalso; apply H; left; auto|].
    destruct (N.eqb_spec c 35); [exfalso; apply H0; left; auto|]. cbn [orb]. f_equal.
    apply IH; intros C; [apply H|apply H0]; right; exact C.
  - induction t as [|c r IH]; [reflexivity|]. cbn [app spec_path].
    destruct (N.eqb_spec c 63); [exfalso; apply H; left; auto|].
    destruct (N.eqb_spec c 35); [exfalso; apply H0; left; auto|]. cbn [orb]. f_equal.
    apply IH; intros C; [apply H|apply H0]; right; exact C.
  - induction t as [|c r IH]; [reflexivity|]. cbn [spec_path].
    destruct (N.eqb_spec c 63); [exfalso; apply H; left; auto|].
    destruct (N.eqb_spec c 35); [exfalso; apply H0; left; auto|]. cbn [orb]. f_equal.
    apply IH; intros C; [apply H|apply H0]; right; exact C.
Qed.
