(* C18 — the property, written without the model's masks, parsers or accept-loop state machine.

   * membership in a network is "the top [plen] bits are equal", by division:
        a / 2^(w-p) = ip / 2^(w-p)       (same family)
   * the documented entry syntax is given by a PRINTER (canonical dotted quad, optionally "/p"), not by a parser:
     an entry that is the canonical text of (a, p) must mean the network (a, p); a plain address the host network;
   * the response to a request is a function of (the listed networks, the peer, the request target, the
     rendering at that time) only — no connection history appears in it.                                         *)
From Coq Require Import List NArith Bool.
Import ListNotations.
Require Import MV.C18.Model.
Open Scope N_scope.

Definition wf_ip (i : ip) : bool := ipval i <? 2 ^ width i.
Definition wf_net (n : net) : bool := wf_ip (fst n) && (snd n <=? width (fst n)).

Definition spec_contains (n : net) (peer : ip) : bool :=
  let '(a, p) := n in
  same_family a peer && (ipval a / 2 ^ (width a - p) =? ipval peer / 2 ^ (width a - p)).

Definition spec_allowed (al : option (list net)) (peer : ip) : bool :=
  match al with None => true | Some nets => existsb (fun n => spec_contains n peer) nets end.

(* the part of the request target that names the resource: everything before the first '?' or '#' *)
Fixpoint spec_path (t : list N) : list N :=
  match t with
  | [] => []
  | c :: r => if (c =? 63) || (c =? 35) then [] else c :: spec_path r
  end.

Definition spec_respond (al : option (list net)) (peer : ip) (target render_out : list N) : resp :=
  if spec_allowed al peer then
    if bytes_eqb (spec_path target) health then (200, ok_body) else (200, render_out)
  else (403, []).

(* ---- documented entry syntax, as a printer *)
Definition dec (n : N) : list N :=
  if n <? 10 then [48 + n]
  else if n <? 100 then [48 + n / 10; 48 + n mod 10]
  else [48 + n / 100; 48 + (n / 10) mod 10; 48 + n mod 10].

Definition print_v4 (a : N) : list N :=
  dec (a / 16777216) ++ [46] ++ dec ((a / 65536) mod 256) ++ [46] ++ dec ((a / 256) mod 256) ++ [46] ++ dec (a mod 256).

(* an IPv4 entry: address, prefix length, written as a plain address (then plen = 32) or in CIDR notation *)
Record entry4 := { e_addr : N; e_plen : N; e_plain : bool }.
Definition wf_entry4 (e : entry4) : bool :=
  (e_addr e <? 2 ^ 32) && (e_plen e <=? 32) && (if e_plain e then e_plen e =? 32 else true).
Definition print_entry4 (e : entry4) : list N :=
  print_v4 (e_addr e) ++ (if e_plain e then [] else 47 :: dec (e_plen e)).
Definition entry4_net (e : entry4) : net := (V4 (e_addr e), e_plen e).

(* the allowlist a list of networks stands for: none listed = allow all *)
Definition spec_allowlist_nets (l : list net) : option (list net) :=
  match l with [] => None | _ => Some l end.
Definition spec_allowlist (es : list entry4) : option (list net) := spec_allowlist_nets (map entry4_net es).

(* an allowlist entry of a server scenario: an IPv4 entry in the documented syntax (its meaning is given by the
   printer above), or an entry of any family and spelling whose stated meaning [n] is accepted only if the parser
   model reads the text as [n] (checked by wf_case in Exec.v; the parser models are tied to ipnet/std by layer D) *)
Inductive sentry := E4 (i : entry4) | EP (n : net).
Definition sentry_net (e : sentry) : net := match e with E4 i => entry4_net i | EP n => n end.
Definition spec_allowlist_s (es : list sentry) : option (list net) := spec_allowlist_nets (map sentry_net es).
