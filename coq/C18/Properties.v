(* C18 — property theorems (statements only; proofs are in ProofsNet.v / ProofsParse.v / ProofsServe.v).

   Reading guide.  [contains]/[allowed]/[respond]/[step]/[run] are the model of the code (Model.v: ipnet's mask
   arithmetic, check_tcp_allowed, handle_http_request, the accept loop); [parse_entry] is add_allowed_address
   (ipnet's and std's parsers); [spec_contains]/[spec_allowed]/[spec_respond]/[print_entry4] are the
   specification (Spec.v: equal top bits by division, the documented entry syntax as a printer).             *)
From Coq Require Import List NArith Bool.
Import ListNotations.
Require Import MV.C18.Model MV.C18.Spec MV.C18.Exec MV.C18.ProofsNet MV.C18.ProofsParse MV.C18.ProofsServe.
Open Scope N_scope.

Theorem C18_spec_ok_on_model : forall c, wf_case c = true -> spec_ok c (run_case c) = true.
Proof. exact spec_ok_on_model. Qed.

Theorem C18_spec_ok_serve_iff : forall entries steps o,
  spec_ok (CServe entries steps) o = true <->
  wf_case (CServe entries steps) = true /\
  exists l, o = OServe l /\ l = spec_souts (spec_allowlist_s (map snd entries)) steps l.
Proof. exact spec_ok_serve_iff. Qed.

Theorem C18_spec_souts_meaning : forall al steps l,
  l = spec_souts al steps l <->
  length l = length steps /\ forall i st o, nth_error steps i = Some st -> nth_error l i = Some o -> o = spec_sout al st o.
Proof. exact spec_souts_meaning. Qed.

Theorem C18_spec_ok_entry_sound : forall e intent peers o,
  spec_ok (CEntry e intent peers) o = true ->
  exists lib built std bits, o = OEntry lib built std bits /\
    built = (match lib with Some n => Some n | None => option_map host_net std end) /\
    (forall i, intent = Some i -> e = print_entry4 i /\ wf_entry4 i = true /\ built = Some (entry4_net i)) /\
    (forall n, or_else built lib = Some n -> wf_net n = true /\ bits = bits_for spec_contains (Some n) peers) /\
    (or_else built lib = None -> bits = None).
Proof. exact spec_ok_entry_sound. Qed.

(* ---- access control *)
Theorem C18_outside_all_nets_forbidden : forall nets peer target render_out,
  forallb (fun n => negb (contains n peer)) nets = true ->
  respond (allowed (Some nets) peer) target render_out = (403, []).
Proof. exact outside_all_nets_forbidden. Qed.

Theorem C18_inside_any_net_served : forall nets n peer target render_out,
  In n nets -> contains n peer = true ->
  respond (allowed (Some nets) peer) target render_out =
    (200, if bytes_eqb (req_path target) health then ok_body else render_out).
Proof. exact inside_any_net_served. Qed.

Theorem C18_none_allows_all : forall peer target render_out,
  respond (allowed None peer) target render_out =
    (200, if bytes_eqb (req_path target) health then ok_body else render_out).
Proof. exact none_allows_all. Qed.

(* ---- address families never cross (an IPv6 peer such as ::1, ::a.b.c.d or ::ffff:a.b.c.d is an IPv6 address) *)
Theorem C18_other_family_never_matches : forall a p peer,
  same_family a peer = false -> contains (a, p) peer = false.
Proof. exact other_family_never_matches. Qed.

Theorem C18_only_other_family_listed_forbidden : forall nets peer target render_out,
  forallb (fun n => negb (same_family (fst n) peer)) nets = true ->
  respond (allowed (Some nets) peer) target render_out = (403, []).
Proof. exact only_other_family_listed_forbidden. Qed.

(* ---- CIDR containment *)
Theorem C18_cidr_edges : forall a p peer,
  wf_net (a, p) = true -> wf_ip peer = true ->
  (contains (a, p) peer = true <->
   same_family a peer = true /\ ipval a / 2 ^ (width a - p) = ipval peer / 2 ^ (width a - p)).
Proof. exact cidr_edges. Qed.

Theorem C18_cidr_block_bounds : forall a p,
  wf_net (a, p) = true ->
  contains (a, p) (with_val a (block_first a p)) = true /\
  contains (a, p) (with_val a (block_last a p)) = true /\
  (0 < block_first a p -> contains (a, p) (with_val a (block_first a p - 1)) = false) /\
  (block_last a p + 1 < 2 ^ width a -> contains (a, p) (with_val a (block_last a p + 1)) = false) /\
  (forall v, v < 2 ^ width a ->
     (contains (a, p) (with_val a v) = true <-> block_first a p <= v <= block_last a p)).
Proof. exact cidr_block_bounds. Qed.

Theorem C18_cidr_extremes : forall a peer,
  wf_ip a = true -> wf_ip peer = true ->
  (contains (a, 0) peer = same_family a peer) /\
  (contains (a, width a) peer = true <-> same_family a peer = true /\ ipval peer = ipval a).
Proof. exact cidr_extremes. Qed.

Theorem C18_allowed_is_disjunction : forall nets peer,
  allowed (Some nets) peer = true <-> exists n, In n nets /\ contains n peer = true.
Proof. exact allowed_some_iff. Qed.

Theorem C18_allowed_overlapping : forall l1 l2 peer,
  allowed (Some (l1 ++ l2)) peer = allowed (Some l1) peer || allowed (Some l2) peer.
Proof. exact allowed_app. Qed.

Theorem C18_allowed_nested : forall n m peer,
  (contains n peer = true -> contains m peer = true) ->
  allowed (Some [n; m]) peer = contains m peer.
Proof. exact allowed_nested. Qed.

(* ---- entry syntax *)
Theorem C18_plain_address_is_host_net : forall a,
  a < 2 ^ 32 -> parse_entry (print_v4 a) = Some (V4 a, 32).
Proof. exact plain_address_is_host_net. Qed.

Theorem C18_cidr_entry_parses : forall a p,
  a < 2 ^ 32 -> p <= 32 -> parse_entry (print_v4 a ++ 47 :: dec p) = Some (V4 a, p).
Proof. intros a p. exact (cidr_entry_parse_entry true a p). Qed.

Theorem C18_parsed_entries_in_range : forall fixed s n,
  parse_entry_gen fixed s = Some n -> wf_net n = true.
Proof. exact parse_entry_wf. Qed.

(* the code before the fix commit: "127.0.0.1" is rejected *)
Theorem C18_plain_address_refuted_before_fix :
  exists a, a < 2 ^ 32 /\ parse_entry_gen false (print_v4 a) = None /\
            print_v4 a = [49; 50; 55; 46; 48; 46; 48; 46; 49].
Proof. exact plain_address_refuted_before_fix. Qed.

(* ---- paths *)
Theorem C18_paths : forall target render_out,
  (spec_path target = health -> respond true target render_out = (200, ok_body)) /\
  (spec_path target <> health -> respond true target render_out = (200, render_out)) /\
  (forall t q, ~ In 63 t -> ~ In 35 t -> spec_path (t ++ 63 :: q) = t /\ spec_path (t ++ 35 :: q) = t /\ spec_path t = t).
Proof. exact paths. Qed.

(* ---- the accept loop *)
Theorem C18_connections_independent : forall evs s,
  st_allow (fst (run s evs)) = st_allow s /\ st_listening (fst (run s evs)) = st_listening s.
Proof. exact connections_independent. Qed.

Theorem C18_served_per_spec : forall entries r0,
  forallb entry_ok entries = true ->
  exists nets, parse_all true (map fst entries) = Some nets /\
    forall evs peer target, wf_ip peer = true ->
      let s1 := fst (run (init_state (allowlist_of nets) r0) evs) in
      snd (step (fst (step s1 (Accept peer))) (Conn (st_next s1) (EvRequest target))) =
        Some (spec_respond (spec_allowlist_s (map snd entries)) peer target (st_render s1)).
Proof. exact served_per_spec. Qed.

Theorem C18_served_per_spec_v4 : forall es r0,
  forallb wf_entry4 es = true ->
  exists nets, parse_all true (map print_entry4 es) = Some nets /\
    forall evs peer target, wf_ip peer = true ->
      let s1 := fst (run (init_state (allowlist_of nets) r0) evs) in
      snd (step (fst (step s1 (Accept peer))) (Conn (st_next s1) (EvRequest target))) =
        Some (spec_respond (spec_allowlist es) peer target (st_render s1)).
Proof. exact served_per_spec_v4. Qed.

(* hypotheses are satisfiable, on a non-trivial case: allowlist 127.0.0.0/30 and plain 127.9.0.1; one peer at
   the last address of the block, one just outside, one equal to the plain entry; an update in between *)
Example C18_example :
  let e1 := {| e_addr := 2130706432; e_plen := 30; e_plain := false |} in
  let e2 := {| e_addr := 2131296257; e_plen := 32; e_plain := true |} in
  let c := CServe [(print_entry4 e1, E4 e1); (print_entry4 e2, E4 e2); ([58; 58; 49], EP (V6 1, 128))]
             [SConn (V4 2130706435) [114; 49] [[47; 109]; health; health ++ [63; 120] ++ fill 97 9000] None;
              SConn (V4 2130706436) [114; 49] [[47; 109]] (Some (431, [47]));  (* forbidden, and beyond the limits *)
              SFault 0 (V4 2130706433); SInc;
              SBurst 2 (V4 2131296257) [114; 50] [47];
              SConn (V6 1) [114; 50] [[47]] None;                           (* ::1 is listed *)
              SConn (V6 (65535 * 2 ^ 32 + 2130706433)) [114; 50] [[47]] None; (* ::ffff:127.0.0.1 is not 127.0.0.1 *)
              SConn (V4 1) [114; 50] [[47]] None] in                           (* 0.0.0.1 is not ::1 *)
  wf_case c = true /\
  run_case c = OServe [OC [(200, [114; 49]); (200, ok_body); (200, ok_body)]; OC [(403, []); (431, [])]; OFault; OInc;
                       OB [(200, [114; 50]); (200, [114; 50])];
                       OC [(200, [114; 50])]; OC [(403, [])]; OC [(403, [])]].
Proof. vm_compute. split; reflexivity. Qed.
