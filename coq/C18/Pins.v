From Coq Require Import List NArith Bool.
Import ListNotations.
Require Import MV.C18.Model MV.C18.Spec MV.C18.Exec MV.C18.ProofsNet MV.C18.ProofsParse MV.C18.ProofsServe.
Open Scope N_scope.
Require Import MV.C18.Properties.

Check (C18_spec_ok_on_model : forall c, wf_case c = true -> spec_ok c (run_case c) = true).
Print Assumptions C18_spec_ok_on_model.
Check (C18_spec_ok_serve_iff : forall entries steps o,
  spec_ok (CServe entries steps) o = true <->
  wf_case (CServe entries steps) = true /\
  exists l, o = OServe l /\ l = spec_souts (spec_allowlist_s (map snd entries)) steps l).
Print Assumptions C18_spec_ok_serve_iff.
Check (C18_spec_souts_meaning : forall al steps l,
  l = spec_souts al steps l <->
  length l = length steps /\ forall i st o, nth_error steps i = Some st -> nth_error l i = Some o -> o = spec_sout al st o).
Print Assumptions C18_spec_souts_meaning.
Check (C18_spec_ok_entry_sound : forall e intent peers o,
  spec_ok (CEntry e intent peers) o = true ->
  exists lib built std bits, o = OEntry lib built std bits /\
    built = (match lib with Some n => Some n | None => option_map host_net std end) /\
    (forall i, intent = Some i -> e = print_entry4 i /\ wf_entry4 i = true /\ built = Some (entry4_net i)) /\
    (forall n, or_else built lib = Some n -> wf_net n = true /\ bits = bits_for spec_contains (Some n) peers) /\
    (or_else built lib = None -> bits = None)).
Print Assumptions C18_spec_ok_entry_sound.
Check (C18_outside_all_nets_forbidden : forall nets peer target render_out,
  forallb (fun n => negb (contains n peer)) nets = true ->
  respond (allowed (Some nets) peer) target render_out = (403, [])).
Print Assumptions C18_outside_all_nets_forbidden.
Check (C18_inside_any_net_served : forall nets n peer target render_out,
  In n nets -> contains n peer = true ->
  respond (allowed (Some nets) peer) target render_out =
    (200, if bytes_eqb (req_path target) health then ok_body else render_out)).
Print Assumptions C18_inside_any_net_served.
Check (C18_none_allows_all : forall peer target render_out,
  respond (allowed None peer) target render_out =
    (200, if bytes_eqb (req_path target) health then ok_body else render_out)).
Print Assumptions C18_none_allows_all.
Check (C18_other_family_never_matches : forall a p peer,
  same_family a peer = false -> contains (a, p) peer = false).
Print Assumptions C18_other_family_never_matches.
Check (C18_only_other_family_listed_forbidden : forall nets peer target render_out,
  forallb (fun n => negb (same_family (fst n) peer)) nets = true ->
  respond (allowed (Some nets) peer) target render_out = (403, [])).
Print Assumptions C18_only_other_family_listed_forbidden.
Check (C18_cidr_edges : forall a p peer,
  wf_net (a, p) = true -> wf_ip peer = true ->
  (contains (a, p) peer = true <->
   same_family a peer = true /\ ipval a / 2 ^ (width a - p) = ipval peer / 2 ^ (width a - p))).
Print Assumptions C18_cidr_edges.
Check (C18_cidr_block_bounds : forall a p,
  wf_net (a, p) = true ->
  contains (a, p) (with_val a (block_first a p)) = true /\
  contains (a, p) (with_val a (block_last a p)) = true /\
  (0 < block_first a p -> contains (a, p) (with_val a (block_first a p - 1)) = false) /\
  (block_last a p + 1 < 2 ^ width a -> contains (a, p) (with_val a (block_last a p + 1)) = false) /\
  (forall v, v < 2 ^ width a ->
     (contains (a, p) (with_val a v) = true <-> block_first a p <= v <= block_last a p))).
Print Assumptions C18_cidr_block_bounds.
Check (C18_cidr_extremes : forall a peer,
  wf_ip a = true -> wf_ip peer = true ->
  (contains (a, 0) peer = same_family a peer) /\
  (contains (a, width a) peer = true <-> same_family a peer = true /\ ipval peer = ipval a)).
Print Assumptions C18_cidr_extremes.
Check (C18_allowed_is_disjunction : forall nets peer,
  allowed (Some nets) peer = true <-> exists n, In n nets /\ contains n peer = true).
Print Assumptions C18_allowed_is_disjunction.
Check (C18_allowed_overlapping : forall l1 l2 peer,
  allowed (Some (l1 ++ l2)) peer = allowed (Some l1) peer || allowed (Some l2) peer).
Print Assumptions C18_allowed_overlapping.
Check (C18_allowed_nested : forall n m peer,
  (contains n peer = true -> contains m peer = true) ->
  allowed (Some [n; m]) peer = contains m peer).
Print Assumptions C18_allowed_nested.
Check (C18_plain_address_is_host_net : forall a,
  a < 2 ^ 32 -> parse_entry (print_v4 a) = Some (V4 a, 32)).
Print Assumptions C18_plain_address_is_host_net.
Check (C18_cidr_entry_parses : forall a p,
  a < 2 ^ 32 -> p <= 32 -> parse_entry (print_v4 a ++ 47 :: dec p) = Some (V4 a, p)).
Print Assumptions C18_cidr_entry_parses.
Check (C18_parsed_entries_in_range : forall fixed s n,
  parse_entry_gen fixed s = Some n -> wf_net n = true).
Print Assumptions C18_parsed_entries_in_range.
Check (C18_plain_address_refuted_before_fix : exists a, a < 2 ^ 32 /\ parse_entry_gen false (print_v4 a) = None /\
            print_v4 a = [49; 50; 55; 46; 48; 46; 48; 46; 49]).
Print Assumptions C18_plain_address_refuted_before_fix.
Check (C18_paths : forall target render_out,
  (spec_path target = health -> respond true target render_out = (200, ok_body)) /\
  (spec_path target <> health -> respond true target render_out = (200, render_out)) /\
  (forall t q, ~ In 63 t -> ~ In 35 t -> spec_path (t ++ 63 :: q) = t /\ spec_path (t ++ 35 :: q) = t /\ spec_path t = t)).
Print Assumptions C18_paths.
Check (C18_connections_independent : forall evs s,
  st_allow (fst (run s evs)) = st_allow s /\ st_listening (fst (run s evs)) = st_listening s).
Print Assumptions C18_connections_independent.
Check (C18_served_per_spec : forall entries r0,
  forallb entry_ok entries = true ->
  exists nets, parse_all true (map fst entries) = Some nets /\
    forall evs peer target, wf_ip peer = true ->
      let s1 := fst (run (init_state (allowlist_of nets) r0) evs) in
      snd (step (fst (step s1 (Accept peer))) (Conn (st_next s1) (EvRequest target))) =
        Some (spec_respond (spec_allowlist_s (map snd entries)) peer target (st_render s1))).
Print Assumptions C18_served_per_spec.
Check (C18_served_per_spec_v4 : forall es r0,
  forallb wf_entry4 es = true ->
  exists nets, parse_all true (map print_entry4 es) = Some nets /\
    forall evs peer target, wf_ip peer = true ->
      let s1 := fst (run (init_state (allowlist_of nets) r0) evs) in
      snd (step (fst (step s1 (Accept peer))) (Conn (st_next s1) (EvRequest target))) =
        Some (spec_respond (spec_allowlist es) peer target (st_render s1))).
Print Assumptions C18_served_per_spec_v4.
