(* C18 — model of the Prometheus scrape endpoint's allowlist and request handling.

   Anchors (metrics-exporter-prometheus/src/exporter):
     builder.rs        add_allowed_address  : IpNet::from_str(s), else (after the fix) IpAddr::from_str(s) as a host net
     http_listener.rs  check_tcp_allowed    : None => true | Some addrs => addrs.iter().any(|n| n.contains(&peer_ip))
                       handle_http_request  : allowed => ("/health" => "OK" | _ => render) ; else 403, empty body
                       serve_tcp / process_tcp_stream : accept loop, one spawned task per connection, is_allowed
                                              evaluated once per connection, errors of a connection only logged
   Library code the allowlist goes through, modelled statement by statement so that the text -> net -> contains
   path is explicit (and tied to the real crates by the correspondence runs):
     ipnet 2.11 parser.rs (read_number, read_ipv4_addr, read_ipv6_addr, read_ipv4_net, read_ipv6_net, read_ip_net),
     ipnet.rs (netmask/hostmask/network/broadcast/contains), core::net::parser (IpAddr::from_str).

   Strings are byte lists (list N).  Addresses are numbers: V4 a (a < 2^32), V6 a (a < 2^128).            *)
From Coq Require Import List NArith Bool.
Import ListNotations.
Open Scope N_scope.

Inductive ip := V4 (a : N) | V6 (a : N).
Definition width (i : ip) : N := match i with V4 _ => 32 | V6 _ => 128 end.
Definition ipval (i : ip) : N := match i with V4 a => a | V6 a => a end.
Definition same_family (x y : ip) : bool :=
  match x, y with V4 _, V4 _ => true | V6 _, V6 _ => true | _, _ => false end.

(* a network: the address as written (ipnet keeps the host bits) and the prefix length *)
Definition net := (ip * N)%type.

(* ---------------------------------------------------------------- ipnet.rs: masks and containment *)
(* netmask = MAX.checked_shl(w - p).unwrap_or(0): a shift by the full width is None *)
Definition netmask (w p : N) : N := if p =? 0 then 0 else N.shiftl (N.ones p) (w - p).
(* hostmask = MAX.checked_shr(p).unwrap_or(0) *)
Definition hostmask (w p : N) : N := if p =? w then 0 else N.ones (w - p).
Definition network (w a p : N) : N := N.land a (netmask w p).
Definition broadcast (w a p : N) : N := N.lor a (hostmask w p).

(* Contains<&IpAddr> for IpNet: same family, network() <= ip <= broadcast() *)
Definition contains (n : net) (peer : ip) : bool :=
  let '(a, p) := n in
  same_family a peer &&
  (network (width a) (ipval a) p <=? ipval peer) && (ipval peer <=? broadcast (width a) (ipval a) p).

(* check_tcp_allowed *)
Definition allowed (al : option (list net)) (peer : ip) : bool :=
  match al with
  | None => true
  | Some nets => existsb (fun n => contains n peer) nets
  end.

(* ------------------------------------------------------------------------------ text parsing *)
Definition digit_val (radix c : N) : option N :=
  if (48 <=? c) && (c <=? 57) then Some (c - 48)
  else if (10 <? radix) && (97 <=? c) && (c <? 97 + (radix - 10)) then Some (c - 97 + 10)
  else if (10 <? radix) && (65 <=? c) && (c <? 65 + (radix - 10)) then Some (c - 65 + 10)
  else None.

(* read_number_impl: maximal run of digits; fails on no digit, more than maxd digits, or a value >= upto *)
Fixpoint read_digits (radix maxd upto : N) (s : list N) (r cnt : N) : option (N * N * list N) :=
  match s with
  | c :: s' =>
      match digit_val radix c with
      | Some d =>
          let r' := r * radix + d in
          let cnt' := cnt + 1 in
          if (maxd <? cnt') || (upto <=? r') then None else read_digits radix maxd upto s' r' cnt'
      | None => if cnt =? 0 then None else Some (r, cnt, s)
      end
  | [] => if cnt =? 0 then None else Some (r, cnt, s)
  end.

Definition starts_with_zero (s : list N) : bool :=
  match s with c :: _ => c =? 48 | [] => false end.

(* strict = core::net::parser's allow_zero_prefix = false (IPv4 octets): "01" is rejected *)
Definition read_number (strict : bool) (radix maxd upto : N) (s : list N) : option (N * list N) :=
  match read_digits radix maxd upto s 0 0 with
  | Some (r, cnt, rest) => if strict && starts_with_zero s && (1 <? cnt) then None else Some (r, rest)
  | None => None
  end.

Definition read_char (c : N) (s : list N) : option (list N) :=
  match s with x :: r => if x =? c then Some r else None | [] => None end.

(* the two parsers differ in two places *)
Record flavor := { strict_octets : bool; tail_one_less : bool }.
Definition ipnet_fl : flavor := {| strict_octets := false; tail_one_less := false |}.
Definition std_fl : flavor := {| strict_octets := true; tail_one_less := true |}.

Definition read_octet (fl : flavor) (s : list N) : option (N * list N) :=
  read_number (strict_octets fl) 10 3 256 s.

Definition read_ipv4 (fl : flavor) (s : list N) : option (N * list N) :=
  match read_octet fl s with None => None | Some (a, s1) =>
  match read_char 46 s1 with None => None | Some s2 =>
  match read_octet fl s2 with None => None | Some (b, s3) =>
  match read_char 46 s3 with None => None | Some s4 =>
  match read_octet fl s4 with None => None | Some (c, s5) =>
  match read_char 46 s5 with None => None | Some s6 =>
  match read_octet fl s6 with None => None | Some (d, s7) =>
    Some (((a * 256 + b) * 256 + c) * 256 + d, s7)
  end end end end end end end.

Definition read_sep (i : N) (s : list N) : option (list N) :=
  if i =? 0 then Some s else read_char 58 s.

(* read_groups: up to [limit] colon-separated hex groups, optionally ending in a dotted quad (two groups);
   returns (groups read, ended in a dotted quad, rest) *)
Fixpoint read_groups (fl : flavor) (fuel : nat) (i limit : N) (s : list N) (acc : list N)
  : list N * bool * list N :=
  match fuel with
  | O => (acc, false, s)
  | S fuel' =>
      if negb (i <? limit) then (acc, false, s) else
      let try4 :=
        if i <? limit - 1 then
          match read_sep i s with
          | Some s1 => read_ipv4 fl s1
          | None => None
          end
        else None in
      match try4 with
      | Some (v, s2) => (acc ++ [v / 65536; v mod 65536], true, s2)
      | None =>
          match read_sep i s with
          | Some s1 =>
              match read_number false 16 4 65536 s1 with
              | Some (g, s2) => read_groups fl fuel' (i + 1) limit s2 (acc ++ [g])
              | None => (acc, false, s)
              end
          | None => (acc, false, s)
          end
      end
  end.

Definition groups_val (l : list N) : N := fold_left (fun acc g => acc * 65536 + g) l 0.
Definition len (l : list N) : N := N.of_nat (length l).

Definition read_ipv6 (fl : flavor) (s : list N) : option (N * list N) :=
  let '(head, head4, s1) := read_groups fl 8 0 8 s [] in
  if len head =? 8 then Some (groups_val head, s1)
  else if head4 then None
  else
    match read_char 58 s1 with None => None | Some s2 =>
    match read_char 58 s2 with None => None | Some s3 =>
      let limit := if tail_one_less fl then 8 - (len head + 1) else 8 - len head in
      let '(tail, _, s4) := read_groups fl (N.to_nat limit) 0 limit s3 [] in
      Some (groups_val (head ++ repeat 0 (8 - length head - length tail) ++ tail), s4)
    end end.

(* ipnet: read_ipv4_net / read_ipv6_net / read_ip_net + read_till_eof *)
Definition read_v4net (s : list N) : option (net * list N) :=
  match read_ipv4 ipnet_fl s with None => None | Some (a, s1) =>
  match read_char 47 s1 with None => None | Some s2 =>
  match read_number false 10 2 33 s2 with None => None | Some (p, s3) => Some ((V4 a, p), s3)
  end end end.

Definition read_v6net (s : list N) : option (net * list N) :=
  match read_ipv6 ipnet_fl s with None => None | Some (a, s1) =>
  match read_char 47 s1 with None => None | Some s2 =>
  match read_number false 10 3 129 s2 with None => None | Some (p, s3) => Some ((V6 a, p), s3)
  end end end.

(* IpNet::from_str: first alternative that parses, then end of input *)
Definition parse_cidr (s : list N) : option net :=
  match (match read_v4net s with Some r => Some r | None => read_v6net s end) with
  | Some (n, []) => Some n
  | _ => None
  end.

(* IpAddr::from_str *)
Definition parse_ip_std (s : list N) : option ip :=
  match (match read_ipv4 std_fl s with
         | Some (a, r) => Some (V4 a, r)
         | None => match read_ipv6 std_fl s with Some (a, r) => Some (V6 a, r) | None => None end
         end) with
  | Some (a, []) => Some a
  | _ => None
  end.

Definition host_net (a : ip) : net := (a, width a).

(* add_allowed_address.  [fixed = false] is the code before the fix commit (CIDR notation only). *)
Definition parse_entry_gen (fixed : bool) (s : list N) : option net :=
  match parse_cidr s with
  | Some n => Some n
  | None => if fixed then option_map host_net (parse_ip_std s) else None
  end.
Definition parse_entry : list N -> option net := parse_entry_gen true.

(* the builder's allowlist after add_allowed_address on every entry, in order: None = no entry was
   added (allow all); an invalid entry is a build error (outer None) *)
Fixpoint parse_all (fixed : bool) (es : list (list N)) : option (list net) :=
  match es with
  | [] => Some []
  | e :: r =>
      match parse_entry_gen fixed e, parse_all fixed r with
      | Some n, Some l => Some (n :: l)
      | _, _ => None
      end
  end.
Definition allowlist_of (nets : list net) : option (list net) :=
  match nets with [] => None | _ => Some nets end.

(* ------------------------------------------------------------------------------ request handling *)
Definition health : list N := [47; 104; 101; 97; 108; 116; 104].   (* "/health" *)
Definition ok_body : list N := [79; 75].                            (* "OK" *)

Fixpoint bytes_eqb (a b : list N) : bool :=
  match a, b with
  | [], [] => true
  | x :: r, y :: r' => (x =? y) && bytes_eqb r r'
  | _, _ => false
  end.

(* http::Uri::path() of an origin-form request target: up to the first '?' or '#' *)
Fixpoint req_path (target : list N) : list N :=
  match target with
  | [] => []
  | c :: r => if (c =? 63) || (c =? 35) then [] else c :: req_path r
  end.

Definition resp := (N * list N)%type.   (* status, body *)

(* handle_http_request *)
Definition respond (is_allowed : bool) (target render_out : list N) : resp :=
  if is_allowed then
    if bytes_eqb (req_path target) health then (200, ok_body) else (200, render_out)
  else (403, []).

(* ------------------------------------------------------------------------------ the accept loop *)
(* One task per accepted connection; [c_allowed] is computed when the connection is accepted
   (process_tcp_stream) and captured by the task's service closure. *)
Record conn := { c_id : N; c_allowed : bool; c_open : bool }.
Record state := {
  st_allow : option (list net);   (* HttpListeningExporter.allowed_addresses *)
  st_listening : bool;            (* the serve_tcp loop is running *)
  st_render : list N;             (* what handle.render() returns now *)
  st_next : N;
  st_conns : list conn
}.

Inductive conn_event :=
| EvRequest (target : list N)     (* a well-formed request arrives *)
| EvOversize (code : N)           (* a request beyond the HTTP layer's own limits (head size, target length,
                                     header count): hyper answers an error status itself, the service is not
                                     called, and the connection ends *)
| EvGarbage                       (* bytes hyper cannot parse: serve_connection ends with an error *)
| EvReset                         (* the peer resets the connection *)
| EvIdle                          (* nothing arrives (half-open) *)
| EvClose.                        (* orderly end of the connection *)

Inductive event :=
| Accept (peer : ip)
| AcceptErr                       (* listener.accept() returned an error: warn, continue *)
| Conn (id : N) (e : conn_event)
| Update (render : list N).       (* the recorder's state changes *)

Definition find_conn (id : N) (cs : list conn) : option conn := find (fun c => c_id c =? id) cs.
Definition close_conn (id : N) (cs : list conn) : list conn :=
  map (fun c => if c_id c =? id then {| c_id := c_id c; c_allowed := c_allowed c; c_open := false |} else c) cs.

Definition step (s : state) (e : event) : state * option resp :=
  match e with
  | Accept peer =>
      if st_listening s then
        ({| st_allow := st_allow s; st_listening := st_listening s; st_render := st_render s;
            st_next := st_next s + 1;
            st_conns := {| c_id := st_next s; c_allowed := allowed (st_allow s) peer; c_open := true |} :: st_conns s |},
         None)
      else (s, None)
  | AcceptErr => (s, None)
  | Conn id ev =>
      match find_conn id (st_conns s) with
      | Some c =>
          if c_open c then
            match ev with
            | EvRequest t => (s, Some (respond (c_allowed c) t (st_render s)))
            | EvIdle => (s, None)
            | EvOversize code =>
                ({| st_allow := st_allow s; st_listening := st_listening s; st_render := st_render s;
                    st_next := st_next s; st_conns := close_conn id (st_conns s) |}, Some (code, []))
            | EvGarbage | EvReset | EvClose =>
                ({| st_allow := st_allow s; st_listening := st_listening s; st_render := st_render s;
                    st_next := st_next s; st_conns := close_conn id (st_conns s) |}, None)
            end
          else (s, None)
      | None => (s, None)
      end
  | Update r =>
      ({| st_allow := st_allow s; st_listening := st_listening s; st_render := r;
          st_next := st_next s; st_conns := st_conns s |}, None)
  end.

Fixpoint run (s : state) (evs : list event) : state * list (option resp) :=
  match evs with
  | [] => (s, [])
  | e :: r => let '(s1, o) := step s e in let '(s2, os) := run s1 r in (s2, o :: os)
  end.

Definition init_state (al : option (list net)) (render : list N) : state :=
  {| st_allow := al; st_listening := true; st_render := render; st_next := 0; st_conns := [] |}.
