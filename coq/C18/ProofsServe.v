(* C18 — the accept loop: no connection event changes the listener; what a new connection is answered depends
   only on (allowlist, peer, target, current rendering); the model meets the executable specification. *)
From Coq Require Import List NArith Bool Lia.
Import ListNotations.
Require Import MV.C18.Model MV.C18.Spec MV.C18.Exec MV.C18.ProofsNet MV.C18.ProofsParse.
Open Scope N_scope.

(* ------------------------------------------------------------------ listener invariants *)
Lemma step_preserves s e :
  st_allow (fst (step s e)) = st_allow s /\ st_listening (fst (step s e)) = st_listening s.
Proof.
  destruct e as [peer| |id ev|r]; cbn [step].
  - destruct (st_listening s) eqn:E; cbn [fst st_allow st_listening]; split; auto.
  - split; reflexivity.
  - destruct (find_conn id (st_conns s)) as [c|]; [|split; reflexivity].
    destruct (c_open c); [|split; reflexivity]. destruct ev; split; reflexivity.
  - split; reflexivity.
Qed.

Lemma step_render s e : (forall r, e <> Update r) -> st_render (fst (step s e)) = st_render s.
Proof.
  intros H. destruct e as [peer| |id ev|r]; cbn [step].
  - destruct (st_listening s); reflexivity.
  - reflexivity.
  - destruct (find_conn id (st_conns s)) as [c|]; [|reflexivity].
    destruct (c_open c); [|reflexivity]. destruct ev; reflexivity.
  - exfalso. apply (H r). reflexivity.
Qed.

Lemma run_cons s e r : run s (e :: r) = (fst (run (fst (step s e)) r), snd (step s e) :: snd (run (fst (step s e)) r)).
Proof. cbn [run]. destruct (step s e) as [s1 o]. cbn [fst snd]. destruct (run s1 r) as [s2 os]. reflexivity. Qed.

Theorem connections_independent evs : forall s,
  st_allow (fst (run s evs)) = st_allow s /\ st_listening (fst (run s evs)) = st_listening s.
Proof.
  induction evs as [|e r IH]; intros s; [split; reflexivity|].
  rewrite run_cons. cbn [fst]. destruct (IH (fst (step s e))) as [A B].
  destruct (step_preserves s e) as [C D]. split; congruence.
Qed.

(* ------------------------------------------------------------------ one connection *)
Definition new_conn (s : state) (peer : ip) : conn :=
  {| c_id := st_next s; c_allowed := allowed (st_allow s) peer; c_open := true |}.

Lemma accept_state s peer :
  st_listening s = true ->
  fst (step s (Accept peer)) =
    {| st_allow := st_allow s; st_listening := true; st_render := st_render s;
       st_next := st_next s + 1; st_conns := new_conn s peer :: st_conns s |}.
Proof. intros H. cbn [step]. rewrite H. reflexivity. Qed.

Lemma request_on_head s c t :
  find_conn (c_id c) (st_conns s) = Some c -> c_open c = true ->
  step s (Conn (c_id c) (EvRequest t)) = (s, Some (respond (c_allowed c) t (st_render s))).
Proof. intros Hf Ho. cbn [step]. rewrite Hf, Ho. reflexivity. Qed.

Lemma requests_run s c : forall targets,
  find_conn (c_id c) (st_conns s) = Some c -> c_open c = true ->
  run s (map (fun t => Conn (c_id c) (EvRequest t)) targets) =
    (s, map (fun t => Some (respond (c_allowed c) t (st_render s))) targets).
Proof.
  induction targets as [|t r IH]; intros Hf Ho; [reflexivity|].
  cbn [map]. rewrite run_cons, request_on_head by assumption. cbn [fst snd].
  rewrite IH by assumption. reflexivity.
Qed.

Definition over_resp (over : option N) : list resp :=
  match over with Some code => [(code, [])] | None => [] end.

Lemma serve_conn_spec s peer targets over fin :
  st_listening s = true ->
  snd (serve_conn s peer targets over fin) =
    map (fun t => respond (allowed (st_allow s) peer) t (st_render s)) targets ++ over_resp over /\
  st_allow (fst (serve_conn s peer targets over fin)) = st_allow s /\
  st_listening (fst (serve_conn s peer targets over fin)) = true /\
  st_render (fst (serve_conn s peer targets over fin)) = st_render s.
Proof.
  intros Hl. unfold serve_conn.
  pose proof (accept_state s peer Hl) as Ea.
  destruct (step s (Accept peer)) as [s1 o1]. cbn [fst] in Ea.
  assert (Hf : find_conn (c_id (new_conn s peer)) (st_conns s1) = Some (new_conn s peer)).
  { rewrite Ea. cbn [st_conns]. unfold find_conn. cbn [find]. rewrite N.eqb_refl. reflexivity. }
  pose proof (requests_run s1 (new_conn s peer) targets Hf eq_refl) as Er.
  cbn [new_conn c_id c_allowed] in Er. rewrite Er.
  assert (S1 : st_allow s1 = st_allow s /\ st_listening s1 = true /\ st_render s1 = st_render s)
    by (rewrite Ea; repeat split).
  destruct S1 as (A1 & L1 & R1).
  destruct over as [code|].
  - (* the oversize request: answered by the HTTP layer, the connection ends *)
    assert (Eo : snd (step s1 (Conn (st_next s) (EvOversize code))) = Some (code, [])).
    { cbn [step]. cbn [new_conn c_id] in Hf. rewrite Hf. reflexivity. }
    destruct (step_preserves s1 (Conn (st_next s) (EvOversize code))) as [P1 P2].
    assert (P3 : st_render (fst (step s1 (Conn (st_next s) (EvOversize code)))) = st_render s1)
      by (apply step_render; intros r; discriminate).
    destruct (step s1 (Conn (st_next s) (EvOversize code))) as [s3 oo]. cbn [fst snd] in *. subst oo.
    destruct (step_preserves s3 (Conn (st_next s) fin)) as [Q1 Q2].
    assert (Q3 : st_render (fst (step s3 (Conn (st_next s) fin))) = st_render s3)
      by (apply step_render; intros r; discriminate).
    rewrite Q1, Q2, Q3, P1, P2, P3, A1, L1, R1. repeat split.
    rewrite map_app, map_map. cbn [map unwrap over_resp]. try rewrite Ea; cbn [st_render]; reflexivity.
  - destruct (step_preserves s1 (Conn (st_next s) fin)) as [P1 P2].
    assert (P3 : st_render (fst (step s1 (Conn (st_next s) fin))) = st_render s1)
      by (apply step_render; intros r; discriminate).
    cbn [fst snd]. rewrite P1, P2, P3, A1, L1, R1. repeat split.
    rewrite !app_nil_r, map_map. cbn [unwrap over_resp]. try rewrite Ea; cbn [st_render]; reflexivity.
Qed.

Lemma burst_spec n : forall s peer target,
  st_listening s = true ->
  snd (burst s n peer target) = repeat (respond (allowed (st_allow s) peer) target (st_render s)) n /\
  st_allow (fst (burst s n peer target)) = st_allow s /\
  st_listening (fst (burst s n peer target)) = true /\
  st_render (fst (burst s n peer target)) = st_render s.
Proof.
  induction n as [|k IH]; intros s peer target Hl; cbn [burst].
  - cbn [fst snd repeat]. repeat split. exact Hl.
  - destruct (serve_conn_spec s peer [target] None EvIdle Hl) as (R & A & L & Rd).
    destruct (serve_conn s peer [target] None EvIdle) as [s1 rs]. cbn [fst snd over_resp] in *. rewrite app_nil_r in R.
    destruct (IH s1 peer target L) as (R' & A' & L' & Rd').
    destruct (burst s1 k peer target) as [s2 rs']. cbn [fst snd] in *.
    subst rs rs'. rewrite A, Rd. cbn [map repeat app]. repeat split; congruence.
Qed.

(* ------------------------------------------------------------------ scenarios against the specification *)
Lemma respond_spec al_model al peer t r :
  allowed al_model peer = spec_allowed al peer ->
  respond (allowed al_model peer) t r = spec_respond al peer t r.
Proof. intros E. unfold spec_respond. rewrite <- E. reflexivity. Qed.

Lemma refused_code code : negb (code =? 200) = true -> refused (code, []) = true.
Proof. intros H. unfold refused. cbn [fst snd]. rewrite H. reflexivity. Qed.

Lemma run_sstep_spec al s st :
  st_listening s = true -> wf_sstep st = true ->
  (forall peer, wf_ip peer = true -> allowed (st_allow s) peer = spec_allowed al peer) ->
  snd (run_sstep s st) = spec_sout al st (snd (run_sstep s st)) /\
  st_allow (fst (run_sstep s st)) = st_allow s /\ st_listening (fst (run_sstep s st)) = true.
Proof.
  intros Hl Hw Hal. destruct st as [peer render targets over|n peer render target|kind peer|]; cbn [run_sstep wf_sstep spec_sout] in *.
  - apply andb_prop in Hw as [Hw Ho].
    set (s0 := fst (step s (Update render))).
    assert (L0 : st_listening s0 = true) by (unfold s0; cbn [step fst st_listening]; exact Hl).
    destruct (serve_conn_spec s0 peer targets (option_map fst over) EvClose L0) as (R & A & L & _).
    destruct (serve_conn s0 peer targets (option_map fst over) EvClose) as [s1 rs]. cbn [fst snd] in *.
    repeat split; [|exact A|exact L].
    assert (Em : map (fun t => respond (allowed (st_allow s0) peer) t (st_render s0)) targets =
                 map (fun t => spec_respond al peer t render) targets).
    { apply map_ext. intros t. apply respond_spec. apply Hal. exact Hw. }
    rewrite Em in R. subst rs. f_equal. f_equal.
    destruct over as [[code t]|]; [|reflexivity]. cbn [option_map fst over_resp].
    rewrite app_nth2 by (rewrite map_length; apply le_n).
    rewrite map_length, PeanoNat.Nat.sub_diag. cbn [nth]. unfold over_expected.
    rewrite refused_code by exact Ho. reflexivity.
  - set (s0 := fst (step s (Update render))).
    assert (L0 : st_listening s0 = true) by (unfold s0; cbn [step fst st_listening]; exact Hl).
    destruct (burst_spec (N.to_nat n) s0 peer target L0) as (R & A & L & _).
    destruct (burst s0 (N.to_nat n) peer target) as [s1 rs]. cbn [fst snd] in *.
    subst rs. repeat split; [|exact A|exact L]. f_equal. f_equal.
    apply respond_spec. apply Hal. exact Hw.
  - destruct (serve_conn_spec s peer [] None (fault_event kind) Hl) as (_ & A & L & _).
    destruct (serve_conn s peer [] None (fault_event kind)) as [s1 rs]. cbn [fst snd] in *.
    repeat split; assumption.
  - cbn [fst snd]. repeat split. exact Hl.
Qed.

Lemma run_ssteps_spec al steps : forall s,
  st_listening s = true -> forallb wf_sstep steps = true ->
  (forall peer, wf_ip peer = true -> allowed (st_allow s) peer = spec_allowed al peer) ->
  run_ssteps s steps = spec_souts al steps (run_ssteps s steps).
Proof.
  induction steps as [|st r IH]; intros s Hl Hw Hal; [reflexivity|].
  cbn [forallb] in Hw. apply andb_prop in Hw as [Hw1 Hw2].
  cbn [run_ssteps spec_souts]. destruct (run_sstep_spec al s st Hl Hw1 Hal) as (O & A & L).
  destruct (run_sstep s st) as [s1 o]. cbn [fst snd hd tl] in *. f_equal; [exact O|].
  apply IH; [exact L | exact Hw2 |]. intros peer Hp. rewrite A. apply Hal. exact Hp.
Qed.

Lemma dec2b_true {A} (d : forall a b : A, {a = b} + {a <> b}) a b : dec2b d a b = true <-> a = b.
Proof. unfold dec2b. destruct (d a b); split; intros; try discriminate; try contradiction; auto. Qed.

Lemma dec2b_refl {A} (d : forall a b : A, {a = b} + {a <> b}) a : dec2b d a a = true.
Proof. apply dec2b_true. reflexivity. Qed.

Lemma wf_entry4_net e : wf_entry4 e = true -> wf_net (entry4_net e) = true.
Proof.
  unfold wf_entry4, wf_net, wf_ip, entry4_net. cbn [fst snd ipval width]. intros H.
  apply andb_prop in H as [H _]. exact H.
Qed.

Lemma entry_ok_parses txt e : entry_ok (txt, e) = true ->
  parse_entry txt = Some (sentry_net e) /\ wf_net (sentry_net e) = true.
Proof.
  destruct e as [i|n]; cbn [entry_ok sentry_net]; intros H.
  - apply andb_prop in H as [Hw Ht]. apply dec2b_true in Ht. subst txt.
    split; [apply entry4_parses; exact Hw | apply wf_entry4_net; exact Hw].
  - apply dec2b_true in H. split; [exact H|]. eapply parse_entry_wf. exact H.
Qed.

Lemma parse_all_entries entries :
  forallb entry_ok entries = true ->
  parse_all true (map fst entries) = Some (map sentry_net (map snd entries)).
Proof.
  induction entries as [|[txt e] r IH]; intros H; [reflexivity|].
  cbn [forallb] in H. apply andb_prop in H as [H1 H2].
  destruct (entry_ok_parses txt e H1) as [P _]. cbn [map fst snd parse_all].
  change (parse_entry_gen true) with parse_entry. rewrite P, IH by exact H2. reflexivity.
Qed.

Lemma entries_wf entries : forallb entry_ok entries = true ->
  forall n, In n (map sentry_net (map snd entries)) -> wf_net n = true.
Proof.
  intros H n Hin. rewrite map_map in Hin. apply in_map_iff in Hin as ([txt e] & <- & Hx).
  rewrite forallb_forall in H. apply (entry_ok_parses txt e (H _ Hx)).
Qed.

Lemma allowlists_agree_nets nets peer :
  (forall n, In n nets -> wf_net n = true) -> wf_ip peer = true ->
  allowed (allowlist_of nets) peer = spec_allowed (spec_allowlist_nets nets) peer.
Proof.
  intros Hw Hp. destruct nets as [|n r]; [reflexivity|].
  change (allowlist_of (n :: r)) with (Some (n :: r)).
  change (spec_allowlist_nets (n :: r)) with (Some (n :: r)).
  apply allowed_spec; [|exact Hp]. exact Hw.
Qed.

Lemma allowlists_agree es peer :
  forallb wf_entry4 es = true -> wf_ip peer = true ->
  allowed (allowlist_of (map entry4_net es)) peer = spec_allowed (spec_allowlist es) peer.
Proof.
  intros Hw Hp. unfold spec_allowlist. apply allowlists_agree_nets; [|exact Hp].
  intros n Hin. apply in_map_iff in Hin as (x & <- & Hx).
  apply wf_entry4_net. rewrite forallb_forall in Hw. apply Hw. exact Hx.
Qed.

Lemma bits_for_agree n peers :
  wf_net n = true -> forallb wf_ip peers = true ->
  bits_for contains (Some n) peers = bits_for spec_contains (Some n) peers.
Proof.
  intros Hn Hp. unfold bits_for. destruct peers as [|p r]; [reflexivity|]. f_equal.
  apply map_ext_in. intros x Hx. apply contains_iff; [exact Hn|].
  rewrite forallb_forall in Hp. apply Hp. exact Hx.
Qed.

Theorem spec_ok_on_model c : wf_case c = true -> spec_ok c (run_case c) = true.
Proof.
  intros Hwf. unfold spec_ok. rewrite Hwf. cbn [andb].
  destruct c as [e intent peers|entries steps]; cbn [wf_case] in Hwf; unfold run_case; cbn [run_case_gen].
  - apply andb_prop in Hwf as [Hp Hi].
    apply andb_true_intro. split; [apply andb_true_intro; split|].
    + destruct (or_else (parse_entry_gen true e) (parse_cidr e)) as [n|] eqn:En.
      * assert (Hn : wf_net n = true).
        { unfold or_else in En. destruct (parse_entry_gen true e) as [m|] eqn:Em.
          - inversion En; subst. eapply parse_entry_wf. exact Em.
          - eapply parse_cidr_wf. exact En. }
        rewrite Hn. apply dec2b_true. apply bits_for_agree; assumption.
      * reflexivity.
    + apply dec2b_true. unfold parse_entry_gen. destruct (parse_cidr e); reflexivity.
    + destruct intent as [i|]; [|reflexivity]. apply andb_prop in Hi as [Hw Ht].
      apply dec2b_true in Ht. subst e. apply dec2b_true. apply entry4_parses. exact Hw.
  - apply andb_prop in Hwf as [He Hs].
    rewrite parse_all_entries by exact He. apply dec2b_true.
    apply run_ssteps_spec; [reflexivity | exact Hs |].
    intros peer Hp. cbn [init_state st_allow]. unfold spec_allowlist_s.
    apply allowlists_agree_nets; [apply entries_wf; exact He | exact Hp].
Qed.

(* ---- what spec_ok means *)
Theorem spec_ok_serve_iff entries steps o :
  spec_ok (CServe entries steps) o = true <->
  wf_case (CServe entries steps) = true /\
  exists l, o = OServe l /\ l = spec_souts (spec_allowlist_s (map snd entries)) steps l.
Proof.
  unfold spec_ok. rewrite andb_true_iff. split.
  - intros [Hw H]. split; [exact Hw|]. destruct o; try discriminate. apply dec2b_true in H. exists l. auto.
  - intros [Hw (l & -> & E)]. split; [exact Hw|]. apply dec2b_true. exact E.
Qed.

(* what the fixed-point form says, step by step *)
Theorem spec_souts_meaning al : forall steps l,
  l = spec_souts al steps l <->
  length l = length steps /\ forall i st o, nth_error steps i = Some st -> nth_error l i = Some o -> o = spec_sout al st o.
Proof.
  induction steps as [|st r IH]; intros l; cbn [spec_souts].
  - split.
    + intros ->. split; [reflexivity|]. intros [|i] st o H; discriminate.
    + intros [H _]. destruct l; [reflexivity|discriminate].
  - split.
    + intros E. destruct l as [|o l']; [discriminate|]. cbn [hd tl] in E. injection E as E1 E2.
      apply IH in E2 as [E2 E3]. split; [cbn [length]; congruence|].
      intros [|i] st' o' H1 H2; cbn [nth_error] in *.
      * inversion H1; inversion H2; subst. exact E1.
      * eapply E3; eassumption.
    + intros [Hlen H]. destruct l as [|o l']; [discriminate|]. cbn [hd tl]. f_equal.
      * apply (H 0%nat st o); reflexivity.
      * apply IH. split; [cbn [length] in Hlen; congruence|].
        intros i st' o' H1 H2. apply (H (S i) st' o'); assumption.
Qed.

Theorem spec_ok_entry_sound e intent peers o :
  spec_ok (CEntry e intent peers) o = true ->
  exists lib built std bits, o = OEntry lib built std bits /\
    built = (match lib with Some n => Some n | None => option_map host_net std end) /\
    (forall i, intent = Some i -> e = print_entry4 i /\ wf_entry4 i = true /\ built = Some (entry4_net i)) /\
    (forall n, or_else built lib = Some n -> wf_net n = true /\ bits = bits_for spec_contains (Some n) peers) /\
    (or_else built lib = None -> bits = None).
Proof.
  unfold spec_ok. rewrite andb_true_iff. intros [Hw H]. destruct o as [lib built std bits| | |]; try discriminate.
  exists lib, built, std, bits. split; [reflexivity|].
  apply andb_prop in H as [H H3]. apply andb_prop in H as [H1 H2].
  apply dec2b_true in H2. cbn [wf_case] in Hw. apply andb_prop in Hw as [_ Hi].
  split; [exact H2|]. split; [|split].
  - intros i ->. apply andb_prop in Hi as [Hwi Ht]. apply dec2b_true in Ht. apply dec2b_true in H3. auto.
  - intros n En. rewrite En in H1. destruct (wf_net n); [|discriminate]. apply dec2b_true in H1. auto.
  - intros En. rewrite En in H1. destruct bits; [discriminate|reflexivity].
Qed.

(* ------------------------------------------------------------------ end to end *)
(* Whatever happened on the listener before (any events: other connections served, garbage, resets, half-open
   sockets, accept errors, metric updates), a new connection from [peer] asking for [target] is answered as the
   specification says, from the entries as written, with the rendering current at that time. *)
Theorem served_per_spec entries r0 :
  forallb entry_ok entries = true ->
  exists nets, parse_all true (map fst entries) = Some nets /\
    forall evs peer target, wf_ip peer = true ->
      let s1 := fst (run (init_state (allowlist_of nets) r0) evs) in
      snd (step (fst (step s1 (Accept peer))) (Conn (st_next s1) (EvRequest target))) =
        Some (spec_respond (spec_allowlist_s (map snd entries)) peer target (st_render s1)).
Proof.
  intros Hw. exists (map sentry_net (map snd entries)). split; [apply parse_all_entries; exact Hw|].
  intros evs peer target Hp s1.
  destruct (connections_independent evs (init_state (allowlist_of (map sentry_net (map snd entries))) r0)) as [A L].
  fold s1 in A, L. cbn [init_state st_allow st_listening] in A, L.
  pose proof (accept_state s1 peer L) as Ea.
  assert (Hf : find_conn (st_next s1) (st_conns (fst (step s1 (Accept peer)))) = Some (new_conn s1 peer)).
  { rewrite Ea. cbn [st_conns]. unfold find_conn. cbn [find new_conn c_id]. rewrite N.eqb_refl. reflexivity. }
  pose proof (request_on_head (fst (step s1 (Accept peer))) (new_conn s1 peer) target Hf eq_refl) as R.
  cbn [new_conn c_id c_allowed] in R. rewrite R. cbn [snd]. f_equal.
  rewrite Ea. cbn [st_render]. rewrite A. apply respond_spec. unfold spec_allowlist_s.
  apply allowlists_agree_nets; [apply entries_wf; exact Hw | exact Hp].
Qed.

(* the same for IPv4 entries in the documented syntax, from the entries as written (no parser in the statement) *)
Theorem served_per_spec_v4 es r0 :
  forallb wf_entry4 es = true ->
  exists nets, parse_all true (map print_entry4 es) = Some nets /\
    forall evs peer target, wf_ip peer = true ->
      let s1 := fst (run (init_state (allowlist_of nets) r0) evs) in
      snd (step (fst (step s1 (Accept peer))) (Conn (st_next s1) (EvRequest target))) =
        Some (spec_respond (spec_allowlist es) peer target (st_render s1)).
Proof.
  intros Hw.
  assert (E : forallb entry_ok (map (fun i => (print_entry4 i, E4 i)) es) = true).
  { rewrite forallb_forall in *. intros [txt e] Hin. apply in_map_iff in Hin as (x & Hx & Hin).
    inversion Hx; subst. cbn [entry_ok]. rewrite (Hw _ Hin), dec2b_refl. reflexivity. }
  destruct (served_per_spec _ r0 E) as (nets & P & H). exists nets. split.
  - rewrite map_map in P. cbn [fst] in P. exact P.
  - intros evs peer target Hp. specialize (H evs peer target Hp). cbn zeta in *. rewrite H. f_equal. f_equal.
    unfold spec_allowlist_s, spec_allowlist. rewrite !map_map. reflexivity.
Qed.
