(* C18 — the parsers on the documented (printed) syntax, and the range of everything they return. *)
From Coq Require Import List NArith ZArith Bool Lia.
Import ListNotations.
Require Import MV.C18.Model MV.C18.Spec.
Open Scope N_scope.

Ltac oct := first [apply N.mod_lt; discriminate | apply N.div_lt_upper_bound; [discriminate | lia]].

(* ------------------------------------------------------------------ numbers followed by something else *)
Definition stops (radix : N) (rest : list N) : Prop :=
  match rest with [] => True | x :: _ => digit_val radix x = None end.

Lemma read_digits_app radix maxd upto ds : forall rest r cnt v c,
  stops radix rest ->
  read_digits radix maxd upto ds r cnt = Some (v, c, []) ->
  read_digits radix maxd upto (ds ++ rest) r cnt = Some (v, c, rest).
Proof.
  induction ds as [|d ds IH]; intros rest r cnt v c Hs H.
  - cbn [read_digits] in H. destruct (cnt =? 0) eqn:E; [discriminate|]. inversion H; subst.
    cbn [app]. destruct rest as [|x rest]; cbn [read_digits]; [rewrite E; reflexivity|].
    cbn [stops] in Hs. rewrite Hs, E. reflexivity.
  - cbn [read_digits app] in *. destruct (digit_val radix d).
    + destruct ((maxd <? cnt + 1) || (upto <=? r * radix + n)); [discriminate|]. apply IH; assumption.
    + destruct (cnt =? 0); discriminate.
Qed.

Lemma read_number_app strict radix maxd upto ds rest v :
  stops radix rest ->
  read_number strict radix maxd upto ds = Some (v, []) ->
  read_number strict radix maxd upto (ds ++ rest) = Some (v, rest).
Proof.
  intros Hs H. unfold read_number in *.
  destruct (read_digits radix maxd upto ds 0 0) as [[[r c] rest0]|] eqn:E; [|discriminate].
  assert (Hz : starts_with_zero (ds ++ rest) = starts_with_zero ds).
  { destruct ds; [cbn [read_digits] in E; discriminate | reflexivity]. }
  rewrite Hz.
  destruct (strict && starts_with_zero ds && (1 <? c)) eqn:Ec; [discriminate|]. inversion H; subst.
  rewrite (read_digits_app _ _ _ _ _ _ _ _ _ Hs E), Ec. reflexivity.
Qed.

Lemma forall_below (P : N -> bool) (n : nat) :
  forallb P (map N.of_nat (seq 0 n)) = true -> forall a, a < N.of_nat n -> P a = true.
Proof.
  intros H a Ha. rewrite forallb_forall in H. apply H. apply in_map_iff.
  exists (N.to_nat a). split; [apply N2Nat.id | apply in_seq; lia].
Qed.

Definition num_ok (strict : bool) (maxd upto a : N) : bool :=
  match read_number strict 10 maxd upto (dec a) with
  | Some (v, []) => v =? a
  | _ => false
  end.

Lemma num_ok_sound strict maxd upto a :
  num_ok strict maxd upto a = true -> read_number strict 10 maxd upto (dec a) = Some (a, []).
Proof.
  unfold num_ok. destruct (read_number strict 10 maxd upto (dec a)) as [[v [|x r]]|]; try discriminate.
  intros H. apply N.eqb_eq in H. subst. reflexivity.
Qed.

Lemma octet_ok fl a : a < 256 -> read_octet fl (dec a) = Some (a, []).
Proof.
  intros Ha. unfold read_octet. apply num_ok_sound.
  apply (forall_below (num_ok (strict_octets fl) 3 256) 256); [|exact Ha].
  destruct (strict_octets fl); vm_compute; reflexivity.
Qed.

Lemma plen4_ok p : p <= 32 -> read_number false 10 2 33 (dec p) = Some (p, []).
Proof.
  intros Hp. apply num_ok_sound. apply (forall_below (num_ok false 2 33) 33); [|lia].
  vm_compute. reflexivity.
Qed.

Lemma octet_app fl a rest : a < 256 -> stops 10 rest -> read_octet fl (dec a ++ rest) = Some (a, rest).
Proof. intros Ha Hs. unfold read_octet. apply read_number_app; [exact Hs|]. apply octet_ok. exact Ha. Qed.

Lemma quad_value a : a < 4294967296 ->
  ((a / 16777216 * 256 + (a / 65536) mod 256) * 256 + (a / 256) mod 256) * 256 + a mod 256 = a.
Proof.
  intros Ha.
  pose proof (N.div_mod a 256 ltac:(lia)).
  pose proof (N.div_mod (a / 256) 256 ltac:(lia)).
  pose proof (N.div_mod (a / 256 / 256) 256 ltac:(lia)).
  rewrite !N.div_div in * by lia.
  change (256 * 256) with 65536 in *. change (65536 * 256) with 16777216 in *. lia.
Qed.

Lemma read_ipv4_print fl a rest :
  a < 2 ^ 32 -> stops 10 rest -> read_ipv4 fl (print_v4 a ++ rest) = Some (a, rest).
Proof.
  intros Ha Hs. change (2 ^ 32) with 4294967296 in Ha.
  unfold print_v4. rewrite <- !app_assoc. cbn [app].
  unfold read_ipv4.
  rewrite octet_app; [|oct|reflexivity]. cbn [read_char]. change (46 =? 46) with true. cbv iota.
  rewrite octet_app; [|oct|reflexivity]. cbn [read_char]. change (46 =? 46) with true. cbv iota.
  rewrite octet_app; [|oct|reflexivity]. cbn [read_char]. change (46 =? 46) with true. cbv iota.
  rewrite octet_app; [|oct|exact Hs].
  rewrite quad_value by exact Ha. reflexivity.
Qed.

Lemma read_ipv4_print_nil fl a : a < 2 ^ 32 -> read_ipv4 fl (print_v4 a) = Some (a, []).
Proof.
  intros Ha. rewrite <- (app_nil_r (print_v4 a)). apply read_ipv4_print; [exact Ha | exact I].
Qed.

Theorem cidr_entry_parses a p :
  a < 2 ^ 32 -> p <= 32 -> parse_cidr (print_v4 a ++ 47 :: dec p) = Some (V4 a, p).
Proof.
  intros Ha Hp. unfold parse_cidr, read_v4net.
  rewrite read_ipv4_print; [|exact Ha|reflexivity].
  cbn [read_char]. change (47 =? 47) with true. cbv iota.
  rewrite plen4_ok by exact Hp. reflexivity.
Qed.

Lemma read_groups_first_v4 fl fuel limit s v rest :
  1 < limit -> read_ipv4 fl s = Some (v, rest) ->
  read_groups fl (S fuel) 0 limit s [] = ([v / 65536; v mod 65536], true, rest).
Proof.
  intros Hl H. cbn [read_groups].
  assert (E1 : (0 <? limit) = true) by (apply N.ltb_lt; lia).
  assert (E2 : (0 <? limit - 1) = true) by (apply N.ltb_lt; lia).
  rewrite E1, E2. cbn [negb]. unfold read_sep. change (0 =? 0) with true. cbv iota.
  rewrite H. reflexivity.
Qed.

(* before the fix: a plain address is not a network for IpNet::from_str *)
Theorem plain_not_cidr a : a < 2 ^ 32 -> parse_cidr (print_v4 a) = None.
Proof.
  intros Ha. unfold parse_cidr, read_v4net. rewrite read_ipv4_print_nil by exact Ha.
  cbn [read_char]. unfold read_v6net, read_ipv6.
  change 8%nat with (S 7).
  rewrite (read_groups_first_v4 ipnet_fl 7 8 (print_v4 a) a []); [|lia|apply read_ipv4_print_nil; exact Ha].
  reflexivity.
Qed.

Theorem plain_address_is_host_net a : a < 2 ^ 32 -> parse_entry (print_v4 a) = Some (V4 a, 32).
Proof.
  intros Ha. unfold parse_entry, parse_entry_gen. rewrite plain_not_cidr by exact Ha.
  unfold parse_ip_std. rewrite read_ipv4_print_nil by exact Ha. reflexivity.
Qed.

Theorem plain_address_refuted_before_fix :
  exists a, a < 2 ^ 32 /\ parse_entry_gen false (print_v4 a) = None /\ print_v4 a = [49; 50; 55; 46; 48; 46; 48; 46; 49].
Proof. exists 2130706433. repeat split; vm_compute; reflexivity. Qed.

Lemma cidr_entry_parse_entry fixed a p :
  a < 2 ^ 32 -> p <= 32 -> parse_entry_gen fixed (print_v4 a ++ 47 :: dec p) = Some (V4 a, p).
Proof. intros Ha Hp. unfold parse_entry_gen. rewrite cidr_entry_parses by assumption. reflexivity. Qed.

(* every documented IPv4 entry means what it says *)
Theorem entry4_parses e : wf_entry4 e = true -> parse_entry (print_entry4 e) = Some (entry4_net e).
Proof.
  unfold wf_entry4, print_entry4, entry4_net. intros H.
  apply andb_prop in H as [H H3]. apply andb_prop in H as [H1 H2].
  apply N.ltb_lt in H1. apply N.leb_le in H2.
  destruct (e_plain e).
  - apply N.eqb_eq in H3. rewrite H3, app_nil_r. apply plain_address_is_host_net. exact H1.
  - apply cidr_entry_parse_entry; assumption.
Qed.

(* IPv6 and the remaining IPv4 forms: concrete witnesses of the faithful parsers (the general statement for
   these forms is covered by the correspondence runs only) *)
Example ipv6_examples :
  parse_entry [58; 58; 49] = Some (V6 1, 128) /\                                  (* "::1" *)
  parse_entry [102; 100; 48; 48; 58; 58; 47; 56] = Some (V6 (64768 * 2 ^ 112), 8) /\  (* "fd00::/8" *)
  parse_entry [58; 58; 102; 102; 102; 102; 58; 49; 46; 50; 46; 51; 46; 52; 47; 57; 54]
    = Some (V6 (65535 * 2 ^ 32 + 16909060), 96) /\                                (* "::ffff:1.2.3.4/96" *)
  parse_entry [48; 49; 46; 50; 46; 51; 46; 52; 47; 48; 56] = Some (V4 16909060, 8) /\ (* "01.2.3.4/08": ipnet allows zero prefixes *)
  parse_entry [48; 49; 46; 50; 46; 51; 46; 52] = None /\                          (* "01.2.3.4": std does not *)
  parse_entry [49; 46; 50; 46; 51; 46; 52; 47; 51; 51] = None /\                  (* "1.2.3.4/33" *)
  parse_entry [49; 48; 46; 49; 46; 50; 46; 51; 47; 56] = Some (V4 167838211, 8) /\ (* "10.1.2.3/8": host bits kept *)
  parse_entry [] = None /\ parse_entry [32; 49; 46; 50; 46; 51; 46; 52] = None.
Proof. vm_compute. repeat split; reflexivity. Qed.

(* ------------------------------------------------------------------ range of the parsers' results *)
Lemma read_digits_bound radix maxd upto s : forall r cnt v c rest,
  read_digits radix maxd upto s r cnt = Some (v, c, rest) -> r < upto -> v < upto.
Proof.
  induction s as [|d s IH]; intros r cnt v c rest H Hr; cbn [read_digits] in H.
  - destruct (cnt =? 0); inversion H; subst; exact Hr.
  - destruct (digit_val radix d).
    + destruct (maxd <? cnt + 1); cbn [orb] in H; [discriminate|].
      destruct (N.leb_spec upto (r * radix + n)); [discriminate|]. eapply IH; eassumption.
    + destruct (cnt =? 0); inversion H; subst; exact Hr.
Qed.

Lemma read_number_bound strict radix maxd upto s v rest :
  read_number strict radix maxd upto s = Some (v, rest) -> 0 < upto -> v < upto.
Proof.
  unfold read_number. destruct (read_digits radix maxd upto s 0 0) as [[[r c] rest0]|] eqn:E; [|discriminate].
  destruct (strict && starts_with_zero s && (1 <? c)); [discriminate|]. intros H Hu. inversion H; subst.
  eapply read_digits_bound; eassumption.
Qed.

Lemma read_ipv4_bound fl s v rest : read_ipv4 fl s = Some (v, rest) -> v < 4294967296.
Proof.
  unfold read_ipv4, read_octet.
  destruct (read_number _ 10 3 256 s) as [[a s1]|] eqn:E1; [|discriminate].
  destruct (read_char 46 s1) as [s2|]; [|discriminate].
  destruct (read_number _ 10 3 256 s2) as [[b s3]|] eqn:E2; [|discriminate].
  destruct (read_char 46 s3) as [s4|]; [|discriminate].
  destruct (read_number _ 10 3 256 s4) as [[c s5]|] eqn:E3; [|discriminate].
  destruct (read_char 46 s5) as [s6|]; [|discriminate].
  destruct (read_number _ 10 3 256 s6) as [[d s7]|] eqn:E4; [|discriminate].
  intros H. inversion H; subst.
  apply read_number_bound in E1, E2, E3, E4; lia.
Qed.

Definition small (g : N) : Prop := g < 65536.

Lemma read_groups_bound fl fuel : forall i limit s acc acc' b rest,
  read_groups fl fuel i limit s acc = (acc', b, rest) ->
  Forall small acc -> len acc = i -> i <= limit ->
  Forall small acc' /\ len acc' <= limit.
Proof.
  induction fuel as [|fuel IH]; intros i limit s acc acc' b rest H Hf Hl Hi; cbn [read_groups] in H.
  - inversion H; subst. split; [exact Hf | exact Hi].
  - destruct (N.ltb_spec i limit) as [Hlt|Hge]; cbn [negb] in H; [|inversion H; subst; split; [exact Hf|exact Hi]].
    destruct (if i <? limit - 1 then match read_sep i s with Some s1 => read_ipv4 fl s1 | None => None end else None)
      as [[v s2]|] eqn:E4.
    + inversion H; subst. destruct (N.ltb_spec (len acc) (limit - 1)) as [Hl1|]; [|discriminate].
      destruct (read_sep (len acc) s); [|discriminate]. apply read_ipv4_bound in E4.
      split.
      * apply Forall_app. split; [exact Hf|]. repeat constructor; unfold small; oct.
      * unfold len in *. rewrite app_length. cbn [length]. lia.
    + destruct (read_sep i s) as [s1|]; [|inversion H; subst; split; [exact Hf|lia]].
      destruct (read_number false 16 4 65536 s1) as [[g s2]|] eqn:Eg; [|inversion H; subst; split; [exact Hf|lia]].
      apply read_number_bound in Eg; [|lia].
      apply (IH _ _ _ _ _ _ _ H).
      * apply Forall_app. split; [exact Hf|]. repeat constructor. exact Eg.
      * unfold len in *. rewrite app_length. cbn [length]. lia.
      * lia.
Qed.

Lemma groups_val_bound l : forall acc k,
  acc < 65536 ^ k -> Forall small l -> fold_left (fun acc g => acc * 65536 + g) l acc < 65536 ^ (k + len l).
Proof.
  induction l as [|g l IH]; intros acc k Ha Hf; cbn [fold_left].
  - unfold len. cbn [length N.of_nat]. rewrite N.add_0_r. exact Ha.
  - inversion Hf; subst. unfold small in *.
    replace (k + len (g :: l)) with ((k + 1) + len l) by (unfold len; cbn [length]; lia).
    apply IH; [|assumption]. rewrite N.pow_add_r, N.pow_1_r. nia.
Qed.

Lemma read_ipv6_bound fl s v rest : read_ipv6 fl s = Some (v, rest) -> v < 2 ^ 128.
Proof.
  unfold read_ipv6.
  destruct (read_groups fl 8 0 8 s []) as [[head head4] s1] eqn:Eh.
  apply read_groups_bound in Eh; [|constructor|reflexivity|lia]. destruct Eh as [Hh Hhl].
  assert (G : forall l, Forall small l -> len l = 8 -> groups_val l < 2 ^ 128).
  { intros l Hf Hl. unfold groups_val. change (2 ^ 128) with (65536 ^ (0 + 8)). rewrite <- Hl.
    apply groups_val_bound; [reflexivity | exact Hf]. }
  destruct (N.eqb_spec (len head) 8) as [E8|N8].
  - intros H. inversion H; subst. apply G; assumption.
  - destruct head4; [discriminate|].
    destruct (read_char 58 s1) as [s2|]; [|discriminate].
    destruct (read_char 58 s2) as [s3|]; [|discriminate].
    set (limit := if tail_one_less fl then 8 - (len head + 1) else 8 - len head).
    destruct (read_groups fl (N.to_nat limit) 0 limit s3 []) as [[tail b] s4] eqn:Et.
    apply read_groups_bound in Et; [|constructor|reflexivity|lia]. destruct Et as [Ht Htl].
    intros H. injection H as Hv _. rewrite <- Hv. apply G.
    + apply Forall_app. split; [exact Hh|]. apply Forall_app. split; [|exact Ht].
      apply Forall_forall. intros x Hx. apply repeat_spec in Hx. subst. unfold small. lia.
    + assert (len tail <= 8 - len head) by (unfold limit in Htl; destruct (tail_one_less fl); lia).
      unfold len in *. rewrite !app_length, repeat_length.
      assert (A : forall n t : nat, N.of_nat n <= 8 -> N.of_nat t <= 8 - N.of_nat n ->
                  N.of_nat (n + ((8 - n)%nat - t + t)) = 8) by (intros; lia).
      apply (A (length head) (length tail)); assumption.
Qed.

Lemma parse_cidr_wf s n : parse_cidr s = Some n -> wf_net n = true.
Proof.
  unfold parse_cidr. destruct (read_v4net s) as [[m r]|] eqn:E4.
  - destruct r; [|discriminate]. intros H. inversion H; subst. unfold read_v4net in E4.
    destruct (read_ipv4 ipnet_fl s) as [[a s1]|] eqn:Ea; [|discriminate].
    destruct (read_char 47 s1) as [s2|]; [|discriminate].
    destruct (read_number false 10 2 33 s2) as [[p s3]|] eqn:Ep; [|discriminate].
    inversion E4; subst. apply read_ipv4_bound in Ea. apply read_number_bound in Ep; [|lia].
    unfold wf_net, wf_ip. cbn [fst snd ipval width]. change (2 ^ 32) with 4294967296.
    apply andb_true_intro. split; [apply N.ltb_lt; exact Ea | apply N.leb_le; lia].
  - destruct (read_v6net s) as [[m r]|] eqn:E6; [|discriminate].
    destruct r; [|discriminate]. intros H. inversion H; subst. unfold read_v6net in E6.
    destruct (read_ipv6 ipnet_fl s) as [[a s1]|] eqn:Ea; [|discriminate].
    destruct (read_char 47 s1) as [s2|]; [|discriminate].
    destruct (read_number false 10 3 129 s2) as [[p s3]|] eqn:Ep; [|discriminate].
    inversion E6; subst. apply read_ipv6_bound in Ea. apply read_number_bound in Ep; [|lia].
    unfold wf_net, wf_ip. cbn [fst snd ipval width].
    apply andb_true_intro. split; [apply N.ltb_lt; exact Ea | apply N.leb_le; lia].
Qed.

Lemma parse_ip_std_wf s a : parse_ip_std s = Some a -> wf_ip a = true.
Proof.
  unfold parse_ip_std. destruct (read_ipv4 std_fl s) as [[v r]|] eqn:E4.
  - destruct r; [|discriminate]. intros H. inversion H; subst. apply read_ipv4_bound in E4.
    unfold wf_ip. cbn [ipval width]. change (2 ^ 32) with 4294967296. apply N.ltb_lt. exact E4.
  - destruct (read_ipv6 std_fl s) as [[v r]|] eqn:E6; [|discriminate].
    destruct r; [|discriminate]. intros H. inversion H; subst. apply read_ipv6_bound in E6.
    unfold wf_ip. cbn [ipval width]. apply N.ltb_lt. exact E6.
Qed.

Theorem parse_entry_wf fixed s n : parse_entry_gen fixed s = Some n -> wf_net n = true.
Proof.
  unfold parse_entry_gen. destruct (parse_cidr s) as [m|] eqn:Ec.
  - intros H. inversion H; subst. eapply parse_cidr_wf. exact Ec.
  - destruct fixed; [|discriminate]. destruct (parse_ip_std s) as [a|] eqn:Ea; [|discriminate].
    cbn [option_map]. intros H. inversion H; subst. apply parse_ip_std_wf in Ea.
    unfold wf_net, host_net. cbn [fst snd]. rewrite Ea, N.leb_refl. reflexivity.
Qed.
