(* C18 — executable entry points used by the correspondence check (cases.v). *)
From Coq Require Import List NArith Bool.
Import ListNotations.
Require Export MV.C18.Model MV.C18.Spec.
Open Scope N_scope.

(* one step of a server scenario (layer T) *)
Inductive sstep :=
| SConn (peer : ip) (render : list N) (targets : list (list N)) (over : option (N * list N))
    (* one connection whose peer address, as the listener sees it, is [peer]; keep-alive requests within the HTTP
       layer's limits; optionally a last request beyond them: (the status the unchanged HTTP layer refuses it
       with, its target) *)
| SBurst (n : N) (peer : ip) (render : list N) (target : list N) (* n concurrent connections, one GET each *)
| SFault (kind : N) (peer : ip)                                  (* 0 garbage bytes, 1 half-open, 2 reset *)
| SInc.                                                         (* a metric is updated *)

Inductive case :=
| CEntry (entry : list N) (intent : option entry4) (peers : list ip)          (* layer D *)
| CServe (entries : list (list N * sentry)) (steps : list sstep).             (* layer T *)

Inductive sout := OC (rs : list resp) | OB (rs : list resp) | OFault | OInc.
Inductive OUT :=
| OEntry (lib built : option net) (std : option ip) (bits : option (list bool))
| OBuildErr
| OServe (l : list sout)
| OPanic.

(* ---- decidable equalities (transparent, so that vm_compute evaluates them) *)
Definition ip_eq_dec : forall a b : ip, {a = b} + {a <> b}.
Proof. decide equality; apply N.eq_dec. Defined.
Definition net_eq_dec : forall a b : net, {a = b} + {a <> b}.
Proof. decide equality; [apply N.eq_dec | apply ip_eq_dec]. Defined.
Definition opt_eq_dec {A} (d : forall a b : A, {a = b} + {a <> b}) : forall a b : option A, {a = b} + {a <> b}.
Proof. decide equality. Defined.
Definition bytes_eq_dec : forall a b : list N, {a = b} + {a <> b} := list_eq_dec N.eq_dec.
Definition resp_eq_dec : forall a b : resp, {a = b} + {a <> b}.
Proof. decide equality; [apply bytes_eq_dec | apply N.eq_dec]. Defined.
Definition sout_eq_dec : forall a b : sout, {a = b} + {a <> b}.
Proof. decide equality; apply (list_eq_dec resp_eq_dec). Defined.
Definition OUT_eq_dec : forall a b : OUT, {a = b} + {a <> b}.
Proof.
  decide equality.
  - apply (opt_eq_dec (list_eq_dec bool_dec)).
  - apply (opt_eq_dec ip_eq_dec).
  - apply (opt_eq_dec net_eq_dec).
  - apply (opt_eq_dec net_eq_dec).
  - apply (list_eq_dec sout_eq_dec).
Defined.
Definition dec2b {A} (d : forall a b : A, {a = b} + {a <> b}) (a b : A) : bool := if d a b then true else false.
Definition out_eqb : OUT -> OUT -> bool := dec2b OUT_eq_dec.

(* ---- the model on a case *)
Definition or_else {A} (a b : option A) : option A := match a with Some _ => a | None => b end.

Definition bits_for (f : net -> ip -> bool) (n : option net) (peers : list ip) : option (list bool) :=
  match n, peers with
  | Some n, _ :: _ => Some (map (f n) peers)
  | _, _ => None
  end.

Definition no_resp : resp := (0, []).

(* request targets are written with run-length padding:  hx ".." ++ fill c n ++ ..  *)
Definition fill (c n : N) : list N := repeat c (N.to_nat n).

Definition unwrap (o : option resp) : resp := match o with Some r => r | None => no_resp end.

(* accept a connection from [peer], the given requests arrive on it, then optionally one beyond the HTTP layer's
   limits, then [fin] happens to it *)
Definition serve_conn (s : state) (peer : ip) (targets : list (list N)) (over : option N) (fin : conn_event)
  : state * list resp :=
  let id := st_next s in
  let '(s1, _) := step s (Accept peer) in
  let '(s2, os) := run s1 (map (fun t => Conn id (EvRequest t)) targets) in
  let '(s3, oo) := match over with
                   | Some code => let '(s', o) := step s2 (Conn id (EvOversize code)) in (s', [o])
                   | None => (s2, [])
                   end in
  (fst (step s3 (Conn id fin)), map unwrap (os ++ oo)).

Fixpoint burst (s : state) (n : nat) (peer : ip) (target : list N) : state * list resp :=
  match n with
  | O => (s, [])
  | S k =>
      let '(s1, rs) := serve_conn s peer [target] None EvIdle in   (* stays open while the others run *)
      let '(s2, rs') := burst s1 k peer target in
      (s2, rs ++ rs')
  end.

Definition fault_event (kind : N) : conn_event :=
  if kind =? 0 then EvGarbage else if kind =? 1 then EvIdle else EvReset.

Definition run_sstep (s : state) (st : sstep) : state * sout :=
  match st with
  | SConn peer render targets over =>
      let s0 := fst (step s (Update render)) in
      let '(s1, rs) := serve_conn s0 peer targets (option_map fst over) EvClose in (s1, OC rs)
  | SBurst n peer render target =>
      let s0 := fst (step s (Update render)) in
      let '(s1, rs) := burst s0 (N.to_nat n) peer target in (s1, OB rs)
  | SFault kind peer =>
      let '(s1, _) := serve_conn s peer [] None (fault_event kind) in (s1, OFault)
  | SInc => (s, OInc)
  end.

Fixpoint run_ssteps (s : state) (l : list sstep) : list sout :=
  match l with
  | [] => []
  | st :: r => let '(s1, o) := run_sstep s st in o :: run_ssteps s1 r
  end.

Definition run_case_gen (fixed : bool) (c : case) : OUT :=
  match c with
  | CEntry e _ peers =>
      let lib := parse_cidr e in
      let built := parse_entry_gen fixed e in
      OEntry lib built (parse_ip_std e) (bits_for contains (or_else built lib) peers)
  | CServe entries steps =>
      match parse_all fixed (map fst entries) with
      | None => OBuildErr
      | Some nets => OServe (run_ssteps (init_state (allowlist_of nets) []) steps)
      end
  end.
Definition run_case : case -> OUT := run_case_gen true.

(* ---- the property in executable form, evaluated on an observed output *)
Definition wf_sstep (st : sstep) : bool :=
  match st with
  | SConn peer _ _ over => wf_ip peer && match over with Some (code, _) => negb (code =? 200) | None => true end
  | SBurst _ peer _ _ => wf_ip peer
  | SFault _ peer => wf_ip peer
  | SInc => true
  end.

(* the stated meaning of a scenario entry is accepted: printed form (E4) / what the parser model reads (EP) *)
Definition entry_ok (x : list N * sentry) : bool :=
  let '(txt, e) := x in
  match e with
  | E4 i => wf_entry4 i && dec2b bytes_eq_dec txt (print_entry4 i)
  | EP n => dec2b (opt_eq_dec net_eq_dec) (parse_entry txt) (Some n)
  end.

Definition wf_case (c : case) : bool :=
  match c with
  | CEntry e intent peers =>
      forallb wf_ip peers &&
      match intent with Some i => wf_entry4 i && dec2b bytes_eq_dec e (print_entry4 i) | None => true end
  | CServe entries steps =>
      forallb entry_ok entries &&
      forallb wf_sstep steps
  end.

(* a refusal that carries no metric data: any status other than 200 (0 = the connection just ended), empty body *)
Definition refused (r : resp) : bool := negb (fst r =? 200) && match snd r with [] => true | _ => false end.

(* a request beyond the limits the check assumes of the HTTP layer: a refusal without data is accepted as it is;
   anything else must be the specified answer (so a forbidden peer never gets data, and an HTTP layer with wider
   limits that serves the request correctly is not reported) *)
Definition over_expected (al : option (list net)) (peer : ip) (t render : list N) (observed : resp) : resp :=
  if refused observed then observed else spec_respond al peer t render.

(* the specified output of a step; [o] is the observed output, consulted only for the one slot above *)
Definition spec_sout (al : option (list net)) (st : sstep) (o : sout) : sout :=
  match st with
  | SConn peer render targets over =>
      OC (map (fun t => spec_respond al peer t render) targets ++
          match over with
          | Some (_, t) =>
              [over_expected al peer t render
                 (match o with OC rs => nth (length targets) rs no_resp | _ => no_resp end)]
          | None => []
          end)
  | SBurst n peer render target => OB (repeat (spec_respond al peer target render) (N.to_nat n))
  | SFault _ _ => OFault
  | SInc => OInc
  end.

Fixpoint spec_souts (al : option (list net)) (steps : list sstep) (l : list sout) : list sout :=
  match steps with
  | [] => []
  | st :: r => spec_sout al st (hd OInc l) :: spec_souts al r (tl l)
  end.

Definition spec_ok (c : case) (o : OUT) : bool :=
  wf_case c &&
  match c, o with
  | CEntry e intent peers, OEntry lib built std bits =>
      (* membership answers are "equal top plen bits" on the network the builder (else ipnet) produced *)
      match or_else built lib with
      | Some n => if wf_net n then dec2b (opt_eq_dec (list_eq_dec bool_dec)) bits (bits_for spec_contains (Some n) peers)
                  else false
      | None => match bits with None => true | Some _ => false end
      end &&
      (* CIDR entries are taken as they are; otherwise a plain IP address is the host network; otherwise rejected *)
      dec2b (opt_eq_dec net_eq_dec) built
            (match lib with Some n => Some n | None => option_map host_net std end) &&
      (* an entry in the documented syntax means what it says *)
      match intent with
      | Some i => dec2b (opt_eq_dec net_eq_dec) built (Some (entry4_net i))
      | None => true
      end
  | CServe entries steps, OServe l =>
      dec2b (list_eq_dec sout_eq_dec) l (spec_souts (spec_allowlist_s (map snd entries)) steps l)
  | _, _ => false
  end.

Definition known_class (c : case) : option N := None.

Definition verdicts (l : list (N * case * OUT)) : list (N * bool * bool * option N) :=
  map (fun '(i, c, o) => (i, out_eqb (run_case c) o, spec_ok c o, known_class c)) l.
