(* C09 — pieces of "the model's outputs pass the executable specification": the WriteResult clause
   ([counts_ok]) and the framing clause ([unframe]) hold on everything the fixed model produces. *)
From Coq Require Import List NArith ZArith Bool Lia PeanoNat.
Import ListNotations.
Require Import MV.C09.Model MV.C09.Spec MV.C09.Inv MV.C09.Abs MV.C09.Safety MV.C09.Render MV.C09.Conserve.
Open Scope N_scope.

Lemma le32_decode n : n < two32 ->
  n mod 256 + 256 * ((n / 256) mod 256) + 65536 * ((n / 65536) mod 256) + 16777216 * ((n / 16777216) mod 256) = n.
Proof.
  intros H. unfold two32 in H.
  replace (n / 65536) with (n / 256 / 256) by (rewrite N.div_div by lia; reflexivity).
  replace (n / 16777216) with (n / 256 / 256 / 256) by (rewrite !N.div_div by lia; reflexivity).
  pose proof (N.div_mod n 256 ltac:(lia)) as A0.
  pose proof (N.div_mod (n / 256) 256 ltac:(lia)) as A1.
  pose proof (N.div_mod (n / 256 / 256) 256 ltac:(lia)) as A2.
  pose proof (N.div_mod (n / 256 / 256 / 256) 256 ltac:(lia)) as A3.
  assert (B : n / 256 / 256 / 256 / 256 = 0).
  { rewrite !N.div_div by lia. apply N.div_small. cbn. lia. }
  rewrite B in A3. lia.
Qed.

Lemma unframe_frame c b : c_max c < two32 -> len b <= c_max c -> unframe c (frame (c_lp c) b) = Some b.
Proof.
  intros Hm Hb. unfold unframe, frame. destruct (c_lp c).
  - unfold le32. cbn [app].
    assert (H1 : forall x, (x mod 256 <? 256) = true) by (intros; apply N.ltb_lt, N.mod_lt; lia).
    rewrite !H1. cbn [andb]. rewrite le32_decode by lia. rewrite N.eqb_refl.
    assert (E : (len b <=? c_max c) = true) by (apply N.leb_le; exact Hb). rewrite E. reflexivity.
  - cbn [app]. assert (E : (len b <=? c_max c) = true) by (apply N.leb_le; exact Hb). rewrite E. reflexivity.
Qed.

Lemma is_empty_concat_nonempty {A} (cs : list (list A)) :
  Forall (fun x => x <> []) cs -> is_empty (concat cs) = is_empty cs.
Proof. intros H. destruct cs as [|x r]; [reflexivity|]. inversion H; subst. destruct x; [congruence|reflexivity]. Qed.

Lemma counts_ok_awrite c o : (match o with Drain _ => False | _ => True end) -> values_nonempty o = true ->
  counts_ok c o (fst (snd (awrite (c_env c) (c_max c) o))) (snd (snd (awrite (c_env c) (c_max c) o))) = true.
Proof.
  intros Hw Hne. destruct (awrite_spec c o Hw Hne) as (A & B & C & D & E).
  destruct o as [k name labels v ts | k name labels vs rate | k]; [| |destruct Hw].
  - unfold counts_ok. cbn [awrite]. unfold fits. rewrite <- render_len, <- sbody_render.
    destruct (c_max c <? len (sbody (c_env c) (sbyte k) name labels v ts)) eqn:E1.
    + assert (E' : (len (sbody (c_env c) (sbyte k) name labels v ts) <=? c_max c) = false) by (apply N.leb_gt; apply N.ltb_lt in E1; exact E1).
      rewrite E'. reflexivity.
    + assert (E' : (len (sbody (c_env c) (sbyte k) name labels v ts) <=? c_max c) = true) by (apply N.leb_le; apply N.ltb_ge in E1; exact E1).
      rewrite E'. reflexivity.
  - unfold counts_ok. cbn [op_values] in E. rewrite E, N.eqb_refl, D. cbn [andb].
    rewrite <- C, is_empty_concat_nonempty by exact B.
    destruct (achunks (c_env c) (c_max c) (WHist k name labels vs rate)); reflexivity.
Qed.

(* the WriteResult clause of the specification holds for every write from every invariant state *)
Theorem counts_ok_on_model c w o :
  fx (c_env c) = all_fixed -> Winv w -> max w = c_max c ->
  (match o with Drain _ => False | _ => True end) -> values_nonempty o = true ->
  exists w' pw pd, step (c_env c) w o = Ok (w', OWrite pw pd) /\ counts_ok c o pw pd = true.
Proof.
  intros Hf (fs & H) Hm Hw Hne. destruct (step_refines (c_env c) w fs o Hf H) as (w' & Hr & _).
  exists w'. rewrite Hm in Hr.
  destruct o as [k name labels v ts | k name labels vs rate | k]; [| |destruct Hw]; cbn [astep snd] in Hr;
    eexists; eexists; (split; [exact Hr|]); apply counts_ok_awrite; auto.
Qed.

(* the framing clause of the specification holds for every payload yielded in any sequence *)
Theorem unframe_on_model c w ops a ps p :
  fx (c_env c) = all_fixed -> Winv w -> max w = c_max c -> lp w = c_lp c -> c_max c < two32 ->
  In (OPayloads a ps) (run (c_env c) w ops) -> In p ps ->
  exists body, unframe c p = Some body /\ p = frame (c_lp c) body.
Proof.
  intros Hf Hw Hm Hl Hlt Hin Hp.
  destruct (yielded_framed (c_env c) ops Hf w a ps p Hw Hin Hp) as (body & -> & Hb).
  exists body. rewrite Hl. split; auto. apply unframe_frame; auto. rewrite <- Hm. exact Hb.
Qed.
