(* C09 — the bytes of every emitted payload are [render] of the expected message; [render] has
   length [msg_len]; the independent parser of Spec.v reads a rendered message back under
   delimiter-freeness ([wf_msg]). *)
From Coq Require Import List NArith Bool Lia PeanoNat.
Import ListNotations.
Require Import MV.C09.Model MV.C09.Spec MV.C09.Inv MV.C09.Abs.
Open Scope N_scope.

Definition opt_sec (c : N) (o : option bytes) : bytes := match o with Some x => 124 :: c :: x | None => [] end.
Definition tag_bytes (t : label) : bytes := fst t ++ (if is_empty (snd t) then [] else 58 :: snd t).
Definition join_tags (ts : list label) : bytes :=
  match ts with [] => [] | t :: r => tag_bytes t ++ flat_map (fun t => 44 :: tag_bytes t) r end.
Definition tags_sec (ts : list label) : bytes :=
  match ts with [] => [] | _ => 124 :: 35 :: join_tags ts end.
Definition render (m : msg) : bytes :=
  m_name m ++ vals_bytes (m_values m) ++ [124; m_type m] ++
  opt_sec 64 (m_rate m) ++ tags_sec (m_tags m) ++ opt_sec 84 (m_ts m) ++ [10].

(* ------------------------------------------------------------------ model bytes = render *)
Lemma tags_loop_true tags : tags_loop [] true tags = flat_map (fun t => 44 :: tag_bytes t) tags.
Proof.
  induction tags as [|t r IH]; [reflexivity|]. cbn [tags_loop flat_map]. rewrite tags_loop_app, IH.
  f_equal. unfold tag_bytes. destruct (is_empty (snd t)); cbn [app]; rewrite ?app_nil_r, <- ?app_assoc; reflexivity.
Qed.
Lemma tags_loop_false tags : tags_loop [] false tags = tags_sec tags.
Proof.
  destruct tags as [|t r]; [reflexivity|]. cbn [tags_loop tags_sec join_tags]. rewrite tags_loop_app, tags_loop_true.
  unfold tag_bytes. destruct (is_empty (snd t)); cbn [app]; rewrite ?app_nil_r, <- ?app_assoc; reflexivity.
Qed.
Lemma trailer_render labels ts rate gl :
  trailer labels ts rate gl = opt_sec 64 rate ++ tags_sec (gl ++ labels) ++ opt_sec 84 ts ++ [10].
Proof.
  unfold trailer, write_metric_trailer. rewrite tags_loop_app, tags_loop_false.
  destruct rate, ts; cbn [opt_sec app]; rewrite <- ?app_assoc; reflexivity.
Qed.

Lemma full_name_pfxb c name : full_name c name = pfxb (c_env c) ++ name.
Proof. unfold full_name, pfxb. destruct (prefix (c_env c)); [rewrite <- app_assoc|]; reflexivity. Qed.

Lemma sbody_render c k name labels v ts :
  sbody (c_env c) (sbyte k) name labels v ts = render (expect c (WScalar k name labels v ts) [v]).
Proof.
  unfold sbody, render, expect; cbn [m_name m_values m_type m_rate m_tags m_ts].
  rewrite full_name_pfxb, trailer_render. unfold vals_bytes. cbn [flat_map opt_sec app].
  rewrite app_nil_r, <- !app_assoc. reflexivity.
Qed.
Lemma hbody_render c k name labels vs rate chunk :
  hbody (c_env c) (hbyte k) name (trailer labels None rate (glabels (c_env c))) chunk
  = render (expect c (WHist k name labels vs rate) chunk).
Proof.
  unfold hbody, render, expect; cbn [m_name m_values m_type m_rate m_tags m_ts].
  rewrite full_name_pfxb, trailer_render. cbn [opt_sec app]. rewrite <- !app_assoc. reflexivity.
Qed.

(* ------------------------------------------------------------------ length *)
Lemma join_tags_len t r : 1 + len (join_tags (t :: r)) = sumN (fun t => 1 + tag_len t) (t :: r).
Proof.
  assert (Ht : forall t, len (tag_bytes t) = tag_len t).
  { intros t0. unfold tag_bytes, tag_len. rewrite len_app. destruct (snd t0) as [|v0 vr]; cbn [is_empty]; [reflexivity|]. f_equal. apply (len_cons 58 (v0 :: vr)). }
  cbn [join_tags sumN]. rewrite len_app, Ht.
  assert (forall r, len (flat_map (fun t => 44 :: tag_bytes t) r) = sumN (fun t => 1 + tag_len t) r).
  { induction r0 as [|x r0 IH]; [reflexivity|]. cbn [flat_map sumN]. rewrite len_app, len_cons, Ht, IH. lia. }
  rewrite H. lia.
Qed.
Lemma render_len m : len (render m) = msg_len m.
Proof.
  unfold render, msg_len. rewrite !len_app, vals_bytes_len. unfold vals_len.
  assert (Ho : forall c o, len (opt_sec c o) = opt_len o).
  { intros c [x|]; [|reflexivity]. cbn [opt_sec opt_len]. rewrite !len_cons. lia. }
  rewrite !Ho. change (len [124; m_type m]) with 2. change (len [10]) with 1.
  assert (Ht : len (tags_sec (m_tags m)) = tags_len (m_tags m)).
  { destruct (m_tags m) as [|t r]; [reflexivity|]. unfold tags_sec, tags_len. rewrite !len_cons.
    rewrite <- join_tags_len. lia. }
  rewrite Ht. lia.
Qed.

(* ------------------------------------------------------------------ parser lemmas *)
Definition nod (d : N) (b : bytes) : bool := forallb (fun x => negb (x =? d)) b.

Lemma nod_app d a b : nod d (a ++ b) = nod d a && nod d b.
Proof. apply forallb_app. Qed.
Lemma free_nod ds b d : free_of ds b = true -> In d ds -> nod d b = true.
Proof.
  unfold free_of, nod. rewrite !forallb_forall. intros H Hd x Hx. specialize (H x Hx).
  destruct (x =? d) eqn:E; [|reflexivity]. apply N.eqb_eq in E. subst x.
  apply negb_true_iff in H. assert (existsb (N.eqb d) ds = true); [|congruence].
  apply existsb_exists. exists d. split; auto. apply N.eqb_refl.
Qed.

Lemma split_on_none d a : nod d a = true -> split_on d a = [a].
Proof.
  induction a as [|x r IH]; [reflexivity|]. cbn [nod forallb split_on]. intros H.
  apply andb_true_iff in H as [H1 H2]. apply negb_true_iff in H1. rewrite H1. fold (nod d r) in H2.
  rewrite (IH H2). reflexivity.
Qed.
Lemma split_on_first d a b : nod d a = true -> split_on d (a ++ d :: b) = a :: split_on d b.
Proof.
  induction a as [|x r IH]; cbn [app nod forallb split_on]; intros H.
  - rewrite N.eqb_refl. reflexivity.
  - apply andb_true_iff in H as [H1 H2]. apply negb_true_iff in H1. rewrite H1. fold (nod d r) in H2.
    rewrite (IH H2). reflexivity.
Qed.
Lemma split_on_fields d fields : forall a, nod d a = true -> forallb (nod d) fields = true ->
  split_on d (a ++ flat_map (cons d) fields) = a :: fields.
Proof.
  induction fields as [|f r IH]; intros a Ha Hf; cbn [flat_map].
  - rewrite app_nil_r. apply split_on_none, Ha.
  - cbn [forallb] in Hf. apply andb_true_iff in Hf as [Hf1 Hf2]. cbn [app].
    rewrite split_on_first by exact Ha. f_equal. apply IH; auto.
Qed.
Lemma split_first_none d a : nod d a = true -> split_first d a = (a, None).
Proof.
  induction a as [|x r IH]; [reflexivity|]. cbn [nod forallb split_first]. intros H.
  apply andb_true_iff in H as [H1 H2]. apply negb_true_iff in H1. rewrite H1. fold (nod d r) in H2.
  rewrite (IH H2). reflexivity.
Qed.
Lemma split_first_some d a b : nod d a = true -> split_first d (a ++ d :: b) = (a, Some b).
Proof.
  induction a as [|x r IH]; cbn [app nod forallb split_first]; intros H.
  - rewrite N.eqb_refl. reflexivity.
  - apply andb_true_iff in H as [H1 H2]. apply negb_true_iff in H1. rewrite H1. fold (nod d r) in H2.
    rewrite (IH H2). reflexivity.
Qed.
Lemma strip_nl_spec line : nod 10 line = true -> strip_nl (line ++ [10]) = Some line.
Proof.
  induction line as [|x r IH]; [reflexivity|]. cbn [nod forallb]. intros H.
  apply andb_true_iff in H as [H1 H2]. apply negb_true_iff in H1. fold (nod 10 r) in H2.
  cbn [app].
  change (strip_nl (x :: r ++ [10])) with
    (match r ++ [10] with
     | [] => if x =? 10 then Some [] else None
     | _ => if x =? 10 then None else option_map (cons x) (strip_nl (r ++ [10]))
     end).
  rewrite (IH H2), H1. destruct (r ++ [10]) eqn:E; [destruct r; discriminate|]. reflexivity.
Qed.

Lemma parse_tag_spec t : wf_label t = true -> parse_tag (tag_bytes t) = t.
Proof.
  unfold wf_label. intros H. apply andb_true_iff in H as [H1 _].
  assert (N58 : nod 58 (fst t) = true) by (eapply free_nod; [exact H1|cbn; auto]).
  unfold parse_tag, tag_bytes. destruct t as [k v]. cbn [fst snd] in *. destruct v as [|v0 vr]; cbn [is_empty].
  - rewrite app_nil_r, split_first_none by exact N58. reflexivity.
  - rewrite split_first_some by exact N58. reflexivity.
Qed.

(* ------------------------------------------------------------------ round trip *)
Definition optf (c : N) (o : option bytes) : list bytes := match o with Some x => [c :: x] | None => [] end.
Definition tagf (ts : list label) : list bytes := match ts with [] => [] | _ => [35 :: join_tags ts] end.
Definition secs (m : msg) : list bytes := optf 64 (m_rate m) ++ tagf (m_tags m) ++ optf 84 (m_ts m).

Lemma render_secs m :
  render m = ((m_name m ++ vals_bytes (m_values m)) ++ 124 :: ([m_type m] ++ flat_map (cons 124) (secs m))) ++ [10].
Proof.
  unfold render, secs. rewrite !flat_map_app.
  assert (Ho : forall c o, opt_sec c o = flat_map (cons 124) (optf c o)).
  { intros c [x|]; cbn [opt_sec optf flat_map]; rewrite ?app_nil_r; reflexivity. }
  assert (Ht : tags_sec (m_tags m) = flat_map (cons 124) (tagf (m_tags m))).
  { destruct (m_tags m); cbn [tags_sec tagf flat_map]; rewrite ?app_nil_r; reflexivity. }
  rewrite (Ho 64), (Ho 84), Ht. cbn [app]. rewrite <- !app_assoc. cbn [app]. rewrite <- ?app_assoc. reflexivity.
Qed.

Lemma nod_flat_map {A} d (f : A -> bytes) (l : list A) :
  forallb (fun x => nod d (f x)) l = true -> nod d (flat_map f l) = true.
Proof.
  induction l as [|x r IH]; [reflexivity|]. cbn [forallb flat_map]. intros H.
  apply andb_true_iff in H as [H1 H2]. rewrite nod_app, H1, (IH H2). reflexivity.
Qed.

Lemma wf_opt_nod d o : wf_opt o = true -> In d [124; 10] -> forall x, o = Some x -> nod d x = true.
Proof. intros H Hd x ->. eapply free_nod; eauto. Qed.

Lemma tag_bytes_nod d t : wf_label t = true -> In d [44; 124; 10] -> nod d (tag_bytes t) = true.
Proof.
  unfold wf_label. intros H Hd. apply andb_true_iff in H as [H1 H2].
  assert (A1 : nod d (fst t) = true) by (eapply free_nod; [exact H1|cbn in *; intuition]).
  assert (A2 : nod d (snd t) = true) by (eapply free_nod; [exact H2|cbn in *; intuition]).
  unfold tag_bytes. destruct t as [k v]; cbn [fst snd] in *. rewrite nod_app, A1.
  destruct v as [|v0 vr]; [reflexivity|]. cbn [is_empty andb].
  change (nod d (58 :: v0 :: vr)) with (negb (58 =? d) && nod d (v0 :: vr)). rewrite A2.
  destruct Hd as [<-|[<-|[<-|[]]]]; reflexivity.
Qed.

Lemma join_tags_nod d ts : forallb wf_label ts = true -> In d [124; 10] -> nod d (join_tags ts) = true.
Proof.
  intros H Hd. assert (Hd' : In d [44; 124; 10]) by (cbn in *; intuition).
  destruct ts as [|t r]; [reflexivity|]. cbn [forallb] in H. apply andb_true_iff in H as [H1 H2].
  cbn [join_tags]. rewrite nod_app, (tag_bytes_nod d t H1 Hd'). cbn [andb].
  apply nod_flat_map. rewrite forallb_forall in *. intros x Hx. cbn [nod forallb].
  fold (nod d (tag_bytes x)). rewrite (tag_bytes_nod d x (H2 x Hx) Hd').
  destruct Hd as [<-|[<-|[]]]; reflexivity.
Qed.

Lemma join_tags_split ts : forallb wf_label ts = true -> ts <> [] ->
  map parse_tag (split_on 44 (join_tags ts)) = ts.
Proof.
  intros H Hne. destruct ts as [|t r]; [congruence|]. cbn [join_tags].
  cbn [forallb] in H. apply andb_true_iff in H as [H1 H2].
  assert (E : flat_map (fun t => 44 :: tag_bytes t) r = flat_map (cons 44) (map tag_bytes r)).
  { clear. induction r; cbn [flat_map map]; [reflexivity|]. rewrite IHr. reflexivity. }
  rewrite E, split_on_fields.
  - cbn [map]. rewrite (parse_tag_spec t H1). f_equal.
    rewrite map_map. rewrite forallb_forall in H2. clear E.
    induction r as [|x r IH]; [reflexivity|]. cbn [map]. rewrite parse_tag_spec by (apply H2; left; auto).
    f_equal. apply IH; [|discriminate]. intros y Hy. apply H2. right. exact Hy.
  - apply tag_bytes_nod; cbn; auto.
  - rewrite forallb_forall in *. intros x Hx. apply in_map_iff in Hx as (y & <- & Hy).
    apply tag_bytes_nod; [apply H2, Hy|cbn; auto].
Qed.

Theorem parse_render m : wf_msg m = true -> m_values m <> [] -> parse_msg (render m) = Some m.
Proof.
  unfold wf_msg. intros H Hv.
  apply andb_true_iff in H as [H Hts]. apply andb_true_iff in H as [H Htags].
  apply andb_true_iff in H as [H Hrate]. apply andb_true_iff in H as [H Hty].
  apply andb_true_iff in H as [Hname Hvals].
  assert (Hty124 : (m_type m =? 124) = false /\ (m_type m =? 10) = false).
  { apply negb_true_iff in Hty. cbn [existsb] in Hty. rewrite !orb_false_r in Hty.
    apply orb_false_iff in Hty. exact Hty. }
  destruct Hty124 as [Hty1 Hty2].
  assert (Nname : forall d, In d [58; 124; 10] -> nod d (m_name m) = true) by (intros; eapply free_nod; eauto).
  assert (Nvals : forall d, In d [58; 124; 10] -> forallb (nod d) (m_values m) = true).
  { intros d Hd. rewrite forallb_forall in *. intros x Hx. eapply free_nod; [apply Hvals, Hx|exact Hd]. }
  assert (Nf0 : forall d, In d [124; 10] -> nod d (m_name m ++ vals_bytes (m_values m)) = true).
  { intros d Hd. rewrite nod_app, Nname by (cbn in *; intuition). cbn [andb].
    apply nod_flat_map. assert (Hd' : In d [58; 124; 10]) by (cbn in *; intuition).
    specialize (Nvals d Hd'). rewrite forallb_forall in *. intros x Hx. cbn [nod forallb].
    fold (nod d x). rewrite (Nvals x Hx). destruct Hd as [<-|[<-|[]]]; reflexivity. }
  assert (Nsecs : forall d, In d [124; 10] -> forallb (nod d) (secs m) = true).
  { intros d Hd. unfold secs. rewrite !forallb_app.
    assert (Ho : forall c o, (c =? d) = false -> wf_opt o = true -> forallb (nod d) (optf c o) = true).
    { intros c [x|] Hc Ho; [|reflexivity]. cbn [optf forallb nod]. fold (nod d x). rewrite Hc.
      rewrite (wf_opt_nod d _ Ho Hd x eq_refl). reflexivity. }
    rewrite !Ho; auto; try (destruct Hd as [<-|[<-|[]]]; reflexivity). cbn [andb].
    destruct (m_tags m) as [|t r] eqn:Et; [reflexivity|]. cbn [tagf forallb nod].
    fold (nod d (join_tags (t :: r))). rewrite join_tags_nod; auto.
    destruct Hd as [<-|[<-|[]]]; reflexivity. }
  unfold parse_msg. rewrite render_secs.
  (* newline *)
  rewrite strip_nl_spec.
  2:{ rewrite nod_app, Nf0 by (cbn; auto). cbn [andb].
      change (nod 10 (124 :: [m_type m] ++ flat_map (cons 124) (secs m))) with
             (negb (124 =? 10) && (negb (m_type m =? 10) && nod 10 (flat_map (cons 124) (secs m)))).
      rewrite Hty2. change (124 =? 10) with false. cbn [negb andb]. apply nod_flat_map.
      specialize (Nsecs 10 ltac:(cbn; auto)). rewrite forallb_forall in *. intros x Hx.
      change (nod 10 (124 :: x)) with (negb (124 =? 10) && nod 10 x). rewrite (Nsecs x Hx). reflexivity. }
  (* fields *)
  rewrite split_on_first by (apply Nf0; cbn; auto).
  rewrite split_on_fields; [| cbn [nod forallb]; rewrite Hty1; reflexivity | apply Nsecs; cbn; auto].
  (* name and values *)
  change (vals_bytes (m_values m)) with (flat_map (cons 58) (m_values m)).
  rewrite split_on_fields by (try apply Nname; try apply Nvals; cbn; auto).
  destruct (m_values m) as [|v vs] eqn:Ev; [congruence|].
  (* optional sections *)
  unfold secs.
  destruct m as [nm vals ty rate tags ts]; cbn [m_name m_values m_type m_rate m_tags m_ts] in *. subst vals.
  destruct rate as [r|], tags as [|t tr], ts as [s|]; cbn [optf tagf app take_opt N.eqb Pos.eqb];
    try reflexivity;
    (rewrite join_tags_split by (auto; discriminate); reflexivity).
Qed.
