(* C09 — the executable specification accepts every output of the (fixed) model, over whole
   operation sequences ([spec_ok_on_model]); and what acceptance means at the Prop level
   ([spec_check_sound]).

   The sequence invariant ties the checker's bookkeeping to the writer: the checker's pending
   list (writes since the last drain with their payloads_written) corresponds, entry by entry, to
   groups of the writer's committed-but-undrained bodies. *)
From Coq Require Import List NArith Bool Lia PeanoNat.
Import ListNotations.
Require Import MV.C09.Model MV.C09.Spec MV.C09.Exec MV.C09.Inv MV.C09.Abs MV.C09.Safety MV.C09.Render
               MV.C09.Conserve MV.C09.Sound MV.C09.Final.
Open Scope N_scope.

(* ------------------------------------------------------------------ boolean equalities *)
Lemma bytes_eqb_refl a : bytes_eqb a a = true.
Proof. unfold bytes_eqb. destruct (list_eq_dec N.eq_dec a a); congruence. Qed.
Lemma bytes_eqb_eq a b : bytes_eqb a b = true -> a = b.
Proof. unfold bytes_eqb. destruct (list_eq_dec N.eq_dec a b); congruence. Qed.
Lemma list_eqb_refl {A} (eqb : A -> A -> bool) : (forall x, eqb x x = true) -> forall l, list_eqb eqb l l = true.
Proof. intros H. induction l; cbn [list_eqb]; auto. rewrite H, IHl. reflexivity. Qed.
Lemma list_eqb_eq {A} (eqb : A -> A -> bool) : (forall x y, eqb x y = true -> x = y) ->
  forall a b, list_eqb eqb a b = true -> a = b.
Proof.
  intros H. induction a as [|x a IH]; intros [|y b] E; cbn [list_eqb] in E; try discriminate; auto.
  apply andb_true_iff in E as [E1 E2]. f_equal; auto.
Qed.
Lemma opt_eqb_refl {A} (eqb : A -> A -> bool) : (forall x, eqb x x = true) -> forall o, opt_eqb eqb o o = true.
Proof. intros H [x|]; cbn; auto. Qed.
Lemma opt_eqb_eq {A} (eqb : A -> A -> bool) : (forall x y, eqb x y = true -> x = y) ->
  forall a b, opt_eqb eqb a b = true -> a = b.
Proof. intros H [x|] [y|] E; cbn in E; try discriminate; auto. f_equal; auto. Qed.
Lemma label_eqb_refl t : label_eqb t t = true.
Proof. unfold label_eqb. rewrite !bytes_eqb_refl. reflexivity. Qed.
Lemma label_eqb_eq a b : label_eqb a b = true -> a = b.
Proof.
  unfold label_eqb. intros E. apply andb_true_iff in E as [E1 E2].
  destruct a, b; cbn [fst snd] in *. f_equal; apply bytes_eqb_eq; auto.
Qed.
Lemma msg_eqb_refl m : msg_eqb m m = true.
Proof.
  unfold msg_eqb. rewrite bytes_eqb_refl, N.eqb_refl.
  rewrite (list_eqb_refl bytes_eqb bytes_eqb_refl), (list_eqb_refl label_eqb label_eqb_refl).
  rewrite !(opt_eqb_refl bytes_eqb bytes_eqb_refl). reflexivity.
Qed.
Lemma msg_eqb_eq a b : msg_eqb a b = true -> a = b.
Proof.
  unfold msg_eqb. intros E.
  apply andb_true_iff in E as [E E6]. apply andb_true_iff in E as [E E5]. apply andb_true_iff in E as [E E4].
  apply andb_true_iff in E as [E E3]. apply andb_true_iff in E as [E1 E2].
  destruct a as [n1 v1 t1 r1 g1 s1], b as [n2 v2 t2 r2 g2 s2]; cbn [m_name m_values m_type m_rate m_tags m_ts] in *.
  apply bytes_eqb_eq in E1. apply (list_eqb_eq bytes_eqb bytes_eqb_eq) in E2. apply N.eqb_eq in E3.
  apply (opt_eqb_eq bytes_eqb bytes_eqb_eq) in E4. apply (list_eqb_eq label_eqb label_eqb_eq) in E5.
  apply (opt_eqb_eq bytes_eqb bytes_eqb_eq) in E6. congruence.
Qed.

Lemma is_prefix_app a b : is_prefix a (a ++ b) = true.
Proof. induction a; cbn [is_prefix app]; auto. rewrite bytes_eqb_refl, IHa. reflexivity. Qed.
Lemma is_prefix_sound a : forall b, is_prefix a b = true -> exists rest, a ++ rest = b.
Proof.
  induction a as [|x a IH]; intros b E; [exists b; reflexivity|].
  destruct b as [|y b]; cbn [is_prefix] in E; [discriminate|]. apply andb_true_iff in E as [E1 E2].
  apply bytes_eqb_eq in E1. subst y. destruct (IH b E2) as (rest & <-). exists rest. reflexivity.
Qed.

Lemma expect_values c o vs : m_values (expect c o vs) = vs.
Proof. destruct o; reflexivity. Qed.

(* ------------------------------------------------------------------ one pending write *)
(* the group [nb] of committed bodies that belongs to the pending entry (o, pw) *)
Definition good (c : cfg) (p : op * N) (nb : list bytes) : Prop :=
  len nb = snd p /\
  exists chunks, nb = map (fun ch => render (expect c (fst p) ch)) chunks /\
                 Forall (fun ch => ch <> []) chunks /\ concat chunks = kept c (fst p).

Lemma bodies_values_render c o chunks : concat chunks = kept c o ->
  wf_msg (expect c o (op_values o)) = true ->
  forall chs, (forall ch, In ch chs -> In ch chunks /\ ch <> []) ->
  bodies_values c o (map (fun ch => render (expect c o ch)) chs) = Some (concat chs).
Proof.
  intros Hc Hwf. induction chs as [|ch r IH]; intros Hin; [reflexivity|].
  cbn [map bodies_values concat].
  destruct (Hin ch (or_introl eq_refl)) as [Hi Hne].
  rewrite (emitted_message_roundtrip c o chunks ch Hc Hi Hne Hwf).
  rewrite IH by (intros x Hx; apply Hin; right; exact Hx).
  rewrite expect_values, msg_eqb_refl. destruct ch; [congruence|]. reflexivity.
Qed.

Lemma bodies_ok_good c o pw nb j : good c (o, pw) nb ->
  bodies_ok c o (firstn j nb) (len (firstn j nb) =? pw) = true.
Proof.
  intros (Hl & chunks & Hnb & Hne & Hc). cbn [fst snd] in *.
  unfold bodies_ok. destruct (wf_msg (expect c o (op_values o))) eqn:W; [|reflexivity].
  subst nb. rewrite firstn_map.
  rewrite (bodies_values_render c o chunks Hc W).
  2:{ intros ch Hin. apply In_firstn_In in Hin. split; auto. rewrite Forall_forall in Hne. auto. }
  match goal with |- context [?x =? pw] => destruct (x =? pw) eqn:E end.
  - apply N.eqb_eq in E. rewrite <- Hl in E. unfold len in E. apply Nat2N.inj in E.
    rewrite !map_length, firstn_length in E.
    rewrite firstn_all2 by lia. rewrite Hc. apply list_eqb_refl, bytes_eqb_refl.
  - rewrite <- Hc. rewrite <- (firstn_skipn j chunks) at 2. rewrite concat_app. apply is_prefix_app.
Qed.

Lemma distribute_good c : forall pend nbs n, Forall2 (good c) pend nbs ->
  distribute c pend (firstn n (concat nbs)) = true.
Proof.
  intros pend nbs n H. revert n. induction H as [|[o pw] nb pr nr Hg Hr IH]; intros n.
  - cbn [concat distribute]. rewrite firstn_nil. reflexivity.
  - cbn [concat distribute]. pose proof Hg as (Hl & _). cbn [snd] in Hl.
    assert (Hpw : N.to_nat pw = length nb) by (rewrite <- Hl; apply to_nat_len).
    rewrite Hpw.
    assert (E1 : firstn (length nb) (firstn n (nb ++ concat nr)) = firstn (Nat.min (length nb) n) nb).
    { rewrite firstn_firstn, firstn_app.
      replace (Nat.min (length nb) n - length nb)%nat with 0%nat by lia. cbn [firstn]. apply app_nil_r. }
    assert (E2 : skipn (length nb) (firstn n (nb ++ concat nr)) = firstn (n - length nb) (concat nr)).
    { rewrite skipn_firstn_comm, skipn_app, Nat.sub_diag, skipn_all. reflexivity. }
    rewrite E1, E2, IH, (bodies_ok_good c o pw nb _ Hg). reflexivity.
Qed.

Lemma sum_pending c pend nbs : Forall2 (good c) pend nbs -> sumN snd pend = len (concat nbs).
Proof.
  induction 1 as [|p nb pr nr Hg Hr IH]; [reflexivity|]. cbn [sumN concat].
  rewrite len_app, IH. destruct Hg as (Hl & _). lia.
Qed.

Lemma unframe_all_frames c bs : c_max c < two32 -> Forall (fun b => len b <= c_max c) bs ->
  unframe_all c (map (frame (c_lp c)) bs) = Some bs.
Proof.
  intros Hm. induction 1 as [|b r Hb Hr IH]; [reflexivity|]. cbn [map unframe_all].
  rewrite unframe_frame, IH by auto. reflexivity.
Qed.

(* ------------------------------------------------------------------ whole sequences *)
Lemma check_run c : fx (c_env c) = all_fixed -> c_max c < two32 ->
  forall ops w fs pend nbs,
  Rep w fs -> max w = c_max c -> lp w = c_lp c ->
  forallb values_nonempty ops = true ->
  fs = concat nbs -> Forall2 (good c) pend nbs ->
  check c ops (run (c_env c) w ops) pend = true.
Proof.
  intros Hf Hlt. induction ops as [|o r IH]; intros w fs pend nbs H M L Hne Hfs Hg; [reflexivity|].
  cbn [forallb] in Hne. apply andb_true_iff in Hne as [Hne1 Hne2].
  destruct (step_refines (c_env c) w fs o Hf H) as (w' & Hr & M' & L' & R).
  cbn [run]. rewrite Hr. rewrite M, L in *.
  assert (Hwrite : (match o with Drain _ => False | _ => True end) ->
            check c (o :: r) (snd (astep (c_env c) (c_max c) (c_lp c) fs o)
                              :: run (c_env c) w' r) pend = true).
  { intros Hw. destruct (awrite_spec c o Hw Hne1) as (A & B & C & D & E).
    pose proof (counts_ok_awrite c o Hw Hne1) as Hc.
    assert (IH' : check c r (run (c_env c) w' r)
                    (pend ++ [(o, fst (snd (awrite (c_env c) (c_max c) o)))]) = true).
    { apply (IH w' (fs ++ fst (awrite (c_env c) (c_max c) o)) _ (nbs ++ [fst (awrite (c_env c) (c_max c) o)])); auto.
      - destruct o; [exact R|exact R|destruct Hw].
      - rewrite concat_app, Hfs. cbn [concat]. rewrite app_nil_r. reflexivity.
      - apply Forall2_app; auto. constructor; [|constructor]. split; cbn [fst snd].
        + rewrite A. unfold len. rewrite map_length. symmetry. exact D.
        + exists (achunks (c_env c) (c_max c) o). auto. }
    destruct o; [| |destruct Hw]; cbn [astep snd check]; rewrite Hc, IH'; reflexivity. }
  destruct o as [k name labels v ts | k name labels vs rate | k]; [apply Hwrite; exact I|apply Hwrite; exact I|].
  clear Hwrite. subst fs. cbn [astep fst snd] in R |- *. cbn [check].
  pose proof H as (_ & _ & _ & Hall).
  rewrite (sum_pending c pend nbs Hg), N.eqb_refl. cbn [andb].
  rewrite firstn_map, (unframe_all_frames c) by (auto; rewrite Forall_forall in *; intros x Hx; rewrite <- M; apply Hall; apply In_firstn_In in Hx; exact Hx).
  rewrite (distribute_good c pend nbs _ Hg).
  assert (IHd : check c r (run (c_env c) w' r) [] = true) by (apply (IH w' [] [] []); auto; constructor).
  rewrite IHd.
  rewrite !andb_true_r. apply N.eqb_eq. unfold len. rewrite map_length, firstn_length.
  unfold drain_count. destruct k as [k|]; lia.
Qed.

Theorem spec_ok_on_model c : spec_ok c (run_case c) = true.
Proof.
  unfold spec_ok, spec_check. cbn [cfg_of c_max].
  destruct (two32 <=? k_max c) eqn:E.
  - unfold run_case, run_cfg, new. cbn [cfg_of c_max]. rewrite E. reflexivity.
  - apply N.leb_gt in E. destruct (forallb values_nonempty (k_ops c)) eqn:Hne; [|reflexivity].
    destruct (new_ok (k_max c) (k_lp c) E) as (w & Hn & R & M & L).
    unfold run_case, run_cfg. cbn [cfg_of c_max c_lp c_env]. rewrite Hn.
    apply (check_run (cfg_of impl_fixes c) eq_refl E (k_ops c) w [] [] []); auto.
Qed.

(* ------------------------------------------------------------------ what acceptance means *)
(* WriteResult of one write *)
Definition CountsP (c : cfg) (o : op) (pw pd : N) : Prop :=
  match o with
  | WScalar _ _ _ v _ => (fits c o v = true /\ pw = 1 /\ pd = 0) \/ (fits c o v = false /\ pw = 0 /\ pd = 1)
  | WHist _ _ _ vs _ => pd + len (kept c o) = len vs /\ (pw = 0 <-> kept c o = [])
  | Drain _ => False
  end.
(* a yielded payload is the frame of a body within the limit *)
Definition FramedP (c : cfg) (p body : bytes) : Prop := p = frame (c_lp c) body /\ len body <= c_max c.
(* the bodies observed for one write (its first |bs| payloads; all of them if [complete]): under
   delimiter-freeness each parses to the expected message over a non-empty run of values, and the
   runs, concatenated, are a prefix of (exactly, if complete) the values that fit *)
Definition BodiesP (c : cfg) (o : op) (bs : list bytes) (complete : bool) : Prop :=
  wf_msg (expect c o (op_values o)) = true ->
  exists chs, Forall2 (fun b ch => parse_msg b = Some (expect c o ch) /\ ch <> []) bs chs /\
              if complete then concat chs = kept c o else exists rest, concat chs ++ rest = kept c o.
(* the bodies of one drain, attributed in order to the pending writes by their payloads_written *)
Fixpoint DistributedP (c : cfg) (pend : list (op * N)) (bs : list bytes) : Prop :=
  match pend with
  | [] => bs = []
  | (o, pw) :: r =>
      BodiesP c o (firstn (N.to_nat pw) bs) (len (firstn (N.to_nat pw) bs) =? pw) /\
      DistributedP c r (skipn (N.to_nat pw) bs)
  end.
(* a whole sequence; [pend] = the writes since the previous drain *)
Fixpoint SpecP (c : cfg) (ops : list op) (outs : list out) (pend : list (op * N)) : Prop :=
  match ops, outs with
  | [], [] => True
  | Drain k :: ro, OPayloads avail ps :: rx =>
      avail = sumN snd pend /\
      len ps = match k with Some k => N.min k (sumN snd pend) | None => sumN snd pend end /\
      (exists bodies, Forall2 (FramedP c) ps bodies /\ DistributedP c pend bodies) /\
      SpecP c ro rx []
  | Drain _ :: _, _ => False
  | o :: ro, OWrite pw pd :: rx => CountsP c o pw pd /\ SpecP c ro rx (pend ++ [(o, pw)])
  | _, _ => False
  end.

Lemma counts_ok_sound c o pw pd : counts_ok c o pw pd = true -> CountsP c o pw pd.
Proof.
  unfold counts_ok, CountsP. destruct o as [k name labels v ts | k name labels vs rate | k]; [| |discriminate].
  - destruct (fits _ _ v); intros E; apply andb_true_iff in E as [E1 E2]; apply N.eqb_eq in E1, E2; auto.
  - intros E. apply andb_true_iff in E as [E1 E2]. apply N.eqb_eq in E1. split; auto.
    apply eqb_prop in E2. split.
    + intros ->. revert E2. destruct (kept _ _); cbn; intros E2; [reflexivity|discriminate].
    + intros Hk. rewrite Hk in E2. cbn [is_empty] in E2. apply N.eqb_eq. exact E2.
Qed.

Lemma le32_encode a b x d n :
  a < 256 -> b < 256 -> x < 256 -> d < 256 -> a + 256 * b + 65536 * x + 16777216 * d = n ->
  le32 n = [a; b; x; d].
Proof.
  intros Ha Hb Hx Hd E. unfold le32.
  assert (D0 : n / 256 = b + 256 * (x + 256 * d) /\ n mod 256 = a).
  { apply (N.div_mod_unique 256); try lia; [apply N.mod_lt; lia|]. rewrite <- N.div_mod by lia. lia. }
  destruct D0 as [Q0 R0].
  assert (D1 : (n / 256) / 256 = x + 256 * d /\ (n / 256) mod 256 = b).
  { apply (N.div_mod_unique 256); try lia; [apply N.mod_lt; lia|]. rewrite <- N.div_mod by lia. lia. }
  destruct D1 as [Q1 R1].
  assert (D2 : (n / 256 / 256) / 256 = d /\ (n / 256 / 256) mod 256 = x).
  { apply (N.div_mod_unique 256); try lia; [apply N.mod_lt; lia|]. rewrite <- N.div_mod by lia. lia. }
  destruct D2 as [Q2 R2].
  replace (n / 65536) with (n / 256 / 256) by (rewrite N.div_div by lia; reflexivity).
  replace (n / 16777216) with (n / 256 / 256 / 256) by (rewrite !N.div_div by lia; reflexivity).
  rewrite R0, R1, R2, Q2. rewrite N.mod_small by lia. reflexivity.
Qed.

Lemma unframe_sound c p body : unframe c p = Some body -> FramedP c p body.
Proof.
  unfold unframe, FramedP, frame. destruct (c_lp c).
  - destruct p as [|a [|b [|x [|d rest]]]]; try discriminate.
    destruct (_ && _) eqn:E; [|discriminate].
    destruct (len rest <=? c_max c) eqn:E2; [|discriminate]. intros [= <-].
    apply N.leb_le in E2. split; auto.
    apply andb_true_iff in E as [E E5]. apply andb_true_iff in E as [E E4]. apply andb_true_iff in E as [E E3].
    apply andb_true_iff in E as [E1 E2']. apply N.ltb_lt in E1, E2', E3, E4. apply N.eqb_eq in E5.
    rewrite (le32_encode a b x d (len rest)) by auto. reflexivity.
  - destruct (len p <=? c_max c) eqn:E2; [|discriminate]. intros [= <-]. apply N.leb_le in E2. auto.
Qed.

Lemma unframe_all_sound c : forall ps bs, unframe_all c ps = Some bs -> Forall2 (FramedP c) ps bs.
Proof.
  induction ps as [|p r IH]; intros bs E; cbn [unframe_all] in E.
  - injection E as <-. constructor.
  - destruct (unframe c p) eqn:E1; [|discriminate]. destruct (unframe_all c r) eqn:E2; [|discriminate].
    injection E as <-. constructor; auto. apply unframe_sound, E1.
Qed.

Lemma bodies_values_sound c o : forall bs vs, bodies_values c o bs = Some vs ->
  exists chs, Forall2 (fun b ch => parse_msg b = Some (expect c o ch) /\ ch <> []) bs chs /\ concat chs = vs.
Proof.
  induction bs as [|b r IH]; intros vs E; cbn [bodies_values] in E.
  - injection E as <-. exists []. split; [constructor|reflexivity].
  - destruct (parse_msg b) as [m|] eqn:Ep; [|discriminate].
    destruct (bodies_values c o r) as [vr|] eqn:Er; [|discriminate].
    destruct (_ && _) eqn:Ec; [|discriminate]. injection E as <-.
    apply andb_true_iff in Ec as [Ec1 Ec2]. apply msg_eqb_eq in Ec1.
    destruct (IH vr eq_refl) as (chs & Hf & <-).
    exists (m_values m :: chs). split; [|reflexivity]. constructor; auto. split; [congruence|].
    intros Hn. rewrite Hn in Ec2. discriminate.
Qed.

Lemma bodies_ok_sound c o bs complete : bodies_ok c o bs complete = true -> BodiesP c o bs complete.
Proof.
  unfold bodies_ok, BodiesP. intros E W. rewrite W in E.
  destruct (bodies_values c o bs) as [vs|] eqn:Ev; [|discriminate].
  destruct (bodies_values_sound c o bs vs Ev) as (chs & Hf & <-). exists chs. split; auto.
  destruct complete.
  - apply (list_eqb_eq bytes_eqb bytes_eqb_eq). exact E.
  - apply is_prefix_sound. exact E.
Qed.

Lemma distribute_sound c : forall pend bs, distribute c pend bs = true -> DistributedP c pend bs.
Proof.
  induction pend as [|[o pw] r IH]; intros bs E; cbn [distribute DistributedP] in *.
  - destruct bs; [reflexivity|discriminate].
  - apply andb_true_iff in E as [E1 E2]. split; [apply bodies_ok_sound, E1|apply IH, E2].
Qed.

Lemma check_sound c : forall ops outs pend, check c ops outs pend = true -> SpecP c ops outs pend.
Proof.
  induction ops as [|o r IH]; intros outs pend E.
  - destruct outs; [exact I|discriminate].
  - destruct o as [k name labels v ts | k name labels vs rate | k];
      (destruct outs as [|[pw pd | avail ps |] rx]; cbn [check] in E; try discriminate; cbn [SpecP]).
    + apply andb_true_iff in E as [E1 E2]. split; [apply counts_ok_sound, E1|apply IH, E2].
    + apply andb_true_iff in E as [E1 E2]. split; [apply counts_ok_sound, E1|apply IH, E2].
    + apply andb_true_iff in E as [E E4]. apply andb_true_iff in E as [E E3]. apply andb_true_iff in E as [E1 E2].
      apply N.eqb_eq in E1, E2. split; auto. split; auto. split; [|apply IH, E4].
      destruct (unframe_all c ps) as [bs|] eqn:Eu; [|discriminate].
      exists bs. split; [apply unframe_all_sound, Eu|apply distribute_sound, E3].
Qed.

Theorem spec_check_sound c ops outs :
  c_max c < two32 -> forallb values_nonempty ops = true ->
  spec_check c ops outs = true -> SpecP c ops outs [].
Proof.
  intros Hm Hne. unfold spec_check. destruct (two32 <=? c_max c) eqn:E; [apply N.leb_le in E; lia|].
  rewrite Hne. apply check_sound.
Qed.
