(* C09 — compact byte-string literals for cases.v files.  A byte string is written as a list of
   primitive 63-bit integers, each packing a marker byte 0x01 followed by up to 7 bytes
   (big-endian):  ux [0x168656c6c6f]  =  "hello".   Primitive integer literals are parsed natively,
   about 20 times faster than string or N literals of the same content.  Used only to transport
   test data into Coq; no theorem mentions it. *)
From Coq Require Export PrimInt63.
From Coq Require Import List NArith ZArith Uint63.
Import ListNotations.

Definition byte_of (x : int) : N := Z.to_N (Uint63.to_Z x).

Fixpoint chunk_bytes (fuel : nat) (x : int) (acc : list N) : list N :=
  match fuel with
  | O => acc
  | S f => if (x <=? 1)%uint63 then acc
           else chunk_bytes f (x >> 8)%uint63 (byte_of (x land 255)%uint63 :: acc)
  end.

Definition ux (l : list int) : list N := flat_map (fun x => chunk_bytes 8 x []) l.

Example ux_ex : ux [0x168656c6c6f006f; 0x10a]%uint63 = [104; 101; 108; 108; 111; 0; 111; 10]%N.
Proof. vm_compute. reflexivity. Qed.
