(* C09 — the flush specification accepts every output of the flush model. *)
From Coq Require Import List NArith Bool Lia PeanoNat.
Import ListNotations.
Require Import MV.C09.Model MV.C09.Spec MV.C09.Inv MV.C09.Abs MV.C09.Safety MV.C09.Render MV.C09.Conserve
               MV.C09.Sound MV.C09.Final MV.C09.Compose MV.C09.WModel MV.C09.WSpec MV.C09.WProofs.
Open Scope N_scope.

Lemma metric_cfg_env f m : c_env (metric_cfg f m) = metric_env f m.
Proof. unfold metric_cfg, metric_env. cbn [c_env]. rewrite doc_prefix_is_effective. reflexivity. Qed.
Lemma expected_op_is_metric_op f m : expected_op f m = metric_op f m.
Proof. destruct m; reflexivity. Qed.
Lemma metric_op_is_write f m : match metric_op f m with Drain _ => False | _ => True end.
Proof. destruct m; exact I. Qed.

(* the complete group of one write passes bodies_ok *)
Lemma bodies_ok_complete c o : (match o with Drain _ => False | _ => True end) -> values_nonempty o = true ->
  bodies_ok c o (fst (awrite (c_env c) (c_max c) o)) true = true.
Proof.
  intros Hw Hne. destruct (awrite_spec c o Hw Hne) as (A & B & C & D & E).
  assert (G : good c (o, fst (snd (awrite (c_env c) (c_max c) o))) (fst (awrite (c_env c) (c_max c) o))).
  { split; cbn [fst snd].
    - rewrite A. unfold len. rewrite map_length. symmetry. exact D.
    - exists (achunks (c_env c) (c_max c) o). auto. }
  pose proof (bodies_ok_good c o _ _ (length (fst (awrite (c_env c) (c_max c) o))) G) as H.
  rewrite firstn_all in H. destruct G as (Hl & _). cbn [snd] in Hl. rewrite Hl, N.eqb_refl in H. exact H.
Qed.

Lemma scalar_group c k name labels v ts :
  length (fst (awrite (c_env c) (c_max c) (WScalar k name labels v ts)))
  = (if fits c (WScalar k name labels v ts) v then 1%nat else 0%nat).
Proof.
  cbn [awrite]. unfold fits. rewrite <- render_len, <- sbody_render.
  destruct (c_max c <? len (sbody (c_env c) (sbyte k) name labels v ts)) eqn:E.
  - assert (E' : (len (sbody (c_env c) (sbyte k) name labels v ts) <=? c_max c) = false) by (apply N.leb_gt; apply N.ltb_lt in E; exact E).
    rewrite E'. reflexivity.
  - assert (E' : (len (sbody (c_env c) (sbyte k) name labels v ts) <=? c_max c) = true) by (apply N.leb_le; apply N.ltb_ge in E; exact E).
    rewrite E'. reflexivity.
Qed.

Lemma flush_writes_groups f : forall ms w fs0,
  Rep w fs0 -> max w = f_max f -> lp w = f_lp f ->
  forallb (fun m => values_nonempty (expected_op f m)) ms = true ->
  exists w' nbs, flush_writes f w ms = Ok w' /\ Rep w' (fs0 ++ nbs) /\ max w' = f_max f /\ lp w' = f_lp f /\
                 groups_ok f ms nbs = true.
Proof.
  induction ms as [|m r IH]; intros w fs0 H M L Hne.
  - exists w, []. rewrite app_nil_r. auto.
  - cbn [forallb] in Hne. apply andb_true_iff in Hne as [Hne1 Hne2].
    cbn [flush_writes]. destruct (skipped m) eqn:Sk.
    + destruct (IH w fs0 H M L Hne2) as (w' & nbs & Hr & R & M' & L' & G).
      exists w', nbs. refine (conj Hr (conj R (conj M' (conj L' _)))).
      destruct m as [| |n l v k]; try discriminate. destruct k; [|discriminate].
      cbn [groups_ok]. destruct r; [|reflexivity].
      cbn [flush_writes] in Hr. injection Hr as <-. cbn [groups_ok] in G. destruct nbs; [|discriminate].
      unfold bodies_ok. destruct (wf_msg _); reflexivity.
    + set (c := metric_cfg f m). set (o := metric_op f m).
      assert (Ec : c_env c = metric_env f m) by apply metric_cfg_env.
      destruct (step_refines (metric_env f m) w fs0 o eq_refl H) as (w1 & Hs & M1 & L1 & R1).
      rewrite Hs. rewrite M, L in *.
      assert (Hw : match o with Drain _ => False | _ => True end) by apply metric_op_is_write.
      assert (R1' : Rep w1 (fs0 ++ fst (awrite (c_env c) (c_max c) o))).
      { rewrite Ec. unfold c at 1. cbn [metric_cfg c_max]. destruct o; [exact R1|exact R1|destruct Hw]. }
      destruct (IH w1 _ R1' M1 L1 Hne2) as (w' & nbs & Hr & R & M' & L' & G).
      exists w', (fst (awrite (c_env c) (c_max c) o) ++ nbs). rewrite app_assoc.
      refine (conj Hr (conj R (conj M' (conj L' _)))).
      assert (Hne1' : values_nonempty o = true) by (unfold o; rewrite <- expected_op_is_metric_op; exact Hne1).
      pose proof (bodies_ok_complete c o Hw Hne1') as B.
      destruct m as [n l v|n l v|n l v k]; cbn [groups_ok]; fold c; rewrite expected_op_is_metric_op; fold o.
      * assert (Hn : (if fits c o (hd [] (op_values o)) then 1%nat else 0%nat) = length (fst (awrite (c_env c) (c_max c) o)))
          by exact (eq_sym (scalar_group c Counter n l v (agg_ts f))).
        rewrite Hn.
        rewrite firstn_app, Nat.sub_diag, firstn_all, skipn_app, Nat.sub_diag, skipn_all. cbn [firstn skipn app].
        rewrite app_nil_r, B, G. reflexivity.
      * assert (Hn : (if fits c o (hd [] (op_values o)) then 1%nat else 0%nat) = length (fst (awrite (c_env c) (c_max c) o)))
          by exact (eq_sym (scalar_group c Gauge n l v (agg_ts f))).
        rewrite Hn.
        rewrite firstn_app, Nat.sub_diag, firstn_all, skipn_app, Nat.sub_diag, skipn_all. cbn [firstn skipn app].
        rewrite app_nil_r, B, G. reflexivity.
      * destruct r; [|reflexivity]. cbn [flush_writes] in Hr. injection Hr as <-. cbn [groups_ok] in G.
        destruct nbs; [|discriminate]. rewrite app_nil_r. exact B.
Qed.

Lemma by_kind_is_flush_order ms : by_kind ms = flush_order ms.
Proof.
  unfold by_kind, flush_order. f_equal; [|f_equal]; apply filter_ext; intros [| |]; reflexivity.
Qed.

Theorem spec_flush_ok_on_model f ms : spec_flush_ok f ms (run_flush f ms) = true.
Proof.
  unfold spec_flush_ok, run_flush. destruct (two32 <=? f_max f) eqn:E.
  - unfold new. rewrite E. reflexivity.
  - apply N.leb_gt in E. destruct (new_ok (f_max f) (f_lp f) E) as (w & Hn & R & M & L). rewrite Hn.
    destruct (forallb (fun m => values_nonempty (expected_op f m)) ms) eqn:Hne.
    + assert (Hne' : forallb (fun m => values_nonempty (expected_op f m)) (flush_order ms) = true).
      { rewrite forallb_forall in *. intros x Hx. apply Hne. unfold flush_order in Hx.
        rewrite !in_app_iff, !filter_In in Hx. tauto. }
      destruct (flush_writes_groups f (flush_order ms) w [] R M L Hne') as (w' & nbs & Hr & R' & M' & L' & G).
      rewrite Hr. destruct (drain_spec all_fixed w' _ None eq_refl R') as (w2 & Hd & _). rewrite Hd.
      cbn [app]. rewrite firstn_all2 by (rewrite map_length; lia).
      set (c0 := {| c_max := f_max f; c_lp := f_lp f; c_env := {| prefix := None; glabels := []; fx := all_fixed |} |}).
      rewrite L'. change (f_lp f) with (c_lp c0).
      rewrite (unframe_all_frames c0) by (auto; destruct R' as (_ & _ & _ & Hall); rewrite M' in Hall; exact Hall).
      rewrite by_kind_is_flush_order. exact G.
    + destruct (flush_writes_winv f (flush_order ms) w (ex_intro _ [] R)) as (w' & Hr & (fs & R') & _).
      rewrite Hr. destruct (drain_spec all_fixed w' fs None eq_refl R') as (w2 & Hd & _). rewrite Hd. reflexivity.
Qed.

(* ------------------------------------------------------------------ names of what a flush emits *)
(* [b] is the rendering of the message of one of the metrics over a non-empty run of its values *)
Definition from_metric (f : fcfg) (ms : list metric) (b : bytes) : Prop :=
  exists m ch, In m ms /\ ch <> [] /\ b = render (expect (metric_cfg f m) (expected_op f m) ch).

Lemma from_metric_weaken f m r b : from_metric f r b -> from_metric f (m :: r) b.
Proof. intros (m' & ch & Hi & Hn & E). exists m', ch. split; [right; exact Hi|auto]. Qed.

Lemma flush_writes_bodies f : forall ms w fs0,
  Rep w fs0 -> max w = f_max f -> lp w = f_lp f ->
  forallb (fun m => values_nonempty (expected_op f m)) ms = true ->
  exists w' nbs, flush_writes f w ms = Ok w' /\ Rep w' (fs0 ++ nbs) /\ lp w' = f_lp f /\ Forall (from_metric f ms) nbs.
Proof.
  induction ms as [|m r IH]; intros w fs0 H M L Hne.
  - exists w, []. rewrite app_nil_r. auto.
  - cbn [forallb] in Hne. apply andb_true_iff in Hne as [Hne1 Hne2].
    cbn [flush_writes]. destruct (skipped m) eqn:Sk.
    + destruct (IH w fs0 H M L Hne2) as (w' & nbs & Hr & R & L' & F).
      exists w', nbs. refine (conj Hr (conj R (conj L' _))).
      eapply Forall_impl; [|exact F]. intros b. apply from_metric_weaken.
    + set (c := metric_cfg f m). set (o := metric_op f m).
      assert (Ec : c_env c = metric_env f m) by apply metric_cfg_env.
      destruct (step_refines (metric_env f m) w fs0 o eq_refl H) as (w1 & Hs & M1 & L1 & R1).
      rewrite Hs. rewrite M, L in *.
      assert (Hw : match o with Drain _ => False | _ => True end) by apply metric_op_is_write.
      assert (R1' : Rep w1 (fs0 ++ fst (awrite (c_env c) (c_max c) o))).
      { rewrite Ec. unfold c at 1. cbn [metric_cfg c_max]. destruct o; [exact R1|exact R1|destruct Hw]. }
      destruct (IH w1 _ R1' M1 L1 Hne2) as (w' & nbs & Hr & R & L' & F).
      exists w', (fst (awrite (c_env c) (c_max c) o) ++ nbs). rewrite app_assoc.
      refine (conj Hr (conj R (conj L' _))).
      assert (Hne1' : values_nonempty o = true) by (unfold o; rewrite <- expected_op_is_metric_op; exact Hne1).
      destruct (awrite_spec c o Hw Hne1') as (A & B & _).
      apply Forall_app; split.
      * rewrite A. apply Forall_forall. intros b Hb. apply in_map_iff in Hb as (ch & <- & Hch).
        exists m, ch. split; [left; reflexivity|]. split; [rewrite Forall_forall in B; exact (B ch Hch)|].
        rewrite expected_op_is_metric_op. reflexivity.
      * eapply Forall_impl; [|exact F]. intros b. apply from_metric_weaken.
Qed.

Lemma expect_name f m ch :
  m_name (expect (metric_cfg f m) (expected_op f m) ch) = e2e_name (f_prefix f) (metric_name m).
Proof. destruct m; reflexivity. Qed.

(* every payload an exporter emits in a flush is the frame of the message of one registered metric,
   and the name in that message is the registered name behind the global prefix and a '.', unless
   the registered name begins with the telemetry namespace, in which case it is the name itself *)
Theorem e2e_name_is_prefixed f ms ps :
  f_max f < two32 -> forallb (fun m => values_nonempty (expected_op f m)) ms = true ->
  run_flush f ms = Some ps ->
  forall p, In p ps ->
  exists m ch, In m ms /\ ch <> [] /\
    p = frame (f_lp f) (render (expect (metric_cfg f m) (expected_op f m) ch)) /\
    m_name (expect (metric_cfg f m) (expected_op f m) ch) = e2e_name (f_prefix f) (metric_name m) /\
    (wf_msg (expect (metric_cfg f m) (expected_op f m) ch) = true ->
     exists M, parse_msg (render (expect (metric_cfg f m) (expected_op f m) ch)) = Some M /\
               m_name M = e2e_name (f_prefix f) (metric_name m)).
Proof.
  intros Hm Hne. unfold run_flush.
  destruct (new_ok (f_max f) (f_lp f) Hm) as (w & Hn & R & M & L). rewrite Hn.
  assert (Hne' : forallb (fun m => values_nonempty (expected_op f m)) (flush_order ms) = true).
  { rewrite forallb_forall in *. intros x Hx. apply Hne. unfold flush_order in Hx.
    rewrite !in_app_iff, !filter_In in Hx. tauto. }
  destruct (flush_writes_bodies f (flush_order ms) w [] R M L Hne') as (w' & nbs & Hr & R' & L' & F).
  rewrite Hr. destruct (drain_spec all_fixed w' _ None eq_refl R') as (w2 & Hd & _). rewrite Hd.
  intros [= <-] p Hp. cbn [app] in Hp. apply In_firstn_In in Hp. apply in_map_iff in Hp as (b & <- & Hb).
  rewrite Forall_forall in F. destruct (F b Hb) as (m & ch & Hi & Hch & ->).
  exists m, ch. rewrite L'.
  split. { unfold flush_order in Hi. rewrite !in_app_iff, !filter_In in Hi. tauto. }
  split; [exact Hch|]. split; [reflexivity|]. split; [apply expect_name|].
  intros W. eexists. split; [apply parse_render; [exact W|rewrite expect_values; exact Hch]|apply expect_name].
Qed.
