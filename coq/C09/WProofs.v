(* C09 — proofs about the wiring model: address parsing against the documented scheme table, the
   builder against its reference semantics and the transport limits, the flush wiring. *)
From Coq Require Import List NArith Bool Lia PeanoNat.
Import ListNotations.
Require Import MV.C09.Model MV.C09.Spec MV.C09.Inv MV.C09.Abs MV.C09.Safety MV.C09.WModel MV.C09.WSpec.
Open Scope N_scope.

Lemma beq_eq a b : beq a b = true -> a = b.
Proof. unfold beq. destruct (list_eq_dec N.eq_dec a b); congruence. Qed.
Lemma beq_refl a : beq a a = true.
Proof. unfold beq. destruct (list_eq_dec N.eq_dec a a); congruence. Qed.

Lemma bytes_eqb_cons x y a b : bytes_eqb (x :: a) (y :: b) = (x =? y) && bytes_eqb a b.
Proof.
  unfold bytes_eqb. destruct (list_eq_dec N.eq_dec (x :: a) (y :: b)) as [E|E].
  - injection E as -> ->. rewrite N.eqb_refl. destruct (list_eq_dec N.eq_dec b b); [reflexivity|congruence].
  - destruct (x =? y) eqn:E1; [|reflexivity]. apply N.eqb_eq in E1. subst.
    destruct (list_eq_dec N.eq_dec a b); [congruence|reflexivity].
Qed.
Lemma has_prefix_starts_with pre : forall a, has_prefix pre a = starts_with pre a.
Proof.
  induction pre as [|x p IH]; intros a; [reflexivity|]. unfold has_prefix in *. destruct a as [|y r]; [reflexivity|].
  cbn [length firstn starts_with]. rewrite bytes_eqb_cons, IH, N.eqb_sym. reflexivity.
Qed.
Lemma starts_with_split pre : forall a, starts_with pre a = true -> a = pre ++ skipn (length pre) a.
Proof.
  induction pre as [|x p IH]; intros a H; [reflexivity|]. destruct a as [|y r]; [discriminate|].
  cbn [starts_with] in H. apply andb_true_iff in H as [H1 H2]. apply N.eqb_eq in H1. subst y.
  cbn [length skipn app]. f_equal. apply IH, H2.
Qed.
Lemma starts_with_app pre q : starts_with pre (pre ++ q) = true.
Proof. induction pre; cbn [starts_with app]; auto. rewrite N.eqb_refl. exact IHpre. Qed.

(* ------------------------------------------------------------------ split_once("://") *)
Lemma sep_tail_sound r p : sep_tail r = Some p -> r = 47 :: 47 :: p.
Proof.
  destruct r as [|a [|b q]]; try discriminate. cbn [sep_tail].
  destruct (_ && _) eqn:E; [|discriminate]. intros [= <-].
  apply andb_true_iff in E as [E1 E2]. apply N.eqb_eq in E1, E2. congruence.
Qed.
Lemma split_sep_sound : forall a s p, split_sep a = Some (s, p) -> a = s ++ sep ++ p.
Proof.
  induction a as [|x r IH]; intros s p H; [discriminate|]. cbn [split_sep] in H.
  destruct (if x =? 58 then sep_tail r else None) as [q|] eqn:E.
  - injection H as <- <-. destruct (x =? 58) eqn:Ex; [|discriminate]. apply N.eqb_eq in Ex. subst x.
    apply sep_tail_sound in E. subst r. reflexivity.
  - destruct (split_sep r) as [[s' p']|] eqn:Er; [|discriminate]. injection H as <- <-.
    rewrite (IH s' p' eq_refl). reflexivity.
Qed.
Lemma split_sep_contains : forall a, contains_sep a = match split_sep a with Some _ => true | None => false end.
Proof.
  induction a as [|x r IH]; [reflexivity|]. cbn [contains_sep split_sep]. rewrite has_prefix_starts_with, IH.
  cbn [starts_with]. rewrite (N.eqb_sym 58 x).
  destruct r as [|a r1].
  { cbn [starts_with sep_tail split_sep]. destruct (x =? 58); reflexivity. }
  cbn [starts_with]. rewrite (N.eqb_sym 47 a).
  destruct r1 as [|b q].
  { cbn [starts_with sep_tail]. rewrite andb_false_r. cbn [orb].
    destruct (x =? 58); destruct (split_sep [a]) as [[? ?]|]; reflexivity. }
  cbn [starts_with sep_tail]. rewrite (N.eqb_sym 47 b), andb_true_r.
  destruct (x =? 58), (a =? 47), (b =? 47); cbn [andb orb]; try reflexivity;
    destruct (split_sep (a :: b :: q)) as [[? ?]|]; reflexivity.
Qed.

(* ------------------------------------------------------------------ addresses *)
Theorem parse_addr_meets_spec rp rw a : parse_addr rp rw a = spec_addr rp rw a.
Proof.
  unfold spec_addr. rewrite !has_prefix_starts_with.
  destruct (starts_with pre_unix a) eqn:H1.
  { apply starts_with_split in H1. unfold after. rewrite H1 at 1. reflexivity. }
  destruct (starts_with pre_unixgram a) eqn:H2.
  { apply starts_with_split in H2. unfold after. rewrite H2 at 1. reflexivity. }
  destruct (starts_with pre_udp a) eqn:H3.
  { apply starts_with_split in H3. unfold after. rewrite H3 at 1. reflexivity. }
  rewrite split_sep_contains. unfold parse_addr.
  destruct (split_sep a) as [[s p]|] eqn:E; [|reflexivity].
  apply split_sep_sound in E.
  destruct (beq s s_unix) eqn:B1.
  { apply beq_eq in B1. subst s. rewrite E in H1. change (s_unix ++ sep ++ p) with (pre_unix ++ p) in H1.
    rewrite starts_with_app in H1. discriminate. }
  destruct (beq s s_unixgram) eqn:B2.
  { apply beq_eq in B2. subst s. rewrite E in H2. change (s_unixgram ++ sep ++ p) with (pre_unixgram ++ p) in H2.
    rewrite starts_with_app in H2. discriminate. }
  destruct (beq s s_udp) eqn:B3.
  { apply beq_eq in B3. subst s. rewrite E in H3. change (s_udp ++ sep ++ p) with (pre_udp ++ p) in H3.
    rewrite starts_with_app in H3. discriminate. }
  reflexivity.
Qed.

(* every accepted address maps to the transport the documentation says *)
Theorem addr_accepted_sound rp rw a t p : parse_addr rp rw a = AOk t p ->
  match t with
  | TUnix => a = pre_unix ++ p
  | TUnixgram => a = pre_unixgram ++ p
  | TUdp => (a = pre_udp ++ p /\ rp = true) \/ (a = p /\ rw = true /\ contains_sep a = false)
  end.
Proof.
  unfold parse_addr. rewrite split_sep_contains.
  destruct (split_sep a) as [[s q]|] eqn:E.
  - apply split_sep_sound in E.
    destruct (beq s s_unix) eqn:B1; [apply beq_eq in B1; intros [= <- <-]; subst; reflexivity|].
    destruct (beq s s_unixgram) eqn:B2; [apply beq_eq in B2; intros [= <- <-]; subst; reflexivity|].
    destruct (beq s s_udp) eqn:B3; [|discriminate]. apply beq_eq in B3.
    destruct rp; [|discriminate]. intros [= <- <-]. subst. left. split; reflexivity.
  - destruct rw; [|discriminate]. intros [= <- <-]. right. auto.
Qed.
Theorem addr_unix_complete rp rw p : parse_addr rp rw (pre_unix ++ p) = AOk TUnix p.
Proof. reflexivity. Qed.
Theorem addr_unixgram_complete rp rw p : parse_addr rp rw (pre_unixgram ++ p) = AOk TUnixgram p.
Proof. reflexivity. Qed.
Theorem addr_udp_complete rw p : parse_addr true rw (pre_udp ++ p) = AOk TUdp p.
Proof. reflexivity. Qed.

(* ------------------------------------------------------------------ builder *)
Lemma validate_spec b : validate_max_payload_len b = (get_max_payload_len b <=? max_allowed (b_t b)).
Proof.
  unfold validate_max_payload_len, max_allowed, udp_datagram_max, u32_max.
  set (m := get_max_payload_len b). destruct (b_t b).
  - destruct (65527 <? m) eqn:E1; [apply N.ltb_lt in E1; symmetry; apply N.leb_gt; lia|].
    apply N.ltb_ge in E1. destruct (4294967295 <? m) eqn:E2; [apply N.ltb_lt in E2; lia|].
    symmetry. apply N.leb_le. lia.
  - destruct (4294967295 <? m) eqn:E2; symmetry; [apply N.leb_gt; apply N.ltb_lt in E2; lia|apply N.leb_le; apply N.ltb_ge in E2; lia].
  - destruct (4294967295 <? m) eqn:E2; symmetry; [apply N.leb_gt; apply N.ltb_lt in E2; lia|apply N.leb_le; apply N.ltb_ge in E2; lia].
Qed.

Theorem builder_meets_spec ops : forall b,
  run_builder true b ops = spec_builder (b_t b) (b_path b) (b_max b) ops.
Proof.
  induction ops as [|o r IH]; intros b.
  - cbn [run_builder spec_builder]. rewrite validate_spec. unfold get_max_payload_len, default_max_payload_len.
    destruct (_ <=? _); [|reflexivity]. destruct (b_t b); reflexivity.
  - destruct o as [a rp rw | n]; cbn [run_builder spec_builder].
    + rewrite parse_addr_meets_spec. destruct (spec_addr rp rw a); try reflexivity. rewrite IH. reflexivity.
    + rewrite validate_spec. cbn [get_max_payload_len b_max b_t]. destruct (n <=? _); [|reflexivity]. rewrite IH. reflexivity.
Qed.

Theorem spec_builder_ok_on_model ops : spec_builder_ok ops (run_builder true bdefault ops) = true.
Proof.
  unfold spec_builder_ok. rewrite builder_meets_spec. cbn [bdefault b_t b_path b_max].
  generalize (spec_builder TUdp [] None ops). induction l as [|x l IH]; [reflexivity|]. cbn [list_eqb]. rewrite IH, andb_true_r.
  destruct x; cbn [bout_eqb]; auto.
  unfold bytes_eqb. destruct (list_eq_dec N.eq_dec tid tid); [|congruence]. rewrite N.eqb_refl, eqb_reflx. cbn [andb].
  destruct disp as [d|]; cbn [opt_eqb]; auto. destruct (list_eq_dec N.eq_dec d d); congruence.
Qed.

(* an accepted configuration respects the transport's maximum and frames iff Unix stream *)
Theorem builder_accepts_within_limits fixd ops : forall b tid m lp d,
  In (BConfig tid m lp d) (run_builder fixd b ops) ->
  exists t, tid = transport_id t /\ m <= max_allowed t /\ m <= u32_max /\
            (lp = true <-> t = TUnix) /\
            m = match last_max ops (b_max b) with Some n => n | None => default_max_payload_len t end.
Proof.
  induction ops as [|o r IH]; intros b tid m lp d H.
  - cbn [run_builder] in H. destruct H as [H|[]]. rewrite validate_spec in H.
    destruct (get_max_payload_len b <=? max_allowed (b_t b)) eqn:E; [|discriminate]. injection H as <- <- <- _.
    apply N.leb_le in E. exists (b_t b). split; [reflexivity|]. split; [exact E|]. split; [|split].
    + unfold max_allowed, u32_max in *. destruct (b_t b); lia.
    + destruct (b_t b); cbn; split; congruence.
    + reflexivity.
  - destruct o as [a rp rw | n]; cbn [run_builder] in H.
    + destruct (parse_addr rp rw a) as [t p| |]; try (destruct H as [H|[]]; discriminate).
      destruct H as [H|H]; [discriminate|]. exact (IH _ _ _ _ _ H).
    + destruct (validate_max_payload_len _); [|destruct H as [H|[]]; discriminate].
      destruct H as [H|H]; [discriminate|]. exact (IH _ _ _ _ _ H).
Qed.

(* ------------------------------------------------------------------ flush wiring *)
Theorem doc_prefix_is_effective gp name : doc_prefix gp name = effective_prefix gp name.
Proof. unfold doc_prefix, effective_prefix. rewrite has_prefix_starts_with. reflexivity. Qed.

Theorem telemetry_names_not_prefixed gp rest : effective_prefix gp (client_prefix ++ rest) = None.
Proof. unfold effective_prefix. rewrite starts_with_app. reflexivity. Qed.

Lemma flush_writes_winv f ms : forall w, Winv w ->
  exists w', flush_writes f w ms = Ok w' /\ Winv w' /\ max w' = max w /\ lp w' = lp w.
Proof.
  induction ms as [|m r IH]; intros w Hw; [exists w; auto|]. cbn [flush_writes].
  destruct (skipped m); [apply IH, Hw|].
  destruct (winv_step (metric_env f m) w (metric_op f m) eq_refl Hw) as (w1 & x & Hs & _ & Hw1 & M1 & L1).
  rewrite Hs. destruct (IH w1 Hw1) as (w' & Hr & Hw' & M & L). exists w'. repeat split; auto; congruence.
Qed.

(* one flush never panics, whatever the metrics, prefix, labels and limit *)
Theorem flush_total f ms : f_max f < two32 -> run_flush f ms <> None.
Proof.
  intros H. unfold run_flush. destruct (winv_new (f_max f) (f_lp f) H) as (w & Hn & Hw & _).
  rewrite Hn. destruct (flush_writes_winv f (flush_order ms) w Hw) as (w' & Hr & (fs & R) & _).
  rewrite Hr. destruct (drain_spec all_fixed w' fs None eq_refl R) as (w2 & Hd & _).
  rewrite Hd. discriminate.
Qed.
