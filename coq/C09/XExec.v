(* C09 — executable entry points for all case kinds (writer op sequences, builder op sequences,
   one-flush cases); this is the module cases.v files import. *)
From Coq Require Import List NArith Bool.
Import ListNotations.
Require Export MV.C09.Model MV.C09.Spec MV.C09.Codec MV.C09.WModel MV.C09.WSpec.
Require MV.C09.Exec.
Open Scope N_scope.

(* which repairs outside writer.rs the code in /repo contains *)
Definition impl_fix_display : bool := true.

Inductive case :=
| XW (c : Exec.case)
| XB (ops : list bop)
| XF (f : fcfg) (ms : list metric).
Inductive xout :=
| OW (o : list out)
| OB (o : list bout)
| OF (ps : option (list bytes)).

Definition mkw (mx : N) (l : bool) (p : option bytes) (gl : list label) (ops : list op) : case :=
  XW (Exec.Build_case mx l p gl ops).

Definition run_case (c : case) : xout :=
  match c with
  | XW c => OW (Exec.run_case c)
  | XB ops => OB (run_builder impl_fix_display bdefault ops)
  | XF f ms => OF (run_flush f ms)
  end.

Definition out_eqb (a b : xout) : bool :=
  match a, b with
  | OW x, OW y => Exec.out_eqb x y
  | OB x, OB y => list_eqb bout_eqb x y
  | OF x, OF y => opt_eqb (list_eqb bytes_eqb) x y
  | _, _ => false
  end.

Definition spec_ok (c : case) (o : xout) : bool :=
  match c, o with
  | XW c, OW o => Exec.spec_ok c o
  | XB ops, OB o => spec_builder_ok ops o
  | XF f ms, OF ps => spec_flush_ok f ms ps
  | _, _ => false
  end.
Definition known_class (c : case) : option N := None.

Definition verdicts (l : list (N * case * xout)) : list (N * bool * bool * option N) :=
  map (fun '(i, c, o) => (i, out_eqb (run_case c) o, spec_ok c o, known_class c)) l.

(* end-to-end engine (thorough tier): the bodies split off a unix-stream by their LE32 prefixes.  Every
   body is within the limit and parses; its name is one of the expected (prefixed) user metric names or
   an unprefixed internal telemetry name; its first tag is the global label; every name in [must]
   occurs. *)
Definition e2e_ok (mx : N) (allowed must : list bytes) (gl : label) (bodies : list bytes) : bool :=
  forallb (fun b => (len b <=? mx) &&
                    match parse_msg b with
                    | Some m => (existsb (bytes_eqb (m_name m)) allowed || starts_with client_prefix (m_name m)) &&
                                match m_tags m with t :: _ => label_eqb t gl | [] => false end
                    | None => false
                    end) bodies &&
  forallb (fun n => existsb (fun b => match parse_msg b with Some m => bytes_eqb (m_name m) n | None => false end) bodies) must.

(* the same with the expected names computed by the specification (WSpec.e2e_name) from the names
   the metrics were registered under and the exporter's global prefix *)
Definition e2e_names_ok (mx : N) (gp : option bytes) (names must : list bytes) (gl : label) (bodies : list bytes) : bool :=
  e2e_ok mx (map (e2e_name gp) names) (map (e2e_name gp) must) gl bodies.
