(* C09 — totality, invariant preservation, length bound and framing for all operation sequences. *)
From Coq Require Import List NArith Bool Lia PeanoNat.
Import ListNotations.
Require Import MV.C09.Model MV.C09.Inv MV.C09.Abs.
Open Scope N_scope.

Lemma In_firstn_In {A} (x : A) n l : In x (firstn n l) -> In x l.
Proof. revert l. induction n; intros [|y l] H; cbn [firstn] in H; try destruct H; [left; auto|right; auto]. Qed.

Theorem winv_new mx l : mx < two32 -> exists w, new mx l = Ok w /\ Winv w /\ max w = mx /\ lp w = l.
Proof. intros H. destruct (new_ok mx l H) as (w & Hn & R & M & L). exists w. repeat split; auto. exists []. exact R. Qed.

Lemma astep_no_panic e mx l fs o : snd (astep e mx l fs o) <> OPanic.
Proof. destruct o; cbn [astep snd]; discriminate. Qed.

Theorem winv_step e w o : fx e = all_fixed -> Winv w ->
  exists w' x, step e w o = Ok (w', x) /\ x <> OPanic /\ Winv w' /\ max w' = max w /\ lp w' = lp w.
Proof.
  intros Hf (fs & H). destruct (step_refines e w fs o Hf H) as (w' & Hr & M & L & R).
  exists w', (snd (astep e (max w) (lp w) fs o)). repeat split; auto.
  - apply astep_no_panic.
  - eexists. exact R.
Qed.

Theorem run_no_panic e ops : fx e = all_fixed -> forall w, Winv w -> ~ In OPanic (run e w ops).
Proof.
  intros Hf. induction ops as [|o r IH]; intros w Hw; [intros []|].
  destruct (winv_step e w o Hf Hw) as (w' & x & Hs & Hx & Hw' & _).
  cbn [run]. rewrite Hs. intros [E|E]; [congruence|]. exact (IH w' Hw' E).
Qed.

Theorem run_length e ops : fx e = all_fixed -> forall w, Winv w -> length (run e w ops) = length ops.
Proof.
  intros Hf. induction ops as [|o r IH]; intros w Hw; [reflexivity|].
  destruct (winv_step e w o Hf Hw) as (w' & x & Hs & Hx & Hw' & _).
  cbn [run length]. rewrite Hs. cbn [length]. f_equal. apply IH, Hw'.
Qed.

(* every payload yielded by any drain of any sequence is the frame of a body within the limit *)
Theorem yielded_framed e ops : fx e = all_fixed -> forall w a ps p,
  Winv w -> In (OPayloads a ps) (run e w ops) -> In p ps ->
  exists body, p = frame (lp w) body /\ len body <= max w.
Proof.
  intros Hf. induction ops as [|o r IH]; intros w a ps p (fs & H) Hin Hp; [destruct Hin|].
  destruct (step_refines e w fs o Hf H) as (w' & Hr & M & L & R).
  cbn [run] in Hin. rewrite Hr in Hin. destruct Hin as [E|Hin].
  - destruct o; cbn [astep snd] in E; try discriminate. injection E as _ E. subst ps.
    apply (In_firstn_In) in Hp. apply in_map_iff in Hp as (body & Eb & Hb).
    exists body. split; auto. destruct H as (_ & _ & _ & Hall). rewrite Forall_forall in Hall. auto.
  - rewrite <- M, <- L. apply (IH w' a ps p); auto. eexists; exact R.
Qed.

