(* C09 — specification of the wiring logic, written from the documentation, independently of
   WModel.v's transcription of the code (only the data types are shared).

   Remote address (DogStatsDBuilder::with_remote_address docs): `<host>:<port>` or `udp://<host>:<port>`
   = UDP; `unix://<path>` = Unix stream socket; `unixgram://<path>` = Unix datagram socket; any other
   scheme is rejected.  Maximum payload length (with_maximum_payload_length / build docs, and the
   unit tests max_payload_len_exceeds_...): at most 65527 for UDP (u16::MAX - 8), at most u32::MAX for
   every transport; default 1432 for UDP and 8192 for Unix sockets; checked when set and again by
   build() (the transport may have changed in between).  A length prefix is used exactly on Unix
   stream sockets.  The address is displayed with the scheme of its transport.
   Internal telemetry (metric names beginning with `datadog.dogstatsd.client`) is never prefixed. *)
From Coq Require Import List NArith Bool.
Import ListNotations.
Require Import MV.C09.Model MV.C09.Spec MV.C09.WModel.
Open Scope N_scope.

(* ------------------------------------------------------------------ addresses *)
Definition has_prefix (pre a : bytes) : bool := bytes_eqb (firstn (length pre) a) pre.
Definition after (pre a : bytes) : bytes := skipn (length pre) a.
Fixpoint contains_sep (a : bytes) : bool :=
  match a with
  | [] => false
  | _ :: r => has_prefix [58; 47; 47] a || contains_sep r
  end.
Definition pre_unix : bytes := [117; 110; 105; 120; 58; 47; 47].
Definition pre_unixgram : bytes := [117; 110; 105; 120; 103; 114; 97; 109; 58; 47; 47].
Definition pre_udp : bytes := [117; 100; 112; 58; 47; 47].

Definition spec_addr (rp rw : bool) (a : bytes) : addr_res :=
  if has_prefix pre_unix a then AOk TUnix (after pre_unix a)
  else if has_prefix pre_unixgram a then AOk TUnixgram (after pre_unixgram a)
  else if has_prefix pre_udp a then (if rp then AOk TUdp (after pre_udp a) else AErrResolve)
  else if contains_sep a then AErrScheme
  else if rw then AOk TUdp a else AErrResolve.

(* ------------------------------------------------------------------ builder *)
Definition max_allowed (t : transport) : N := match t with TUdp => 65527 | _ => 4294967295 end.
Definition spec_tid (t : transport) : bytes :=
  match t with
  | TUdp => [117; 100; 112]
  | TUnixgram => [117; 100; 115]
  | TUnix => [117; 100; 115; 45; 115; 116; 114; 101; 97; 109]
  end.
Definition spec_display (t : transport) (path : bytes) : option bytes :=
  match t with
  | TUdp => None
  | TUnixgram => Some (pre_unixgram ++ path)
  | TUnix => Some (pre_unix ++ path)
  end.

(* the maximum most recently requested in an operation sequence, if any *)
Definition last_max (ops : list bop) (init : option N) : option N :=
  fold_left (fun acc o => match o with BMax n => Some n | _ => acc end) ops init.

(* reference semantics: current transport/path, explicitly requested maximum *)
Fixpoint spec_builder (t : transport) (path : bytes) (req : option N) (ops : list bop) : list bout :=
  let m := match req with Some n => n | None => match t with TUdp => 1432 | _ => 8192 end end in
  match ops with
  | [] => [if m <=? max_allowed t
           then BConfig (spec_tid t) m (match t with TUnix => true | _ => false end) (spec_display t path)
           else BErrConfig]
  | BAddr a rp rw :: r =>
      match spec_addr rp rw a with
      | AOk t' p => BOk :: spec_builder t' p req r
      | AErrScheme => [BErrScheme]
      | AErrResolve => [BErrResolve]
      end
  | BMax n :: r => if n <=? max_allowed t then BOk :: spec_builder t path (Some n) r else [BErrConfig]
  end.

Definition bout_eqb (a b : bout) : bool :=
  match a, b with
  | BOk, BOk | BErrScheme, BErrScheme | BErrResolve, BErrResolve | BErrConfig, BErrConfig => true
  | BConfig i m l d, BConfig i' m' l' d' =>
      bytes_eqb i i' && (m =? m') && Bool.eqb l l' && opt_eqb bytes_eqb d d'
  | _, _ => false
  end.
Definition spec_builder_ok (ops : list bop) (o : list bout) : bool :=
  list_eqb bout_eqb (spec_builder TUdp [] None ops) o.

(* ------------------------------------------------------------------ one flush *)
Definition doc_prefix (gp : option bytes) (name : bytes) : option bytes :=
  if has_prefix client_prefix name then None else gp.

(* the name under which a metric registered as [name] goes out of an exporter with global prefix [gp] *)
Definition e2e_name (gp : option bytes) (name : bytes) : bytes :=
  match doc_prefix gp name with Some p => p ++ 46 :: name | None => name end.

Definition expected_op (f : fcfg) (m : metric) : op :=
  let ts := if f_aggressive f then Some (f_now f) else None in
  match m with
  | MCounter n l v => WScalar Counter n l v ts
  | MGauge n l v => WScalar Gauge n l v ts
  | MHist n l v k => WHist (if f_dist f then Dist else Hist) n l (repeat v (N.to_nat k)) None
  end.
Definition metric_cfg (f : fcfg) (m : metric) : cfg :=
  {| c_max := f_max f; c_lp := f_lp f;
     c_env := {| prefix := doc_prefix (f_prefix f) (metric_name m); glabels := f_glabels f; fx := all_fixed |} |}.

(* bodies in flush order: each counter/gauge owns one body iff its message fits; the (single)
   histogram owns the rest; every group is complete *)
Fixpoint groups_ok (f : fcfg) (ms : list metric) (bodies : list bytes) : bool :=
  match ms with
  | [] => is_empty bodies
  | m :: r =>
      let c := metric_cfg f m in
      let o := expected_op f m in
      match m with
      | MHist _ _ _ _ =>
          match r with
          | [] => bodies_ok c o bodies true
          | _ => true                                  (* more than one histogram: outside the rule *)
          end
      | _ =>
          let n := if fits c o (hd [] (op_values o)) then 1%nat else 0%nat in
          bodies_ok c o (firstn n bodies) true && groups_ok f r (skipn n bodies)
      end
  end.

Definition by_kind (ms : list metric) : list metric :=
  filter (fun m => match m with MCounter _ _ _ => true | _ => false end) ms ++
  filter (fun m => match m with MGauge _ _ _ => true | _ => false end) ms ++
  filter (fun m => match m with MHist _ _ _ _ => true | _ => false end) ms.

Definition spec_flush_ok (f : fcfg) (ms : list metric) (ps : option (list bytes)) : bool :=
  match ps with
  | None => two32 <=? f_max f                         (* the constructor's documented assert *)
  | Some ps =>
      if two32 <=? f_max f then false else
      if forallb (fun m => values_nonempty (expected_op f m)) ms then
        match unframe_all {| c_max := f_max f; c_lp := f_lp f; c_env := {| prefix := None; glabels := []; fx := all_fixed |} |} ps with
        | Some bodies => groups_ok f (by_kind ms) bodies
        | None => false
        end
      else true
  end.
