(* C09 — the executable specification accepts the model's output for every case of every kind. *)
From Coq Require Import List NArith Bool.
Import ListNotations.
Require Import MV.C09.Model MV.C09.Spec MV.C09.WModel MV.C09.WSpec MV.C09.XExec MV.C09.Compose MV.C09.WProofs
               MV.C09.FlushProofs.
Require MV.C09.Exec.
Open Scope N_scope.

Theorem xspec_ok_on_model c : spec_ok c (run_case c) = true.
Proof.
  destruct c as [c | ops | f ms]; cbn [spec_ok run_case].
  - apply spec_ok_on_model.
  - apply spec_builder_ok_on_model.
  - apply spec_flush_ok_on_model.
Qed.
