(* C09 — the executable specification accepts the model's output for writer and builder cases. *)
From Coq Require Import List NArith Bool.
Import ListNotations.
Require Import MV.C09.Model MV.C09.Spec MV.C09.WModel MV.C09.WSpec MV.C09.XExec MV.C09.Compose MV.C09.WProofs.
Require MV.C09.Exec.
Open Scope N_scope.

(* full statement:  forall c, spec_ok c (run_case c) = true.
   Proved for writer op-sequence cases (XW) and builder cases (XB).  For one-flush cases (XF) the
   model is proved total (WProofs.flush_total) and every write of the flush satisfies the per-write
   theorems, but acceptance by [spec_flush_ok] (grouping of the drained bodies by metric) is not
   composed; it is evaluated on every implementation output instead. *)
Theorem xspec_ok_on_model_partial c : (match c with XF _ _ => False | _ => True end) ->
  spec_ok c (run_case c) = true.
Proof.
  destruct c as [c | ops | f ms]; intros H; [| |destruct H]; cbn [spec_ok run_case].
  - apply spec_ok_on_model.
  - apply spec_builder_ok_on_model.
Qed.
