(* C09 — statements at the level of cases (Exec.v), refutation witnesses for the code as found,
   and a non-trivial example. *)
From Coq Require Import List NArith Bool Lia PeanoNat.
Import ListNotations.
Require Import MV.C09.Model MV.C09.Spec MV.C09.Exec MV.C09.Inv MV.C09.Abs MV.C09.Safety MV.C09.Render
               MV.C09.Conserve MV.C09.Sound.
Open Scope N_scope.

(* ------------------------------------------------------------------ per-operation statements *)
Definition is_write (o : op) : Prop := match o with Drain _ => False | _ => True end.

Theorem write_conservation c w fs o :
  fx (c_env c) = all_fixed -> Rep w fs -> max w = c_max c -> is_write o -> values_nonempty o = true ->
  exists w' pw pd chunks,
    step (c_env c) w o = Ok (w', OWrite pw pd) /\
    Rep w' (fs ++ map (fun ch => render (expect c o ch)) chunks) /\
    Forall (fun ch => ch <> []) chunks /\
    concat chunks = kept c o /\
    pw = len chunks /\
    pd + len (kept c o) = len (op_values o).
Proof.
  intros Hf H Hm Hw Hne. destruct (step_refines (c_env c) w fs o Hf H) as (w' & Hr & _ & _ & R).
  rewrite Hm in Hr, R. destruct (awrite_spec c o Hw Hne) as (A & B & C & D & E).
  exists w', (fst (snd (awrite (c_env c) (c_max c) o))), (snd (snd (awrite (c_env c) (c_max c) o))),
         (achunks (c_env c) (c_max c) o).
  split; [destruct o; [exact Hr|exact Hr|destruct Hw]|].
  assert (R' : Rep w' (fs ++ fst (awrite (c_env c) (c_max c) o))) by (destruct o; [exact R|exact R|destruct Hw]).
  rewrite <- A. split; [exact R'|]. split; [exact B|]. split; [exact C|]. split; [exact D|exact E].
Qed.

Theorem drain_yields_committed e w fs k :
  fx e = all_fixed -> Rep w fs ->
  exists w', step e w (Drain k) = Ok (w', OPayloads (len fs) (firstn (drain_count k fs) (map (frame (lp w)) fs))) /\
             Rep w' [] /\ max w' = max w /\ lp w' = lp w.
Proof.
  intros Hf H. destruct (step_refines e w fs (Drain k) Hf H) as (w' & Hr & M & L & R).
  exists w'. cbn [astep fst snd] in Hr, R. auto.
Qed.

(* sub-runs of the values of a write inherit delimiter-freeness *)
Lemma wf_msg_sub c o vs ch :
  wf_msg (expect c o vs) = true -> incl ch vs -> wf_msg (expect c o ch) = true.
Proof.
  unfold wf_msg. intros H Hi.
  assert (Hv : forallb (free_of [58; 124; 10]) vs = true -> forallb (free_of [58; 124; 10]) ch = true).
  { rewrite !forallb_forall. intros Hall x Hx. apply Hall, Hi, Hx. }
  destruct o; cbn [expect m_name m_values m_type m_rate m_tags m_ts] in *;
    repeat (apply andb_true_iff in H as [H ?]); repeat (apply andb_true_iff; split); auto.
Qed.

Theorem emitted_message_roundtrip c o chunks ch :
  concat chunks = kept c o -> In ch chunks -> ch <> [] ->
  wf_msg (expect c o (op_values o)) = true ->
  parse_msg (render (expect c o ch)) = Some (expect c o ch).
Proof.
  intros Hc Hin Hne Hwf. apply parse_render.
  - apply (wf_msg_sub c o (op_values o)); auto. intros x Hx.
    assert (Hk : In x (kept c o)). { rewrite <- Hc. apply in_concat. exists ch. auto. }
    unfold kept in Hk. apply filter_In in Hk. tauto.
  - destruct o; cbn [expect m_values]; exact Hne.
Qed.

(* ------------------------------------------------------------------ cases *)
Lemma run_case_fixed c : k_max c < two32 ->
  exists w, Winv w /\ max w = k_max c /\ lp w = k_lp c /\
            run_case c = run (c_env (cfg_of impl_fixes c)) w (k_ops c).
Proof.
  intros H. destruct (winv_new (k_max c) (k_lp c) H) as (w & Hn & Hw & M & L).
  exists w. repeat split; auto. unfold run_case, run_cfg. cbn [cfg_of c_max c_lp c_env]. rewrite Hn. reflexivity.
Qed.

(* full statement (proved as C09_spec_ok_on_model in Properties.v):
     forall c, spec_ok c (run_case c) = true
   proved here: totality, output shape, and the framing/size clause of spec_ok on every yielded
   payload.  The WriteResult clause is [counts_ok_on_model]; the message/conservation clause is
   proved per write ([write_conservation], [emitted_message_roundtrip]) but its composition with the
   checker's pending-payload bookkeeping ([distribute]) over whole sequences is not. *)
Theorem spec_ok_on_model_partial c : k_max c < two32 ->
  ~ In OPanic (run_case c) /\ length (run_case c) = length (k_ops c) /\
  forall a ps p, In (OPayloads a ps) (run_case c) -> In p ps ->
    exists body, unframe (cfg_of impl_fixes c) p = Some body /\ p = frame (k_lp c) body.
Proof.
  intros H. destruct (run_case_fixed c H) as (w & Hw & M & L & ->).
  split; [apply run_no_panic; auto|]. split; [apply run_length; auto|].
  intros a ps p Hin Hp.
  apply (unframe_on_model (cfg_of impl_fixes c) w (k_ops c) a ps p); auto.
Qed.

(* ------------------------------------------------------------------ the code as found *)
(* In the two framing witnesses the payload yielded after the lost placeholder is self-consistent as
   a frame (header = number of bytes that follow) but the header has overwritten the first four
   bytes of the message: the body is 4 bytes short and is not a DogStatsD message. *)
Definition mkcfg (mx : N) (l : bool) (p : option bytes) (f : fixes) : cfg :=
  {| c_max := mx; c_lp := l; c_env := {| prefix := p; glabels := []; fx := f |} |}.

From Coq Require Import String Ascii.
Open Scope string_scope.
Fixpoint str (s : string) : bytes :=
  match s with EmptyString => [] | String a r => N_of_ascii a :: str r end.
Lemma framing_refuted_before_fix_drop :
  exists c ops, fx (c_env c) = {| fix_drop := false; fix_reject := true; fix_prefix := true |} /\
    spec_check c ops (run_cfg c ops) = false /\
    exists a p body, nth 3 (run_cfg c ops) OPanic = OPayloads a [p] /\ unframe c p = Some body /\
                     parse_msg body = None /\ len body + 4 = 9 (* "ab:2.0|g\n" *).
Proof.
  exists (mkcfg 100 true None {| fix_drop := false; fix_reject := true; fix_prefix := true |}).
  exists [WScalar Gauge (str "ab") [] (str "1.0") None; Drain None;
          WScalar Gauge (str "ab") [] (str "2.0") None; Drain None].
  split; [reflexivity|]. split; [vm_compute; reflexivity|].
  eexists; eexists; eexists. repeat split; vm_compute; reflexivity.
Qed.

Lemma framing_refuted_before_fix_reject :
  exists c ops, fx (c_env c) = {| fix_drop := true; fix_reject := false; fix_prefix := true |} /\
    spec_check c ops (run_cfg c ops) = false /\
    exists a p body, nth 2 (run_cfg c ops) OPanic = OPayloads a [p] /\ unframe c p = Some body /\
                     parse_msg body = None /\ len body + 4 = 8 (* "a:2.0|g\n" *).
Proof.
  exists (mkcfg 8 true None {| fix_drop := true; fix_reject := false; fix_prefix := true |}).
  exists [WScalar Gauge (str "abcdefghij") [] (str "1.0") None;
          WScalar Gauge (str "a") [] (str "2.0") None; Drain None].
  split; [reflexivity|]. split; [vm_compute; reflexivity|].
  eexists; eexists; eexists. repeat split; vm_compute; reflexivity.
Qed.

Lemma total_refuted_before_fix_prefix :
  exists c ops, fx (c_env c) = {| fix_drop := true; fix_reject := true; fix_prefix := false |} /\
    c_max c < two32 /\ In OPanic (run_cfg c ops).
Proof.
  exists (mkcfg 20 false (Some (str "pppppp")) {| fix_drop := true; fix_reject := true; fix_prefix := false |}).
  exists [WHist Hist (str "nm") [] [str "1.0"; str "2.0"; str "3.0"] None; Drain None].
  split; [reflexivity|]. split; [reflexivity|]. vm_compute. left. reflexivity.
Qed.

(* after a drain in length-prefixed mode the unfixed current_len underflows *)
Lemma total_refuted_before_fix_drop :
  exists c ops, fx (c_env c) = {| fix_drop := false; fix_reject := true; fix_prefix := true |} /\
    c_max c < two32 /\ In OPanic (run_cfg c ops).
Proof.
  exists (mkcfg 100 true None {| fix_drop := false; fix_reject := true; fix_prefix := true |}).
  exists [Drain None; WHist Hist (str "nm") [] [] None].
  split; [reflexivity|]. split; [reflexivity|]. vm_compute. right. left. reflexivity.
Qed.

(* ------------------------------------------------------------------ a non-trivial example *)
Definition example_case : case :=
  {| k_max := 40; k_lp := true; k_prefix := Some (str "srv"); k_glabels := [(str "env", str "prod")];
     k_ops := [WHist Dist (str "lat") [(str "bare", [])] [str "1.5"; str "22.25"; str "1e100"; str "1.7976931348623157e308"; str "0.1"; str "3.0"] (Some (str "0.5"));
               WScalar Counter (str "a_rather_long_counter_name") [] (str "7") None;
               WScalar Gauge (str "g") [] (str "2.0") (Some (str "17"));
               Drain (Some 1); WScalar Counter (str "c") [] (str "1") None; Drain None] |}.
Example example_hypotheses_satisfiable :
  k_max example_case < two32 /\ forallb values_nonempty (k_ops example_case) = true /\
  forallb (fun o => wf_msg (expect (cfg_of impl_fixes example_case) o (op_values o))) (k_ops example_case) = true /\
  spec_ok example_case (run_case example_case) = true /\
  run_case example_case =
    [OWrite 3 1; OWrite 0 1; OWrite 1 0;
     OPayloads 4 [(le32 40 ++ str "srv.lat:1.5:22.25|d|@0.5|#env:prod,bare" ++ [10])%list];
     OWrite 1 0;
     OPayloads 1 [(le32 20 ++ str "srv.c:1|c|#env:prod" ++ [10])%list]].
Proof. vm_compute. repeat split; reflexivity. Qed.
