(* C09 — model of metrics-exporter-dogstatsd/src/writer.rs (PayloadWriter), transcribed statement
   by statement as a state machine over byte lists.

   Modelled: PayloadWriter::{new, last_offset, current_len, prepare_for_write, commit,
   write_trailing, write_counter, write_gauge, write_histogram, write_distribution,
   write_hist_dist_inner, payloads}, Payloads::{len, next_payload}, Drop for Payloads (including the
   drop of the `Drain` it owns, which empties `offsets`), write_metric_trailer, WriteResult.

   Panics of the code are the constructor [Panic]: the usize subtractions of current_len (the
   harness is built with overflow checks), the slice indexing of commit and next_payload, the
   `u32::try_from(..).unwrap()` of commit, the two `assert!(self.commit(), ..)` of
   write_hist_dist_inner and the `assert!` of `new`.

   Numbers arrive pre-formatted: an operation carries the byte strings itoa/ryu produced for its
   values, timestamp and sample rate (an oracle; float printing is not modelled).  Lengths are
   unbounded [N]: usize additions are assumed not to wrap (buffers below 2^64 bytes).

   [fixes] selects, defect by defect, between the code as found ([false]) and the code after the
   corresponding `fix:` commit ([true]); the code in /repo is [all_fixed].                         *)
From Coq Require Import List NArith Bool.
Import ListNotations.
Open Scope N_scope.

Definition bytes := list N.
Definition len {A} (b : list A) : N := N.of_nat (length b).

Inductive res (A : Type) := Ok (a : A) | Panic.
Arguments Ok {A} a.
Arguments Panic {A}.

Record fixes := { fix_drop : bool;      (* Drop for Payloads re-arms the length-prefix placeholder *)
                  fix_reject : bool;    (* commit re-arms the placeholder after truncating a rejected metric *)
                  fix_prefix : bool }.  (* minimum_payload_len of write_hist_dist_inner counts the prefix *)
Definition as_found : fixes := {| fix_drop := false; fix_reject := false; fix_prefix := false |}.
Definition all_fixed : fixes := {| fix_drop := true; fix_reject := true; fix_prefix := true |}.

Definition label := (bytes * bytes)%type.
(* what the exporter passes on every call: global prefix, global labels *)
Record env := { prefix : option bytes; glabels : list label; fx : fixes }.

Record writer := { max : N; lp : bool; buf : bytes; offsets : list N }.
Definition with_buf (w : writer) (b : bytes) : writer :=
  {| max := max w; lp := lp w; buf := b; offsets := offsets w |}.
Definition push_offset (w : writer) (o : N) : writer :=
  {| max := max w; lp := lp w; buf := buf w; offsets := offsets w ++ [o] |}.
(* buf.extend_from_slice / push *)
Definition extend (w : writer) (x : bytes) : writer := with_buf w (buf w ++ x).

Definition two32 : N := 4294967296.

(* writer.rs:87-94 *)
Definition prepare_for_write (w : writer) : writer :=
  if lp w then extend w [0; 0; 0; 0] else w.

(* writer.rs:54-72 *)
Definition new (mx : N) (l : bool) : res writer :=
  if two32 <=? mx then Panic
  else Ok (prepare_for_write {| max := mx; lp := l; buf := []; offsets := [] |}).

(* writer.rs:74-76 *)
Definition last_offset (w : writer) : N := last (offsets w) 0.

(* checked usize subtraction *)
Definition csub (a b : N) : res N := if a <? b then Panic else Ok (a - b).

(* writer.rs:78-85   self.buf.len() - last_offset - maybe_length_prefix_len *)
Definition current_len (w : writer) : res N :=
  let lo := last_offset w in
  let pl := if lp w then 4 else 0 in
  match csub (len (buf w)) lo with
  | Panic => Panic
  | Ok d => csub d pl
  end.

Definition le32 (n : N) : bytes :=
  [n mod 256; (n / 256) mod 256; (n / 65536) mod 256; (n / 16777216) mod 256].

Definition truncate (n : N) (b : bytes) : bytes := firstn (N.to_nat n) b.
(* buf[off..off+4].copy_from_slice(x)  (|x| = 4) *)
Definition patch4 (off : N) (x : bytes) (b : bytes) : bytes :=
  firstn (N.to_nat off) b ++ x ++ skipn (N.to_nat off + 4) b.

(* writer.rs:96-124 *)
Definition commit (f : fixes) (w : writer) : res (writer * bool) :=
  let current_last_offset := last_offset w in
  match current_len w with
  | Panic => Panic
  | Ok cl =>
      if max w <? cl then
        let w1 := with_buf w (truncate (last_offset w) (buf w)) in
        Ok (if fix_reject f then prepare_for_write w1 else w1, false)
      else
        let w1 := push_offset w (len (buf w)) in
        if lp w then
          if two32 <=? cl then Panic                                       (* u32::try_from(..).unwrap() *)
          else if len (buf w1) <? current_last_offset + 4 then Panic        (* slice index *)
          else Ok (prepare_for_write (with_buf w1 (patch4 current_last_offset (le32 cl) (buf w1))), true)
        else Ok (prepare_for_write w1, true)
  end.

(* writer.rs:371-425; [b] is the buffer written to *)
Definition is_empty {A} (b : list A) : bool := match b with [] => true | _ => false end.
Fixpoint tags_loop (b : bytes) (wrote_tag : bool) (tags : list label) : bytes :=
  match tags with
  | [] => b
  | t :: r =>
      let b1 := if wrote_tag then b ++ [44] else b ++ [124; 35] in        (* ","  /  "|#" *)
      let b2 := b1 ++ fst t in
      let b3 := if is_empty (snd t) then b2 else (b2 ++ [58]) ++ snd t in   (* ":" value *)
      tags_loop b3 true r
  end.
Definition write_metric_trailer (labels : list label) (ts : option bytes) (b : bytes)
           (rate : option bytes) (gl : list label) : bytes :=
  let b1 := match rate with Some r => (b ++ [124; 64]) ++ r | None => b end in   (* "|@" *)
  let b2 := tags_loop b1 false (gl ++ labels) in
  let b3 := match ts with Some t => (b2 ++ [124; 84]) ++ t | None => b2 end in   (* "|T" *)
  b3 ++ [10].

(* `if let Some(prefix) = prefix { extend(prefix); push(b'.') }` *)
Definition write_prefix (e : env) (w : writer) : writer :=
  match prefix e with Some p => extend (extend w p) [46] | None => w end.

(* writer.rs:131-188; [tyb] = 99 'c' / 103 'g' *)
Definition write_scalar (e : env) (w : writer) (tyb : N) (name : bytes) (labels : list label)
           (value_str : bytes) (ts : option bytes) : res (writer * (N * N)) :=
  let w1 := write_prefix e w in
  let w2 := extend w1 name in
  let w3 := extend w2 [58] in
  let w4 := extend w3 value_str in
  let w5 := extend w4 [124; tyb] in
  let w6 := with_buf w5 (write_metric_trailer labels ts (buf w5) None (glabels e)) in
  match commit (fx e) w6 with
  | Panic => Panic
  | Ok (w7, true) => Ok (w7, (1, 0))
  | Ok (w7, false) => Ok (w7, (0, 1))
  end.

(* push(b'|'); push(metric_type); extend_from_slice(&trailer_buf); assert!(self.commit()) *)
Definition finish_payload (e : env) (w : writer) (tyb : N) (tb : bytes) : res writer :=
  let w1 := extend (extend (extend w [124]) [tyb]) tb in
  match commit (fx e) w1 with
  | Panic => Panic
  | Ok (_, false) => Panic
  | Ok (w2, true) => Ok w2
  end.

(* the `for value in values` loop of writer.rs:271-314; loop state: writer, needs_name,
   current_len (the shadow length), result *)
Fixpoint hist_loop (e : env) (tyb : N) (name tb : bytes) (minimum_payload_len : N)
         (values : list bytes) (w : writer) (needs_name : bool) (cur : N) (pw pd : N)
  : res (writer * (N * N)) :=
  match values with
  | [] => Ok (w, (pw, pd))
  | value_str :: rest =>
      if max w <? minimum_payload_len + len value_str + 1 then
        hist_loop e tyb name tb minimum_payload_len rest w needs_name cur pw (pd + 1)
      else
        let st :=
          if max w <? cur + len value_str + 1 then
            match finish_payload e w tyb tb with
            | Panic => Panic
            | Ok w1 => Ok (w1, true, minimum_payload_len, pw + 1)
            end
          else Ok (w, needs_name, cur, pw) in
        match st with
        | Panic => Panic
        | Ok (w1, nn, cur1, pw1) =>
            let w2 := if nn then extend (write_prefix e w1) name else w1 in
            let w3 := extend (extend w2 [58]) value_str in
            hist_loop e tyb name tb minimum_payload_len rest w3 false (cur1 + len value_str + 1) pw1 pd
        end
  end.

Definition prefix_len (e : env) : N :=
  match prefix e with Some p => len p + 1 | None => 0 end.

(* writer.rs:222-328; [tyb] = 104 'h' / 100 'd' *)
Definition write_hist_dist_inner (e : env) (w : writer) (tyb : N) (name : bytes) (labels : list label)
           (values : list bytes) (rate : option bytes) : res (writer * (N * N)) :=
  let tb := write_metric_trailer labels None [] rate (glabels e) in
  let minimum_payload_len :=
    (if fix_prefix (fx e) then prefix_len e else 0) + len name + len tb + 2 in
  if max w <? minimum_payload_len + 2 then Ok (w, (0, len values))
  else
    match hist_loop e tyb name tb minimum_payload_len values w true minimum_payload_len 0 0 with
    | Panic => Panic
    | Ok (w1, (pw, pd)) =>
        match current_len w1 with
        | Panic => Panic
        | Ok cl =>
            if cl =? 0 then Ok (w1, (pw, pd))
            else match finish_payload e w1 tyb tb with
                 | Panic => Panic
                 | Ok w2 => Ok (w2, (pw + 1, pd))
                 end
        end
    end.

(* writer.rs:334-369: payloads(), at most [k] calls of next_payload() that return Some, drop *)
Definition slice (b : bytes) (s o : N) : bytes := firstn (N.to_nat (o - s)) (skipn (N.to_nat s) b).
Fixpoint next_payloads (b : bytes) (start : N) (offs : list N) (k : nat) : res (list bytes) :=
  match k, offs with
  | O, _ => Ok []
  | _, [] => Ok []
  | S k', o :: r =>
      if (o <? start) || (len b <? o) then Panic                 (* &self.buf[self.start..offset] *)
      else match next_payloads b o r k' with
           | Panic => Panic
           | Ok ps => Ok (slice b start o :: ps)
           end
  end.
Definition drain (f : fixes) (w : writer) (k : option N) : res (writer * (N * list bytes)) :=
  let n := match k with Some k => N.to_nat k | None => length (offsets w) end in
  match next_payloads (buf w) 0 (offsets w) n with
  | Panic => Panic
  | Ok ps =>
      let w0 := {| max := max w; lp := lp w; buf := []; offsets := [] |} in
      Ok (if fix_drop f then prepare_for_write w0 else w0, (len (offsets w), ps))
  end.

(* ---------------------------------------------------------------- operations on one writer *)
Inductive hkind := Hist | Dist.
Definition hbyte (k : hkind) : N := match k with Hist => 104 | Dist => 100 end.
Inductive skind := Counter | Gauge.
Definition sbyte (k : skind) : N := match k with Counter => 99 | Gauge => 103 end.

Inductive op :=
| WScalar (k : skind) (name : bytes) (labels : list label) (value_str : bytes) (ts : option bytes)
| WHist (k : hkind) (name : bytes) (labels : list label) (values : list bytes) (rate : option bytes)
| Drain (k : option N).

Inductive out :=
| OWrite (payloads_written points_dropped : N)
| OPayloads (available : N) (ps : list bytes)
| OPanic.

Definition step (e : env) (w : writer) (o : op) : res (writer * out) :=
  match o with
  | WScalar k name labels v ts =>
      match write_scalar e w (sbyte k) name labels v ts with
      | Panic => Panic
      | Ok (w', (pw, pd)) => Ok (w', OWrite pw pd)
      end
  | WHist k name labels vs rate =>
      match write_hist_dist_inner e w (hbyte k) name labels vs rate with
      | Panic => Panic
      | Ok (w', (pw, pd)) => Ok (w', OWrite pw pd)
      end
  | Drain k =>
      match drain (fx e) w k with
      | Panic => Panic
      | Ok (w', (a, ps)) => Ok (w', OPayloads a ps)
      end
  end.

(* execution stops at the first panic (the harness catches the unwind and stops the case) *)
Fixpoint run (e : env) (w : writer) (ops : list op) : list out :=
  match ops with
  | [] => []
  | o :: r => match step e w o with
              | Panic => [OPanic]
              | Ok (w', x) => x :: run e w' r
              end
  end.

Record cfg := { c_max : N; c_lp : bool; c_env : env }.
Definition run_cfg (c : cfg) (ops : list op) : list out :=
  match new (c_max c) (c_lp c) with
  | Panic => [OPanic]
  | Ok w => run (c_env c) w ops
  end.
