(* C09 — property theorems (statements only; proofs in Inv.v / Abs.v / Safety.v / Render.v /
   Conserve.v / Sound.v / Final.v).

   Reading guide.  [step e w o] / [run e w ops] is the byte-level model of PayloadWriter (Model.v);
   [fx e = all_fixed] selects the code after the three `fix:` commits.  [Winv w] is the invariant at
   operation boundaries: [Rep w fs] = the buffer is the concatenation of the frames of the bodies
   [fs], each within the limit, followed by one 4-byte placeholder iff length-prefixed, and
   [offsets] are the frames' end positions.  [parse_msg], [unframe], [msg_len], [kept], [expect],
   [counts_ok], [spec_check] are the specification (Spec.v); [render] is the message printer the
   model is proved to coincide with (Render.v).                                                   *)
From Coq Require Import List NArith Bool.
Import ListNotations.
Require Import MV.C09.Model MV.C09.Spec MV.C09.Exec MV.C09.Inv MV.C09.Abs MV.C09.Safety MV.C09.Render
               MV.C09.Conserve MV.C09.Sound MV.C09.Final.
Open Scope N_scope.

(* the constructor establishes the invariant *)
Theorem C09_new_establishes_invariant : forall mx l, mx < two32 ->
  exists w, new mx l = Ok w /\ Winv w /\ max w = mx /\ lp w = l.
Proof. exact winv_new. Qed.

(* no operation panics from an invariant state, and the invariant is preserved by every operation,
   including rejected writes and (partial) drains *)
Theorem C09_total : forall e w o, fx e = all_fixed -> Winv w ->
  exists w' x, step e w o = Ok (w', x) /\ x <> OPanic /\ Winv w' /\ max w' = max w /\ lp w' = lp w.
Proof. exact winv_step. Qed.

Theorem C09_total_sequences : forall e ops, fx e = all_fixed -> forall w, Winv w ->
  ~ In OPanic (run e w ops).
Proof. exact run_no_panic. Qed.

Theorem C09_one_output_per_operation : forall e ops, fx e = all_fixed -> forall w, Winv w ->
  length (run e w ops) = length ops.
Proof. exact run_length. Qed.

(* every payload yielded by any drain of any sequence: body within the limit, exact framing *)
Theorem C09_len_bound : forall e ops, fx e = all_fixed -> forall w a ps p,
  Winv w -> In (OPayloads a ps) (run e w ops) -> In p ps ->
  exists body, p = frame (lp w) body /\ len body <= max w.
Proof. exact yielded_framed. Qed.

Theorem C09_framing : forall c w ops a ps p,
  fx (c_env c) = all_fixed -> Winv w -> max w = c_max c -> lp w = c_lp c -> c_max c < two32 ->
  In (OPayloads a ps) (run (c_env c) w ops) -> In p ps ->
  exists body, unframe c p = Some body /\ p = frame (c_lp c) body.
Proof. exact unframe_on_model. Qed.

(* a drain yields, in order, the frames of the first k committed bodies and empties the writer *)
Theorem C09_drain_yields_committed : forall e w fs k, fx e = all_fixed -> Rep w fs ->
  exists w', step e w (Drain k)
             = Ok (w', OPayloads (len fs) (firstn (drain_count k fs) (map (frame (lp w)) fs))) /\
             Rep w' [] /\ max w' = max w /\ lp w' = lp w.
Proof. exact drain_yields_committed. Qed.

(* one write call: the bodies it commits are the renderings of the expected message over a split
   [chunks] of exactly the values that fit; payloads_written / points_dropped count them *)
Theorem C09_point_conservation : forall c w fs o,
  fx (c_env c) = all_fixed -> Rep w fs -> max w = c_max c -> is_write o -> values_nonempty o = true ->
  exists w' pw pd chunks,
    step (c_env c) w o = Ok (w', OWrite pw pd) /\
    Rep w' (fs ++ map (fun ch => render (expect c o ch)) chunks) /\
    Forall (fun ch => ch <> []) chunks /\
    concat chunks = kept c o /\
    pw = len chunks /\
    pd + len (kept c o) = len (op_values o).
Proof. exact write_conservation. Qed.

Theorem C09_write_result_meets_spec : forall c w o,
  fx (c_env c) = all_fixed -> Winv w -> max w = c_max c ->
  (match o with Drain _ => False | _ => True end) -> values_nonempty o = true ->
  exists w' pw pd, step (c_env c) w o = Ok (w', OWrite pw pd) /\ counts_ok c o pw pd = true.
Proof. exact counts_ok_on_model. Qed.

(* the rendered message has the declared length and is read back by the independent parser *)
Theorem C09_render_length : forall m, len (render m) = msg_len m.
Proof. exact render_len. Qed.

Theorem C09_message_roundtrip : forall m, wf_msg m = true -> m_values m <> [] ->
  parse_msg (render m) = Some m.
Proof. exact parse_render. Qed.

Theorem C09_emitted_message_roundtrip : forall c o chunks ch,
  concat chunks = kept c o -> In ch chunks -> ch <> [] ->
  wf_msg (expect c o (op_values o)) = true ->
  parse_msg (render (expect c o ch)) = Some (expect c o ch).
Proof. exact emitted_message_roundtrip. Qed.

(* full statement:  forall c, spec_ok c (run_case c) = true.
   Proved: totality, one output per operation, and the framing/size clause of spec_ok on every
   yielded payload; the WriteResult clause is C09_write_result_meets_spec; the message and
   conservation clause is proved per write (C09_point_conservation, C09_emitted_message_roundtrip)
   but not composed with the checker's pending-payload bookkeeping over whole sequences. *)
Theorem C09_spec_ok_on_model_partial : forall c, k_max c < two32 ->
  ~ In OPanic (run_case c) /\ length (run_case c) = length (k_ops c) /\
  forall a ps p, In (OPayloads a ps) (run_case c) -> In p ps ->
    exists body, unframe (cfg_of impl_fixes c) p = Some body /\ p = frame (k_lp c) body.
Proof. exact spec_ok_on_model_partial. Qed.

(* the code as found (each repair switched off separately) violates the property *)
Theorem C09_framing_refuted_before_fix_drop :
  exists c ops, fx (c_env c) = {| fix_drop := false; fix_reject := true; fix_prefix := true |} /\
    spec_check c ops (run_cfg c ops) = false /\
    exists a p body, nth 3 (run_cfg c ops) OPanic = OPayloads a [p] /\ unframe c p = Some body /\
                     parse_msg body = None /\ len body + 4 = 9 (* "ab:2.0|g\n" *).
Proof. exact framing_refuted_before_fix_drop. Qed.

Theorem C09_framing_refuted_before_fix_reject :
  exists c ops, fx (c_env c) = {| fix_drop := true; fix_reject := false; fix_prefix := true |} /\
    spec_check c ops (run_cfg c ops) = false /\
    exists a p body, nth 2 (run_cfg c ops) OPanic = OPayloads a [p] /\ unframe c p = Some body /\
                     parse_msg body = None /\ len body + 4 = 8 (* "a:2.0|g\n" *).
Proof. exact framing_refuted_before_fix_reject. Qed.

Theorem C09_total_refuted_before_fix_prefix :
  exists c ops, fx (c_env c) = {| fix_drop := true; fix_reject := true; fix_prefix := false |} /\
    c_max c < two32 /\ In OPanic (run_cfg c ops).
Proof. exact total_refuted_before_fix_prefix. Qed.

Theorem C09_total_refuted_before_fix_drop :
  exists c ops, fx (c_env c) = {| fix_drop := false; fix_reject := true; fix_prefix := true |} /\
    c_max c < two32 /\ In OPanic (run_cfg c ops).
Proof. exact total_refuted_before_fix_drop. Qed.
