(* C09 — property theorems (statements only). *)
From Coq Require Import List NArith Bool.
Import ListNotations.
Require Import MV.C09.Model MV.C09.Spec MV.C09.Exec.
Open Scope N_scope.

Theorem C09_placeholder : True.
Proof. exact I. Qed.
