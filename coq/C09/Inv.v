(* C09 — the representation invariant of the writer and what every internal step does to it. *)
From Coq Require Import List NArith Bool Lia PeanoNat.
Import ListNotations.
Require Import MV.C09.Model.
Open Scope N_scope.

(* ------------------------------------------------------------------ lists and lengths *)
Lemma len_app {A} (a b : list A) : len (a ++ b) = len a + len b.
Proof. unfold len. rewrite app_length. lia. Qed.
Lemma len_nil {A} : len (@nil A) = 0.
Proof. reflexivity. Qed.
Lemma len_cons {A} (x : A) l : len (x :: l) = 1 + len l.
Proof. unfold len. cbn [length]. lia. Qed.
Lemma len_zero {A} (l : list A) : len l = 0 -> l = [].
Proof. destruct l; auto. rewrite len_cons. lia. Qed.
Lemma to_nat_len {A} (l : list A) : N.to_nat (len l) = length l.
Proof. unfold len. lia. Qed.

Lemma firstn_len_app {A} (a b : list A) : firstn (N.to_nat (len a)) (a ++ b) = a.
Proof.
  rewrite to_nat_len. rewrite firstn_app, Nat.sub_diag, firstn_all. cbn. apply app_nil_r.
Qed.
Lemma skipn_len_app {A} (a b : list A) : skipn (N.to_nat (len a)) (a ++ b) = b.
Proof. rewrite to_nat_len. rewrite skipn_app, Nat.sub_diag, skipn_all. reflexivity. Qed.

Lemma last_cons {A} (x d : A) l : last (x :: l) d = last l x.
Proof.
  revert x d. induction l as [|y l IH]; intros x d; auto.
  change (last (x :: y :: l) d) with (last (y :: l) d). rewrite (IH y d). symmetry. apply (IH y x).
Qed.
Lemma last_snoc {A} (x d : A) l : last (l ++ [x]) d = x.
Proof. apply last_last. Qed.

Lemma le32_len n : len (le32 n) = 4.
Proof. reflexivity. Qed.

(* ------------------------------------------------------------------ the invariant *)
Definition ph (l : bool) : bytes := if l then [0; 0; 0; 0] else [].
Definition frame (l : bool) (body : bytes) : bytes := (if l then le32 (len body) else []) ++ body.
Fixpoint flat (l : bool) (fs : list bytes) : bytes :=
  match fs with [] => [] | b :: r => frame l b ++ flat l r end.
Fixpoint offs (l : bool) (start : N) (fs : list bytes) : list N :=
  match fs with [] => [] | b :: r => (start + len (frame l b)) :: offs l (start + len (frame l b)) r end.

(* [fs]: the bodies of the committed payloads; [t]: the uncommitted bytes of the payload under
   construction (after its placeholder) *)
Definition RepT (w : writer) (fs : list bytes) (t : bytes) : Prop :=
  max w < two32 /\
  buf w = flat (lp w) fs ++ ph (lp w) ++ t /\
  offsets w = offs (lp w) 0 fs /\
  Forall (fun b => len b <= max w) fs.
Definition Rep (w : writer) (fs : list bytes) : Prop := RepT w fs [].
(* the invariant at operation boundaries *)
Definition Winv (w : writer) : Prop := exists fs, Rep w fs.

Lemma ph_len l : len (ph l) = if l then 4 else 0.
Proof. destruct l; reflexivity. Qed.
Lemma frame_len l b : len (frame l b) = len (ph l) + len b.
Proof. unfold frame. rewrite len_app. destruct l; reflexivity. Qed.

Lemma flat_app l a b : flat l (a ++ b) = flat l a ++ flat l b.
Proof. induction a; cbn [flat app]; auto. rewrite IHa. apply app_assoc. Qed.
Lemma offs_app l s a b : offs l s (a ++ b) = offs l s a ++ offs l (s + len (flat l a)) b.
Proof.
  revert s. induction a as [|x a IH]; intros s; cbn [offs flat app].
  - rewrite len_nil, N.add_0_r. reflexivity.
  - rewrite IH, len_app, N.add_assoc. reflexivity.
Qed.
Lemma last_offs l s fs : last (offs l s fs) s = s + len (flat l fs).
Proof.
  revert s. induction fs as [|b r IH]; intros s; cbn [offs flat].
  - cbn. lia.
  - rewrite last_cons, IH, len_app. lia.
Qed.
Lemma offs_length l s fs : length (offs l s fs) = length fs.
Proof. revert s. induction fs; intros; cbn [offs length]; auto. Qed.

Lemma RepT_last_offset w fs t : RepT w fs t -> last_offset w = len (flat (lp w) fs).
Proof. intros (_ & _ & Ho & _). unfold last_offset. rewrite Ho, last_offs. lia. Qed.

Lemma RepT_buf_len w fs t : RepT w fs t -> len (buf w) = len (flat (lp w) fs) + len (ph (lp w)) + len t.
Proof. intros (_ & Hb & _). rewrite Hb, !len_app. lia. Qed.

Lemma RepT_current_len w fs t : RepT w fs t -> current_len w = Ok (len t).
Proof.
  intros H. unfold current_len, csub.
  rewrite (RepT_last_offset _ _ _ H), (RepT_buf_len _ _ _ H), ph_len.
  destruct (_ <? _) eqn:E1; [apply N.ltb_lt in E1; lia|].
  destruct (lp w).
  - destruct (_ <? 4) eqn:E2; [apply N.ltb_lt in E2; lia|]. f_equal. lia.
  - destruct (_ <? 0) eqn:E2; [apply N.ltb_lt in E2; lia|]. f_equal. lia.
Qed.

Lemma RepT_extend w fs t x : RepT w fs t -> RepT (extend w x) fs (t ++ x).
Proof.
  intros (Hm & Hb & Ho & Hf). unfold RepT, extend, with_buf; cbn [max lp buf offsets].
  repeat split; auto. rewrite Hb, <- !app_assoc. reflexivity.
Qed.
Lemma extend_max w x : max (extend w x) = max w. Proof. reflexivity. Qed.
Lemma extend_lp w x : lp (extend w x) = lp w. Proof. reflexivity. Qed.

Lemma Rep_prepare w fs :
  max w < two32 -> buf w = flat (lp w) fs -> offsets w = offs (lp w) 0 fs ->
  Forall (fun b => len b <= max w) fs -> Rep (prepare_for_write w) fs.
Proof.
  intros Hm Hb Ho Hf. unfold Rep, RepT, prepare_for_write.
  destruct (lp w) eqn:L; unfold extend, with_buf; cbn [max lp buf offsets]; rewrite ?L; cbn [ph];
    repeat split; auto; rewrite Hb, ?app_nil_r; reflexivity.
Qed.
Lemma prepare_max w : max (prepare_for_write w) = max w.
Proof. unfold prepare_for_write. destruct (lp w); reflexivity. Qed.
Lemma prepare_lp w : lp (prepare_for_write w) = lp w.
Proof. unfold prepare_for_write. destruct (lp w) eqn:E; exact E. Qed.

(* ------------------------------------------------------------------ new *)
Lemma new_ok mx l : mx < two32 -> exists w, new mx l = Ok w /\ Rep w [] /\ max w = mx /\ lp w = l.
Proof.
  intros H. unfold new. destruct (two32 <=? mx) eqn:E; [apply N.leb_le in E; lia|].
  eexists; split; [reflexivity|]. split; [|split; [apply prepare_max | apply prepare_lp]].
  apply Rep_prepare; cbn [max lp buf offsets flat offs]; auto.
Qed.

(* ------------------------------------------------------------------ commit *)
Lemma patch4_spec (a x t : bytes) : len x = 4 ->
  patch4 (len a) x (a ++ [0; 0; 0; 0] ++ t) = a ++ x ++ t.
Proof.
  intros Hx. unfold patch4. rewrite firstn_len_app. f_equal. f_equal.
  rewrite to_nat_len. rewrite skipn_app.
  replace (length a + 4 - length a)%nat with 4%nat by lia.
  rewrite skipn_all2 by lia. reflexivity.
Qed.

Lemma commit_spec f w fs t : fix_reject f = true -> RepT w fs t ->
  exists w', commit f w = Ok (w', negb (max w <? len t)) /\ max w' = max w /\ lp w' = lp w /\
             Rep w' (if max w <? len t then fs else fs ++ [t]).
Proof.
  intros Hf H. pose proof H as (Hm & Hb & Ho & Hall).
  unfold commit. rewrite (RepT_current_len _ _ _ H).
  destruct (max w <? len t) eqn:E.
  - rewrite Hf. eexists; split; [reflexivity|]. rewrite prepare_max, prepare_lp. cbn [negb max lp with_buf].
    split; [reflexivity|]. split; [reflexivity|].
    apply Rep_prepare; cbn [max lp buf offsets with_buf]; auto.
    unfold truncate. rewrite (RepT_last_offset _ _ _ H), Hb. apply firstn_len_app.
  - apply N.ltb_ge in E. cbn [negb].
    assert (Hall' : Forall (fun b => len b <= max w) (fs ++ [t])).
    { apply Forall_app; split; auto. }
    assert (Ho' : offsets w ++ [len (buf w)] = offs (lp w) 0 (fs ++ [t])).
    { rewrite offs_app, Ho. f_equal. cbn [offs]. f_equal.
      rewrite (RepT_buf_len _ _ _ H), frame_len. lia. }
    destruct (lp w) eqn:L.
    + destruct (two32 <=? len t) eqn:E2; [apply N.leb_le in E2; lia|].
      cbn [push_offset buf].
      destruct (len (buf w) <? last_offset w + 4) eqn:E3.
      { apply N.ltb_lt in E3. rewrite (RepT_last_offset _ _ _ H), (RepT_buf_len _ _ _ H), L in E3.
        cbn [ph] in E3. change (len [0;0;0;0]) with 4 in E3. lia. }
      eexists; split; [reflexivity|]. rewrite prepare_max, prepare_lp. cbn [max lp with_buf push_offset].
      split; [reflexivity|]. split; [exact L|].
      apply Rep_prepare; cbn [max lp buf offsets with_buf push_offset]; rewrite ?L; auto.
      rewrite (RepT_last_offset _ _ _ H), Hb, ?L. cbn [ph].
      rewrite patch4_spec by apply le32_len.
      rewrite flat_app. cbn [flat]. unfold frame. rewrite app_nil_r. reflexivity.
    + eexists; split; [reflexivity|]. rewrite prepare_max, prepare_lp. cbn [max lp push_offset].
      split; [reflexivity|]. split; [exact L|].
      apply Rep_prepare; cbn [max lp buf offsets push_offset]; rewrite ?L; auto.
      rewrite Hb, ?L, flat_app. cbn [ph flat frame app]. rewrite app_nil_r. reflexivity.
Qed.

(* ------------------------------------------------------------------ trailer *)
Lemma tags_loop_app b wr tags : tags_loop b wr tags = b ++ tags_loop [] wr tags.
Proof.
  revert b wr. induction tags as [|t r IH]; intros b wr; cbn [tags_loop].
  - symmetry. apply app_nil_r.
  - rewrite IH. symmetry. rewrite IH. rewrite app_assoc. f_equal.
    destruct wr, (is_empty (snd t)); cbn [app]; rewrite <- ?app_assoc; reflexivity.
Qed.
Definition trailer (labels : list label) (ts rate : option bytes) (gl : list label) : bytes :=
  write_metric_trailer labels ts [] rate gl.
Lemma trailer_app labels ts b rate gl :
  write_metric_trailer labels ts b rate gl = b ++ trailer labels ts rate gl.
Proof.
  unfold trailer, write_metric_trailer.
  destruct rate as [r|], ts as [t|]; cbn [app];
    rewrite tags_loop_app; symmetry; rewrite tags_loop_app; rewrite <- ?app_assoc; reflexivity.
Qed.

(* ------------------------------------------------------------------ drain *)
Lemma slice_spec (pre x rest : bytes) :
  slice (pre ++ x ++ rest) (len pre) (len pre + len x) = x.
Proof.
  unfold slice. rewrite skipn_len_app. replace (len pre + len x - len pre) with (len x) by lia.
  apply firstn_len_app.
Qed.

Lemma next_payloads_spec l fs : forall pre rest k,
  next_payloads (pre ++ flat l fs ++ rest) (len pre) (offs l (len pre) fs) k
  = Ok (firstn k (map (frame l) fs)).
Proof.
  induction fs as [|b r IH]; intros pre rest k.
  - destruct k; reflexivity.
  - destruct k; [reflexivity|]. cbn [offs next_payloads flat map firstn].
    destruct (_ || _) eqn:E.
    { apply orb_true_iff in E as [E|E]; apply N.ltb_lt in E; [lia|].
      rewrite !len_app in E. lia. }
    rewrite <- app_assoc.
    pose proof (IH (pre ++ frame l b) rest k) as IH'.
    rewrite len_app, <- app_assoc in IH'. rewrite IH'.
    f_equal. f_equal. apply slice_spec.
Qed.

Lemma drain_spec f w fs k : fix_drop f = true -> Rep w fs ->
  exists w', drain f w k = Ok (w', (len fs, firstn (match k with Some k => N.to_nat k | None => length fs end)
                                                   (map (frame (lp w)) fs)))
             /\ max w' = max w /\ lp w' = lp w /\ Rep w' [].
Proof.
  intros Hf (Hm & Hb & Ho & Hall). unfold drain.
  rewrite Hb, Ho. cbn [app]. rewrite app_nil_r.
  pose proof (next_payloads_spec (lp w) fs [] (ph (lp w))) as Hn. cbn [app len length] in Hn.
  change (N.of_nat 0) with 0 in Hn. rewrite Hn, Hf.
  eexists; split.
  - f_equal. f_equal. f_equal.
    + unfold len. rewrite offs_length. reflexivity.
    + destruct k; [reflexivity|]. rewrite offs_length. reflexivity.
  - rewrite prepare_max, prepare_lp. cbn [max lp]. split; [reflexivity|]. split; [reflexivity|].
    apply Rep_prepare; cbn [max lp buf offsets flat offs]; auto.
Qed.
