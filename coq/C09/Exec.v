(* C09 — executable entry points used by the correspondence check (cases.v). *)
From Coq Require Import List NArith Bool.
Import ListNotations.
Require Export MV.C09.Model MV.C09.Spec MV.C09.Codec.
Open Scope N_scope.

(* a case: max payload length, length-prefix flag, global prefix, global labels, operations *)
Record case := { k_max : N; k_lp : bool; k_prefix : option bytes; k_glabels : list label; k_ops : list op }.

(* which of the three repairs the code in /repo contains *)
Definition impl_fixes : fixes := all_fixed.

Definition cfg_of (f : fixes) (c : case) : cfg :=
  {| c_max := k_max c; c_lp := k_lp c;
     c_env := {| prefix := k_prefix c; glabels := k_glabels c; fx := f |} |}.

Definition run_case (c : case) : list out := run_cfg (cfg_of impl_fixes c) (k_ops c).

Definition out_eqb1 (a b : out) : bool :=
  match a, b with
  | OWrite p d, OWrite p' d' => (p =? p') && (d =? d')
  | OPayloads a ps, OPayloads a' ps' => (a =? a') && list_eqb bytes_eqb ps ps'
  | OPanic, OPanic => true
  | _, _ => false
  end.
Definition out_eqb (a b : list out) : bool := list_eqb out_eqb1 a b.

(* the property in executable form, evaluated on an output list (the implementation's) *)
Definition spec_ok (c : case) (o : list out) : bool := spec_check (cfg_of impl_fixes c) (k_ops c) o.
Definition known_class (c : case) : option N := None.

Definition verdicts (l : list (N * case * list out)) : list (N * bool * bool * option N) :=
  map (fun '(i, c, o) => (i, out_eqb (run_case c) o, spec_ok c o, known_class c)) l.
