From Coq Require Import List NArith Bool.
Import ListNotations.
Require Import MV.C09.Model MV.C09.Spec MV.C09.Exec MV.C09.Inv MV.C09.Abs MV.C09.Safety MV.C09.Render
               MV.C09.Conserve MV.C09.Sound MV.C09.Final MV.C09.Compose MV.C09.WModel MV.C09.WSpec MV.C09.WProofs.
Require MV.C09.XExec MV.C09.XProofs MV.C09.FlushProofs.
Open Scope N_scope.
Require Import MV.C09.Properties.

Check (C09_new_establishes_invariant : forall mx l, mx < two32 ->
  exists w, new mx l = Ok w /\ Winv w /\ max w = mx /\ lp w = l).
Print Assumptions C09_new_establishes_invariant.
Check (C09_total : forall e w o, fx e = all_fixed -> Winv w ->
  exists w' x, step e w o = Ok (w', x) /\ x <> OPanic /\ Winv w' /\ max w' = max w /\ lp w' = lp w).
Print Assumptions C09_total.
Check (C09_total_sequences : forall e ops, fx e = all_fixed -> forall w, Winv w ->
  ~ In OPanic (run e w ops)).
Print Assumptions C09_total_sequences.
Check (C09_one_output_per_operation : forall e ops, fx e = all_fixed -> forall w, Winv w ->
  length (run e w ops) = length ops).
Print Assumptions C09_one_output_per_operation.
Check (C09_len_bound : forall e ops, fx e = all_fixed -> forall w a ps p,
  Winv w -> In (OPayloads a ps) (run e w ops) -> In p ps ->
  exists body, p = frame (lp w) body /\ len body <= max w).
Print Assumptions C09_len_bound.
Check (C09_framing : forall c w ops a ps p,
  fx (c_env c) = all_fixed -> Winv w -> max w = c_max c -> lp w = c_lp c -> c_max c < two32 ->
  In (OPayloads a ps) (run (c_env c) w ops) -> In p ps ->
  exists body, unframe c p = Some body /\ p = frame (c_lp c) body).
Print Assumptions C09_framing.
Check (C09_drain_yields_committed : forall e w fs k, fx e = all_fixed -> Rep w fs ->
  exists w', step e w (Drain k)
             = Ok (w', OPayloads (len fs) (firstn (drain_count k fs) (map (frame (lp w)) fs))) /\
             Rep w' [] /\ max w' = max w /\ lp w' = lp w).
Print Assumptions C09_drain_yields_committed.
Check (C09_point_conservation : forall c w fs o,
  fx (c_env c) = all_fixed -> Rep w fs -> max w = c_max c -> is_write o -> values_nonempty o = true ->
  exists w' pw pd chunks,
    step (c_env c) w o = Ok (w', OWrite pw pd) /\
    Rep w' (fs ++ map (fun ch => render (expect c o ch)) chunks) /\
    Forall (fun ch => ch <> []) chunks /\
    concat chunks = kept c o /\
    pw = len chunks /\
    pd + len (kept c o) = len (op_values o)).
Print Assumptions C09_point_conservation.
Check (C09_write_result_meets_spec : forall c w o,
  fx (c_env c) = all_fixed -> Winv w -> max w = c_max c ->
  (match o with Drain _ => False | _ => True end) -> values_nonempty o = true ->
  exists w' pw pd, step (c_env c) w o = Ok (w', OWrite pw pd) /\ counts_ok c o pw pd = true).
Print Assumptions C09_write_result_meets_spec.
Check (C09_render_length : forall m, len (render m) = msg_len m).
Print Assumptions C09_render_length.
Check (C09_message_roundtrip : forall m, wf_msg m = true -> m_values m <> [] ->
  parse_msg (render m) = Some m).
Print Assumptions C09_message_roundtrip.
Check (C09_emitted_message_roundtrip : forall c o chunks ch,
  concat chunks = kept c o -> In ch chunks -> ch <> [] ->
  wf_msg (expect c o (op_values o)) = true ->
  parse_msg (render (expect c o ch)) = Some (expect c o ch)).
Print Assumptions C09_emitted_message_roundtrip.
Check (C09_spec_ok_on_model : forall c, spec_ok c (run_case c) = true).
Print Assumptions C09_spec_ok_on_model.
Check (C09_spec_ok_sound : forall c o,
  k_max c < two32 -> forallb values_nonempty (k_ops c) = true ->
  spec_ok c o = true -> SpecP (cfg_of impl_fixes c) (k_ops c) o []).
Print Assumptions C09_spec_ok_sound.
Check (C09_case_outputs_total_and_framed : forall c, k_max c < two32 ->
  ~ In OPanic (run_case c) /\ length (run_case c) = length (k_ops c) /\
  forall a ps p, In (OPayloads a ps) (run_case c) -> In p ps ->
    exists body, unframe (cfg_of impl_fixes c) p = Some body /\ p = frame (k_lp c) body).
Print Assumptions C09_case_outputs_total_and_framed.
Check (C09_addr_meets_documented_table : forall rp rw a, parse_addr rp rw a = spec_addr rp rw a).
Print Assumptions C09_addr_meets_documented_table.
Check (C09_addr_accepted_sound : forall rp rw a t p, parse_addr rp rw a = AOk t p ->
  match t with
  | TUnix => a = pre_unix ++ p
  | TUnixgram => a = pre_unixgram ++ p
  | TUdp => (a = pre_udp ++ p /\ rp = true) \/ (a = p /\ rw = true /\ contains_sep a = false)
  end).
Print Assumptions C09_addr_accepted_sound.
Check (C09_addr_unix_schemes_accepted : forall rp rw p,
  parse_addr rp rw (pre_unix ++ p) = AOk TUnix p /\ parse_addr rp rw (pre_unixgram ++ p) = AOk TUnixgram p /\
  parse_addr true rw (pre_udp ++ p) = AOk TUdp p).
Print Assumptions C09_addr_unix_schemes_accepted.
Check (C09_builder_meets_reference : forall ops b,
  run_builder true b ops = spec_builder (b_t b) (b_path b) (b_max b) ops).
Print Assumptions C09_builder_meets_reference.
Check (C09_builder_accepts_within_limits : forall fixd ops b tid m lp d,
  In (BConfig tid m lp d) (run_builder fixd b ops) ->
  exists t, tid = transport_id t /\ m <= max_allowed t /\ m <= u32_max /\
            (lp = true <-> t = TUnix) /\
            m = match last_max ops (b_max b) with Some n => n | None => default_max_payload_len t end).
Print Assumptions C09_builder_accepts_within_limits.
Check (C09_telemetry_prefix_bypass : forall gp name,
  doc_prefix gp name = effective_prefix gp name /\
  (forall rest, effective_prefix gp (client_prefix ++ rest) = None) /\
  (starts_with client_prefix name = false -> effective_prefix gp name = gp)).
Print Assumptions C09_telemetry_prefix_bypass.
Check (C09_flush_total : forall f ms, f_max f < two32 -> run_flush f ms <> None).
Print Assumptions C09_flush_total.
Check (C09_flush_spec_ok_on_model : forall f ms, spec_flush_ok f ms (run_flush f ms) = true).
Print Assumptions C09_flush_spec_ok_on_model.
Check (C09_e2e_name_is_prefixed : forall f ms ps,
  f_max f < two32 -> forallb (fun m => values_nonempty (expected_op f m)) ms = true ->
  run_flush f ms = Some ps ->
  forall p, In p ps ->
  exists m ch, In m ms /\ ch <> [] /\
    p = frame (f_lp f) (render (expect (metric_cfg f m) (expected_op f m) ch)) /\
    m_name (expect (metric_cfg f m) (expected_op f m) ch) = e2e_name (f_prefix f) (metric_name m) /\
    (wf_msg (expect (metric_cfg f m) (expected_op f m) ch) = true ->
     exists M, parse_msg (render (expect (metric_cfg f m) (expected_op f m) ch)) = Some M /\
               m_name M = e2e_name (f_prefix f) (metric_name m))).
Print Assumptions C09_e2e_name_is_prefixed.
Check (C09_xspec_ok_on_model : forall c, XExec.spec_ok c (XExec.run_case c) = true).
Print Assumptions C09_xspec_ok_on_model.
Check (C09_display_refuted_before_fix : exists ops, XExec.spec_ok (XExec.XB ops) (XExec.OB (run_builder false bdefault ops)) = false).
Print Assumptions C09_display_refuted_before_fix.
Check (C09_framing_refuted_before_fix_drop : exists c ops, fx (c_env c) = {| fix_drop := false; fix_reject := true; fix_prefix := true |} /\
    spec_check c ops (run_cfg c ops) = false /\
    exists a p body, nth 3 (run_cfg c ops) OPanic = OPayloads a [p] /\ unframe c p = Some body /\
                     parse_msg body = None /\ len body + 4 = 9).
Print Assumptions C09_framing_refuted_before_fix_drop.
Check (C09_framing_refuted_before_fix_reject : exists c ops, fx (c_env c) = {| fix_drop := true; fix_reject := false; fix_prefix := true |} /\
    spec_check c ops (run_cfg c ops) = false /\
    exists a p body, nth 2 (run_cfg c ops) OPanic = OPayloads a [p] /\ unframe c p = Some body /\
                     parse_msg body = None /\ len body + 4 = 8).
Print Assumptions C09_framing_refuted_before_fix_reject.
Check (C09_total_refuted_before_fix_prefix : exists c ops, fx (c_env c) = {| fix_drop := true; fix_reject := true; fix_prefix := false |} /\
    c_max c < two32 /\ In OPanic (run_cfg c ops)).
Print Assumptions C09_total_refuted_before_fix_prefix.
Check (C09_total_refuted_before_fix_drop : exists c ops, fx (c_env c) = {| fix_drop := false; fix_reject := true; fix_prefix := true |} /\
    c_max c < two32 /\ In OPanic (run_cfg c ops)).
Print Assumptions C09_total_refuted_before_fix_drop.
