From Coq Require Import List NArith Bool.
Import ListNotations.
Require Import MV.C09.Model MV.C09.Spec MV.C09.Exec.
Open Scope N_scope.
Require Import MV.C09.Properties.

Check (C09_placeholder : True).
Print Assumptions C09_placeholder.
