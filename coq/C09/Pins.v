From Coq Require Import List NArith Bool.
Import ListNotations.
Require Import MV.C09.Model MV.C09.Spec MV.C09.Exec MV.C09.Inv MV.C09.Abs MV.C09.Safety MV.C09.Render
               MV.C09.Conserve MV.C09.Sound MV.C09.Final.
Open Scope N_scope.
Require Import MV.C09.Properties.

Check (C09_new_establishes_invariant : forall mx l, mx < two32 ->
  exists w, new mx l = Ok w /\ Winv w /\ max w = mx /\ lp w = l).
Print Assumptions C09_new_establishes_invariant.
Check (C09_total : forall e w o, fx e = all_fixed -> Winv w ->
  exists w' x, step e w o = Ok (w', x) /\ x <> OPanic /\ Winv w' /\ max w' = max w /\ lp w' = lp w).
Print Assumptions C09_total.
Check (C09_total_sequences : forall e ops, fx e = all_fixed -> forall w, Winv w ->
  ~ In OPanic (run e w ops)).
Print Assumptions C09_total_sequences.
Check (C09_one_output_per_operation : forall e ops, fx e = all_fixed -> forall w, Winv w ->
  length (run e w ops) = length ops).
Print Assumptions C09_one_output_per_operation.
Check (C09_len_bound : forall e ops, fx e = all_fixed -> forall w a ps p,
  Winv w -> In (OPayloads a ps) (run e w ops) -> In p ps ->
  exists body, p = frame (lp w) body /\ len body <= max w).
Print Assumptions C09_len_bound.
Check (C09_framing : forall c w ops a ps p,
  fx (c_env c) = all_fixed -> Winv w -> max w = c_max c -> lp w = c_lp c -> c_max c < two32 ->
  In (OPayloads a ps) (run (c_env c) w ops) -> In p ps ->
  exists body, unframe c p = Some body /\ p = frame (c_lp c) body).
Print Assumptions C09_framing.
Check (C09_drain_yields_committed : forall e w fs k, fx e = all_fixed -> Rep w fs ->
  exists w', step e w (Drain k)
             = Ok (w', OPayloads (len fs) (firstn (drain_count k fs) (map (frame (lp w)) fs))) /\
             Rep w' [] /\ max w' = max w /\ lp w' = lp w).
Print Assumptions C09_drain_yields_committed.
Check (C09_point_conservation : forall c w fs o,
  fx (c_env c) = all_fixed -> Rep w fs -> max w = c_max c -> is_write o -> values_nonempty o = true ->
  exists w' pw pd chunks,
    step (c_env c) w o = Ok (w', OWrite pw pd) /\
    Rep w' (fs ++ map (fun ch => render (expect c o ch)) chunks) /\
    Forall (fun ch => ch <> []) chunks /\
    concat chunks = kept c o /\
    pw = len chunks /\
    pd + len (kept c o) = len (op_values o)).
Print Assumptions C09_point_conservation.
Check (C09_write_result_meets_spec : forall c w o,
  fx (c_env c) = all_fixed -> Winv w -> max w = c_max c ->
  (match o with Drain _ => False | _ => True end) -> values_nonempty o = true ->
  exists w' pw pd, step (c_env c) w o = Ok (w', OWrite pw pd) /\ counts_ok c o pw pd = true).
Print Assumptions C09_write_result_meets_spec.
Check (C09_render_length : forall m, len (render m) = msg_len m).
Print Assumptions C09_render_length.
Check (C09_message_roundtrip : forall m, wf_msg m = true -> m_values m <> [] ->
  parse_msg (render m) = Some m).
Print Assumptions C09_message_roundtrip.
Check (C09_emitted_message_roundtrip : forall c o chunks ch,
  concat chunks = kept c o -> In ch chunks -> ch <> [] ->
  wf_msg (expect c o (op_values o)) = true ->
  parse_msg (render (expect c o ch)) = Some (expect c o ch)).
Print Assumptions C09_emitted_message_roundtrip.
Check (C09_spec_ok_on_model_partial : forall c, k_max c < two32 ->
  ~ In OPanic (run_case c) /\ length (run_case c) = length (k_ops c) /\
  forall a ps p, In (OPayloads a ps) (run_case c) -> In p ps ->
    exists body, unframe (cfg_of impl_fixes c) p = Some body /\ p = frame (k_lp c) body).
Print Assumptions C09_spec_ok_on_model_partial.
Check (C09_framing_refuted_before_fix_drop : exists c ops, fx (c_env c) = {| fix_drop := false; fix_reject := true; fix_prefix := true |} /\
    spec_check c ops (run_cfg c ops) = false /\
    exists a p body, nth 3 (run_cfg c ops) OPanic = OPayloads a [p] /\ unframe c p = Some body /\
                     parse_msg body = None /\ len body + 4 = 9).
Print Assumptions C09_framing_refuted_before_fix_drop.
Check (C09_framing_refuted_before_fix_reject : exists c ops, fx (c_env c) = {| fix_drop := true; fix_reject := false; fix_prefix := true |} /\
    spec_check c ops (run_cfg c ops) = false /\
    exists a p body, nth 2 (run_cfg c ops) OPanic = OPayloads a [p] /\ unframe c p = Some body /\
                     parse_msg body = None /\ len body + 4 = 8).
Print Assumptions C09_framing_refuted_before_fix_reject.
Check (C09_total_refuted_before_fix_prefix : exists c ops, fx (c_env c) = {| fix_drop := true; fix_reject := true; fix_prefix := false |} /\
    c_max c < two32 /\ In OPanic (run_cfg c ops)).
Print Assumptions C09_total_refuted_before_fix_prefix.
Check (C09_total_refuted_before_fix_drop : exists c ops, fx (c_env c) = {| fix_drop := false; fix_reject := true; fix_prefix := true |} /\
    c_max c < two32 /\ In OPanic (run_cfg c ops)).
Print Assumptions C09_total_refuted_before_fix_drop.
