(* C09 — model of the pure wiring logic around the writer:
   forwarder/mod.rs  RemoteAddr::try_from(&str) (scheme parsing), transport_id, default_max_payload_len,
                     ForwarderConfiguration::is_length_prefixed, Display for RemoteAddr (unix kinds);
   builder.rs        get_max_payload_len, validate_max_payload_len, with_remote_address,
                     with_maximum_payload_length (each consumes the builder on error), and the
                     validation + ForwarderConfiguration of build();
   state.rs          the `datadog.dogstatsd.client` prefix bypass and the order/arguments of the
                     write_* calls of State::flush (one flush, at most one metric per kind, raw
                     histograms), followed by the forwarder's drain.
   `to_socket_addrs` (std; DNS) is an oracle: its verdicts on the text after the first "://" and on
   the whole text arrive as data ([rp], [rw]).  Definitions only. *)
From Coq Require Import List NArith Bool.
Import ListNotations.
Require Import MV.C09.Model.
Open Scope N_scope.

Definition beq (a b : bytes) : bool := if list_eq_dec N.eq_dec a b then true else false.

(* ------------------------------------------------------------------ forwarder/mod.rs *)
Inductive transport := TUdp | TUnixgram | TUnix.
Inductive addr_res := AOk (t : transport) (path : bytes) | AErrScheme | AErrResolve.

(* str::split_once("://") : the text before and after the first occurrence *)
Definition sep_tail (r : bytes) : option bytes :=
  match r with
  | a :: b :: p => if (a =? 47) && (b =? 47) then Some p else None
  | _ => None
  end.
Fixpoint split_sep (b : bytes) : option (bytes * bytes) :=
  match b with
  | [] => None
  | x :: r =>
      match (if x =? 58 then sep_tail r else None) with
      | Some p => Some ([], p)
      | None => match split_sep r with Some (s, p) => Some (x :: s, p) | None => None end
      end
  end.

Definition s_unix : bytes := [117; 110; 105; 120].
Definition s_unixgram : bytes := [117; 110; 105; 120; 103; 114; 97; 109].
Definition s_udp : bytes := [117; 100; 112].
Definition sep : bytes := [58; 47; 47].

(* forwarder/mod.rs:47-70 *)
Definition parse_addr (rp rw : bool) (a : bytes) : addr_res :=
  match split_sep a with
  | Some (scheme, path) =>
      if beq scheme s_unix then AOk TUnix path
      else if beq scheme s_unixgram then AOk TUnixgram path
      else if beq scheme s_udp then (if rp then AOk TUdp path else AErrResolve)
      else AErrScheme
  | None => if rw then AOk TUdp a else AErrResolve
  end.

(* "udp" / "uds" / "uds-stream" *)
Definition transport_id (t : transport) : bytes :=
  match t with
  | TUdp => [117; 100; 112]
  | TUnixgram => [117; 100; 115]
  | TUnix => [117; 100; 115; 45; 115; 116; 114; 101; 97; 109]
  end.
Definition default_max_payload_len (t : transport) : N := match t with TUdp => 1432 | _ => 8192 end.
Definition is_length_prefixed (t : transport) : bool := match t with TUnix => true | _ => false end.
(* Display for RemoteAddr, unix kinds ([fixd] = after the `fix:` commit; before it both arms printed
   "unixgram://").  The UDP arm prints resolved socket addresses and is not modelled. *)
Definition display (fixd : bool) (t : transport) (path : bytes) : option bytes :=
  match t with
  | TUdp => None
  | TUnixgram => Some (s_unixgram ++ sep ++ path)
  | TUnix => Some ((if fixd then s_unix else s_unixgram) ++ sep ++ path)
  end.

(* ------------------------------------------------------------------ builder.rs *)
Definition udp_datagram_max : N := 65527.       (* u16::MAX - 8 *)
Definition u32_max : N := 4294967295.
Record builder := { b_t : transport; b_path : bytes; b_max : option N }.
Definition bdefault : builder := {| b_t := TUdp; b_path := []; b_max := None |}.
Definition get_max_payload_len (b : builder) : N :=
  match b_max b with Some n => n | None => default_max_payload_len (b_t b) end.
(* builder.rs:114-138 *)
Definition validate_max_payload_len (b : builder) : bool :=
  let m := get_max_payload_len b in
  if (match b_t b with TUdp => udp_datagram_max <? m | _ => false end) then false
  else if u32_max <? m then false else true.

Inductive bop := BAddr (a : bytes) (rp rw : bool) | BMax (n : N).
Inductive bout :=
| BOk | BErrScheme | BErrResolve | BErrConfig
| BConfig (tid : bytes) (max : N) (lp : bool) (disp : option bytes).

Fixpoint run_builder (fixd : bool) (b : builder) (ops : list bop) : list bout :=
  match ops with
  | [] =>
      [if validate_max_payload_len b
       then BConfig (transport_id (b_t b)) (get_max_payload_len b) (is_length_prefixed (b_t b))
                    (display fixd (b_t b) (b_path b))
       else BErrConfig]
  | BAddr a rp rw :: r =>
      match parse_addr rp rw a with
      | AOk t p => BOk :: run_builder fixd {| b_t := t; b_path := p; b_max := b_max b |} r
      | AErrScheme => [BErrScheme]
      | AErrResolve => [BErrResolve]
      end
  | BMax n :: r =>
      let b' := {| b_t := b_t b; b_path := b_path b; b_max := Some n |} in
      if validate_max_payload_len b' then BOk :: run_builder fixd b' r else [BErrConfig]
  end.

(* ------------------------------------------------------------------ state.rs *)
(* "datadog.dogstatsd.client" *)
Definition client_prefix : bytes :=
  [100; 97; 116; 97; 100; 111; 103; 46; 100; 111; 103; 115; 116; 97; 116; 115; 100; 46; 99; 108; 105; 101; 110; 116].
Fixpoint starts_with (pre b : bytes) : bool :=
  match pre, b with
  | [], _ => true
  | x :: p, y :: r => (x =? y) && starts_with p r
  | _ :: _, [] => false
  end.
(* state.rs: `if key.name().starts_with("datadog.dogstatsd.client") { None } else { global_prefix }` *)
Definition effective_prefix (gp : option bytes) (name : bytes) : option bytes :=
  if starts_with client_prefix name then None else gp.

Inductive metric :=
| MCounter (name : bytes) (labels : list label) (value_str : bytes)
| MGauge (name : bytes) (labels : list label) (value_str : bytes)
| MHist (name : bytes) (labels : list label) (value_str : bytes) (count : N).
Record fcfg := { f_aggressive : bool; f_dist : bool; f_max : N; f_lp : bool;
                 f_prefix : option bytes; f_glabels : list label; f_now : bytes }.

Definition metric_name (m : metric) : bytes :=
  match m with MCounter n _ _ | MGauge n _ _ | MHist n _ _ _ => n end.
Definition metric_rank (m : metric) : N := match m with MCounter _ _ _ => 0 | MGauge _ _ _ => 1 | MHist _ _ _ _ => 2 end.
Definition agg_ts (f : fcfg) : option bytes := if f_aggressive f then Some (f_now f) else None.
Definition metric_op (f : fcfg) (m : metric) : op :=
  match m with
  | MCounter n l v => WScalar Counter n l v (agg_ts f)
  | MGauge n l v => WScalar Gauge n l v (agg_ts f)
  | MHist n l v k => WHist (if f_dist f then Dist else Hist) n l (repeat v (N.to_nat k)) None
  end.
Definition metric_env (f : fcfg) (m : metric) : env :=
  {| prefix := effective_prefix (f_prefix f) (metric_name m); glabels := f_glabels f; fx := all_fixed |}.
(* `if histogram.is_empty() { continue; }` *)
Definition skipped (m : metric) : bool := match m with MHist _ _ _ 0 => true | _ => false end.
(* State::flush visits counters, then gauges, then histograms *)
Definition flush_order (ms : list metric) : list metric :=
  filter (fun m => metric_rank m =? 0) ms ++ filter (fun m => metric_rank m =? 1) ms ++
  filter (fun m => metric_rank m =? 2) ms.

Fixpoint flush_writes (f : fcfg) (w : writer) (ms : list metric) : res writer :=
  match ms with
  | [] => Ok w
  | m :: r =>
      if skipped m then flush_writes f w r
      else match step (metric_env f m) w (metric_op f m) with
           | Panic => Panic
           | Ok (w', _) => flush_writes f w' r
           end
  end.
(* one iteration of Forwarder::run without the socket: flush, then take every payload; None = panic *)
Definition run_flush (f : fcfg) (ms : list metric) : option (list bytes) :=
  match new (f_max f) (f_lp f) with
  | Panic => None
  | Ok w =>
      match flush_writes f w (flush_order ms) with
      | Panic => None
      | Ok w' =>
          match drain all_fixed w' None with
          | Panic => None
          | Ok (_, (_, ps)) => Some ps
          end
      end
  end.
