(* C09 — point conservation: what a single write emits and drops. *)
From Coq Require Import List NArith Bool Lia PeanoNat.
Import ListNotations.
Require Import MV.C09.Model MV.C09.Spec MV.C09.Inv MV.C09.Abs MV.C09.Render.
Open Scope N_scope.

Definition hfits (m mx : N) (v : bytes) : bool := m + len v + 1 <=? mx.

Lemma hsplit_spec m mx values : forall chunk,
  concat (fst (fst (hsplit m mx values chunk))) ++ snd (fst (hsplit m mx values chunk))
    = chunk ++ filter (hfits m mx) values /\
  snd (hsplit m mx values chunk) + len (filter (hfits m mx) values) = len values /\
  Forall (fun x => x <> []) (fst (fst (hsplit m mx values chunk))).
Proof.
  induction values as [|v r IH]; intros chunk; cbn [hsplit filter].
  - cbn [fst snd concat app]. rewrite app_nil_r. auto.
  - destruct (mx <? m + len v + 1) eqn:E1.
    + assert (E : hfits m mx v = false) by (apply N.leb_gt; apply N.ltb_lt in E1; exact E1).
      rewrite E. destruct (IH chunk) as (A & B & C).
      destruct (hsplit m mx r chunk) as [[cs c] d]. cbn [fst snd] in *. repeat split; auto.
      rewrite len_cons. lia.
    + assert (E : hfits m mx v = true) by (apply N.leb_le; apply N.ltb_ge in E1; exact E1).
      rewrite E. destruct (mx <? m + vals_len chunk + len v + 1) eqn:E2.
      * destruct (IH [v]) as (A & B & C).
        destruct (hsplit m mx r [v]) as [[cs c] d]. cbn [fst snd concat] in *. repeat split.
        -- rewrite <- app_assoc, A. reflexivity.
        -- rewrite !len_cons. lia.
        -- constructor; auto. intros ->. apply N.ltb_lt in E2. apply N.ltb_ge in E1.
           change (vals_len []) with 0 in E2. lia.
      * destruct (IH (chunk ++ [v])) as (A & B & C). repeat split; auto.
        -- rewrite A, <- app_assoc. reflexivity.
        -- rewrite !len_cons. lia.
Qed.

(* the chunks of a write: one value list per emitted payload *)
Definition achunks (e : env) (mx : N) (o : op) : list (list bytes) :=
  match o with
  | WScalar k name labels v ts => if mx <? len (sbody e (sbyte k) name labels v ts) then [] else [[v]]
  | WHist k name labels vs rate =>
      let tb := trailer labels None rate (glabels e) in
      let m := prefix_len e + len name + len tb + 2 in
      if mx <? m + 2 then [] else fst (hchunks m mx vs)
  | Drain _ => []
  end.

Lemma fits_hist c k name labels vs rate v :
  fits c (WHist k name labels vs rate) v
  = hfits (prefix_len (c_env c) + len name + len (trailer labels None rate (glabels (c_env c))) + 2) (c_max c) v.
Proof.
  unfold fits, hfits. rewrite <- render_len, <- (hbody_render c k name labels vs rate [v]), hbody_len.
  unfold vals_len. cbn [sumN]. f_equal. lia.
Qed.

Lemma concat_nil_nonempty {A} (cs : list (list A)) c :
  Forall (fun x => x <> []) cs -> concat cs ++ c = [] -> cs = [] /\ c = [].
Proof.
  intros H E. destruct cs as [|x r]; [auto|]. inversion H; subst. cbn [concat] in E.
  destruct x; [congruence|discriminate].
Qed.

(* C09_point_conservation at the level of the abstract machine *)
Theorem awrite_spec c o : (match o with Drain _ => False | _ => True end) -> values_nonempty o = true ->
  let e := c_env c in let mx := c_max c in
  let chunks := achunks e mx o in
  fst (awrite e mx o) = map (fun ch => render (expect c o ch)) chunks /\
  Forall (fun ch => ch <> []) chunks /\
  concat chunks = kept c o /\
  fst (snd (awrite e mx o)) = len chunks /\
  snd (snd (awrite e mx o)) + len (kept c o) = len (op_values o).
Proof.
  intros Hw Hne e mx chunks. destruct o as [k name labels v ts | k name labels vs rate | k]; [| |destruct Hw].
  - unfold chunks, achunks, awrite, kept. cbn [op_values filter]. unfold fits.
    rewrite <- render_len, <- sbody_render. fold e. fold mx.
    destruct (mx <? len (sbody e (sbyte k) name labels v ts)) eqn:E.
    + assert (E' : (len (sbody e (sbyte k) name labels v ts) <=? mx) = false) by (apply N.leb_gt; apply N.ltb_lt in E; exact E).
      rewrite E'. cbn. auto.
    + assert (E' : (len (sbody e (sbyte k) name labels v ts) <=? mx) = true) by (apply N.leb_le; apply N.ltb_ge in E; exact E).
      rewrite E'. cbn [fst snd map concat app len length]. rewrite (sbody_render c). repeat split; auto. constructor; [discriminate|constructor].
  - unfold chunks, achunks, awrite, kept. cbn [op_values].
    set (tb := trailer labels None rate (glabels e)). set (m := prefix_len e + len name + len tb + 2).
    assert (Hk : filter (fits c (WHist k name labels vs rate)) vs = filter (hfits m mx) vs).
    { apply filter_ext. intros v. apply fits_hist. }
    rewrite Hk. destruct (mx <? m + 2) eqn:E0.
    + cbn [fst snd map concat]. apply N.ltb_lt in E0.
      assert (Hnil : filter (hfits m mx) vs = []).
      { unfold values_nonempty in Hne. cbn [op_values] in Hne. rewrite forallb_forall in Hne.
        clear -Hne E0. induction vs as [|v r IH]; [reflexivity|]. cbn [filter].
        assert (Hv : 1 <= len v). { specialize (Hne v (or_introl eq_refl)). destruct v; [discriminate|rewrite len_cons; lia]. }
        unfold hfits at 1. destruct (m + len v + 1 <=? mx) eqn:E; [apply N.leb_le in E; lia|].
        apply IH. intros x Hx. apply Hne. right. exact Hx. }
      rewrite Hnil. cbn. repeat split; auto. lia.
    + unfold hchunks. destruct (hsplit_spec m mx vs []) as (A & B & C).
      destruct (hsplit m mx vs []) as [[cs cl] d]. cbn [fst snd app] in *.
      repeat split; auto.
      * apply map_ext. intros ch. unfold tb, e. apply hbody_render.
      * apply Forall_app; split; auto. destruct cl; cbn [is_empty]; constructor; [discriminate|constructor].
      * rewrite concat_app, <- A. f_equal. destruct cl; cbn [is_empty concat]; rewrite ?app_nil_r; reflexivity.
Qed.
