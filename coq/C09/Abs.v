(* C09 — what each operation of the (fixed) writer computes, as a function of the list of
   committed payload bodies: [astep]/[arun], and the proof that the byte-level model refines it
   from every state satisfying the invariant ([step_refines], [run_refines]). *)
From Coq Require Import List NArith Bool Lia PeanoNat.
Import ListNotations.
Require Import MV.C09.Model MV.C09.Spec MV.C09.Inv.
Open Scope N_scope.

Ltac splits := repeat match goal with |- _ /\ _ => split end.

Definition pfxb (e : env) : bytes := match prefix e with Some p => p ++ [46] | None => [] end.
Lemma pfxb_len e : len (pfxb e) = prefix_len e.
Proof. unfold pfxb, prefix_len. destruct (prefix e); [rewrite len_app|]; reflexivity. Qed.

Lemma write_prefix_spec e w fs t :
  RepT w fs t -> RepT (write_prefix e w) fs (t ++ pfxb e) /\ max (write_prefix e w) = max w /\ lp (write_prefix e w) = lp w.
Proof.
  intros H. unfold write_prefix, pfxb. destruct (prefix e) as [p|].
  - split; [|split; reflexivity]. rewrite app_assoc. apply RepT_extend, RepT_extend, H.
  - rewrite app_nil_r. auto.
Qed.

Lemma write_prefix_max e w : max (write_prefix e w) = max w.
Proof. unfold write_prefix. destruct (prefix e); reflexivity. Qed.
Lemma write_prefix_lp e w : lp (write_prefix e w) = lp w.
Proof. unfold write_prefix. destruct (prefix e); reflexivity. Qed.

(* ------------------------------------------------------------------ counters and gauges *)
Definition sbody (e : env) (tyb : N) (name : bytes) (labels : list label) (v : bytes) (ts : option bytes) : bytes :=
  pfxb e ++ name ++ [58] ++ v ++ [124; tyb] ++ trailer labels ts None (glabels e).

Lemma write_scalar_spec e w fs tyb name labels v ts :
  fix_reject (fx e) = true -> Rep w fs ->
  let body := sbody e tyb name labels v ts in
  exists w', write_scalar e w tyb name labels v ts
             = Ok (w', if max w <? len body then (0, 1) else (1, 0)) /\
             max w' = max w /\ lp w' = lp w /\
             Rep w' (if max w <? len body then fs else fs ++ [body]).
Proof.
  intros Hf H body. unfold write_scalar.
  destruct (write_prefix_spec e w fs [] H) as (H1 & M1 & L1).
  set (w1 := write_prefix e w) in *.
  assert (H6 : RepT (with_buf (extend (extend (extend (extend w1 name) [58]) v) [124; tyb])
                       (write_metric_trailer labels ts
                          (buf (extend (extend (extend (extend w1 name) [58]) v) [124; tyb])) None (glabels e)))
                    fs body).
  { rewrite trailer_app.
    change (with_buf ?w (buf ?w ++ ?x)) with (extend w x).
    pose proof (RepT_extend _ _ _ (trailer labels ts None (glabels e))
                 (RepT_extend _ _ _ [124; tyb] (RepT_extend _ _ _ v (RepT_extend _ _ _ [58] (RepT_extend _ _ _ name H1))))) as H6.
    cbn [app] in H6. unfold body, sbody. rewrite <- !app_assoc in H6. cbn [app] in H6. exact H6. }
  destruct (commit_spec (fx e) _ fs body Hf H6) as (w' & Hc & M & L & R).
  cbn [max lp with_buf extend] in Hc, M, L, R. rewrite M1 in *. rewrite L1 in *.
  rewrite Hc. exists w'. destruct (max w <? len body); cbn [negb]; auto.
Qed.

(* ------------------------------------------------------------------ histograms *)
Lemma sumN_app {A} (f : A -> N) a b : sumN f (a ++ b) = sumN f a + sumN f b.
Proof. induction a; cbn [sumN app]; lia. Qed.

Definition vals_bytes (chunk : list bytes) : bytes := flat_map (fun v => 58 :: v) chunk.
Definition vals_len (chunk : list bytes) : N := sumN (fun v => 1 + len v) chunk.
Lemma vals_bytes_len chunk : len (vals_bytes chunk) = vals_len chunk.
Proof.
  induction chunk as [|v r IH]; [reflexivity|]. unfold vals_bytes, vals_len in *.
  cbn [flat_map sumN]. rewrite len_app, len_cons, IH. reflexivity.
Qed.
Lemma vals_bytes_app a b : vals_bytes (a ++ b) = vals_bytes a ++ vals_bytes b.
Proof. apply flat_map_app. Qed.

Definition hbody (e : env) (tyb : N) (name tb : bytes) (chunk : list bytes) : bytes :=
  pfxb e ++ name ++ vals_bytes chunk ++ [124; tyb] ++ tb.
Definition cur_tail (e : env) (name : bytes) (chunk : list bytes) : bytes :=
  match chunk with [] => [] | _ => pfxb e ++ name ++ vals_bytes chunk end.

Lemma hbody_len e tyb name tb chunk :
  len (hbody e tyb name tb chunk) = prefix_len e + len name + len tb + 2 + vals_len chunk.
Proof.
  unfold hbody. rewrite !len_app, pfxb_len, vals_bytes_len.
  change (len [124; tyb]) with 2. lia.
Qed.

(* the splitting of the values over payloads: (completed chunks, open chunk, dropped) *)
Fixpoint hsplit (m mx : N) (values : list bytes) (chunk : list bytes) : list (list bytes) * list bytes * N :=
  match values with
  | [] => ([], chunk, 0)
  | v :: r =>
      if mx <? m + len v + 1 then
        let '(cs, c, d) := hsplit m mx r chunk in (cs, c, d + 1)
      else if mx <? m + vals_len chunk + len v + 1 then
        let '(cs, c, d) := hsplit m mx r [v] in (chunk :: cs, c, d)
      else hsplit m mx r (chunk ++ [v])
  end.

Lemma finish_payload_spec e w fs t tyb tb :
  fix_reject (fx e) = true -> RepT w fs t -> len (t ++ [124; tyb] ++ tb) <= max w ->
  exists w', finish_payload e w tyb tb = Ok w' /\ max w' = max w /\ lp w' = lp w /\
             Rep w' (fs ++ [t ++ [124; tyb] ++ tb]).
Proof.
  intros Hf H Hl. unfold finish_payload.
  pose proof (RepT_extend _ _ _ tb (RepT_extend _ _ _ [tyb] (RepT_extend _ _ _ [124] H))) as H1.
  rewrite <- !app_assoc in H1. cbn [app] in H1.
  destruct (commit_spec (fx e) _ fs _ Hf H1) as (w' & Hc & M & L & R).
  cbn [max lp extend with_buf] in Hc, M, L, R.
  assert (E : (max w <? len (t ++ [124; tyb] ++ tb)) = false) by (apply N.ltb_ge; exact Hl).
  cbn [app] in E. rewrite E in *. cbn [negb] in Hc. rewrite Hc. exists w'. auto.
Qed.

Lemma cur_tail_snoc e name chunk v :
  cur_tail e name (chunk ++ [v]) = pfxb e ++ name ++ vals_bytes (chunk ++ [v]).
Proof. destruct chunk; reflexivity. Qed.

Lemma hist_loop_spec e tyb name tb m :
  fix_reject (fx e) = true -> m = prefix_len e + len name + len tb + 2 ->
  forall values w fs chunk pw pd,
  RepT w fs (cur_tail e name chunk) -> (chunk <> [] -> m + vals_len chunk <= max w) ->
  exists w',
    hist_loop e tyb name tb m values w (is_empty chunk) (m + vals_len chunk) pw pd
    = Ok (w', (pw + len (fst (fst (hsplit m (max w) values chunk))), pd + snd (hsplit m (max w) values chunk))) /\
    max w' = max w /\ lp w' = lp w /\
    RepT w' (fs ++ map (hbody e tyb name tb) (fst (fst (hsplit m (max w) values chunk))))
         (cur_tail e name (snd (fst (hsplit m (max w) values chunk)))) /\
    (snd (fst (hsplit m (max w) values chunk)) <> [] ->
     m + vals_len (snd (fst (hsplit m (max w) values chunk))) <= max w).
Proof.
  intros Hf Hm. induction values as [|v r IH]; intros w fs chunk pw pd H Hc.
  - cbn [hist_loop hsplit fst snd map]. exists w. rewrite app_nil_r, len_nil, !N.add_0_r. auto.
  - cbn [hist_loop hsplit].
    destruct (max w <? m + len v + 1) eqn:E1.
    + destruct (IH w fs chunk pw (pd + 1) H Hc) as (w' & Hr & M & L & R & B).
      destruct (hsplit m (max w) r chunk) as [[cs c] d] eqn:Hs. cbn [fst snd] in *.
      exists w'. rewrite Hr. splits; auto. f_equal. f_equal. f_equal. lia.
    + apply N.ltb_ge in E1.
      destruct (max w <? m + vals_len chunk + len v + 1) eqn:E2.
      * (* the open chunk is completed first *)
        apply N.ltb_lt in E2.
        assert (Hne : chunk <> []).
        { intros ->. cbn [vals_len sumN] in E2. lia. }
        assert (Ht : cur_tail e name chunk = pfxb e ++ name ++ vals_bytes chunk) by (destruct chunk; [congruence|reflexivity]).
        rewrite Ht in H.
        destruct (finish_payload_spec e w fs _ tyb tb Hf H) as (w1 & Hfin & M1 & L1 & R1).
        { rewrite <- !app_assoc. fold (hbody e tyb name tb chunk). rewrite hbody_len. specialize (Hc Hne). lia. }
        rewrite Hfin. rewrite <- !app_assoc in R1. fold (hbody e tyb name tb chunk) in R1.
        destruct (write_prefix_spec e w1 _ [] R1) as (H2 & M2 & L2). cbn [app] in H2.
        pose proof (RepT_extend _ _ _ v (RepT_extend _ _ _ [58] (RepT_extend _ _ _ name H2))) as H3.
        rewrite <- !app_assoc in H3. cbn [app] in H3.
        assert (Hv : pfxb e ++ name ++ 58 :: v = cur_tail e name [v]).
        { unfold cur_tail, vals_bytes. cbn [flat_map]. rewrite app_nil_r. reflexivity. }
        rewrite Hv in H3.
        destruct (IH _ _ [v] (pw + 1) pd H3) as (w' & Hr & M & L & R & B).
        { intros _. cbn [max extend with_buf]. rewrite M2, M1. unfold vals_len. cbn [sumN]. lia. }
        cbn [max lp extend with_buf] in Hr, M, L, R, B. rewrite M2, M1 in *. rewrite L2, L1 in *.
        cbn [is_empty] in Hr.
        replace (m + vals_len [v]) with (m + len v + 1) in Hr by (unfold vals_len; cbn [sumN]; lia).
        destruct (hsplit m (max w) r [v]) as [[cs c] d] eqn:Hs. cbn [fst snd] in *.
        exists w'. rewrite Hr. cbn [map]. rewrite len_cons.
        splits; auto.
        -- f_equal. f_equal. f_equal. lia.
        -- rewrite <- app_assoc in R. exact R.
      * (* the value is appended to the open chunk *)
        apply N.ltb_ge in E2.
        assert (H3 : RepT (extend (extend (if is_empty chunk then extend (write_prefix e w) name else w) [58]) v)
                          fs (cur_tail e name (chunk ++ [v]))).
        { rewrite cur_tail_snoc. destruct chunk as [|c0 cr].
          - cbn [is_empty]. destruct (write_prefix_spec e w fs [] H) as (H2 & _ & _). cbn [app] in H2.
            pose proof (RepT_extend _ _ _ v (RepT_extend _ _ _ [58] (RepT_extend _ _ _ name H2))) as H3.
            rewrite <- !app_assoc in H3. cbn [app] in H3.
            unfold vals_bytes. cbn [app flat_map]. rewrite app_nil_r. exact H3.
          - cbn [is_empty].
            pose proof (RepT_extend _ _ _ v (RepT_extend _ _ _ [58] H)) as H3.
            unfold cur_tail in H3. rewrite <- !app_assoc in H3. cbn [app] in H3.
            rewrite vals_bytes_app. unfold vals_bytes at 2. cbn [flat_map]. rewrite app_nil_r.
            rewrite <- ?app_assoc. exact H3. }
        assert (M3 : max (extend (extend (if is_empty chunk then extend (write_prefix e w) name else w) [58]) v) = max w).
        { destruct (is_empty chunk); cbn [max extend with_buf]; auto. apply write_prefix_max. }
        assert (L3 : lp (extend (extend (if is_empty chunk then extend (write_prefix e w) name else w) [58]) v) = lp w).
        { destruct (is_empty chunk); cbn [lp extend with_buf]; auto. apply write_prefix_lp. }
        assert (Hl : vals_len (chunk ++ [v]) = vals_len chunk + len v + 1).
        { unfold vals_len. rewrite sumN_app. cbn [sumN]. lia. }
        destruct (IH _ _ (chunk ++ [v]) pw pd H3) as (w' & Hr & M & L & R & B).
        { intros _. rewrite M3, Hl. lia. }
        rewrite M3 in *. rewrite L3 in *.
        assert (Hie : is_empty (chunk ++ [v]) = false) by (destruct chunk; reflexivity).
        rewrite Hie in Hr.
        replace (m + vals_len (chunk ++ [v])) with (m + vals_len chunk + len v + 1) in Hr by lia.
        exists w'. rewrite Hr. auto.
Qed.

(* the chunks a write_histogram call emits and the number of values it drops *)
Definition hchunks (m mx : N) (values : list bytes) : list (list bytes) * N :=
  let '(cs, c, d) := hsplit m mx values [] in (cs ++ (if is_empty c then [] else [c]), d).

Lemma cur_tail_len_zero e name chunk : len (cur_tail e name chunk) = 0 -> chunk = [].
Proof.
  destruct chunk as [|v r]; auto. unfold cur_tail, vals_bytes. cbn [flat_map].
  rewrite !len_app, len_cons. lia.
Qed.

Lemma write_hist_spec e w fs tyb name labels values rate :
  fx e = all_fixed -> Rep w fs ->
  let tb := trailer labels None rate (glabels e) in
  let m := prefix_len e + len name + len tb + 2 in
  exists w', write_hist_dist_inner e w tyb name labels values rate
             = Ok (w', if max w <? m + 2 then (0, len values)
                       else (len (fst (hchunks m (max w) values)), snd (hchunks m (max w) values))) /\
             max w' = max w /\ lp w' = lp w /\
             Rep w' (if max w <? m + 2 then fs
                     else fs ++ map (hbody e tyb name tb) (fst (hchunks m (max w) values))).
Proof.
  intros Hf H tb m. unfold write_hist_dist_inner. rewrite Hf. cbn [fix_prefix all_fixed].
  fold (trailer labels None rate (glabels e)). fold tb. fold m.
  destruct (max w <? m + 2) eqn:E0.
  - exists w. auto.
  - assert (Hfr : fix_reject (fx e) = true) by (rewrite Hf; reflexivity).
    destruct (hist_loop_spec e tyb name tb m Hfr eq_refl values w fs [] 0 0 H) as (w1 & Hr & M1 & L1 & R1 & B1).
    { congruence. }
    cbn [is_empty] in Hr. change (vals_len []) with 0 in Hr. rewrite N.add_0_r in Hr.
    unfold hchunks. destruct (hsplit m (max w) values []) as [[cs c] d] eqn:Hs. cbn [fst snd] in *.
    rewrite Hr, (RepT_current_len _ _ _ R1).
    destruct (len (cur_tail e name c) =? 0) eqn:E.
    + apply N.eqb_eq in E. apply cur_tail_len_zero in E. subst c. cbn [is_empty].
      rewrite app_nil_r. exists w1. cbn [cur_tail] in R1. auto.
    + apply N.eqb_neq in E.
      assert (Hne : c <> []) by (intros ->; apply E; reflexivity).
      assert (Ht : cur_tail e name c = pfxb e ++ name ++ vals_bytes c) by (destruct c; [congruence|reflexivity]).
      rewrite Ht in R1.
      destruct (finish_payload_spec e w1 _ _ tyb tb Hfr R1) as (w2 & Hfin & M2 & L2 & R2).
      { rewrite <- !app_assoc. fold (hbody e tyb name tb c). rewrite hbody_len. specialize (B1 Hne). fold m. lia. }
      rewrite Hfin. rewrite <- !app_assoc in R2. fold (hbody e tyb name tb c) in R2.
      assert (Hie : is_empty c = false) by (destruct c; [congruence|reflexivity]).
      rewrite Hie. exists w2. rewrite M2, L2, M1, L1. splits; auto.
      * f_equal. f_equal. f_equal. rewrite len_app. cbn. lia.
      * rewrite map_app. exact R2.
Qed.

(* ------------------------------------------------------------------ the abstract machine *)
(* new payload bodies and WriteResult of a write *)
Definition awrite (e : env) (mx : N) (o : op) : list bytes * (N * N) :=
  match o with
  | WScalar k name labels v ts =>
      let b := sbody e (sbyte k) name labels v ts in
      if mx <? len b then ([], (0, 1)) else ([b], (1, 0))
  | WHist k name labels vs rate =>
      let tb := trailer labels None rate (glabels e) in
      let m := prefix_len e + len name + len tb + 2 in
      if mx <? m + 2 then ([], (0, len vs))
      else (map (hbody e (hbyte k) name tb) (fst (hchunks m mx vs)),
            (len (fst (hchunks m mx vs)), snd (hchunks m mx vs)))
  | Drain _ => ([], (0, 0))
  end.

Definition drain_count (k : option N) (fs : list bytes) : nat :=
  match k with Some k => N.to_nat k | None => length fs end.

Definition astep (e : env) (mx : N) (l : bool) (fs : list bytes) (o : op) : list bytes * out :=
  match o with
  | Drain k => ([], OPayloads (len fs) (firstn (drain_count k fs) (map (frame l) fs)))
  | _ => (fs ++ fst (awrite e mx o), OWrite (fst (snd (awrite e mx o))) (snd (snd (awrite e mx o))))
  end.

Fixpoint arun (e : env) (mx : N) (l : bool) (fs : list bytes) (ops : list op) : list out :=
  match ops with
  | [] => []
  | o :: r => snd (astep e mx l fs o) :: arun e mx l (fst (astep e mx l fs o)) r
  end.

Theorem step_refines e w fs o :
  fx e = all_fixed -> Rep w fs ->
  exists w', step e w o = Ok (w', snd (astep e (max w) (lp w) fs o)) /\
             max w' = max w /\ lp w' = lp w /\ Rep w' (fst (astep e (max w) (lp w) fs o)).
Proof.
  intros Hf H.
  assert (Hfr : fix_reject (fx e) = true) by (rewrite Hf; reflexivity).
  assert (Hfd : fix_drop (fx e) = true) by (rewrite Hf; reflexivity).
  destruct o as [k name labels v ts | k name labels vs rate | k]; cbn [step astep awrite fst snd].
  - destruct (write_scalar_spec e w fs (sbyte k) name labels v ts Hfr H) as (w' & Hr & M & L & R).
    rewrite Hr. exists w'.
    destruct (max w <? len (sbody e (sbyte k) name labels v ts)); cbn [fst snd]; rewrite ?app_nil_r; auto.
  - destruct (write_hist_spec e w fs (hbyte k) name labels vs rate Hf H) as (w' & Hr & M & L & R).
    rewrite Hr. exists w'.
    destruct (max w <? _); cbn [fst snd]; rewrite ?app_nil_r; auto.
  - destruct (drain_spec (fx e) w fs k Hfd H) as (w' & Hr & M & L & R).
    rewrite Hr. exists w'. auto.
Qed.

Theorem run_refines e ops : fx e = all_fixed ->
  forall w fs, Rep w fs -> run e w ops = arun e (max w) (lp w) fs ops.
Proof.
  intros Hf. induction ops as [|o r IH]; intros w fs H; [reflexivity|].
  cbn [run arun]. destruct (step_refines e w fs o Hf H) as (w' & Hr & M & L & R).
  rewrite Hr. f_equal. rewrite <- M, <- L. apply IH. rewrite M, L. exact R.
Qed.
