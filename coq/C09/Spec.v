(* C09 — the property, written independently of the writer model.

   (1) [parse_msg]: a DogStatsD datagram-line parser
         <name>:<v1>[:<v2>...]|<type>[|@<rate>][|#<tag>[,<tag>...]][|T<timestamp>]\n
       (one message, exactly one trailing newline, optional sections in this order only).
   (2) [unframe]: a yielded payload is  LE32(|body|) ++ body  in length-prefixed mode, [body]
       otherwise, and |body| <= max.
   (3) [msg_len]: the length of a message as the sum of the lengths of its parts; a counter/gauge
       is emitted iff its message fits in max; a histogram value is dropped iff the message
       carrying it alone does not fit.
   (4) [check]: the sequence semantics of writes and drains (flush cycles) on one writer: a drain
       yields, in order, the first k of the payloads announced (payloads_written) by the writes
       since the previous drain; the payloads of one write parse to messages with the expected
       name/type/rate/tags/timestamp whose value lists, concatenated, are the non-dropped input
       values in order; points_dropped counts exactly the other values.
   Only the types [op]/[out]/[cfg] (and [len], [is_empty]) are shared with Model.v.              *)
From Coq Require Import List NArith Bool.
Import ListNotations.
Require Import MV.C09.Model.
Open Scope N_scope.

(* ------------------------------------------------------------------------------- equality *)
Definition bytes_eqb (a b : bytes) : bool := if list_eq_dec N.eq_dec a b then true else false.
Definition label_eqb (a b : label) : bool := bytes_eqb (fst a) (fst b) && bytes_eqb (snd a) (snd b).
Fixpoint list_eqb {A} (eqb : A -> A -> bool) (a b : list A) : bool :=
  match a, b with
  | [], [] => true
  | x :: r, y :: r' => eqb x y && list_eqb eqb r r'
  | _, _ => false
  end.
Definition opt_eqb {A} (eqb : A -> A -> bool) (a b : option A) : bool :=
  match a, b with
  | None, None => true
  | Some x, Some y => eqb x y
  | _, _ => false
  end.

(* -------------------------------------------------------------------------------- messages *)
Record msg := { m_name : bytes; m_values : list bytes; m_type : N; m_rate : option bytes;
                m_tags : list label; m_ts : option bytes }.
Definition msg_eqb (a b : msg) : bool :=
  bytes_eqb (m_name a) (m_name b) && list_eqb bytes_eqb (m_values a) (m_values b) &&
  (m_type a =? m_type b) && opt_eqb bytes_eqb (m_rate a) (m_rate b) &&
  list_eqb label_eqb (m_tags a) (m_tags b) && opt_eqb bytes_eqb (m_ts a) (m_ts b).

(* split at every occurrence of [d]; never returns [] *)
Fixpoint split_on (d : N) (b : bytes) : list bytes :=
  match b with
  | [] => [[]]
  | x :: r =>
      if x =? d then [] :: split_on d r
      else match split_on d r with
           | h :: t => (x :: h) :: t
           | [] => [[x]]
           end
  end.
(* split at the first occurrence of [d] *)
Fixpoint split_first (d : N) (b : bytes) : bytes * option bytes :=
  match b with
  | [] => ([], None)
  | x :: r =>
      if x =? d then ([], Some r)
      else let '(h, t) := split_first d r in (x :: h, t)
  end.
(* the line without its terminating newline; None unless exactly one newline, at the end *)
Fixpoint strip_nl (b : bytes) : option bytes :=
  match b with
  | [] => None
  | x :: r =>
      match r with
      | [] => if x =? 10 then Some [] else None
      | _ => if x =? 10 then None else option_map (cons x) (strip_nl r)
      end
  end.
Definition parse_tag (t : bytes) : label :=
  match split_first 58 t with
  | (k, None) => (k, [])
  | (k, Some v) => (k, v)
  end.
(* an optional section introduced by the byte [c] *)
Definition take_opt (c : N) (fs : list bytes) : option bytes * list bytes :=
  match fs with
  | (x :: r) :: fs' => if x =? c then (Some r, fs') else (None, fs)
  | _ => (None, fs)
  end.

Definition parse_msg (body : bytes) : option msg :=
  match strip_nl body with
  | None => None
  | Some line =>
      match split_on 124 line with                                  (* "|" *)
      | f0 :: [ty] :: opts =>
          match split_on 58 f0 with                                 (* ":" *)
          | name :: v :: vs =>
              let '(rate, o1) := take_opt 64 opts in                (* "@" *)
              let '(tags, o2) := take_opt 35 o1 in                  (* "#" *)
              let '(ts, o3) := take_opt 84 o2 in                    (* "T" *)
              match o3 with
              | [] => Some {| m_name := name; m_values := v :: vs; m_type := ty; m_rate := rate;
                              m_tags := match tags with
                                        | None => []
                                        | Some t => map parse_tag (split_on 44 t)    (* "," *)
                                        end;
                              m_ts := ts |}
              | _ => None
              end
          | _ => None
          end
      | _ => None
      end
  end.

(* ---------------------------------------------------------------------------------- framing *)
Definition unframe (c : cfg) (p : bytes) : option bytes :=
  let ok (body : bytes) := if len body <=? c_max c then Some body else None in
  if c_lp c then
    match p with
    | a :: b :: x :: d :: body =>
        if (a <? 256) && (b <? 256) && (x <? 256) && (d <? 256) &&
           (a + 256 * b + 65536 * x + 16777216 * d =? len body)
        then ok body else None
    | _ => None
    end
  else ok p.

Fixpoint unframe_all (c : cfg) (ps : list bytes) : option (list bytes) :=
  match ps with
  | [] => Some []
  | p :: r => match unframe c p, unframe_all c r with
              | Some b, Some bs => Some (b :: bs)
              | _, _ => None
              end
  end.

(* ------------------------------------------------------------------- expected message, sizes *)
Definition full_name (c : cfg) (name : bytes) : bytes :=
  match prefix (c_env c) with Some p => p ++ 46 :: name | None => name end.

(* the message a write operation is about, carrying the value strings [vs] *)
Definition expect (c : cfg) (o : op) (vs : list bytes) : msg :=
  match o with
  | WScalar k name labels _ ts =>
      {| m_name := full_name c name; m_values := vs; m_type := sbyte k; m_rate := None;
         m_tags := glabels (c_env c) ++ labels; m_ts := ts |}
  | WHist k name labels _ rate =>
      {| m_name := full_name c name; m_values := vs; m_type := hbyte k; m_rate := rate;
         m_tags := glabels (c_env c) ++ labels; m_ts := None |}
  | Drain _ => {| m_name := []; m_values := vs; m_type := 0; m_rate := None; m_tags := []; m_ts := None |}
  end.

Fixpoint sumN {A} (f : A -> N) (l : list A) : N :=
  match l with [] => 0 | x :: r => f x + sumN f r end.
Definition opt_len (o : option bytes) : N := match o with Some x => 2 + len x | None => 0 end.
Definition tag_len (t : label) : N := len (fst t) + (if is_empty (snd t) then 0 else 1 + len (snd t)).
(* "|#" then the tags separated by "," : one separator byte per tag, plus one *)
Definition tags_len (ts : list label) : N :=
  match ts with [] => 0 | _ => 1 + sumN (fun t => 1 + tag_len t) ts end.
Definition msg_len (m : msg) : N :=
  len (m_name m) + sumN (fun v => 1 + len v) (m_values m) + 2
  + opt_len (m_rate m) + tags_len (m_tags m) + opt_len (m_ts m) + 1.

(* ------------------------------------------------------------- delimiter-freeness (wf_msg) *)
Definition free_of (ds : list N) (b : bytes) : bool :=
  forallb (fun x => negb (existsb (N.eqb x) ds)) b.
Definition wf_opt (o : option bytes) : bool := match o with Some x => free_of [124; 10] x | None => true end.
Definition wf_label (t : label) : bool :=
  free_of [58; 44; 124; 10] (fst t) && free_of [44; 124; 10] (snd t).
Definition wf_msg (m : msg) : bool :=
  free_of [58; 124; 10] (m_name m) && forallb (free_of [58; 124; 10]) (m_values m) &&
  negb (existsb (N.eqb (m_type m)) [124; 10]) &&
  wf_opt (m_rate m) && forallb wf_label (m_tags m) && wf_opt (m_ts m).

(* the values a write carries *)
Definition op_values (o : op) : list bytes :=
  match o with
  | WScalar _ _ _ v _ => [v]
  | WHist _ _ _ vs _ => vs
  | Drain _ => []
  end.
(* formatted numbers are never empty (itoa/ryu) *)
Definition values_nonempty (o : op) : bool := forallb (fun v => negb (is_empty v)) (op_values o).

(* ----------------------------------------------------------------- per-write clauses *)
Definition fits (c : cfg) (o : op) (v : bytes) : bool := msg_len (expect c o [v]) <=? c_max c.
Definition kept (c : cfg) (o : op) : list bytes := filter (fits c o) (op_values o).

(* the WriteResult of a write *)
Definition counts_ok (c : cfg) (o : op) (pw pd : N) : bool :=
  match o with
  | WScalar _ _ _ v _ => if fits c o v then (pw =? 1) && (pd =? 0) else (pw =? 0) && (pd =? 1)
  | WHist _ _ _ vs _ => (pd + len (kept c o) =? len vs) && (Bool.eqb (pw =? 0) (is_empty (kept c o)))
  | Drain _ => false
  end.

Fixpoint is_prefix (a b : list bytes) : bool :=
  match a, b with
  | [], _ => true
  | x :: r, y :: r' => bytes_eqb x y && is_prefix r r'
  | _, _ => false
  end.

(* the bodies [bs] observed for one write are its first |bs| payloads; [complete] = all of them.
   Each parses to the expected message with a non-empty run of values; the runs, concatenated,
   are a prefix of (all of, if complete) the kept values. *)
Fixpoint bodies_values (c : cfg) (o : op) (bs : list bytes) : option (list bytes) :=
  match bs with
  | [] => Some []
  | b :: r =>
      match parse_msg b, bodies_values c o r with
      | Some m, Some vs =>
          if msg_eqb m (expect c o (m_values m)) && negb (is_empty (m_values m))
          then Some (m_values m ++ vs) else None
      | _, _ => None
      end
  end.
Definition bodies_ok (c : cfg) (o : op) (bs : list bytes) (complete : bool) : bool :=
  if wf_msg (expect c o (op_values o)) then
    match bodies_values c o bs with
    | Some vs => if complete then list_eqb bytes_eqb vs (kept c o) else is_prefix vs (kept c o)
    | None => false
    end
  else true.

(* ----------------------------------------------------------------- the sequence semantics *)
(* pending: the writes since the previous drain with their payloads_written, oldest first *)
Fixpoint distribute (c : cfg) (pending : list (op * N)) (bs : list bytes) : bool :=
  match pending with
  | [] => is_empty bs
  | (o, pw) :: r =>
      let mine := firstn (N.to_nat pw) bs in
      bodies_ok c o mine (len mine =? pw) && distribute c r (skipn (N.to_nat pw) bs)
  end.

Fixpoint check (c : cfg) (ops : list op) (outs : list out) (pending : list (op * N)) : bool :=
  match ops, outs with
  | [], [] => true
  | Drain k :: ro, OPayloads avail ps :: rx =>
      let total := sumN snd pending in
      (avail =? total) &&
      (len ps =? match k with Some k => N.min k total | None => total end) &&
      match unframe_all c ps with
      | Some bs => distribute c pending bs
      | None => false
      end &&
      check c ro rx []
  | Drain _ :: _, _ => false
  | o :: ro, OWrite pw pd :: rx =>
      counts_ok c o pw pd && check c ro rx (pending ++ [(o, pw)])
  | _, _ => false
  end.

(* the property, evaluated on an observed output of a case; a maximum of 2^32 or more is refused
   by the constructor (documented assert), which is the only acceptable panic.  Formatted numbers
   are non-empty strings (precondition; always true of itoa/ryu output). *)
Definition spec_check (c : cfg) (ops : list op) (outs : list out) : bool :=
  if two32 <=? c_max c then match outs with [OPanic] => true | _ => false end
  else if forallb values_nonempty ops then check c ops outs [] else true.
