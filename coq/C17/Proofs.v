(* C17 — refinement of the eager (copy-at-creation) label maps to the declarative lookup, and the
   clauses of the property for enhance_key. *)
From Coq Require Import List NArith Bool Lia.
Import ListNotations.
Require Import MV.C17.Model MV.C17.Spec MV.C17.ProofsMap.
Open Scope N_scope.

Definition view (st : mstate) (id : N) : lmap := match aget id st with Some m => m | None => [] end.

(* the invariant tying a layer state to the history that produced it *)
Definition inv (st : mstate) (rh : list revent) : Prop :=
  (forall id name, mget name (view st id) = field_value rh id name)
  /\ (forall id, NoDup (keys (view st id))).

Lemma inv_init : inv [] [].
Proof. split; intros; simpl; [reflexivity|constructor]. Qed.

Lemma view_aset st id' m id : view (aset id' m st) id = if id =? id' then m else view st id.
Proof. unfold view. rewrite aget_aset. destruct (id =? id'); reflexivity. Qed.

Lemma inv_step st rh e : inv st rh -> inv (fst (m_step st e)) (e :: rh).
Proof.
  intros [Hv Hn]. destruct e as [id' parent vals|id' vals|cur name labels f|]; cbn [m_step fst field_value]; try (split; assumption).
  - (* RNew *)
    unfold on_new_span. split.
    + intros id name. cbn [field_value]. rewrite view_aset, (N.eqb_sym id' id). destruct (id =? id') eqn:E; [|apply Hv].
      destruct parent as [pid|].
      * specialize (Hv pid name). unfold view in Hv.
        destruct (aget pid st) as [pl|] eqn:Ep.
        -- rewrite mget_extend_keep, mget_from_record. destruct (alast name vals); auto.
        -- rewrite mget_from_record. destruct (alast name vals); auto.
      * rewrite mget_from_record. destruct (alast name vals); auto.
    + intros id. rewrite view_aset. destruct (id =? id'); [|apply Hn].
      destruct parent as [pid|]; [|apply nodup_from_record].
      destruct (aget pid st); [|apply nodup_from_record].
      apply nodup_extend_keep, nodup_from_record.
  - (* RRec *)
    unfold on_record. split.
    + intros id name. cbn [field_value]. rewrite (N.eqb_sym id' id).
      destruct (aget id' st) as [existing|] eqn:Ee; rewrite view_aset; destruct (id =? id') eqn:E; try apply Hv.
      * apply N.eqb_eq in E. subst id'.
        rewrite mget_extend_overwrite, alast_from_record. destruct (alast name vals); auto.
        rewrite <- Hv. unfold view. rewrite Ee. reflexivity.
      * apply N.eqb_eq in E. subst id'.
        rewrite mget_from_record. destruct (alast name vals); auto.
        rewrite <- Hv. unfold view. rewrite Ee. reflexivity.
    + intros id. destruct (aget id' st) as [existing|] eqn:Ee; rewrite view_aset; destruct (id =? id') eqn:E; try apply Hn.
      * apply nodup_extend_overwrite. specialize (Hn id'). unfold view in Hn. rewrite Ee in Hn. exact Hn.
      * apply nodup_from_record.
Qed.

Lemma m_state_app h : forall st h', m_state st (h ++ h') = m_state (m_state st h) h'.
Proof. induction h as [|e h IH]; intros; simpl; auto. Qed.

Lemma inv_run h : forall st rh, inv st rh -> inv (m_state st h) (rev h ++ rh).
Proof.
  induction h as [|e h IH]; intros st rh H; simpl; auto.
  rewrite <- app_assoc. simpl. apply IH. apply inv_step. exact H.
Qed.

(* THE REFINEMENT: after any history, the map stored on a span answers every lookup exactly as the
   declarative definition does, and holds each name once. *)
Theorem eager_equals_declarative h id name :
  mget name (view (m_state [] h) id) = field_value (rev h) id name.
Proof. pose proof (inv_run h [] [] inv_init) as [H _]. rewrite app_nil_r in H. apply H. Qed.

Theorem stored_maps_nodup h id : NoDup (keys (view (m_state [] h) id)).
Proof. pose proof (inv_run h [] [] inv_init) as [_ H]. apply H. Qed.

(* ---- names_in covers every visible field *)
Lemma alast_some_in n l x : alast n l = Some x -> In n (map fst l).
Proof. intros H. apply alast_in in H. apply in_map_iff. exists (n, x). auto. Qed.

Lemma field_value_names rh : forall id n v, field_value rh id n = Some v -> In n (names_in rh).
Proof.
  induction rh as [|e rh IH]; simpl; intros id n v H; [discriminate|].
  destruct e as [id' parent vals|id' vals| |]; try (eapply IH; eassumption).
  - apply in_or_app. destruct (id' =? id).
    + destruct (alast n vals) eqn:E; [left; eapply alast_some_in; eassumption|].
      destruct parent; [right; eapply IH; eassumption|discriminate].
    + right. eapply IH; eassumption.
  - apply in_or_app. destruct (id' =? id).
    + destruct (alast n vals) eqn:E; [left; eapply alast_some_in; eassumption|].
      right; eapply IH; eassumption.
    + right. eapply IH; eassumption.
Qed.

(* ---- enhance_key *)
Section Enhance.
  Variable admitf : str -> label -> bool.
  Variables (st : mstate) (rh : list revent).
  Hypothesis Hinv : inv st rh.
  Variables (cur : option N) (mname : str) (own : list label).

  Let res := enhance_key admitf mname own (cur_map st cur).

  Lemma visible_view n : visible rh cur n = match cur with Some s => mget n (view st s) | None => None end.
  Proof. destruct Hinv as [Hv _]. unfold visible. destruct cur; auto. Qed.

  (* when the key is left alone, nothing is visible *)
  Lemma unchanged_cases :
    (cur_map st cur = None \/ cur_map st cur = Some []) -> forall n, visible rh cur n = None.
  Proof.
    intros H n. rewrite visible_view. destruct cur as [s|]; auto.
    unfold cur_map in H. unfold view. destruct H as [H|H]; rewrite H; reflexivity.
  Qed.

  Lemma rebuilt_case k v m : cur_map st cur = Some ((k, v) :: m) ->
    res = rebuild admitf mname own ((k, v) :: m)
    /\ NoDup (keys ((k, v) :: m))
    /\ (forall n, visible rh cur n = mget n ((k, v) :: m)).
  Proof.
    intros H. split; [|split].
    - unfold res, enhance_key. rewrite H. reflexivity.
    - destruct Hinv as [_ Hn]. destruct cur as [s|]; [|discriminate]. simpl in H.
      specialize (Hn s). unfold view in Hn. rewrite H in Hn. exact Hn.
    - intros n. rewrite visible_view. destruct cur as [s|]; [|discriminate]. simpl in H.
      unfold view. rewrite H. reflexivity.
  Qed.

  Lemma res_cases :
    ((cur_map st cur = None \/ cur_map st cur = Some []) /\ res = (mname, own))
    \/ (exists k v m, cur_map st cur = Some ((k, v) :: m)).
  Proof.
    unfold res, enhance_key. destruct (cur_map st cur) as [[|[k v] m]|].
    - left. auto.
    - right. eauto.
    - left. auto.
  Qed.

  (* per-name precedence when the span has fields *)
  Lemma precedence_rebuilt k v m : cur_map st cur = Some ((k, v) :: m) -> forall n,
    mget n (snd res) =
      match alast n own with
      | Some x => Some x
      | None => match visible rh cur n with
                | Some w => if admitf mname (n, w) then Some w else None
                | None => None
                end
      end.
  Proof.
    intros H n. destruct (rebuilt_case _ _ _ H) as [E [Hn Hvis]].
    rewrite E. unfold rebuild. cbn [snd]. rewrite mget_extend_overwrite.
    destruct (alast n own); auto. rewrite mget_filter by assumption. rewrite Hvis. reflexivity.
  Qed.

  Lemma nodup_rebuilt k v m : cur_map st cur = Some ((k, v) :: m) -> NoDup (keys (snd res)).
  Proof.
    intros H. destruct (rebuilt_case _ _ _ H) as [E [Hn _]].
    rewrite E. unfold rebuild. cbn [snd]. apply nodup_extend_overwrite, nodup_filter. exact Hn.
  Qed.

  Lemma name_preserved : fst res = mname.
  Proof. unfold res, enhance_key, rebuild. destruct (cur_map st cur) as [[|? ?]|]; reflexivity. Qed.

  Theorem no_duplicate_names : NoDup (map fst own) -> NoDup (map fst (snd res)).
  Proof.
    intros H. destruct res_cases as [[_ E]|[k [v [m Hc]]]].
    - rewrite E. exact H.
    - apply (nodup_rebuilt _ _ _ Hc).
  Qed.

  Theorem unchanged_no_visible : (forall n, visible rh cur n = None) -> res = (mname, own).
  Proof.
    intros H. destruct res_cases as [[_ E]|[k [v [m Hc]]]]; auto.
    destruct (rebuilt_case _ _ _ Hc) as [_ [_ Hvis]]. specialize (H k). rewrite Hvis in H.
    simpl in H. rewrite str_eqb_refl in H. discriminate.
  Qed.

  Theorem unchanged_all_filtered :
    NoDup (map fst own) ->
    (forall n w, visible rh cur n = Some w -> admitf mname (n, w) = false) ->
    res = (mname, own).
  Proof.
    intros Hnd H. destruct res_cases as [[_ E]|[k [v [m Hc]]]]; auto.
    destruct (rebuilt_case _ _ _ Hc) as [E [Hn Hvis]]. rewrite E. unfold rebuild. f_equal.
    assert (F : filter (admitf mname) ((k, v) :: m) = []).
    { generalize Hn. assert (Hall : forall n w, mget n ((k, v) :: m) = Some w -> admitf mname (n, w) = false)
        by (intros n w Hg; apply H; rewrite Hvis; exact Hg).
      clear -Hall. generalize dependent ((k, v) :: m). intros l. induction l as [|[a b] l IH]; intros Hall Hn; simpl; auto.
      inversion Hn; subst.
      rewrite (Hall a b) by (simpl; rewrite str_eqb_refl; reflexivity).
      apply IH; auto. intros n w Hg. apply Hall. simpl.
      destruct (str_eqb n a) eqn:E; auto. apply str_eqb_eq in E. subst. apply mget_in_keys in Hg. contradiction. }
    rewrite F. apply (extend_overwrite_app own []). simpl. exact Hnd.
  Qed.

  (* the executable property holds of the model's key *)
  Lemma name_ok_res n : name_ok admitf rh cur mname own (snd res) n = true.
  Proof.
    unfold name_ok.
    destruct (smem n (map fst own)) eqn:Em.
    - (* the metric has its own label n *)
      apply smem_iff in Em.
      assert (Hocc : forall v, In v (occ n (snd res)) -> In (n, v) own).
      { intros v Hv. destruct res_cases as [[_ E]|[k [w [m Hc]]]].
        - rewrite E in Hv. apply occ_in in Hv. exact Hv.
        - rewrite (occ_nodup _ _ (nodup_rebuilt _ _ _ Hc)) in Hv.
          rewrite (precedence_rebuilt _ _ _ Hc) in Hv.
          destruct (alast n own) eqn:Ea.
          + destruct Hv as [<-|[]]. apply alast_in. exact Ea.
          + apply alast_none in Ea. contradiction. }
      assert (Hne : occ n (snd res) <> []).
      { destruct res_cases as [[_ E]|[k [w [m Hc]]]].
        - rewrite E. cbn [snd]. apply in_map_iff in Em as [[a b] [Ea Hin]]. simpl in Ea. subst a.
          intros Hnil. apply (occ_in n own b) in Hin. rewrite Hnil in Hin. destruct Hin.
        - rewrite (occ_nodup _ _ (nodup_rebuilt _ _ _ Hc)), (precedence_rebuilt _ _ _ Hc).
          destruct (alast n own) eqn:Ea; [discriminate|]. apply alast_none in Ea. contradiction. }
      apply andb_true_iff. split.
      + destruct (occ n (snd res)); [contradiction|reflexivity].
      + apply forallb_forall. intros v Hv. apply existsb_exists. exists (n, v). split; [auto|apply label_eqb_iff; reflexivity].
    - apply smem_false in Em.
      destruct res_cases as [[Hc E]|[k [w [m Hc]]]].
      + rewrite E. cbn [snd]. rewrite (occ_nil _ _ Em). rewrite (unchanged_cases Hc). reflexivity.
      + rewrite (occ_nodup _ _ (nodup_rebuilt _ _ _ Hc)), (precedence_rebuilt _ _ _ Hc).
        apply alast_none in Em. rewrite Em.
        destruct (visible rh cur n) as [x|]; [|reflexivity].
        destruct (admitf mname (n, x)); [|reflexivity]. simpl. rewrite str_eqb_refl. reflexivity.
  Qed.

  Lemma no_context_sound : no_context rh cur = true -> forall n, visible rh cur n = None.
  Proof.
    unfold no_context. intros H n. rewrite forallb_forall in H.
    destruct (visible rh cur n) eqn:E; auto.
    assert (Hin : In n (names_in rh)).
    { unfold visible in E. destruct cur; [|discriminate]. eapply field_value_names; eassumption. }
    specialize (H n Hin). rewrite E in H. discriminate.
  Qed.

  Theorem emit_ok_res : emit_ok admitf rh cur mname own res = true.
  Proof.
    unfold emit_ok. rewrite !andb_true_iff. repeat split.
    - rewrite name_preserved. apply str_eqb_refl.
    - apply forallb_forall. intros n _. apply name_ok_res.
    - destruct (nodupb (map fst own)) eqn:E; auto. apply nodupb_iff. apply no_duplicate_names. apply nodupb_iff. exact E.
    - destruct (no_context rh cur) eqn:E; auto. apply labels_eqb_iff.
      rewrite (unchanged_no_visible (no_context_sound E)). reflexivity.
  Qed.
End Enhance.

(* ---- the whole run *)
Lemma spec_walk_model h : forall st rh, inv st rh -> spec_walk rh h (m_run st h) = true.
Proof.
  induction h as [|e h IH]; intros st rh H; simpl; auto.
  pose proof (inv_step st rh e H) as H'.
  destruct e as [id' parent vals|id' vals|cur name labels f|]; simpl in *; try (apply IH; exact H').
  apply andb_true_iff. split.
  - apply emit_ok_res. exact H.
  - apply IH. exact H'.
Qed.

Theorem spec_walk_on_model h : spec_walk [] h (m_run [] h) = true.
Proof. apply spec_walk_model. apply inv_init. Qed.
