(* C17 — property theorems (statements only; proofs in Proofs*.v / ExecProofs.v).

   Reading guide.  A program is a [list event]; [resolve reg0 evs] is the same program with, for
   every span creation, the parent the registry chose and, for every emission, the emitting thread's
   current span ([revent]s).  [m_state [] h] is the layer's state (span id -> stored label map) after
   the resolved history h; [enhance_key admitf name own (cur_map st cur)] is what
   TracingContext::enhance_key hands to the inner recorder ([admitf] = the LabelFilter, ANY
   predicate; [admits f] for the three configured kinds).  [field_value (rev h) span name] /
   [visible (rev h) cur name] is the declarative lookup of Spec.v over the history, most recent
   first.  All theorems quantify over every history h (hence every prefix of every program, every
   forest shape and depth, shared names, late records), every filter, every label list.          *)
From Coq Require Import List NArith ZArith Bool.
Import ListNotations.
Require Import MV.C17.Model MV.C17.Spec MV.C17.Exec MV.C17.ProofsMap MV.C17.Proofs MV.C17.ProofsThread MV.C17.ProofsTop MV.C17.ProofsFrame MV.C17.ExecProofs.
Open Scope N_scope.

(* how program-level runs decompose into the pieces the clauses talk about *)
Theorem C17_run_emit : forall evs t mname own f,
  run (evs ++ [EEmit t mname own f]) =
  run evs ++ [enhance_key (admits f) mname own
                (cur_map (m_state [] (resolve reg0 evs)) (current (stack_of t (reg_run reg0 evs))))].
Proof. exact run_emit. Qed.

(* refinement: the map stored on a span (own fields, then the parent's map copied at creation
   without overwriting, records overwriting) answers every lookup exactly as the history-based
   definition, and never holds a name twice *)
Theorem C17_eager_equals_declarative : forall (h : list revent) (id : N) (name : str),
  mget name (view (m_state [] h) id) = field_value (rev h) id name.
Proof. exact eager_equals_declarative. Qed.

Theorem C17_stored_map_names_unique : forall (h : list revent) (id : N),
  NoDup (map fst (view (m_state [] h) id)).
Proof. exact stored_maps_nodup. Qed.

(* inner over outer, later record over earlier, parent consulted as of the creation of the child *)
Theorem C17_lookup_rules : forall rh id id' p vals n,
  (forall v, alast n vals = Some v -> field_value (RNew id p vals :: rh) id n = Some v)
  /\ (forall pid, alast n vals = None -> field_value (RNew id (Some pid) vals :: rh) id n = field_value rh pid n)
  /\ (alast n vals = None -> field_value (RNew id None vals :: rh) id n = None)
  /\ (forall v, alast n vals = Some v -> field_value (RRec id vals :: rh) id n = Some v)
  /\ (alast n vals = None -> field_value (RRec id vals :: rh) id n = field_value rh id n)
  /\ (id' <> id -> field_value (RRec id' vals :: rh) id n = field_value rh id n)
  /\ (id' <> id -> field_value (RNew id' p vals :: rh) id n = field_value rh id n).
Proof. exact lookup_rules. Qed.

(* precedence: metric's own value (its last one, should it repeat a name) > visible span value if the
   filter admits it > absent *)
Theorem C17_precedence : forall (admitf : str -> label -> bool) (h : list revent) (cur : option N)
                                (mname : str) (own : list label),
  fst (enhance_key admitf mname own (cur_map (m_state [] h) cur)) = mname
  /\ ((forall n, visible (rev h) cur n = None) ->
      snd (enhance_key admitf mname own (cur_map (m_state [] h) cur)) = own)
  /\ ((exists n, visible (rev h) cur n <> None) ->
      NoDup (map fst (snd (enhance_key admitf mname own (cur_map (m_state [] h) cur))))
      /\ forall n, mget n (snd (enhance_key admitf mname own (cur_map (m_state [] h) cur))) =
           match alast n own with
           | Some x => Some x
           | None => match visible (rev h) cur n with
                     | Some w => if admitf mname (n, w) then Some w else None
                     | None => None
                     end
           end).
Proof. exact precedence. Qed.

Theorem C17_no_duplicate_names : forall (admitf : str -> label -> bool) (h : list revent) (cur : option N)
                                        (mname : str) (own : list label),
  NoDup (map fst own) ->
  NoDup (map fst (snd (enhance_key admitf mname own (cur_map (m_state [] h) cur)))).
Proof. exact no_dup. Qed.

Theorem C17_unchanged_without_context : forall (admitf : str -> label -> bool) (h : list revent) (cur : option N)
                                               (mname : str) (own : list label),
  (cur = None -> enhance_key admitf mname own (cur_map (m_state [] h) cur) = (mname, own))
  /\ ((forall n, visible (rev h) cur n = None) ->
      enhance_key admitf mname own (cur_map (m_state [] h) cur) = (mname, own))
  /\ (NoDup (map fst own) ->
      (forall n w, visible (rev h) cur n = Some w -> admitf mname (n, w) = false) ->
      enhance_key admitf mname own (cur_map (m_state [] h) cur) = (mname, own)).
Proof. exact unchanged. Qed.

(* thread locality, in two halves: (a) which span is current on t is unaffected by other threads'
   enter/exit/emit events; (b) the produced key is a function of what is visible at that span *)
Theorem C17_thread_local_current_span : forall t evs,
  current (stack_of t (reg_run reg0 (erase_others t evs))) = current (stack_of t (reg_run reg0 evs)).
Proof. exact current_span_thread_local. Qed.

Theorem C17_thread_local_result : forall (admitf : str -> label -> bool) (h1 h2 : list revent)
                                         (cur1 cur2 : option N) (mname : str) (own : list label),
  (forall n, visible (rev h1) cur1 n = visible (rev h2) cur2 n) ->
  fst (enhance_key admitf mname own (cur_map (m_state [] h1) cur1))
  = fst (enhance_key admitf mname own (cur_map (m_state [] h2) cur2))
  /\ forall n, mget n (snd (enhance_key admitf mname own (cur_map (m_state [] h1) cur1)))
             = mget n (snd (enhance_key admitf mname own (cur_map (m_state [] h2) cur2))).
Proof. exact thread_local_result. Qed.

(* frame facts: enter / exit / drop / emit never change a stored map; a step of another thread
   (enter, exit, emit) leaves thread t's span stack alone *)
Theorem C17_control_events_keep_maps : forall r st e,
  is_control e = true -> fst (m_step st (snd (reg_step r e))) = st.
Proof. exact control_events_keep_maps. Qed.

Theorem C17_other_thread_step_keeps_stack : forall r t e,
  own_or_neutral t e = false -> stack_of t (fst (reg_step r e)) = stack_of t r.
Proof. exact other_thread_step_keeps_stack. Qed.

(* the executable property and the model *)
Theorem C17_spec_ok_on_model : forall c, spec_ok c (run_case c) = true.
Proof. exact spec_ok_on_model. Qed.

Theorem C17_spec_ok_sound : forall c o,
  spec_ok c o = true -> exists ks, o = Some ks /\ spec_holds [] (resolve reg0 c) ks.
Proof. exact spec_ok_sound. Qed.

Theorem C17_emit_ok_sound : forall admitf rh cur mname own obs,
  emit_ok admitf rh cur mname own obs = true ->
  fst obs = mname
  /\ (forall n v, In (n, v) (snd obs) ->
        In (n, v) own
        \/ (~ In n (map fst own) /\ visible rh cur n = Some v /\ admitf mname (n, v) = true))
  /\ (forall n, In n (map fst own) -> In n (map fst (snd obs)))
  /\ (forall n v, ~ In n (map fst own) -> visible rh cur n = Some v -> admitf mname (n, v) = true ->
        occ n (snd obs) = [v])
  /\ (NoDup (map fst own) -> NoDup (map fst (snd obs)))
  /\ ((forall n, visible rh cur n = None) -> snd obs = own).
Proof. exact emit_ok_sound. Qed.

(* satisfiable, non-trivial instance: nested spans sharing names, late records, a record on the
   outer span after the inner exists, own labels overlapping, allow-list, a second thread *)
Theorem C17_example : run ex_case =
  [ ([109], [([97], [3]); ([98], [2]); ([99], [9]); ([101], [8])]);
    ([109], [([99], [9])]);
    ([109], [([98], [2])]);
    ([109], [([97], [1]); ([98], [5]); ([100], [45; 55])]) ].
Proof. exact ex_run. Qed.
