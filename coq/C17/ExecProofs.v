(* C17 — what spec_ok means, that the model satisfies it, concrete examples. *)
From Coq Require Import List NArith ZArith Bool.
Import ListNotations.
Require Import MV.C17.Model MV.C17.Spec MV.C17.Exec MV.C17.ProofsMap MV.C17.Proofs.
Open Scope N_scope.

(* Prop-level reading of emit_ok *)
Definition emit_holds (admitf : str -> label -> bool) (rh : list revent) (cur : option N)
           (mname : str) (own : list label) (obs : key) : Prop :=
  fst obs = mname
  /\ (forall n v, In (n, v) (snd obs) ->
        In (n, v) own
        \/ (~ In n (map fst own) /\ visible rh cur n = Some v /\ admitf mname (n, v) = true))
  /\ (forall n, In n (map fst own) -> In n (map fst (snd obs)))
  /\ (forall n v, ~ In n (map fst own) -> visible rh cur n = Some v -> admitf mname (n, v) = true ->
        occ n (snd obs) = [v])
  /\ (NoDup (map fst own) -> NoDup (map fst (snd obs)))
  /\ ((forall n, visible rh cur n = None) -> snd obs = own).

Lemma emit_ok_sound admitf rh cur mname own obs :
  emit_ok admitf rh cur mname own obs = true -> emit_holds admitf rh cur mname own obs.
Proof.
  unfold emit_ok. rewrite !andb_true_iff. intros [[[H1 H2] H3] H4].
  rewrite forallb_forall in H2.
  assert (Hown : forall n, In n (map fst own) -> name_ok admitf rh cur mname own (snd obs) n = true)
    by (intros n Hn; apply H2; apply in_or_app; auto).
  assert (Hobs : forall n, In n (map fst (snd obs)) -> name_ok admitf rh cur mname own (snd obs) n = true)
    by (intros n Hn; apply H2; apply in_or_app; right; apply in_or_app; auto).
  assert (Hhist : forall n, In n (names_in rh) -> name_ok admitf rh cur mname own (snd obs) n = true)
    by (intros n Hn; apply H2; apply in_or_app; right; apply in_or_app; auto).
  repeat split.
  - apply str_eqb_eq. exact H1.
  - intros n v Hin.
    assert (Hn : In n (map fst (snd obs))) by (apply in_map_iff; exists (n, v); auto).
    specialize (Hobs n Hn). unfold name_ok in Hobs. apply occ_in in Hin.
    destruct (smem n (map fst own)) eqn:Em.
    + left. apply andb_true_iff in Hobs as [_ Hall]. rewrite forallb_forall in Hall.
      specialize (Hall v Hin). apply existsb_exists in Hall as [x [Hx Ex]]. apply label_eqb_iff in Ex. subst. exact Hx.
    + right. apply smem_false in Em. split; auto.
      destruct (visible rh cur n) as [w|].
      * destruct (admitf mname (n, w)) eqn:Ea.
        -- apply strs_eqb_iff in Hobs. rewrite Hobs in Hin. destruct Hin as [<-|[]]. auto.
        -- destruct (occ n (snd obs)); [destruct Hin|discriminate].
      * destruct (occ n (snd obs)); [destruct Hin|discriminate].
  - intros n Hn. specialize (Hown n Hn). unfold name_ok in Hown.
    apply smem_iff in Hn. rewrite Hn in Hown. apply andb_true_iff in Hown as [Hne _].
    destruct (occ n (snd obs)) as [|v r] eqn:Eo; [discriminate|].
    assert (Hin : In v (occ n (snd obs))) by (rewrite Eo; left; reflexivity).
    apply occ_in in Hin. apply in_map_iff. exists (n, v). auto.
  - intros n v Hn Hv Ha.
    assert (Hin : In n (names_in rh)).
    { unfold visible in Hv. destruct cur; [|discriminate]. eapply field_value_names; eassumption. }
    specialize (Hhist n Hin). unfold name_ok in Hhist.
    apply smem_false in Hn. rewrite Hn, Hv, Ha in Hhist. apply strs_eqb_iff in Hhist. exact Hhist.
  - intros Hnd. apply nodupb_iff in Hnd. rewrite Hnd in H3. apply nodupb_iff. exact H3.
  - intros Hnone.
    assert (E : no_context rh cur = true).
    { unfold no_context. apply forallb_forall. intros n _. rewrite Hnone. reflexivity. }
    rewrite E in H4. apply labels_eqb_iff. exact H4.
Qed.

Fixpoint spec_holds (rh h : list revent) (o : list key) : Prop :=
  match h with
  | [] => o = []
  | REmit cur mname own f :: rest =>
      match o with
      | [] => False
      | k :: o' => emit_holds (admits f) rh cur mname own k /\ spec_holds (REmit cur mname own f :: rh) rest o'
      end
  | e :: rest => spec_holds (e :: rh) rest o
  end.

Lemma spec_walk_sound h : forall rh o, spec_walk rh h o = true -> spec_holds rh h o.
Proof.
  induction h as [|e h IH]; intros rh o H; simpl in *.
  - destruct o; [reflexivity|discriminate].
  - destruct e; try (apply IH; exact H).
    destruct o as [|k o']; [discriminate|]. apply andb_true_iff in H as [H1 H2]. split.
    + apply emit_ok_sound. exact H1.
    + apply IH. exact H2.
Qed.

Theorem spec_ok_sound c o :
  spec_ok c o = true -> exists ks, o = Some ks /\ spec_holds [] (resolve reg0 c) ks.
Proof.
  destruct o as [ks|]; simpl; [|discriminate]. intros H. exists ks. split; auto.
  apply spec_walk_sound. exact H.
Qed.

Theorem spec_ok_on_model c : spec_ok c (run_case c) = true.
Proof. unfold spec_ok, run_case, run. apply spec_walk_on_model. Qed.

(* ---- concrete, non-trivial instance *)
Definition s (n : N) : str := [n].
Definition ex_case : case :=
  [ ENew 0 0 PCtx [(s 97, VStr (s 1)); (s 98, VStr (s 2)); (s 100, VEmpty)];   (* outer: a=1 b=2 d=Empty *)
    EEnter 0 0;
    ENew 0 1 PCtx [(s 97, VStr (s 3)); (s 99, VEmpty)];                      (* inner: a=3 c=Empty *)
    EEnter 0 1;
    ERec 0 1 [(s 99, VStr (s 4))];                                           (* inner: c=4 (late) *)
    ERec 0 0 [(s 98, VStr (s 5)); (s 100, VI64 (-7)%Z)];                       (* outer changes b, sets d AFTER the child exists *)
    EEmit 0 (s 109) [(s 99, s 9); (s 101, s 8)] FAll;                        (* metric: own c=9, e=8 *)
    EEmit 1 (s 109) [(s 99, s 9)] FAll;                                      (* other thread: no current span *)
    EEmit 0 (s 109) [] (FAllow [s 98]);
    EExit 0 1;
    EEmit 0 (s 109) [] FAll ].

Example ex_run : run ex_case =
  [ (s 109, [(s 97, s 3); (s 98, s 2); (s 99, s 9); (s 101, s 8)]);
    (s 109, [(s 99, s 9)]);
    (s 109, [(s 98, s 2)]);
    (s 109, [(s 97, s 1); (s 98, s 5); (s 100, [45; 55])]) ].
Proof. vm_compute. reflexivity. Qed.

(* the executable property rejects each single deviation *)
Example ex_spec_accepts : spec_ok ex_case (run_case ex_case) = true.
Proof. vm_compute. reflexivity. Qed.
Example ex_spec_rejects_outer_over_inner : spec_ok ex_case (Some
  [ (s 109, [(s 97, s 1); (s 99, s 9); (s 98, s 2); (s 101, s 8)]); (s 109, [(s 99, s 9)]); (s 109, [(s 98, s 2)]);
    (s 109, [(s 97, s 1); (s 98, s 5); (s 100, [45; 55])]) ]) = false.
Proof. vm_compute. reflexivity. Qed.
Example ex_spec_rejects_span_over_metric : spec_ok ex_case (Some
  [ (s 109, [(s 97, s 3); (s 99, s 4); (s 98, s 2); (s 101, s 8)]); (s 109, [(s 99, s 9)]); (s 109, [(s 98, s 2)]);
    (s 109, [(s 97, s 1); (s 98, s 5); (s 100, [45; 55])]) ]) = false.
Proof. vm_compute. reflexivity. Qed.
Example ex_spec_rejects_parent_read_at_emit_time : spec_ok ex_case (Some
  [ (s 109, [(s 97, s 3); (s 99, s 9); (s 98, s 5); (s 101, s 8)]); (s 109, [(s 99, s 9)]); (s 109, [(s 98, s 2)]);
    (s 109, [(s 97, s 1); (s 98, s 5); (s 100, [45; 55])]) ]) = false.
Proof. vm_compute. reflexivity. Qed.
Example ex_spec_rejects_other_threads_span : spec_ok ex_case (Some
  [ (s 109, [(s 97, s 3); (s 99, s 9); (s 98, s 2); (s 101, s 8)]); (s 109, [(s 97, s 3); (s 99, s 9); (s 98, s 2)]); (s 109, [(s 98, s 2)]);
    (s 109, [(s 97, s 1); (s 98, s 5); (s 100, [45; 55])]) ]) = false.
Proof. vm_compute. reflexivity. Qed.
Example ex_spec_rejects_unfiltered : spec_ok ex_case (Some
  [ (s 109, [(s 97, s 3); (s 99, s 9); (s 98, s 2); (s 101, s 8)]); (s 109, [(s 99, s 9)]); (s 109, [(s 97, s 3); (s 98, s 2)]);
    (s 109, [(s 97, s 1); (s 98, s 5); (s 100, [45; 55])]) ]) = false.
Proof. vm_compute. reflexivity. Qed.
Example ex_spec_rejects_duplicate_name : spec_ok ex_case (Some
  [ (s 109, [(s 97, s 3); (s 99, s 9); (s 98, s 2); (s 101, s 8); (s 99, s 9)]); (s 109, [(s 99, s 9)]); (s 109, [(s 98, s 2)]);
    (s 109, [(s 97, s 1); (s 98, s 5); (s 100, [45; 55])]) ]) = false.
Proof. vm_compute. reflexivity. Qed.
Example ex_spec_rejects_missing_field : spec_ok ex_case (Some
  [ (s 109, [(s 97, s 3); (s 99, s 9); (s 101, s 8)]); (s 109, [(s 99, s 9)]); (s 109, [(s 98, s 2)]);
    (s 109, [(s 97, s 1); (s 98, s 5); (s 100, [45; 55])]) ]) = false.
Proof. vm_compute. reflexivity. Qed.
