(* C17 — lemmas about the insertion-ordered maps (IndexMap as association list). *)
From Coq Require Import List NArith Bool Lia.
Import ListNotations.
Require Import MV.C17.Model MV.C17.Spec.
Open Scope N_scope.

Lemma str_eqb_refl a : str_eqb a a = true.
Proof. induction a; simpl; auto. rewrite N.eqb_refl. exact IHa. Qed.

Lemma str_eqb_eq a : forall b, str_eqb a b = true -> a = b.
Proof.
  induction a as [|x a IH]; intros [|y b] H; simpl in H; try discriminate; auto.
  apply andb_prop in H as [H1 H2]. apply N.eqb_eq in H1. f_equal; auto.
Qed.

Lemma str_eqb_iff a b : str_eqb a b = true <-> a = b.
Proof. split; [apply str_eqb_eq|intros ->; apply str_eqb_refl]. Qed.

Lemma str_eqb_false a b : str_eqb a b = false <-> a <> b.
Proof.
  split.
  - intros H E. subst. rewrite str_eqb_refl in H. discriminate.
  - intros H. destruct (str_eqb a b) eqn:E; auto. apply str_eqb_eq in E. contradiction.
Qed.

Lemma str_eqb_sym a b : str_eqb a b = str_eqb b a.
Proof.
  destruct (str_eqb a b) eqn:E.
  - apply str_eqb_eq in E. subst. symmetry. apply str_eqb_refl.
  - symmetry. apply str_eqb_false. apply str_eqb_false in E. auto.
Qed.

Definition keys (m : lmap) : list str := map fst m.

(* ---- mget *)
Lemma mget_insert n k v m : mget n (insert k v m) = if str_eqb n k then Some v else mget n m.
Proof.
  induction m as [|[k' v'] r IH]; simpl.
  - reflexivity.
  - destruct (str_eqb k k') eqn:E; simpl.
    + apply str_eqb_eq in E. subst k'. destruct (str_eqb n k); reflexivity.
    + rewrite IH. destruct (str_eqb n k') eqn:E2; auto.
      destruct (str_eqb n k) eqn:E3; auto.
      apply str_eqb_eq in E2. apply str_eqb_eq in E3. subst. rewrite str_eqb_refl in E. discriminate.
Qed.

Lemma mget_or_insert n k v m :
  mget n (or_insert k v m) = match mget n m with Some x => Some x | None => if str_eqb n k then Some v else None end.
Proof.
  induction m as [|[k' v'] r IH]; simpl.
  - reflexivity.
  - destruct (str_eqb k k') eqn:E; simpl.
    + destruct (str_eqb n k') eqn:E2; auto.
      destruct (mget n r); auto.
      apply str_eqb_eq in E. subst. rewrite E2. reflexivity.
    + rewrite IH. destruct (str_eqb n k'); reflexivity.
Qed.

Lemma mget_extend_overwrite n l : forall m,
  mget n (extend_overwrite m l) = match alast n l with Some x => Some x | None => mget n m end.
Proof.
  unfold extend_overwrite. induction l as [|[k v] r IH]; intros m; simpl.
  - reflexivity.
  - rewrite IH. destruct (alast n r); auto. rewrite mget_insert. destruct (str_eqb n k); reflexivity.
Qed.

Lemma mget_extend_keep n l : forall m,
  mget n (extend_keep m l) = match mget n m with Some x => Some x | None => mget n l end.
Proof.
  unfold extend_keep. induction l as [|[k v] r IH]; intros m; simpl.
  - destruct (mget n m); reflexivity.
  - rewrite IH, mget_or_insert. destruct (mget n m); auto.
    destruct (str_eqb n k); auto.
Qed.

Lemma mget_in_keys n m x : mget n m = Some x -> In n (keys m).
Proof.
  induction m as [|[k v] r IH]; simpl; [discriminate|].
  destruct (str_eqb n k) eqn:E; intros H.
  - left. apply str_eqb_eq in E. auto.
  - right. auto.
Qed.

Lemma mget_in n m x : mget n m = Some x -> In (n, x) m.
Proof.
  induction m as [|[k v] r IH]; simpl; [discriminate|].
  destruct (str_eqb n k) eqn:E; intros H.
  - left. apply str_eqb_eq in E. inversion H. subst. reflexivity.
  - right. auto.
Qed.

Lemma mget_none n m : ~ In n (keys m) -> mget n m = None.
Proof.
  induction m as [|[k v] r IH]; simpl; auto. intros H.
  destruct (str_eqb n k) eqn:E.
  - apply str_eqb_eq in E. subst. exfalso. auto.
  - apply IH. auto.
Qed.

(* ---- keys / NoDup *)
Lemma in_keys_insert x k v m : In x (keys (insert k v m)) <-> x = k \/ In x (keys m).
Proof.
  induction m as [|[k' v'] r IH]; simpl.
  - intuition.
  - destruct (str_eqb k k') eqn:E; simpl.
    + apply str_eqb_eq in E. subst. intuition.
    + rewrite IH. intuition.
Qed.

Lemma nodup_insert k v m : NoDup (keys m) -> NoDup (keys (insert k v m)).
Proof.
  induction m as [|[k' v'] r IH]; simpl; intros H.
  - constructor; [intros []|constructor].
  - destruct (str_eqb k k') eqn:E; simpl.
    + exact H.
    + inversion H; subst. constructor.
      * intros HI. apply in_keys_insert in HI as [->|HI]; [|contradiction].
        rewrite str_eqb_refl in E. discriminate.
      * apply IH. assumption.
Qed.

Lemma in_keys_or_insert x k v m : In x (keys (or_insert k v m)) <-> x = k \/ In x (keys m).
Proof.
  induction m as [|[k' v'] r IH]; simpl.
  - intuition.
  - destruct (str_eqb k k') eqn:E; simpl.
    + apply str_eqb_eq in E. subst. intuition.
    + rewrite IH. intuition.
Qed.

Lemma nodup_or_insert k v m : NoDup (keys m) -> NoDup (keys (or_insert k v m)).
Proof.
  induction m as [|[k' v'] r IH]; simpl; intros H.
  - constructor; [intros []|constructor].
  - destruct (str_eqb k k') eqn:E; simpl.
    + exact H.
    + inversion H; subst. constructor.
      * intros HI. apply in_keys_or_insert in HI as [->|HI]; [|contradiction].
        rewrite str_eqb_refl in E. discriminate.
      * apply IH. assumption.
Qed.

Lemma nodup_extend_overwrite l : forall m, NoDup (keys m) -> NoDup (keys (extend_overwrite m l)).
Proof.
  unfold extend_overwrite. induction l as [|[k v] r IH]; intros m H; simpl; auto.
  apply IH. apply nodup_insert. exact H.
Qed.

Lemma nodup_extend_keep l : forall m, NoDup (keys m) -> NoDup (keys (extend_keep m l)).
Proof.
  unfold extend_keep. induction l as [|[k v] r IH]; intros m H; simpl; auto.
  apply IH. apply nodup_or_insert. exact H.
Qed.

Lemma nodup_from_record vals : NoDup (keys (from_record vals)).
Proof. apply nodup_extend_overwrite. constructor. Qed.

Lemma nodup_filter (p : label -> bool) m : NoDup (keys m) -> NoDup (keys (filter p m)).
Proof.
  induction m as [|[k v] r IH]; simpl; intros H; auto.
  inversion H; subst. destruct (p (k, v)); simpl; auto.
  constructor; auto. intros HI. apply H2.
  unfold keys in *. apply in_map_iff in HI as [[k2 v2] [E HI]]. simpl in E. subst.
  apply filter_In in HI as [HI _]. apply in_map_iff. exists (k, v2). auto.
Qed.

(* ---- alast *)
Lemma alast_mget n m : NoDup (keys m) -> alast n m = mget n m.
Proof.
  induction m as [|[k v] r IH]; simpl; intros H; auto.
  inversion H; subst. rewrite IH by assumption.
  destruct (mget n r) eqn:E.
  - apply mget_in_keys in E. destruct (str_eqb n k) eqn:E2; auto.
    apply str_eqb_eq in E2. subst. contradiction.
  - reflexivity.
Qed.

Lemma mget_from_record n vals : mget n (from_record vals) = alast n vals.
Proof. unfold from_record. rewrite mget_extend_overwrite. simpl. destruct (alast n vals); reflexivity. Qed.

Lemma alast_from_record n vals : alast n (from_record vals) = alast n vals.
Proof. rewrite alast_mget by apply nodup_from_record. apply mget_from_record. Qed.

Lemma alast_in n l x : alast n l = Some x -> In (n, x) l.
Proof.
  induction l as [|[k v] r IH]; simpl; [discriminate|].
  destruct (alast n r) eqn:E.
  - intros H. inversion H. subst. right. auto.
  - destruct (str_eqb n k) eqn:E2; [|discriminate]. intros H. inversion H. subst.
    apply str_eqb_eq in E2. subst. left. reflexivity.
Qed.

Lemma alast_none n l : alast n l = None <-> ~ In n (map fst l).
Proof.
  induction l as [|[k v] r IH]; simpl.
  - intuition.
  - destruct (alast n r) eqn:E.
    + split; [discriminate|]. intros H. exfalso. apply H. right.
      apply alast_in in E. apply in_map_iff. exists (n, s). auto.
    + destruct (str_eqb n k) eqn:E2.
      * apply str_eqb_eq in E2. subst. split; [discriminate|]. intros H. exfalso. auto.
      * apply str_eqb_false in E2. split; auto. intros _ [H|H]; [auto|]. apply IH in H; auto.
Qed.

(* ---- filter (retain) *)
Lemma mget_filter (p : label -> bool) n m : NoDup (keys m) ->
  mget n (filter p m) = match mget n m with Some v => if p (n, v) then Some v else None | None => None end.
Proof.
  induction m as [|[k v] r IH]; simpl; intros H; auto.
  inversion H; subst.
  destruct (str_eqb n k) eqn:E.
  - apply str_eqb_eq in E. subst k.
    destruct (p (n, v)); simpl.
    + rewrite str_eqb_refl. reflexivity.
    + rewrite IH by assumption. rewrite (mget_none n r) by assumption. reflexivity.
  - destruct (p (k, v)); simpl; [rewrite E|]; apply IH; assumption.
Qed.

(* extend with NoDup own labels onto the empty map is the identity *)
Lemma extend_overwrite_app l : forall m, NoDup (keys (m ++ l)) -> extend_overwrite m l = m ++ l.
Proof.
  unfold extend_overwrite. induction l as [|[k v] r IH]; intros m H; simpl.
  - rewrite app_nil_r. reflexivity.
  - assert (E : insert k v m = m ++ [(k, v)]).
    { clear IH. induction m as [|[k' v'] m IHm]; simpl in *; auto.
      inversion H; subst.
      destruct (str_eqb k k') eqn:E.
      - apply str_eqb_eq in E. subst. exfalso. apply H2. unfold keys. rewrite map_app. apply in_or_app. right. left. reflexivity.
      - f_equal. apply IHm. assumption. }
    rewrite E. rewrite IH; rewrite <- app_assoc; simpl; auto.
Qed.

(* occurrences in a NoDup-keyed list *)
Lemma occ_nodup n m : NoDup (keys m) -> occ n m = match mget n m with Some v => [v] | None => [] end.
Proof.
  induction m as [|[k v] r IH]; simpl; intros H; auto.
  inversion H; subst. destruct (str_eqb n k) eqn:E.
  - apply str_eqb_eq in E. subst. rewrite IH by assumption. rewrite mget_none by assumption. reflexivity.
  - apply IH. assumption.
Qed.

Lemma occ_nil n l : ~ In n (map fst l) -> occ n l = [].
Proof.
  induction l as [|[k v] r IH]; simpl; auto. intros H.
  destruct (str_eqb n k) eqn:E.
  - apply str_eqb_eq in E. subst. exfalso. auto.
  - apply IH. auto.
Qed.

Lemma occ_in n l v : In v (occ n l) <-> In (n, v) l.
Proof.
  induction l as [|[k w] r IH]; simpl; [tauto|].
  destruct (str_eqb n k) eqn:E.
  - apply str_eqb_eq in E. subst. simpl. rewrite IH. split; intros [H|H]; auto; [left; congruence|].
    inversion H. auto.
  - rewrite IH. split; auto. intros [H|H]; auto. inversion H. subst. rewrite str_eqb_refl in E. discriminate.
Qed.

(* ---- boolean helpers of Spec *)
Lemma smem_iff n l : smem n l = true <-> In n l.
Proof.
  unfold smem. rewrite existsb_exists. split.
  - intros [x [H E]]. apply str_eqb_eq in E. subst. exact H.
  - intros H. exists n. split; auto. apply str_eqb_refl.
Qed.

Lemma smem_false n l : smem n l = false <-> ~ In n l.
Proof.
  split.
  - intros H HI. apply smem_iff in HI. congruence.
  - intros H. destruct (smem n l) eqn:E; auto. apply smem_iff in E. contradiction.
Qed.

Lemma nodupb_iff l : nodupb l = true <-> NoDup l.
Proof.
  induction l as [|x r IH]; simpl.
  - split; auto. constructor.
  - rewrite andb_true_iff, negb_true_iff, smem_false, IH. split.
    + intros [H1 H2]. constructor; auto.
    + intros H. inversion H. auto.
Qed.

Lemma label_eqb_iff a b : label_eqb a b = true <-> a = b.
Proof.
  destruct a, b. unfold label_eqb. simpl. rewrite andb_true_iff, !str_eqb_iff. split.
  - intros [-> ->]. reflexivity.
  - intros H. inversion H. auto.
Qed.

Lemma labels_eqb_iff a : forall b, labels_eqb a b = true <-> a = b.
Proof.
  induction a as [|x a IH]; intros [|y b]; simpl; try (split; [discriminate|discriminate]); try tauto.
  rewrite andb_true_iff, label_eqb_iff, IH. split.
  - intros [-> ->]. reflexivity.
  - intros H. inversion H. auto.
Qed.

Lemma strs_eqb_iff a : forall b, strs_eqb a b = true <-> a = b.
Proof.
  induction a as [|x a IH]; intros [|y b]; simpl; try (split; [discriminate|discriminate]); try tauto.
  rewrite andb_true_iff, str_eqb_iff, IH. split.
  - intros [-> ->]. reflexivity.
  - intros H. inversion H. auto.
Qed.

Lemma key_eqb_iff a b : key_eqb a b = true <-> a = b.
Proof.
  destruct a, b. unfold key_eqb. simpl. rewrite andb_true_iff, str_eqb_iff, labels_eqb_iff. split.
  - intros [-> ->]. reflexivity.
  - intros H. inversion H. auto.
Qed.

Lemma keys_eqb_iff a : forall b, keys_eqb a b = true <-> a = b.
Proof.
  induction a as [|x a IH]; intros [|y b]; simpl; try (split; [discriminate|discriminate]); try tauto.
  rewrite andb_true_iff, key_eqb_iff, IH. split.
  - intros [-> ->]. reflexivity.
  - intros H. inversion H. auto.
Qed.

(* ---- aget / aset *)
Lemma aget_aset {V} k k' (v : V) l : aget k (aset k' v l) = if k =? k' then Some v else aget k l.
Proof.
  induction l as [|[k2 v2] r IH]; simpl.
  - reflexivity.
  - destruct (k' =? k2) eqn:E; simpl.
    + apply N.eqb_eq in E. subst. destruct (k =? k2); reflexivity.
    + rewrite IH. destruct (k =? k2) eqn:E2; auto.
      destruct (k =? k') eqn:E3; auto.
      apply N.eqb_eq in E2. apply N.eqb_eq in E3. subst. rewrite N.eqb_refl in E. discriminate.
Qed.
