From Coq Require Import List NArith ZArith Bool.
Import ListNotations.
Require Import MV.C17.Model MV.C17.Spec MV.C17.Exec MV.C17.ProofsMap MV.C17.Proofs MV.C17.ProofsThread MV.C17.ProofsTop MV.C17.ProofsFrame MV.C17.ExecProofs.
Open Scope N_scope.
Require Import MV.C17.Properties.

Check (C17_run_emit : forall evs t mname own f,
  run (evs ++ [EEmit t mname own f]) =
  run evs ++ [enhance_key (admits f) mname own
                (cur_map (m_state [] (resolve reg0 evs)) (current (stack_of t (reg_run reg0 evs))))]).
Print Assumptions C17_run_emit.
Check (C17_eager_equals_declarative : forall (h : list revent) (id : N) (name : str),
  mget name (view (m_state [] h) id) = field_value (rev h) id name).
Print Assumptions C17_eager_equals_declarative.
Check (C17_stored_map_names_unique : forall (h : list revent) (id : N),
  NoDup (map fst (view (m_state [] h) id))).
Print Assumptions C17_stored_map_names_unique.
Check (C17_lookup_rules : forall rh id id' p vals n,
  (forall v, alast n vals = Some v -> field_value (RNew id p vals :: rh) id n = Some v)
  /\ (forall pid, alast n vals = None -> field_value (RNew id (Some pid) vals :: rh) id n = field_value rh pid n)
  /\ (alast n vals = None -> field_value (RNew id None vals :: rh) id n = None)
  /\ (forall v, alast n vals = Some v -> field_value (RRec id vals :: rh) id n = Some v)
  /\ (alast n vals = None -> field_value (RRec id vals :: rh) id n = field_value rh id n)
  /\ (id' <> id -> field_value (RRec id' vals :: rh) id n = field_value rh id n)
  /\ (id' <> id -> field_value (RNew id' p vals :: rh) id n = field_value rh id n)).
Print Assumptions C17_lookup_rules.
Check (C17_precedence : forall (admitf : str -> label -> bool) (h : list revent) (cur : option N)
                                (mname : str) (own : list label),
  fst (enhance_key admitf mname own (cur_map (m_state [] h) cur)) = mname
  /\ ((forall n, visible (rev h) cur n = None) ->
      snd (enhance_key admitf mname own (cur_map (m_state [] h) cur)) = own)
  /\ ((exists n, visible (rev h) cur n <> None) ->
      NoDup (map fst (snd (enhance_key admitf mname own (cur_map (m_state [] h) cur))))
      /\ forall n, mget n (snd (enhance_key admitf mname own (cur_map (m_state [] h) cur))) =
           match alast n own with
           | Some x => Some x
           | None => match visible (rev h) cur n with
                     | Some w => if admitf mname (n, w) then Some w else None
                     | None => None
                     end
           end)).
Print Assumptions C17_precedence.
Check (C17_no_duplicate_names : forall (admitf : str -> label -> bool) (h : list revent) (cur : option N)
                                        (mname : str) (own : list label),
  NoDup (map fst own) ->
  NoDup (map fst (snd (enhance_key admitf mname own (cur_map (m_state [] h) cur))))).
Print Assumptions C17_no_duplicate_names.
Check (C17_unchanged_without_context : forall (admitf : str -> label -> bool) (h : list revent) (cur : option N)
                                               (mname : str) (own : list label),
  (cur = None -> enhance_key admitf mname own (cur_map (m_state [] h) cur) = (mname, own))
  /\ ((forall n, visible (rev h) cur n = None) ->
      enhance_key admitf mname own (cur_map (m_state [] h) cur) = (mname, own))
  /\ (NoDup (map fst own) ->
      (forall n w, visible (rev h) cur n = Some w -> admitf mname (n, w) = false) ->
      enhance_key admitf mname own (cur_map (m_state [] h) cur) = (mname, own))).
Print Assumptions C17_unchanged_without_context.
Check (C17_thread_local_current_span : forall t evs,
  current (stack_of t (reg_run reg0 (erase_others t evs))) = current (stack_of t (reg_run reg0 evs))).
Print Assumptions C17_thread_local_current_span.
Check (C17_thread_local_result : forall (admitf : str -> label -> bool) (h1 h2 : list revent)
                                         (cur1 cur2 : option N) (mname : str) (own : list label),
  (forall n, visible (rev h1) cur1 n = visible (rev h2) cur2 n) ->
  fst (enhance_key admitf mname own (cur_map (m_state [] h1) cur1))
  = fst (enhance_key admitf mname own (cur_map (m_state [] h2) cur2))
  /\ forall n, mget n (snd (enhance_key admitf mname own (cur_map (m_state [] h1) cur1)))
             = mget n (snd (enhance_key admitf mname own (cur_map (m_state [] h2) cur2)))).
Print Assumptions C17_thread_local_result.
Check (C17_control_events_keep_maps : forall r st e,
  is_control e = true -> fst (m_step st (snd (reg_step r e))) = st).
Print Assumptions C17_control_events_keep_maps.
Check (C17_other_thread_step_keeps_stack : forall r t e,
  own_or_neutral t e = false -> stack_of t (fst (reg_step r e)) = stack_of t r).
Print Assumptions C17_other_thread_step_keeps_stack.
Check (C17_spec_ok_on_model : forall c, spec_ok c (run_case c) = true).
Print Assumptions C17_spec_ok_on_model.
Check (C17_spec_ok_sound : forall c o,
  spec_ok c o = true -> exists ks, o = Some ks /\ spec_holds [] (resolve reg0 c) ks).
Print Assumptions C17_spec_ok_sound.
Check (C17_emit_ok_sound : forall admitf rh cur mname own obs,
  emit_ok admitf rh cur mname own obs = true ->
  fst obs = mname
  /\ (forall n v, In (n, v) (snd obs) ->
        In (n, v) own
        \/ (~ In n (map fst own) /\ visible rh cur n = Some v /\ admitf mname (n, v) = true))
  /\ (forall n, In n (map fst own) -> In n (map fst (snd obs)))
  /\ (forall n v, ~ In n (map fst own) -> visible rh cur n = Some v -> admitf mname (n, v) = true ->
        occ n (snd obs) = [v])
  /\ (NoDup (map fst own) -> NoDup (map fst (snd obs)))
  /\ ((forall n, visible rh cur n = None) -> snd obs = own)).
Print Assumptions C17_emit_ok_sound.
Check (C17_example : run ex_case =
  [ ([109], [([97], [3]); ([98], [2]); ([99], [9]); ([101], [8])]);
    ([109], [([99], [9])]);
    ([109], [([98], [2])]);
    ([109], [([97], [1]); ([98], [5]); ([100], [45; 55])]) ]).
Print Assumptions C17_example.
