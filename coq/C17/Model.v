(* C17 — model of metrics-tracing-context (definitions only, no proofs).

   Two machines, composed by [run]:

   (1) [reg_step] / [resolve] — the part of `tracing` + `tracing_subscriber::Registry` the layer relies on:
       which span handles exist and are still held, the per-thread span stack of
       tracing-subscriber-0.3.19 `registry/stack.rs` (push marks an id already on the stack as
       `duplicate`; pop removes the most recent entry with that id; `current` = most recent
       non-duplicate entry), how `Registry::new_span` picks the parent (root / contextual = current
       span of the creating thread / explicit), and tracing's rule that `Span::record` of a name the
       callsite did not declare does nothing.  It turns a program of [event]s into resolved events
       [revent].  This machine is third-party behaviour: exercised and compared, shared by model and
       specification.

   (2) [m_step] — metrics-tracing-context itself, statement by statement:
       tracing_integration.rs `Labels` visitor (record_str/bool/i64/u64/debug = IndexMap::insert),
       `on_new_span` (own fields, then parent's map merged with entry().or_insert_with),
       `on_record` (fresh Labels from the record, then insert-overwrite into the existing map; or
       stored as is when the span has no Labels), and lib.rs `enhance_key` (no current span / no
       Labels / empty map => None, i.e. key unchanged; else clone the map, retain by the filter,
       extend (= insert) with the metric's own labels, rebuild the key in map order).            *)
From Coq Require Import List NArith ZArith Bool.
Import ListNotations.
Open Scope N_scope.

Definition str := list N.

Fixpoint str_eqb (a b : str) : bool :=
  match a, b with
  | [], [] => true
  | x :: r, y :: r' => (x =? y) && str_eqb r r'
  | _, _ => false
  end.

Definition label := (str * str)%type.
Definition lmap := list label.           (* IndexMap<SharedString, SharedString>: insertion-ordered *)
Definition key := (str * list label)%type. (* metric name, labels in order *)

(* ---- IndexMap operations *)
Fixpoint insert (k v : str) (m : lmap) : lmap :=      (* IndexMap::insert: overwrite in place, else append *)
  match m with
  | [] => [(k, v)]
  | (k', v') :: r => if str_eqb k k' then (k', v) :: r else (k', v') :: insert k v r
  end.

Fixpoint or_insert (k v : str) (m : lmap) : lmap :=   (* entry(k).or_insert_with(|| v) *)
  match m with
  | [] => [(k, v)]
  | (k', v') :: r => if str_eqb k k' then m else (k', v') :: or_insert k v r
  end.

Fixpoint mget (k : str) (m : lmap) : option str :=
  match m with
  | [] => None
  | (k', v') :: r => if str_eqb k k' then Some v' else mget k r
  end.

Definition extend_overwrite (self other : lmap) : lmap :=  (* Labels::extend_from_labels_overwrite *)
  fold_left (fun m kv => insert (fst kv) (snd kv) m) other self.
Definition extend_keep (self other : lmap) : lmap :=       (* Labels::extend_from_labels *)
  fold_left (fun m kv => or_insert (fst kv) (snd kv) m) other self.

(* ---- field values and the Visit impl *)
Inductive fval :=
| VEmpty                 (* tracing::field::Empty, or an Option::None value: nothing is visited *)
| VStr (s : str)         (* Visit::record_str (overridden): the string itself *)
| VBool (b : bool)       (* record_bool (overridden): "true" / "false" *)
| VI64 (z : Z)           (* record_i64 (overridden): itoa = decimal, as <i64 as Display> *)
| VU64 (n : N)           (* record_u64 (overridden): itoa = decimal, as <u64 as Display> *)
| VI128 (z : Z)          (* record_i128 (NOT overridden): default -> record_debug(&value) -> <i128 as Debug> = decimal *)
| VU128 (n : N)          (* record_u128 (NOT overridden): default -> record_debug(&value) -> <u128 as Debug> = decimal *)
| VBytes (b : list N)    (* record_bytes (not overridden): default -> record_debug(&HexBytes(b)) = "[" two-digit lower hex, space separated "]" *)
| VError (display : str) (* record_error (not overridden): default -> record_debug(&DisplayValue(err)) = the error's Display text (data) *)
| VDebug (rendered : str)(* record_debug, and record_f64 via its default: format!("{value:?}") — the rendering is an oracle (data) *).

Fixpoint uint_digits (u : Decimal.uint) : list N :=
  match u with
  | Decimal.Nil => []
  | Decimal.D0 r => 48 :: uint_digits r | Decimal.D1 r => 49 :: uint_digits r
  | Decimal.D2 r => 50 :: uint_digits r | Decimal.D3 r => 51 :: uint_digits r
  | Decimal.D4 r => 52 :: uint_digits r | Decimal.D5 r => 53 :: uint_digits r
  | Decimal.D6 r => 54 :: uint_digits r | Decimal.D7 r => 55 :: uint_digits r
  | Decimal.D8 r => 56 :: uint_digits r | Decimal.D9 r => 57 :: uint_digits r
  end.
Definition dec_N (n : N) : str := uint_digits (N.to_uint n).
Definition dec_Z (z : Z) : str :=
  match z with
  | Z0 => [48]
  | Zpos p => dec_N (Npos p)
  | Zneg p => 45 :: dec_N (Npos p)
  end.

Definition hex_digit (n : N) : N := if n <? 10 then 48 + n else 87 + n.
Fixpoint hex_bytes_body (b : list N) : str :=
  match b with
  | [] => []
  | [x] => [hex_digit (x / 16); hex_digit (x mod 16)]
  | x :: r => hex_digit (x / 16) :: hex_digit (x mod 16) :: 32 :: hex_bytes_body r
  end.

Definition render (v : fval) : option str :=
  match v with
  | VEmpty => None
  | VStr s => Some s
  | VBool true => Some [116; 114; 117; 101]          (* "true" *)
  | VBool false => Some [102; 97; 108; 115; 101]     (* "false" *)
  | VI64 z => Some (dec_Z z)
  | VU64 n => Some (dec_N n)
  | VI128 z => Some (dec_Z z)
  | VU128 n => Some (dec_N n)
  | VBytes b => Some (91 :: hex_bytes_body b ++ [93])
  | VError s => Some s
  | VDebug s => Some s
  end.

(* the (name, rendered value) pairs a ValueSet visits, in order *)
Fixpoint vals_of (fields : list (str * fval)) : list label :=
  match fields with
  | [] => []
  | (k, v) :: r => match render v with Some s => (k, s) :: vals_of r | None => vals_of r end
  end.

(* Labels::from_record: a fresh (pooled, cleared) map visited with the values *)
Definition from_record (vals : list label) : lmap := extend_overwrite [] vals.

(* ---- label filters *)
Inductive fcfg :=
| FAll                                              (* label_filter::IncludeAll *)
| FAllow (names : list str)                         (* label_filter::Allowlist *)
| FTable (default : bool) (rules : list (option str * option str * option str * bool)).
   (* a custom LabelFilter: first rule whose (metric name?, label key?, label value?) pattern matches decides *)

Definition opt_match (p : option str) (s : str) : bool :=
  match p with None => true | Some x => str_eqb x s end.
Fixpoint table_admit (default : bool) (rules : list (option str * option str * option str * bool))
         (mname : str) (l : label) : bool :=
  match rules with
  | [] => default
  | (pm, pk, pv, r) :: rest =>
      if opt_match pm mname && opt_match pk (fst l) && opt_match pv (snd l) then r
      else table_admit default rest mname l
  end.
Definition admits (f : fcfg) (mname : str) (l : label) : bool :=
  match f with
  | FAll => true
  | FAllow names => existsb (str_eqb (fst l)) names
  | FTable d rules => table_admit d rules mname l
  end.

(* ---- programs *)
Inductive pspec := PCtx | PRoot | PExp (id : N).
Inductive event :=
| ENew (tid id : N) (p : pspec) (fields : list (str * fval)) (* span!(…) on thread tid; fields = the callsite's declared fields *)
| ERec (tid id : N) (fields : list (str * fval))              (* span.record_all *)
| EEnter (tid id : N)
| EExit (tid id : N)
| EDrop (tid id : N)                                          (* the program drops its handle *)
| EEmit (tid : N) (name : str) (labels : list label) (f : fcfg).

(* ---- (1) registry machine *)
Fixpoint aget {V} (k : N) (l : list (N * V)) : option V :=
  match l with
  | [] => None
  | (k', v) :: r => if k =? k' then Some v else aget k r
  end.
Fixpoint aset {V} (k : N) (v : V) (l : list (N * V)) : list (N * V) :=
  match l with
  | [] => [(k, v)]
  | (k', v') :: r => if k =? k' then (k', v) :: r else (k', v') :: aset k v r
  end.

Record handle := { h_decl : list str; h_alive : bool }.
Definition stack := list (N * bool).     (* head = top; (id, duplicate) *)
Record reg := { handles : list (N * handle); stacks : list (N * stack) }.
Definition reg0 : reg := {| handles := []; stacks := [] |}.

Definition stack_of (t : N) (r : reg) : stack :=
  match aget t (stacks r) with Some s => s | None => [] end.
Definition push (id : N) (s : stack) : stack := (id, existsb (fun e => fst e =? id) s) :: s.
Fixpoint pop (id : N) (s : stack) : stack :=
  match s with
  | [] => []
  | (i, d) :: r => if i =? id then r else (i, d) :: pop id r
  end.
Definition current (s : stack) : option N :=
  match find (fun e => negb (snd e)) s with Some e => Some (fst e) | None => None end.

Definition live (r : reg) (id : N) : option handle :=
  match aget id (handles r) with
  | Some h => if h_alive h then Some h else None
  | None => None
  end.

Inductive revent :=
| RNew (id : N) (parent : option N) (vals : list label)
| RRec (id : N) (vals : list label)
| REmit (cur : option N) (name : str) (labels : list label) (f : fcfg)
| RNop.

Definition reg_step (r : reg) (e : event) : reg * revent :=
  match e with
  | ENew t id p fields =>
      match aget id (handles r) with
      | Some _ => (r, RNop)                        (* the harness ignores a second creation of an id *)
      | None =>
          let parent := match p with
                        | PRoot => None
                        | PCtx => current (stack_of t r)
                        | PExp pid => match live r pid with Some _ => Some pid | None => None end
                        end in
          ({| handles := aset id {| h_decl := map fst fields; h_alive := true |} (handles r);
              stacks := stacks r |},
           RNew id parent (vals_of fields))
      end
  | ERec t id fields =>
      match live r id with
      | Some h =>
          match filter (fun kv => existsb (str_eqb (fst kv)) (h_decl h)) fields with
          | [] => (r, RNop)
          | fs => (r, RRec id (vals_of fs))
          end
      | None => (r, RNop)
      end
  | EEnter t id =>
      match live r id with
      | Some _ => ({| handles := handles r; stacks := aset t (push id (stack_of t r)) (stacks r) |}, RNop)
      | None => (r, RNop)
      end
  | EExit t id =>
      ({| handles := handles r; stacks := aset t (pop id (stack_of t r)) (stacks r) |}, RNop)
  | EDrop t id =>
      match aget id (handles r) with
      | Some h => ({| handles := aset id {| h_decl := h_decl h; h_alive := false |} (handles r);
                      stacks := stacks r |}, RNop)
      | None => (r, RNop)
      end
  | EEmit t name labels f => (r, REmit (current (stack_of t r)) name labels f)
  end.

Fixpoint resolve (r : reg) (evs : list event) : list revent :=
  match evs with
  | [] => []
  | e :: rest => let '(r', re) := reg_step r e in re :: resolve r' rest
  end.

Fixpoint reg_run (r : reg) (evs : list event) : reg :=
  match evs with
  | [] => r
  | e :: rest => reg_run (fst (reg_step r e)) rest
  end.

(* ---- (2) the layer and the recorder *)
Definition mstate := list (N * lmap).    (* span id -> its `Labels` extension *)

Definition on_new_span (st : mstate) (id : N) (parent : option N) (vals : list label) : mstate :=
  let labels := from_record vals in
  let labels := match parent with
                | Some pid => match aget pid st with
                              | Some parent_labels => extend_keep labels parent_labels
                              | None => labels
                              end
                | None => labels
                end in
  aset id labels st.

Definition on_record (st : mstate) (id : N) (vals : list label) : mstate :=
  let labels := from_record vals in
  match aget id st with
  | Some existing => aset id (extend_overwrite existing labels) st
  | None => aset id labels st
  end.

Definition is_nil {A} (l : list A) : bool := match l with [] => true | _ => false end.

Section Enhance.
  Variable admitf : str -> label -> bool.   (* LabelFilter::should_include_label *)
  Definition rebuild (name : str) (own : list label) (span_labels : lmap) : key :=
    let retained := filter (admitf name) span_labels in          (* retain *)
    (name, extend_overwrite retained own).                       (* extend(labels) ; into_iter ; Key::from_parts *)
  Definition enhance_key (name : str) (own : list label) (cur : option lmap) : key :=
    match cur with
    | None => (name, own)
    | Some span_labels => if is_nil span_labels then (name, own) else rebuild name own span_labels
    end.
End Enhance.

Definition cur_map (st : mstate) (cur : option N) : option lmap :=
  match cur with Some id => aget id st | None => None end.

Definition m_step (st : mstate) (e : revent) : mstate * option key :=
  match e with
  | RNew id parent vals => (on_new_span st id parent vals, None)
  | RRec id vals => (on_record st id vals, None)
  | REmit cur name labels f => (st, Some (enhance_key (admits f) name labels (cur_map st cur)))
  | RNop => (st, None)
  end.

Fixpoint m_state (st : mstate) (h : list revent) : mstate :=
  match h with
  | [] => st
  | e :: rest => m_state (fst (m_step st e)) rest
  end.

Fixpoint m_run (st : mstate) (h : list revent) : list key :=
  match h with
  | [] => []
  | e :: rest => let '(st', o) := m_step st e in
                 match o with Some k => k :: m_run st' rest | None => m_run st' rest end
  end.

Definition run (evs : list event) : list key := m_run [] (resolve reg0 evs).
