(* C17 — frame facts: what enter / exit / drop / emit leave alone. *)
From Coq Require Import List NArith Bool.
Import ListNotations.
Require Import MV.C17.Model MV.C17.Spec MV.C17.ProofsMap MV.C17.Proofs MV.C17.ProofsThread.
Open Scope N_scope.

Definition is_control (e : event) : bool :=
  match e with EEnter _ _ | EExit _ _ | EDrop _ _ | EEmit _ _ _ _ => true | _ => false end.

(* entering, exiting, dropping a handle and emitting never change a stored label map *)
Theorem control_events_keep_maps r st e :
  is_control e = true -> fst (m_step st (snd (reg_step r e))) = st.
Proof.
  destruct e as [t id p fields|t id fields|t id|t id|t id|t name labels f]; cbn [is_control]; try discriminate; intros _;
    cbn [reg_step].
  - destruct (live r id); reflexivity.
  - reflexivity.
  - destruct (aget id (handles r)); reflexivity.
  - reflexivity.
Qed.

(* one step of another thread leaves thread t's span stack alone *)
Theorem other_thread_step_keeps_stack r t e :
  own_or_neutral t e = false -> stack_of t (fst (reg_step r e)) = stack_of t r.
Proof.
  intros H. destruct (same_step_erased t r r e H) as [_ Hs]; [split; reflexivity|]. symmetry. exact Hs.
Qed.
