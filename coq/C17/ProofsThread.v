(* C17 — thread locality. *)
From Coq Require Import List NArith Bool.
Import ListNotations.
Require Import MV.C17.Model MV.C17.Spec MV.C17.ProofsMap MV.C17.Proofs.
Open Scope N_scope.

(* (a) which span is current on thread t is decided by t's own Enter/Exit events (and by which
   handles exist), never by what other threads enter, exit or emit *)
Definition own_or_neutral (t : N) (e : event) : bool :=
  match e with
  | EEnter t' _ | EExit t' _ | EEmit t' _ _ _ => t' =? t
  | _ => true
  end.
Definition erase_others (t : N) (evs : list event) : list event := filter (own_or_neutral t) evs.

Definition same_for (t : N) (r1 r2 : reg) : Prop :=
  handles r1 = handles r2 /\ stack_of t r1 = stack_of t r2.

Lemma stack_of_set t t' s hs ss :
  stack_of t {| handles := hs; stacks := aset t' s ss |} = if t =? t' then s else stack_of t {| handles := hs; stacks := ss |}.
Proof. unfold stack_of. cbn [stacks]. rewrite aget_aset. destruct (t =? t'); reflexivity. Qed.

Lemma stack_of_handles t hs hs' ss : stack_of t {| handles := hs; stacks := ss |} = stack_of t {| handles := hs'; stacks := ss |}.
Proof. reflexivity. Qed.

Lemma live_same r1 r2 id : handles r1 = handles r2 -> live r1 id = live r2 id.
Proof. unfold live. intros ->. reflexivity. Qed.

Lemma same_step_kept t r1 r2 e : same_for t r1 r2 -> same_for t (fst (reg_step r1 e)) (fst (reg_step r2 e)).
Proof.
  intros [Hh Hs]. destruct r1 as [h1 s1], r2 as [h2 s2]. cbn [handles] in Hh. subst h2.
  destruct e as [t' id p fields|t' id fields|t' id|t' id|t' id|t' name labels f]; cbn [reg_step handles stacks].
  - destruct (aget id h1); cbn [fst]; split; auto.
  - unfold live. cbn [handles]. destruct (aget id h1) as [h|]; [|split; auto].
    destruct (h_alive h); [|split; auto].
    destruct (filter _ fields); split; auto.
  - unfold live. cbn [handles]. destruct (aget id h1) as [h|]; [|split; auto].
    destruct (h_alive h); [|split; auto]. cbn [fst]. split; [reflexivity|].
    rewrite !stack_of_set. destruct (t =? t') eqn:E; [|exact Hs].
    apply N.eqb_eq in E. subst t'. rewrite Hs. reflexivity.
  - cbn [fst]. split; [reflexivity|].
    rewrite !stack_of_set. destruct (t =? t') eqn:E; [|exact Hs].
    apply N.eqb_eq in E. subst t'. rewrite Hs. reflexivity.
  - destruct (aget id h1); cbn [fst]; split; auto.
  - split; auto.
Qed.

Lemma same_step_erased t r1 r2 e : own_or_neutral t e = false -> same_for t r1 r2 -> same_for t r1 (fst (reg_step r2 e)).
Proof.
  intros He [Hh Hs]. destruct r2 as [h2 s2].
  destruct e as [t' id p fields|t' id fields|t' id|t' id|t' id|t' name labels f]; cbn [own_or_neutral] in He; try discriminate;
    cbn [reg_step handles stacks].
  - unfold live. cbn [handles]. destruct (aget id h2) as [h|]; [|split; auto].
    destruct (h_alive h); [|split; auto]. cbn [fst]. split; [exact Hh|].
    rewrite stack_of_set. rewrite N.eqb_sym, He. exact Hs.
  - cbn [fst]. split; [exact Hh|]. rewrite stack_of_set. rewrite N.eqb_sym, He. exact Hs.
  - split; auto.
Qed.

Lemma same_run t evs : forall r1 r2, same_for t r1 r2 -> same_for t (reg_run r1 (erase_others t evs)) (reg_run r2 evs).
Proof.
  induction evs as [|e evs IH]; intros r1 r2 H; simpl; auto.
  destruct (own_or_neutral t e) eqn:E; simpl.
  - apply IH. apply same_step_kept. exact H.
  - apply IH. apply same_step_erased; assumption.
Qed.

Theorem current_span_thread_local t evs :
  current (stack_of t (reg_run reg0 (erase_others t evs))) = current (stack_of t (reg_run reg0 evs)).
Proof.
  destruct (same_run t evs reg0 reg0) as [_ H]; [split; reflexivity|]. rewrite H. reflexivity.
Qed.

(* (b) the key produced by an emission is a function of what is visible at the emitting thread's
   current span: two histories (any other spans, any other threads' doings) that give the current
   span the same visible fields yield keys with the same name and the same value for every label *)
Theorem result_depends_on_visible_only admitf st1 rh1 st2 rh2 cur1 cur2 mname own :
  inv st1 rh1 -> inv st2 rh2 ->
  (forall n, visible rh1 cur1 n = visible rh2 cur2 n) ->
  let r1 := enhance_key admitf mname own (cur_map st1 cur1) in
  let r2 := enhance_key admitf mname own (cur_map st2 cur2) in
  fst r1 = fst r2 /\ forall n, mget n (snd r1) = mget n (snd r2).
Proof.
  intros H1 H2 Hv r1 r2. split.
  - unfold r1, r2. rewrite !(name_preserved admitf). reflexivity.
  - intros n.
    destruct (res_cases admitf st1 cur1 mname own) as [[Hc1 E1]|[k1 [v1 [m1 Hc1]]]];
    destruct (res_cases admitf st2 cur2 mname own) as [[Hc2 E2]|[k2 [v2 [m2 Hc2]]]].
    + unfold r1, r2. rewrite E1, E2. reflexivity.
    + exfalso. destruct (rebuilt_case admitf st2 rh2 H2 cur2 mname own _ _ _ Hc2) as [_ [_ Hvis]].
      specialize (Hv k2). rewrite (unchanged_cases admitf st1 rh1 H1 cur1 mname own Hc1), Hvis in Hv.
      simpl in Hv. rewrite str_eqb_refl in Hv. discriminate.
    + exfalso. destruct (rebuilt_case admitf st1 rh1 H1 cur1 mname own _ _ _ Hc1) as [_ [_ Hvis]].
      specialize (Hv k1). rewrite (unchanged_cases admitf st2 rh2 H2 cur2 mname own Hc2), Hvis in Hv.
      simpl in Hv. rewrite str_eqb_refl in Hv. discriminate.
    + unfold r1, r2.
      rewrite (precedence_rebuilt admitf st1 rh1 H1 cur1 mname own _ _ _ Hc1).
      rewrite (precedence_rebuilt admitf st2 rh2 H2 cur2 mname own _ _ _ Hc2).
      rewrite Hv. reflexivity.
Qed.
