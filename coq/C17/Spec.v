(* C17 — the property as a declarative lookup over the event history (no maps, no copying).

   The history is the list of resolved events (Model.revent: span creations with the parent the
   registry chose, effective records, emissions with the emitting thread's current span), most
   recent first.  [field_value rh span name] answers "which value does [name] have on [span]":
   the last value recorded for it on the span itself (at creation or by a later record()), else
   the value it had on the span's parent AS OF THE MOMENT THE SPAN WAS CREATED (the recursion
   continues in the history before the creation event).  Inner-over-outer and later-over-earlier
   precedence are this definition.

   [emit_ok] is the property for one emission, evaluated on an observed key: per label name, the
   metric's own value if it has one, else the declarative value at the current span if the filter
   admits it, else absent; no repeated names given distinct own names; identical labels when there
   is no current span or it has no visible field.

   Shared with the model (Model.v): the vocabulary (strings, events, [render], [admits]) and the
   registry machine that resolves current span / parent ([resolve]).  Not shared: everything about
   label maps.                                                                                  *)
From Coq Require Import List NArith Bool.
Import ListNotations.
Require Import MV.C17.Model.
Open Scope N_scope.

(* last value given to [name] in a list of (name, value) pairs *)
Fixpoint alast (name : str) (l : list label) : option str :=
  match l with
  | [] => None
  | (k, v) :: r => match alast name r with
                   | Some x => Some x
                   | None => if str_eqb name k then Some v else None
                   end
  end.

Fixpoint field_value (rh : list revent) (id : N) (name : str) : option str :=
  match rh with
  | [] => None
  | RNew id' parent vals :: before =>
      if id' =? id then
        match alast name vals with
        | Some v => Some v
        | None => match parent with Some pid => field_value before pid name | None => None end
        end
      else field_value before id name
  | RRec id' vals :: before =>
      if id' =? id then
        match alast name vals with
        | Some v => Some v
        | None => field_value before id name
        end
      else field_value before id name
  | _ :: before => field_value before id name
  end.

(* every field name mentioned anywhere in the history *)
Fixpoint names_in (rh : list revent) : list str :=
  match rh with
  | [] => []
  | RNew _ _ vals :: r => map fst vals ++ names_in r
  | RRec _ vals :: r => map fst vals ++ names_in r
  | _ :: r => names_in r
  end.

Definition smem (n : str) (l : list str) : bool := existsb (str_eqb n) l.
Fixpoint nodupb (l : list str) : bool :=
  match l with [] => true | x :: r => negb (smem x r) && nodupb r end.
Fixpoint strs_eqb (a b : list str) : bool :=
  match a, b with
  | [], [] => true
  | x :: r, y :: r' => str_eqb x y && strs_eqb r r'
  | _, _ => false
  end.
Definition label_eqb (a b : label) : bool := str_eqb (fst a) (fst b) && str_eqb (snd a) (snd b).
Fixpoint labels_eqb (a b : list label) : bool :=
  match a, b with
  | [], [] => true
  | x :: r, y :: r' => label_eqb x y && labels_eqb r r'
  | _, _ => false
  end.
Definition key_eqb (a b : key) : bool := str_eqb (fst a) (fst b) && labels_eqb (snd a) (snd b).
Fixpoint keys_eqb (a b : list key) : bool :=
  match a, b with
  | [], [] => true
  | x :: r, y :: r' => key_eqb x y && keys_eqb r r'
  | _, _ => false
  end.

(* all values the observed key carries for name [n], in order *)
Fixpoint occ (n : str) (l : list label) : list str :=
  match l with
  | [] => []
  | (k, v) :: r => if str_eqb n k then v :: occ n r else occ n r
  end.

Definition visible (rh : list revent) (cur : option N) (n : str) : option str :=
  match cur with Some s => field_value rh s n | None => None end.

Section EmitOk.
  Variable admitf : str -> label -> bool.
  Variables (rh : list revent) (cur : option N) (mname : str) (own : list label).

  Definition name_ok (obs : list label) (n : str) : bool :=
    let o := occ n obs in
    if smem n (map fst own) then
      negb (is_nil o) && forallb (fun v => existsb (label_eqb (n, v)) own) o
    else
      match visible rh cur n with
      | Some v => if admitf mname (n, v) then strs_eqb o [v] else is_nil o
      | None => is_nil o
      end.

  Definition no_context : bool :=
    forallb (fun n => match visible rh cur n with None => true | Some _ => false end) (names_in rh).

  Definition emit_ok (obs : key) : bool :=
    str_eqb (fst obs) mname
    && forallb (name_ok (snd obs)) (map fst own ++ map fst (snd obs) ++ names_in rh)
    && (if nodupb (map fst own) then nodupb (map fst (snd obs)) else true)
    && (if no_context then labels_eqb (snd obs) own else true).
End EmitOk.

(* walk the resolved history; [rh] = events before the current one, most recent first *)
Fixpoint spec_walk (rh : list revent) (h : list revent) (o : list key) : bool :=
  match h with
  | [] => is_nil o
  | REmit cur mname own f :: rest =>
      match o with
      | [] => false
      | k :: o' => emit_ok (admits f) rh cur mname own k && spec_walk (REmit cur mname own f :: rh) rest o'
      end
  | e :: rest => spec_walk (e :: rh) rest o
  end.
