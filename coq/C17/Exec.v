(* C17 — executable entry points used by the correspondence check (cases.v). *)
From Coq Require Import List NArith ZArith Bool.
Import ListNotations.
Require Export MV.C17.Model MV.C17.Spec.
Open Scope N_scope.

Definition case := list event.
(* observed output: [None] = the implementation panicked; else one key per Emit *)
Definition OUT := option (list key).
Definition run_case (c : case) : OUT := Some (run c).
Definition out_eqb (a b : OUT) : bool :=
  match a, b with
  | Some x, Some y => keys_eqb x y
  | None, None => true
  | _, _ => false
  end.

(* the property in executable form, evaluated on an observed output (one key per Emit) *)
Definition spec_ok (c : case) (o : OUT) : bool :=
  match o with
  | Some ks => spec_walk [] (resolve reg0 c) ks
  | None => false
  end.
Definition known_class (c : case) : option N := None.

Definition verdicts (l : list (N * case * OUT)) : list (N * bool * bool * option N) :=
  map (fun '(i, c, o) => (i, out_eqb (run_case c) o, spec_ok c o, known_class c)) l.
