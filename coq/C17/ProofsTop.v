(* C17 — program-level packaging of the clauses. *)
From Coq Require Import List NArith Bool.
Import ListNotations.
Require Import MV.C17.Model MV.C17.Spec MV.C17.ProofsMap MV.C17.Proofs MV.C17.ProofsThread.
Open Scope N_scope.

Lemma resolve_app evs : forall r e,
  resolve r (evs ++ [e]) = resolve r evs ++ [snd (reg_step (reg_run r evs) e)].
Proof.
  induction evs as [|x evs IH]; intros r e; simpl.
  - destruct (reg_step r e). reflexivity.
  - destruct (reg_step r x) as [r' re] eqn:E. simpl. rewrite IH. reflexivity.
Qed.

Lemma m_run_app h : forall st e,
  m_run st (h ++ [e]) = m_run st h ++ match snd (m_step (m_state st h) e) with Some k => [k] | None => [] end.
Proof.
  induction h as [|x h IH]; intros st e; simpl.
  - destruct (m_step st e) as [st' [k|]]; reflexivity.
  - destruct (m_step st x) as [st' [k|]] eqn:E; simpl; rewrite IH; reflexivity.
Qed.

(* an emission appended to any program yields enhance_key applied to the map stored on the
   emitting thread's current span *)
Theorem run_emit evs t mname own f :
  run (evs ++ [EEmit t mname own f]) =
  run evs ++ [enhance_key (admits f) mname own
                (cur_map (m_state [] (resolve reg0 evs)) (current (stack_of t (reg_run reg0 evs))))].
Proof. unfold run. rewrite resolve_app, m_run_app. reflexivity. Qed.

Section Clauses.
  Variable admitf : str -> label -> bool.
  Variables (h : list revent) (cur : option N) (mname : str) (own : list label).
  Let res := enhance_key admitf mname own (cur_map (m_state [] h) cur).

  Lemma inv_h : inv (m_state [] h) (rev h).
  Proof. pose proof (inv_run h [] [] inv_init) as H. rewrite app_nil_r in H. exact H. Qed.

  Theorem precedence :
    fst res = mname
    /\ ((forall n, visible (rev h) cur n = None) -> snd res = own)
    /\ ((exists n, visible (rev h) cur n <> None) ->
        NoDup (map fst (snd res))
        /\ forall n, mget n (snd res) =
             match alast n own with
             | Some x => Some x
             | None => match visible (rev h) cur n with
                       | Some w => if admitf mname (n, w) then Some w else None
                       | None => None
                       end
             end).
  Proof.
    split; [apply name_preserved|]. split.
    - intros H. unfold res. rewrite (unchanged_no_visible admitf _ _ inv_h cur mname own H). reflexivity.
    - intros [n0 Hn0].
      destruct (res_cases admitf (m_state [] h) cur mname own) as [[Hc _]|[k [v [m Hc]]]].
      + exfalso. apply Hn0. apply (unchanged_cases admitf _ _ inv_h cur mname own Hc).
      + split.
        * apply (nodup_rebuilt admitf _ _ inv_h cur mname own _ _ _ Hc).
        * apply (precedence_rebuilt admitf _ _ inv_h cur mname own _ _ _ Hc).
  Qed.

  Theorem no_dup : NoDup (map fst own) -> NoDup (map fst (snd res)).
  Proof. apply (no_duplicate_names admitf _ _ inv_h). Qed.

  Theorem unchanged :
    (cur = None -> res = (mname, own))
    /\ ((forall n, visible (rev h) cur n = None) -> res = (mname, own))
    /\ (NoDup (map fst own) ->
        (forall n w, visible (rev h) cur n = Some w -> admitf mname (n, w) = false) ->
        res = (mname, own)).
  Proof.
    split; [|split].
    - intros ->. reflexivity.
    - apply (unchanged_no_visible admitf _ _ inv_h).
    - apply (unchanged_all_filtered admitf _ _ inv_h).
  Qed.
End Clauses.

Theorem thread_local_result admitf h1 h2 cur1 cur2 mname own :
  (forall n, visible (rev h1) cur1 n = visible (rev h2) cur2 n) ->
  let r1 := enhance_key admitf mname own (cur_map (m_state [] h1) cur1) in
  let r2 := enhance_key admitf mname own (cur_map (m_state [] h2) cur2) in
  fst r1 = fst r2 /\ forall n, mget n (snd r1) = mget n (snd r2).
Proof. apply result_depends_on_visible_only; apply inv_h. Qed.

Theorem lookup_rules rh id id' p vals n :
  (forall v, alast n vals = Some v -> field_value (RNew id p vals :: rh) id n = Some v)
  /\ (forall pid, alast n vals = None -> field_value (RNew id (Some pid) vals :: rh) id n = field_value rh pid n)
  /\ (alast n vals = None -> field_value (RNew id None vals :: rh) id n = None)
  /\ (forall v, alast n vals = Some v -> field_value (RRec id vals :: rh) id n = Some v)
  /\ (alast n vals = None -> field_value (RRec id vals :: rh) id n = field_value rh id n)
  /\ (id' <> id -> field_value (RRec id' vals :: rh) id n = field_value rh id n)
  /\ (id' <> id -> field_value (RNew id' p vals :: rh) id n = field_value rh id n).
Proof.
  cbn [field_value]. rewrite N.eqb_refl.
  repeat split; try (intros v H; rewrite H; reflexivity); try (intros H; rewrite H; reflexivity).
  - intros H. apply N.eqb_neq in H. rewrite H. reflexivity.
  - intros H. apply N.eqb_neq in H. rewrite H. reflexivity.
Qed.
