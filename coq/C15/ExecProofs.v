(* C15 — the executable specification on the model's own outputs; meaning of spec_ok; examples
   and the refutation witness of the code as found. *)
From Coq Require Import List NArith ZArith Bool Lia Floats.
Import ListNotations.
Require Import MV.C15.Model MV.C15.Spec MV.C15.Exec MV.C15.ProofsHist MV.C15.ProofsDist MV.C15.ProofsRoll MV.C15.ProofsPrec.
Open Scope N_scope.

Section Generic.
Variable O : FloatOps.
Notation Fl := (F O).
Hypothesis fle_trans : forall a b c : Fl, fle O a b = true -> fle O b c = true -> fle O a c = true.
Hypothesis fsame_refl : forall a : Fl, fsame O a a = true.

Lemma fl_list_same_refl l : fl_list_same O l l = true.
Proof. unfold fl_list_same. induction l; simpl; auto. rewrite fsame_refl. exact IHl. Qed.

(* histogram cases: the model's output satisfies the executable property, for all bounds and ops *)
Theorem spec_ok_on_model_hist bounds ops :
  gspec_ok O (CHist O bounds ops) (grun_case O (CHist O bounds ops)) = true.
Proof.
  destruct bounds as [|b bs]; [reflexivity|].
  unfold grun_case. destruct (hist_new O (b :: bs)) as [h0|] eqn:Hn; [|discriminate].
  unfold gspec_ok.
  assert (Hb : h_bounds O h0 = b :: bs) by (simpl in Hn; injection Hn as <-; reflexivity).
  rewrite Hb, fl_list_same_refl. simpl andb.
  apply (hrun_snaps_ok O fle_trans fsame_refl (b :: bs) h0 Hn ops []).
Qed.

Lemma list_eqb_N_eq a : forall b, list_eqb N.eqb a b = true -> a = b.
Proof.
  induction a as [|x a IH]; intros [|y b] H; simpl in H; try discriminate; auto.
  apply andb_prop in H as [H1 H2]. apply N.eqb_eq in H1. f_equal; auto.
Qed.

(* what an accepted snapshot means *)
Theorem snap_ok_sound bounds done cs cnt sm : snap_ok O bounds done (cs, cnt, sm) = true ->
  cnt = N.of_nat (length (all_samples O done))
  /\ fsame O sm (spec_sum O done) = true
  /\ (ascending O bounds = true -> cs = map (fun b => count_le O b (all_samples O done)) bounds).
Proof.
  unfold snap_ok. intros H.
  apply andb_prop in H as [H H4]. apply andb_prop in H as [H H3]. apply andb_prop in H as [H1 H2].
  apply N.eqb_eq in H1. repeat split; auto.
  intros Ha. rewrite Ha in H4. apply list_eqb_N_eq. exact H4.
Qed.

Lemma optb_same_refl d : optb_same O d d = true.
Proof. destruct d; simpl; auto. apply fl_list_same_refl. Qed.

(* the model's output satisfies the executable property, for ALL well-formed cases of all three kinds *)
Theorem spec_ok_on_model c : gwf O c = true -> gspec_ok O c (grun_case O c) = true.
Proof.
  destruct c as [bounds ops|fixed san global name ovs usfx unit|n dur ops|q fc fd]; intros Hwf.
  - apply spec_ok_on_model_hist.
  - simpl in Hwf. subst fixed. unfold grun_case, gspec_ok, render_family.
    change (if san then sanitize_name name else name) with (eff_key san name).
    pose proof (type_iff_histogram O (db_new O true san global ovs) (eff_key san name)) as T.
    rewrite (model_meets_spec O san global name ovs) in *. rewrite optb_same_refl. cbn [andb].
    destruct (spec_choice O san global name ovs);
      destruct (get_distribution_type O (db_new O true san global ovs) (eff_key san name)); try reflexivity.
    + exfalso. assert (false = true) by (apply T; discriminate). discriminate.
    + exfalso. apply (proj1 T); reflexivity.
  - simpl in Hwf. apply andb_prop in Hwf as [H1 H2]. apply N.ltb_lt in H1, H2.
    unfold grun_case, gspec_ok. apply (rrun_spec_ok O n dur H1 H2 fsame_refl).
  - discriminate.
Qed.

(* what an accepted override output means *)
Theorem spec_ok_sound_dist fixed san global name ovs usfx unit ty d fam :
  gspec_ok O (CDist O fixed san global name ovs usfx unit) (ODist O ty d fam) = true ->
  optb_same O d (spec_choice O san global name ovs) = true
  /\ (ty = true <-> spec_choice O san global name ovs <> None)
  /\ (ty = true <-> d <> None).
Proof.
  unfold gspec_ok. intros H. apply andb_prop in H as [H H3]. apply andb_prop in H as [H1 H2].
  split; [exact H1|]. apply Bool.eqb_prop in H2, H3. split.
  - rewrite H2. destruct (spec_choice O san global name ovs); split; intros; congruence.
  - rewrite H3. destruct d; split; intros; congruence.
Qed.

End Generic.

(* ---- the hypotheses are satisfiable: an instance with integers and a NaN-like element *)
Definition zle (a b : option Z) : bool :=
  match a, b with Some x, Some y => (x <=? y)%Z | _, _ => false end.
Definition zadd (a b : option Z) : option Z :=
  match a, b with Some x, Some y => Some (x + y)%Z | _, _ => None end.
Definition zsame (a b : option Z) : bool :=
  match a, b with Some x, Some y => (x =? y)%Z | None, None => true | _, _ => false end.
Definition ZO : FloatOps :=
  {| F := option Z; fle := zle; fadd := zadd; fzero := Some 0%Z; fone := Some 1%Z;
     fclamp01 := fun q => match q with Some x => Some (Z.min (Z.max x 0) 1) | None => Some 0%Z end; fpinf := Some 1000000%Z; fninf := Some (-1000000)%Z;
     fisinf := fun _ => false; fwithin := fun q lo hi => zle lo q && zle q hi; fsame := zsame |}.

Lemma zle_trans a b c : fle ZO a b = true -> fle ZO b c = true -> fle ZO a c = true.
Proof.
  destruct a, b, c; simpl; try discriminate; intros H1 H2.
  apply Z.leb_le in H1, H2. apply Z.leb_le. lia.
Qed.
Lemma zsame_refl a : fsame ZO a a = true.
Proof. destruct a; simpl; auto. apply Z.eqb_refl. Qed.
Lemma znan_le_nothing x : fle ZO None x = false.
Proof. reflexivity. Qed.

Example hist_example_Z :
  let c := CHist ZO [Some 1; Some 1; Some 5]%Z
             [HRec ZO (Some 1%Z); HMany ZO [Some 5; None; Some 0; Some 6]%Z; HMany ZO []; HRec ZO (Some (-3)%Z)] in
  ascending ZO [Some 1; Some 1; Some 5]%Z = true
  /\ grun_case ZO c = OHist ZO [Some 1; Some 1; Some 5]%Z
       [([1; 1; 1], 1, Some 1%Z); ([2; 2; 3], 5, None); ([2; 2; 3], 5, None); ([3; 3; 4], 6, None)]
  /\ gspec_ok ZO c (grun_case ZO c) = true.
Proof. vm_compute. auto. Qed.

(* ---- concrete runs on binary64 (no hypothesis about floats is used: pure evaluation) *)
Example hist_example_f64 :
  let c := chist [f64 0x3ff0000000000000; f64 0x4000000000000000; f64 0x7ff0000000000000]%Z
                 [hrec (f64 0x3ff0000000000000%Z);
                  hmany [f64 0x4000000000000001; f64 0x7ff8000000000000; f64 0x8000000000000000; f64 0x7ff0000000000000]%Z] in
  out_eqb (run_case c)
    (ohist [f64 0x3ff0000000000000; f64 0x4000000000000000; f64 0x7ff0000000000000]%Z
           [([1; 1; 1], 1, f64 0x3ff0000000000000%Z); ([2; 2; 4], 5, f64 0x7ff8000000000000%Z)]) = true
  /\ spec_ok c (run_case c) = true.
Proof. vm_compute. auto. Qed.

Definition http_2xx : list N := [104; 116; 116; 112; 95; 50; 120; 120].
Definition pat_2xx : list N := [50; 120; 120].
Definition pat_http : list N := [104; 116; 116; 112].
Definition unit_seconds : list N := [115; 101; 99; 111; 110; 100; 115].

Example dist_example :
  let ovs := [((MSuffix, pat_2xx), [f64 0x3ff0000000000000%Z]);
              ((MPrefix, pat_http), [f64 0x4000000000000000%Z]);
              ((MSuffix, [120]), [f64 0x4008000000000000%Z])] in
  out_eqb (run_case (cdist true true None http_2xx ovs false None)) (odist true (Some [f64 0x4000000000000000%Z]) http_2xx) = true
  /\ spec_ok (cdist true true None http_2xx ovs false None) (run_case (cdist true true None http_2xx ovs false None)) = true
  /\ out_eqb (run_case (cdist true true None http_2xx (firstn 1 ovs) true (Some unit_seconds))) (odist true (Some [f64 0x3ff0000000000000%Z]) (http_2xx ++ 95 :: unit_seconds)) = true
  /\ out_eqb (run_case (cdist true true None pat_2xx (firstn 1 ovs) false None)) (odist true (Some [f64 0x3ff0000000000000%Z]) [95; 120; 120]) = true
  /\ out_eqb (run_case (cdist true true None pat_http (firstn 1 ovs) true (Some unit_seconds))) (odist false None (pat_http ++ 95 :: unit_seconds)) = true.
Proof. vm_compute. auto 10. Qed.

(* the code as found (first-character rule on suffixes) violates the property *)
Theorem suffix_refuted_before_fix :
  exists c : gcase ZO, (match c with CDist _ fixed _ _ _ _ _ _ => fixed = false | _ => False end)
                       /\ gspec_ok ZO c (grun_case ZO c) = false.
Proof.
  exists (CDist ZO false true None http_2xx [((MSuffix, pat_2xx), [Some 1%Z])] false None).
  split; [reflexivity|]. vm_compute. reflexivity.
Qed.

Definition one := f64 0x3ff0000000000000%Z.
Definition two := f64 0x4000000000000000%Z.
Definition three := f64 0x4008000000000000%Z.
Definition roll_c : case :=
  croll 3 10 [radd 5 one; radd 14 two; radd 15 three; rsnap 15; rsnap 34; rsnap 35; rsnap 45; radd 100 one; rsnap 100].
Definition roll_o : out :=
  oroll [oadd 1; oadd 2; oadd 3;
         osnap 3 (f64 0x4018000000000000%Z) 3 one three [one; two; three];
         osnap 3 (f64 0x4018000000000000%Z) 3 one three [one; f64 0x3fffff9d0d48896f%Z; three];
         osnap 3 (f64 0x4018000000000000%Z) 1 three three [three; f64 0x40080089f641de8f%Z];
         osnap 3 (f64 0x4018000000000000%Z) 0 one one [f64 0%Z];
         oadd 4;
         osnap 4 (f64 0x401c000000000000%Z) 1 one one [one]].

Example roll_example : out_eqb (run_case roll_c) roll_o = true /\ spec_ok roll_c roll_o = true.
Proof. split; vm_compute; reflexivity. Qed.
