(* C15 — models of
     (1) metrics_util::storage::Histogram            (metrics-util/src/storage/histogram.rs)
     (2) Matcher / DistributionBuilder               (metrics-exporter-prometheus/src/{common,distribution}.rs,
                                                      sanitize_metric_name of formatting.rs, set_buckets_for_metric)
     (3) RollingSummary + Distribution::Summary      (metrics-exporter-prometheus/src/distribution.rs)
     (4) Quantile::new / parse_quantiles             (metrics-util/src/quantile.rs; float formatting is an oracle)
   over an abstract floating-point interface [FloatOps]; Exec.v instantiates it with Coq's
   primitive binary64 floats.  Definitions only.

   Strings are lists of Unicode scalar values (the Rust code iterates chars(); str::starts_with /
   ends_with / == / cmp on valid UTF-8 coincide with the same operations on scalar lists).
   Instants and durations are nanosecond counts (quanta::Instant is a u64; no overflow assumed).
   A DDSketch ("Summary") is abstract: it is modelled by the list of the samples it was given.   *)
From Coq Require Import List NArith Bool.
Import ListNotations.
Open Scope N_scope.

Record FloatOps := {
  F : Type;
  fle : F -> F -> bool;              (* a <= b  (f64 PartialOrd::le) *)
  fadd : F -> F -> F;                (* a + b *)
  fzero : F;                         (* 0.0 *)
  fone : F;                          (* 1.0 *)
  fpinf : F;                         (* f64::INFINITY *)
  fninf : F;                         (* f64::NEG_INFINITY *)
  fisinf : F -> bool;                (* f64::is_infinite *)
  fwithin : F -> F -> F -> bool;     (* fwithin q lo hi :  lo - eps*|lo| <= q <= hi + eps*|hi|,  eps = 1e-4 *)
  fsame : F -> F -> bool;            (* same value bit for bit (NaN payloads ignored) *)
  fclamp01 : F -> F                  (* q.max(0.0).min(1.0) *)
}.

(* ------------------------------------------------------------------ strings (shared, float-free) *)
Fixpoint str_eqb (a b : list N) : bool :=
  match a, b with
  | [], [] => true
  | x :: r, y :: r' => (x =? y) && str_eqb r r'
  | _, _ => false
  end.
Fixpoint starts_with (key p : list N) : bool :=
  match p, key with
  | [], _ => true
  | x :: p', y :: k' => (x =? y) && starts_with k' p'
  | _ :: _, [] => false
  end.
Definition ends_with (key s : list N) : bool := starts_with (rev key) (rev s).

(* number of bytes of the UTF-8 encoding (str::len) *)
Definition utf8_len1 (c : N) : N := if c <? 128 then 1 else if c <? 2048 then 2 else if c <? 65536 then 3 else 4.
Fixpoint utf8_len (s : list N) : N := match s with [] => 0 | c :: r => utf8_len1 c + utf8_len r end.

Definition is_alpha (c : N) : bool := ((65 <=? c) && (c <=? 90)) || ((97 <=? c) && (c <=? 122)).
Definition is_digit (c : N) : bool := (48 <=? c) && (c <=? 57).
Definition valid_start (c : N) : bool := is_alpha c || (c =? 95) || (c =? 58).           (* [a-zA-Z_:] *)
Definition valid_char (c : N) : bool := is_alpha c || is_digit c || (c =? 95) || (c =? 58). (* [a-zA-Z0-9_:] *)

(* formatting.rs sanitize_metric_name *)
Definition sanitize_name (s : list N) : list N :=
  match s with
  | [] => []
  | c :: r => (if valid_start c then c else 95) :: map (fun c => if valid_char c then c else 95) r
  end.

Inductive mkind := MFull | MPrefix | MSuffix.
Definition matcher := (mkind * list N)%type.
Definition mrank (k : mkind) : N := match k with MFull => 0 | MPrefix => 1 | MSuffix => 2 end.

(* String::cmp (lexicographic on scalars = on UTF-8 bytes) *)
Fixpoint str_cmp (a b : list N) : comparison :=
  match a, b with
  | [], [] => Eq
  | [], _ :: _ => Lt
  | _ :: _, [] => Gt
  | x :: r, y :: r' => match x ?= y with Eq => str_cmp r r' | c => c end
  end.
(* #[derive(Ord)] on enum Matcher { Full, Prefix, Suffix } *)
Definition matcher_cmp (a b : matcher) : comparison :=
  match mrank (fst a) ?= mrank (fst b) with Eq => str_cmp (snd a) (snd b) | c => c end.
Definition matcher_eqb (a b : matcher) : bool := (mrank (fst a) =? mrank (fst b)) && str_eqb (snd a) (snd b).

(* Matcher::sanitized.  [fixed = true] is the code after the fix: commit (a suffix is sanitised with
   the non-initial character rule: sanitize_metric_name("_" + s)[1..]); [fixed = false] is the code
   as found (first-character rule applied to the suffix). *)
Definition matcher_sanitized (fixed : bool) (m : matcher) : matcher :=
  match fst m with
  | MSuffix => if fixed then (MSuffix, tl (sanitize_name (95 :: snd m))) else (MSuffix, sanitize_name (snd m))
  | k => (k, sanitize_name (snd m))
  end.

(* Matcher::matches.  After the fix a suffix also matches a key that is its fully sanitised form
   (the suffix spans the whole name, whose first character obeys the first-character rule). *)
Definition matches (fixed : bool) (m : matcher) (key : list N) : bool :=
  match fst m with
  | MPrefix => starts_with key (snd m)
  | MSuffix => ends_with key (snd m)
               || (fixed && (utf8_len key =? utf8_len (snd m)) && str_eqb key (sanitize_name (snd m)))
  | MFull => str_eqb key (snd m)
  end.

(* formatting.rs write_unit_suffix; the unit is given by its Unit::as_str name.  "count" has no suffix,
   "percent" has the suffix "ratio", every other unit its own name *)
Definition unit_suffix (u : list N) : option (list N) :=
  if str_eqb u [99; 111; 117; 110; 116] then None
  else if str_eqb u [112; 101; 114; 99; 101; 110; 116] then Some [114; 97; 116; 105; 111]
  else Some u.
(* recorder.rs Inner::write_family_help: the family name used on the HELP and TYPE lines.
   [usfx] = set_enable_unit_suffix, [unit] = the unit the family was described with (None: not described) *)
Definition family_name (usfx : bool) (unit : option (list N)) (name : list N) : list N :=
  match (if usfx then unit else None) with
  | Some u => match unit_suffix u with Some sfx => name ++ 95 :: sfx | None => name end
  | None => name
  end.

(* (4) metrics-util/src/quantile.rs  Quantile::new: the label from the two Display renderings
   (oracle inputs: fc = format!("{}", clamped), fd = format!("{}", clamped * 100.0)) *)
Definition qlabel (fc fd : list N) : list N :=
  if str_eqb fc [48] then [109; 105; 110]                       (* "0" => "min" *)
  else if str_eqb fc [49] then [109; 97; 120]                   (* "1" => "max" *)
  else 112 :: filter (fun c => negb (c =? 46)) fd.              (* format!("p{}", display).replace('.', "") *)

Section WithFloats.
Variable O : FloatOps.
Notation Fl := (F O).

(* ------------------------------------------------------------------------------ (1) Histogram *)
Record hist := { h_count : N; h_bounds : list Fl; h_buckets : list N; h_sum : Fl }.

Definition hist_new (bs : list Fl) : option hist :=
  match bs with
  | [] => None
  | _ => Some {| h_count := 0; h_bounds := bs; h_buckets := map (fun _ => 0) bs; h_sum := fzero O |}
  end.

(* for (idx, bucket) in bounds: if sample <= bucket { buckets[idx] += 1 } *)
Fixpoint bump_all (s : Fl) (bs : list Fl) (cs : list N) : list N :=
  match bs, cs with
  | b :: bs', c :: cs' => (if fle O s b then c + 1 else c) :: bump_all s bs' cs'
  | _, _ => cs
  end.

Definition record (h : hist) (s : Fl) : hist :=
  {| h_count := h_count h + 1; h_bounds := h_bounds h;
     h_buckets := bump_all s (h_bounds h) (h_buckets h); h_sum := fadd O (h_sum h) s |}.

(* for (idx, bucket) in bounds: if sample <= bucket { bucketed[idx] += 1; break } *)
Fixpoint bump_first (s : Fl) (bs : list Fl) (cs : list N) : list N :=
  match bs, cs with
  | b :: bs', c :: cs' => if fle O s b then (c + 1) :: cs' else c :: bump_first s bs' cs'
  | _, _ => cs
  end.

(* for idx in 0..len-1: bucketed[idx+1] += bucketed[idx] *)
Fixpoint prefix_sums (acc : N) (l : list N) : list N :=
  match l with
  | [] => []
  | x :: r => (acc + x) :: prefix_sums (acc + x) r
  end.

Fixpoint add_lists (a b : list N) : list N :=
  match a, b with
  | x :: r, y :: r' => (x + y) :: add_lists r r'
  | _, _ => a
  end.

Definition record_many (h : hist) (samples : list Fl) : hist :=
  let bucketed := fold_left (fun cs s => bump_first s (h_bounds h) cs) samples (map (fun _ => 0) (h_buckets h)) in
  let sum := fold_left (fadd O) samples (fzero O) in
  {| h_count := h_count h + N.of_nat (length samples); h_bounds := h_bounds h;
     h_buckets := add_lists (h_buckets h) (prefix_sums 0 bucketed); h_sum := fadd O (h_sum h) sum |}.

Inductive hop := HRec (s : Fl) | HMany (l : list Fl).
Definition hstep (h : hist) (o : hop) : hist :=
  match o with HRec s => record h s | HMany l => record_many h l end.

Definition hsnap := (list N * N * Fl)%type.                 (* buckets() counts, count(), sum() *)
Definition snap_of (h : hist) : hsnap := (h_buckets h, h_count h, h_sum h).
Fixpoint hrun (h : hist) (ops : list hop) : list hsnap :=
  match ops with
  | [] => []
  | o :: r => let h' := hstep h o in snap_of h' :: hrun h' r
  end.

(* ------------------------------------------------------------------- (2) DistributionBuilder *)
Definition override := (matcher * list Fl)%type.

(* HashMap::insert: an equal key keeps its slot and gets the new value *)
Fixpoint hm_insert (k : matcher) (v : list Fl) (l : list override) : list override :=
  match l with
  | [] => [(k, v)]
  | (k', v') :: r => if matcher_eqb k k' then (k', v) :: r else (k', v') :: hm_insert k v r
  end.
Definition hm_of (fixed san : bool) (ovs : list override) : list override :=
  fold_left (fun acc o => hm_insert (if san then matcher_sanitized fixed (fst o) else fst o) (snd o) acc) ovs [].

(* matchers.sort_by(|a, b| a.0.cmp(&b.0))  — keys are unique, so the result does not depend on the
   HashMap's iteration order *)
Fixpoint sort_insert (o : override) (l : list override) : list override :=
  match l with
  | [] => [o]
  | o' :: r => match matcher_cmp (fst o) (fst o') with Gt => o' :: sort_insert o r | _ => o :: l end
  end.
Definition sort_overrides (l : list override) : list override := fold_right sort_insert [] l.

Record dbuilder := { db_fixed : bool; db_global : option (list Fl); db_overrides : list override }.
Definition db_new (fixed san : bool) (global : option (list Fl)) (ovs : list override) : dbuilder :=
  {| db_fixed := fixed; db_global := global; db_overrides := sort_overrides (hm_of fixed san ovs) |}.

Fixpoint first_match (fixed : bool) (name : list N) (l : list override) : option (list Fl) :=
  match l with
  | [] => None
  | (m, b) :: r => if matches fixed m name then Some b else first_match fixed name r
  end.

(* Some bounds = Distribution::Histogram over these bounds; None = Distribution::Summary *)
Definition get_distribution (d : dbuilder) (name : list N) : option (list Fl) :=
  match first_match (db_fixed d) name (db_overrides d) with
  | Some b => Some b
  | None => db_global d
  end.
(* true = "histogram", false = "summary" *)
Definition get_distribution_type (d : dbuilder) (name : list N) : bool :=
  match db_global d with
  | Some _ => true
  | None => match first_match (db_fixed d) name (db_overrides d) with Some _ => true | None => false end
  end.

(* recorder.rs Inner::render for one histogram family: the TYPE line carries the family name and the
   type asked for the METRIC name; the series rendered are those of the distribution created for the
   METRIC name when samples were drained *)
Definition render_family (d : dbuilder) (usfx : bool) (unit : option (list N)) (key : list N)
  : list N * bool * option (list Fl) :=
  (family_name usfx unit key, get_distribution_type d key, get_distribution d key).

(* ------------------------------------------------------------------------ (3) RollingSummary *)
(* Summary::add drops infinite values; a sketch is the list of values it holds, in insertion order *)
Definition sk_add (v : Fl) (sk : list Fl) : list Fl := if fisinf O v then sk else sk ++ [v].

Record rbucket := { rb_begin : N; rb_vals : list Fl }.
Record rsum := { r_buckets : list rbucket; r_max : N; r_dur : N; r_maxdur : N; r_count : N; r_sum : Fl }.

Definition rs_new (n dur : N) : rsum :=
  {| r_buckets := []; r_max := n; r_dur := dur; r_maxdur := dur * n; r_count := 0; r_sum := fzero O |}.

(* the `for bucket in &mut self.buckets` loop of add: Some = value stored (return), None = fell through / break *)
Fixpoint try_add (dur : N) (v : Fl) (now : N) (bs : list rbucket) : option (list rbucket) :=
  match bs with
  | [] => None
  | b :: r =>
      if rb_begin b + dur <? now then None
      else if (rb_begin b <=? now) && (now <? rb_begin b + dur)
           then Some ({| rb_begin := rb_begin b; rb_vals := sk_add v (rb_vals b) |} :: r)
           else option_map (cons b) (try_add dur v now r)
  end.

(* now.checked_sub(max_bucket_duration) then retain(begin > cutoff) / filter of snapshot *)
Definition unexpired (maxdur now : N) (b : rbucket) : bool :=
  if maxdur <=? now then now - maxdur <? rb_begin b else true.

(* begin = reftime + dur; while now < begin || now >= begin + dur { begin += dur }  — closed form,
   valid when now >= reftime + dur (the only reachable case: the head bucket was tried first) *)
Definition next_begin (dur reftime now : N) : N := reftime + ((now - reftime) / dur) * dur.

Definition rs_add_buckets (r : rsum) (v : Fl) (now : N) : list rbucket :=
  match try_add (r_dur r) v now (r_buckets r) with
  | Some bs => bs
  | None =>
      let bs := filter (unexpired (r_maxdur r) now) (r_buckets r) in
      match bs with
      | [] => [{| rb_begin := now; rb_vals := sk_add v [] |}]
      | b0 :: _ =>
          if rb_begin b0 <? now
          then {| rb_begin := next_begin (r_dur r) (rb_begin b0) now; rb_vals := sk_add v [] |}
               :: firstn (N.to_nat (r_max r - 1)) bs
          else bs
      end
  end.

(* Distribution::record_samples on the Summary variant: hist.add(sample, ts); *sum += sample *)
Definition rs_add (r : rsum) (v : Fl) (now : N) : rsum :=
  {| r_buckets := rs_add_buckets r v now; r_max := r_max r; r_dur := r_dur r; r_maxdur := r_maxdur r;
     r_count := r_count r + 1; r_sum := fadd O (r_sum r) v |}.

(* snapshot(now): the samples of the merged sketch *)
Definition rs_snapshot (r : rsum) (now : N) : list Fl :=
  flat_map rb_vals (filter (unexpired (r_maxdur r) now) (r_buckets r)).

Definition flt (a b : Fl) : bool := fle O a b && negb (fle O b a).
(* DDSketch min / max of the retained samples (exact in the sketch) *)
Definition vals_min (l : list Fl) : Fl := fold_left (fun m v => if flt v m then v else m) l (fpinf O).
Definition vals_max (l : list Fl) : Fl := fold_left (fun m v => if flt m v then v else m) l (fninf O).

Inductive rop := RAdd (t : N) (v : Fl) | RSnap (t : N).
Inductive rout :=
| OAdd (count : N)
| OSnap (count : N) (sum : Fl) (scount : N) (smin smax : Fl) (qs : list Fl)
(* observations made through the exporter (Inner::render), which shows less than the direct API: *)
| OAck                                            (* a sample was recorded; nothing is observable until the next render *)
| ORen (count : N) (sum : Fl) (qs : list Fl).     (* the rendered _count, _sum and quantile lines of the summary *)

Definition rstep (r : rsum) (o : rop) : rsum * rout :=
  match o with
  | RAdd t v => let r' := rs_add r v t in (r', OAdd (r_count r'))
  | RSnap t => let l := rs_snapshot r t in
               (r, OSnap (r_count r) (r_sum r) (N.of_nat (length l)) (vals_min l) (vals_max l) [])
  end.
Fixpoint rrun (r : rsum) (ops : list rop) : list rout :=
  match ops with
  | [] => []
  | o :: rest => let '(r', x) := rstep r o in x :: rrun r' rest
  end.

(* Quantile::new(q) = Quantile(clamped, label); parse_quantiles maps it over a slice *)
Definition qnew (q : Fl) (fc fd : list N) : Fl * list N := (fclamp01 O q, qlabel fc fd).

End WithFloats.
