(* C15 — proofs about the Matcher / DistributionBuilder model and simple facts about the
   RollingSummary model. *)
From Coq Require Import List NArith Bool Lia.
Import ListNotations.
Require Import MV.C15.Model MV.C15.Spec.
Open Scope N_scope.

(* ------------------------------------------------------------------------- strings *)
Lemma str_eqb_refl a : str_eqb a a = true.
Proof. induction a; simpl; auto. rewrite N.eqb_refl. exact IHa. Qed.

Lemma str_eqb_eq a : forall b, str_eqb a b = true -> a = b.
Proof.
  induction a as [|x a IH]; intros [|y b] H; simpl in H; try discriminate; auto.
  apply andb_prop in H as [H1 H2]. apply N.eqb_eq in H1. f_equal; auto.
Qed.

Lemma starts_with_app p r : starts_with (p ++ r) p = true.
Proof. induction p; simpl; [destruct r; reflexivity|]. rewrite N.eqb_refl. exact IHp. Qed.

Lemma ends_with_app pre s : ends_with (pre ++ s) s = true.
Proof. unfold ends_with. rewrite rev_app_distr. apply starts_with_app. Qed.

Lemma sanitize_name_app p r : p <> [] -> sanitize_name (p ++ r) = sanitize_name p ++ sanitize_tail r.
Proof.
  destruct p as [|c p]; [congruence|]. intros _. simpl. f_equal. rewrite map_app. reflexivity.
Qed.

Lemma sanitized_suffix_is_tail p : tl (sanitize_name (95 :: p)) = sanitize_tail p.
Proof. reflexivity. Qed.

(* ------------------------------------------------- matcher soundness after sanitisation *)
(* raw pattern is a prefix of the raw name => the sanitised matcher matches the sanitised name *)
Theorem prefix_sound fixed p r :
  matches fixed (matcher_sanitized fixed (MPrefix, p)) (sanitize_name (p ++ r)) = true.
Proof.
  unfold matcher_sanitized, matches. cbn [fst snd].
  destruct p as [|c p]; [simpl; destruct (sanitize_name r); reflexivity|].
  rewrite sanitize_name_app by discriminate. apply starts_with_app.
Qed.

Theorem full_sound fixed n :
  matches fixed (matcher_sanitized fixed (MFull, n)) (sanitize_name n) = true.
Proof. unfold matcher_sanitized, matches. simpl. apply str_eqb_refl. Qed.

(* raw pattern is a proper suffix of the raw name => after the fix the sanitised matcher matches *)
Theorem suffix_sound_proper pre p : pre <> [] ->
  matches true (matcher_sanitized true (MSuffix, p)) (sanitize_name (pre ++ p)) = true.
Proof.
  intros H. unfold matcher_sanitized, matches. cbn [fst snd].
  replace (tl (sanitize_name (95 :: p))) with (sanitize_tail p) by reflexivity.
  rewrite sanitize_name_app by exact H.
  rewrite ends_with_app. reflexivity.
Qed.

(* the defect as found: with the first-character rule a digit-initial suffix does not match *)
Theorem suffix_unsound_before_fix : exists pre p, pre <> [] /\
  matches false (matcher_sanitized false (MSuffix, p)) (sanitize_name (pre ++ p)) = false.
Proof. exists [104; 116; 116; 112; 95], [50; 120; 120]. split; [discriminate|]. vm_compute. reflexivity. Qed.

Section DistProofs.
Variable O : FloatOps.
Notation Fl := (F O).

(* ---------------------------------------------------------------- type <-> distribution *)
Theorem type_iff_histogram (d : dbuilder O) name :
  get_distribution_type O d name = true <-> get_distribution O d name <> None.
Proof.
  unfold get_distribution_type, get_distribution.
  destruct (db_global O d); destruct (first_match O (db_fixed O d) name (db_overrides O d));
    split; intros; congruence.
Qed.

(* ------------------------------------------------------------- precedence between kinds *)
Fixpoint rank_sorted (l : list (override O)) : Prop :=
  match l with
  | a :: ((b :: _) as r) => mrank (fst (fst a)) <= mrank (fst (fst b)) /\ rank_sorted r
  | _ => True
  end.

Lemma cmp_gt_rank (a b : matcher) : matcher_cmp a b = Gt -> mrank (fst b) <= mrank (fst a).
Proof.
  unfold matcher_cmp. destruct (mrank (fst a) ?= mrank (fst b)) eqn:E; intros H; try discriminate.
  - apply N.compare_eq in E. lia.
  - apply N.compare_gt_iff in E. lia.
Qed.

Lemma cmp_not_gt_rank (a b : matcher) : matcher_cmp a b <> Gt -> mrank (fst a) <= mrank (fst b).
Proof.
  unfold matcher_cmp, N.le. destruct (mrank (fst a) ?= mrank (fst b)); intros H; congruence.
Qed.

Lemma sort_insert_head o l : exists x r, sort_insert O o l = x :: r /\
  (x = o \/ exists r0, l = x :: r0).
Proof.
  destruct l as [|o' r]; simpl; [exists o, []; auto|].
  destruct (matcher_cmp (fst o) (fst o')).
  - exists o, (o' :: r); auto.
  - exists o, (o' :: r); auto.
  - exists o', (sort_insert O o r). split; [reflexivity|]. right. exists r. reflexivity.
Qed.

Lemma sort_insert_sorted o l : rank_sorted l -> rank_sorted (sort_insert O o l).
Proof.
  induction l as [|o' r IH]; intros Hs; [exact I|].
  simpl sort_insert. destruct (matcher_cmp (fst o) (fst o')) eqn:E.
  - split; [apply cmp_not_gt_rank; congruence|exact Hs].
  - split; [apply cmp_not_gt_rank; congruence|exact Hs].
  - assert (Hr : rank_sorted r) by (destruct r; simpl in Hs; tauto).
    specialize (IH Hr). destruct (sort_insert_head o r) as (x & r' & Ex & Hx). rewrite Ex in *.
    split; [|exact IH]. destruct Hx as [->|[r0 ->]].
    + apply cmp_gt_rank. exact E.
    + simpl in Hs. tauto.
Qed.

Lemma sort_overrides_sorted l : rank_sorted (sort_overrides O l).
Proof. induction l; simpl; [exact I|]. apply sort_insert_sorted. exact IHl. Qed.

Lemma sort_insert_In o l x : In x (sort_insert O o l) <-> x = o \/ In x l.
Proof.
  induction l as [|o' r IH]; simpl; [intuition|].
  destruct (matcher_cmp (fst o) (fst o')); simpl; rewrite ?IH; intuition.
Qed.

Lemma sort_overrides_In l x : In x (sort_overrides O l) <-> In x l.
Proof. induction l; simpl; [tauto|]. rewrite sort_insert_In, IHl. intuition. Qed.

Lemma rank_sorted_head_least a l : rank_sorted (a :: l) ->
  forall x, In x l -> mrank (fst (fst a)) <= mrank (fst (fst x)).
Proof.
  revert a. induction l as [|b l IH]; intros a Hs x Hin; [destruct Hin|].
  simpl in Hs. destruct Hs as [H1 H2]. destruct Hin as [<-|Hin]; [exact H1|].
  specialize (IH b H2 x Hin). lia.
Qed.

(* in a kind-sorted list the first match is a matching override, and no matching override has a
   kind of strictly smaller rank *)
Lemma first_match_least fixed name l : rank_sorted l -> forall b, first_match O fixed name l = Some b ->
  exists m, In (m, b) l /\ matches fixed m name = true /\
            forall x, In x l -> matches fixed (fst x) name = true -> mrank (fst m) <= mrank (fst (fst x)).
Proof.
  induction l as [|[m0 b0] l IH]; intros Hs b H; simpl in H; [discriminate|].
  destruct (matches fixed m0 name) eqn:E.
  - injection H as <-. exists m0. split; [left; reflexivity|]. split; [exact E|].
    intros x [<-|Hin] _; [simpl; lia|]. apply (rank_sorted_head_least _ _ Hs x Hin).
  - assert (Hr : rank_sorted l) by (destruct l; simpl in Hs; tauto).
    destruct (IH Hr b H) as (m & Hin & Hm & Hleast). exists m. split; [right; exact Hin|]. split; [exact Hm|].
    intros x [<-|Hx] Hmx; [simpl in Hmx; congruence|]. apply Hleast; auto.
Qed.

Lemma first_match_none fixed name l : first_match O fixed name l = None ->
  forall x, In x l -> matches fixed (fst x) name = false.
Proof.
  induction l as [|[m0 b0] l IH]; intros H x Hin; [destruct Hin|]. simpl in H.
  destruct (matches fixed m0 name) eqn:E; [discriminate|].
  destruct Hin as [<-|Hin]; [exact E|]. apply IH; auto.
Qed.

(* the overrides a builder holds (sanitised, de-duplicated) *)
Definition held (fixed san : bool) (ovs : list (override O)) : list (override O) := hm_of O fixed san ovs.

Theorem override_precedence fixed san global ovs name :
  let d := db_new O fixed san global ovs in
  match get_distribution O d name with
  | Some b =>
      (exists m, In (m, b) (held fixed san ovs) /\ matches fixed m name = true /\
                 forall x, In x (held fixed san ovs) -> matches fixed (fst x) name = true ->
                           mrank (fst m) <= mrank (fst (fst x)))
      \/ ((forall x, In x (held fixed san ovs) -> matches fixed (fst x) name = false) /\ global = Some b)
  | None => (forall x, In x (held fixed san ovs) -> matches fixed (fst x) name = false) /\ global = None
  end.
Proof.
  intros d. unfold get_distribution, d, db_new, held. simpl.
  destruct (first_match O fixed name (sort_overrides O (hm_of O fixed san ovs))) eqn:E.
  - left. destruct (first_match_least _ _ _ (sort_overrides_sorted _) _ E) as (m & Hin & Hm & Hl).
    exists m. rewrite sort_overrides_In in Hin. split; [exact Hin|]. split; [exact Hm|].
    intros x Hx. apply Hl. rewrite sort_overrides_In. exact Hx.
  - assert (N0 : forall x, In x (hm_of O fixed san ovs) -> matches fixed (fst x) name = false).
    { intros x Hx. apply (first_match_none _ _ _ E). rewrite sort_overrides_In. exact Hx. }
    destruct global; [right|]; auto.
Qed.

(* ------------------------------------------------------------------------ rolling summary *)
Definition rfinal (r : rsum O) (ops : list (rop O)) : rsum O :=
  fold_left (fun r o => fst (rstep O r o)) ops r.
Definition adds (ops : list (rop O)) : N :=
  N.of_nat (length (filter (fun o => match o with RAdd _ _ _ => true | _ => false end) ops)).

(* _count covers every sample ever added, whatever the timestamps *)
Theorem count_counts_all ops : forall r, r_count O (rfinal r ops) = r_count O r + adds ops.
Proof.
  induction ops as [|o ops IH]; intros r; unfold adds in *; simpl; [lia|].
  rewrite IH. destruct o; simpl; lia.
Qed.

(* _sum covers every sample ever added, whatever the timestamps and whatever has left the window *)
Definition add_values (ops : list (rop O)) : list Fl :=
  flat_map (fun o => match o with RAdd _ _ v => [v] | _ => [] end) ops.
Theorem sum_covers_all ops : forall r, r_sum O (rfinal r ops) = fold_left (fadd O) (add_values ops) (r_sum O r).
Proof.
  induction ops as [|o ops IH]; intros r; [reflexivity|].
  unfold rfinal in *. cbn [fold_left]. rewrite IH. destruct o; reflexivity.
Qed.

(* what a snapshot operation reports: the lifetime count and sum, unchanged state *)
Theorem snapshot_reports_lifetime (r : rsum O) t :
  exists sc mn mx qs, rstep O r (RSnap O t) = (r, OSnap O (r_count O r) (r_sum O r) sc mn mx qs).
Proof. simpl. eauto. Qed.

(* snapshot(now) merges exactly the buckets that began after now - n*dur *)
Theorem snapshot_merges_unexpired (r : rsum O) now v :
  In v (rs_snapshot O r now) <->
  exists b, In b (r_buckets O r) /\ In v (rb_vals O b) /\
            (r_maxdur O r <= now -> now - r_maxdur O r < rb_begin O b).
Proof.
  unfold rs_snapshot. rewrite in_flat_map. split.
  - intros (b & Hb & Hv). apply filter_In in Hb as [Hb Hu]. exists b. repeat split; auto.
    intros Hle. unfold unexpired in Hu. apply N.leb_le in Hle. rewrite Hle in Hu. apply N.ltb_lt. exact Hu.
  - intros (b & Hb & Hv & Hu). exists b. split; [|exact Hv]. apply filter_In. split; [exact Hb|].
    unfold unexpired. destruct (r_maxdur O r <=? now) eqn:E; [|reflexivity].
    apply N.ltb_lt. apply Hu. apply N.leb_le. exact E.
Qed.

(* a new bucket begins at or before the sample and less than dur before it *)
Theorem next_begin_covers dur reftime now : 0 < dur -> reftime <= now ->
  next_begin dur reftime now <= now /\ now < next_begin dur reftime now + dur.
Proof.
  intros Hd Hr. unfold next_begin.
  assert (E : now - reftime = (now - reftime) / dur * dur + (now - reftime) mod dur)
    by (rewrite N.mul_comm; apply N.div_mod; lia).
  pose proof (N.mod_lt (now - reftime) dur ltac:(lia)) as L.
  generalize dependent ((now - reftime) mod dur). intros m E L.
  generalize dependent ((now - reftime) / dur * dur). intros x E. lia.
Qed.

End DistProofs.
