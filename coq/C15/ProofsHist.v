(* C15 — proofs about the Histogram model (any FloatOps whose <= is transitive). *)
From Coq Require Import List NArith Bool Lia.
Import ListNotations.
Require Import MV.C15.Model MV.C15.Spec.
Open Scope N_scope.

Section HistProofs.
Variable O : FloatOps.
Notation Fl := (F O).
Hypothesis fle_trans : forall a b c : Fl, fle O a b = true -> fle O b c = true -> fle O a c = true.

Definition ind (s b : Fl) : N := if fle O s b then 1 else 0.
Arguments ind : simpl never.

Lemma count_le_nil b : count_le O b [] = 0.
Proof. reflexivity. Qed.

Lemma count_le_cons b s l : count_le O b (s :: l) = ind s b + count_le O b l.
Proof.
  unfold count_le, ind. simpl. destruct (fle O s b); simpl length; lia.
Qed.

Lemma count_le_app b l1 l2 : count_le O b (l1 ++ l2) = count_le O b l1 + count_le O b l2.
Proof.
  induction l1 as [|s l1 IH]; [cbn [app]; rewrite count_le_nil; lia|].
  cbn [app]. rewrite !count_le_cons, IH. lia.
Qed.

Lemma count_le_le_length b l : count_le O b l <= N.of_nat (length l).
Proof.
  induction l as [|s l IH]; [cbv; discriminate|].
  rewrite count_le_cons. unfold ind. simpl length. destruct (fle O s b); lia.
Qed.

(* ---- add_lists / prefix_sums algebra *)
Lemma add_lists_length a b : length a = length b -> length (add_lists a b) = length a.
Proof. revert b; induction a; intros [|y b] H; simpl in *; auto; try discriminate. Qed.

Lemma add_lists_zeros (a : list N) (b : list Fl) : length a = length b -> add_lists a (map (fun _ => 0) b) = a.
Proof.
  revert b; induction a as [|x a IH]; intros [|y b] H; simpl in *; auto; try discriminate.
  rewrite IH by lia. f_equal. lia.
Qed.

Lemma add_lists_assoc a b c : length a = length b -> length b = length c ->
  add_lists (add_lists a b) c = add_lists a (add_lists b c).
Proof.
  revert b c; induction a as [|x a IH]; intros [|y b] [|z c] H1 H2; simpl in *; auto; try discriminate.
  rewrite IH by lia. f_equal. lia.
Qed.

Lemma add_lists_map2 (f g : Fl -> N) (bs : list Fl) :
  add_lists (map f bs) (map g bs) = map (fun b => f b + g b) bs.
Proof. induction bs; simpl; auto. rewrite IHbs. reflexivity. Qed.

Lemma prefix_sums_length acc l : length (prefix_sums acc l) = length l.
Proof. revert acc; induction l; intros; simpl; auto. Qed.

Lemma prefix_sums_shift a (cs : list N) (bs : list Fl) : length cs = length bs ->
  prefix_sums (a + 1) cs = add_lists (prefix_sums a cs) (map (fun _ => 1) bs).
Proof.
  revert a bs; induction cs as [|c cs IH]; intros a [|b bs] H; simpl in *; auto; try discriminate.
  replace (a + 1 + c) with (a + c + 1) by lia. rewrite (IH (a + c) bs) by lia. reflexivity.
Qed.

Lemma ascending_tail b bs : ascending O (b :: bs) = true -> ascending O bs = true.
Proof. destruct bs; simpl; auto. intros H. apply andb_prop in H. tauto. Qed.

Lemma ascending_all_ge s b bs : ascending O (b :: bs) = true -> fle O s b = true ->
  forall b', In b' bs -> fle O s b' = true.
Proof.
  revert b. induction bs as [|b1 bs IH]; intros b Ha Hs b' Hin; [destruct Hin|].
  simpl in Ha. apply andb_prop in Ha as [H1 H2].
  assert (fle O s b1 = true) by (eapply fle_trans; eauto).
  destruct Hin as [<-|Hin]; auto. eapply IH; eauto.
Qed.

Lemma map_ind_ones s (bs : list Fl) : (forall b', In b' bs -> fle O s b' = true) ->
  map (ind s) bs = map (fun _ => 1) bs.
Proof.
  induction bs; simpl; auto. intros H. unfold ind at 1. rewrite (H a) by auto. f_equal. apply IHbs. auto.
Qed.

(* the first-match increment followed by the prefix sums counts the sample in every bound >= it *)
Lemma bump_first_prefix s bs : ascending O bs = true -> forall cs acc, length cs = length bs ->
  prefix_sums acc (bump_first O s bs cs) = add_lists (prefix_sums acc cs) (map (ind s) bs).
Proof.
  induction bs as [|b bs IH]; intros Ha cs acc Hl.
  - destruct cs; simpl in *; auto; discriminate.
  - destruct cs as [|c cs]; [discriminate|]. simpl in Hl. simpl bump_first.
    destruct (fle O s b) eqn:E.
    + simpl. unfold ind at 1. rewrite E. f_equal; [lia|].
      rewrite (map_ind_ones s bs) by (eapply ascending_all_ge; eauto).
      replace (acc + (c + 1)) with (acc + c + 1) by lia. apply prefix_sums_shift. lia.
    + simpl. unfold ind at 1. rewrite E. f_equal; [lia|]. apply IH; [eapply ascending_tail; eauto|lia].
Qed.

Lemma bump_first_length s bs cs : length (bump_first O s bs cs) = length cs.
Proof.
  revert cs; induction bs as [|b bs IH]; intros [|c cs]; simpl; auto.
  destruct (fle O s b); simpl; auto.
Qed.

Lemma batch_prefix bs : ascending O bs = true -> forall samples cs, length cs = length bs ->
  prefix_sums 0 (fold_left (fun cs s => bump_first O s bs cs) samples cs)
  = add_lists (prefix_sums 0 cs) (map (fun b => count_le O b samples) bs).
Proof.
  intros Ha samples. induction samples as [|s l IH]; intros cs Hl.
  - simpl fold_left. change (fun b : Fl => count_le O b []) with (fun _ : Fl => 0).
    rewrite add_lists_zeros; auto. rewrite prefix_sums_length. exact Hl.
  - simpl fold_left. rewrite IH by (rewrite bump_first_length; exact Hl).
    rewrite bump_first_prefix by auto.
    rewrite add_lists_assoc by (rewrite ?prefix_sums_length, ?map_length; auto).
    f_equal. rewrite add_lists_map2. apply map_ext. intros b. rewrite count_le_cons. reflexivity.
Qed.

Lemma prefix_sums_zeros (bs : list Fl) : prefix_sums 0 (map (fun _ => 0) bs) = map (fun _ => 0) bs.
Proof. induction bs; simpl; auto. f_equal. exact IHbs. Qed.

Lemma bump_all_spec s bs cs : length cs = length bs ->
  bump_all O s bs cs = add_lists cs (map (ind s) bs).
Proof.
  revert cs; induction bs as [|b bs IH]; intros [|c cs] H; simpl in *; auto; try discriminate.
  rewrite IH by lia. unfold ind. destruct (fle O s b); f_equal; lia.
Qed.

(* ---- the invariant of a histogram state: it is what the specification says about [samples] *)
Definition hist_inv (bounds : list Fl) (samples : list Fl) (h : hist O) : Prop :=
  h_bounds O h = bounds /\
  h_count O h = N.of_nat (length samples) /\
  h_buckets O h = map (fun b => count_le O b samples) bounds.

Lemma hist_new_inv bounds h : hist_new O bounds = Some h -> hist_inv bounds [] h.
Proof.
  destruct bounds; simpl; [discriminate|]. intros [= <-]. repeat split.
Qed.

Lemma record_inv bounds samples h s : hist_inv bounds samples h -> hist_inv bounds (samples ++ [s]) (record O h s).
Proof.
  intros (Hb & Hc & Hk). repeat split; simpl.
  - exact Hb.
  - rewrite Hc, app_length. simpl. lia.
  - rewrite Hb, Hk, bump_all_spec by (rewrite map_length; reflexivity).
    rewrite add_lists_map2. apply map_ext. intros b. rewrite count_le_app, count_le_cons, count_le_nil. lia.
Qed.

Lemma record_many_inv bounds samples h l : ascending O bounds = true ->
  hist_inv bounds samples h -> hist_inv bounds (samples ++ l) (record_many O h l).
Proof.
  intros Ha (Hb & Hc & Hk). repeat split; simpl.
  - exact Hb.
  - rewrite Hc, app_length. lia.
  - rewrite Hb, Hk. rewrite batch_prefix by (rewrite ?map_length; auto).
    rewrite map_map. rewrite prefix_sums_zeros. rewrite !add_lists_map2.
    apply map_ext. intros b. rewrite count_le_app. lia.
Qed.

Lemma hstep_inv bounds samples h o : ascending O bounds = true ->
  hist_inv bounds samples h -> hist_inv bounds (samples ++ samples_of O o) (hstep O h o).
Proof. intros Ha Hi. destruct o; simpl; [apply record_inv|apply record_many_inv]; auto. Qed.

Definition hfinal (h : hist O) (ops : list (hop O)) : hist O := fold_left (hstep O) ops h.

Lemma hfinal_inv bounds ops : ascending O bounds = true -> forall samples h,
  hist_inv bounds samples h -> hist_inv bounds (samples ++ all_samples O ops) (hfinal h ops).
Proof.
  intros Ha. induction ops as [|o ops IH]; intros samples h Hi; simpl.
  - rewrite app_nil_r. exact Hi.
  - unfold all_samples in *. simpl flat_map. rewrite app_assoc. apply IH. apply hstep_inv; auto.
Qed.

(* count() needs no ordering of the bounds *)
Lemma hfinal_count ops : forall h, h_count O (hfinal h ops) = h_count O h + N.of_nat (length (all_samples O ops)).
Proof.
  induction ops as [|o ops IH]; intros h; simpl; [lia|].
  rewrite IH. unfold all_samples. simpl flat_map. rewrite app_length.
  destruct o; simpl; lia.
Qed.

Lemma hfinal_bounds ops : forall h, h_bounds O (hfinal h ops) = h_bounds O h.
Proof. induction ops as [|o ops IH]; intros h; simpl; auto. rewrite IH. destruct o; reflexivity. Qed.

Lemma hfinal_sum ops : forall h, h_sum O (hfinal h ops)
  = fold_left (fun acc o => match o with
                            | HRec _ s => fadd O acc s
                            | HMany _ l => fadd O acc (fold_left (fadd O) l (fzero O))
                            end) ops (h_sum O h).
Proof. induction ops as [|o ops IH]; intros h; simpl; auto. rewrite IH. destruct o; reflexivity. Qed.

(* ---- the clauses *)
Theorem bucket_counts bounds h0 ops : hist_new O bounds = Some h0 -> ascending O bounds = true ->
  let h := hfinal h0 ops in
  h_buckets O h = map (fun b => count_le O b (all_samples O ops)) bounds
  /\ h_count O h = N.of_nat (length (all_samples O ops))
  /\ h_bounds O h = bounds.
Proof.
  intros Hn Ha. destruct (hfinal_inv bounds ops Ha [] h0 (hist_new_inv _ _ Hn)) as (Hb & Hc & Hk).
  simpl in *. auto.
Qed.

Theorem count_total bounds h0 ops : hist_new O bounds = Some h0 ->
  h_count O (hfinal h0 ops) = N.of_nat (length (all_samples O ops)).
Proof.
  intros Hn. rewrite hfinal_count. destruct bounds; simpl in Hn; [discriminate|]. injection Hn as <-. simpl. lia.
Qed.

Theorem monotone_in_bound a b samples : fle O a b = true -> count_le O a samples <= count_le O b samples.
Proof.
  intros Hab. induction samples as [|s l IH]; [rewrite !count_le_nil; lia|].
  rewrite !count_le_cons. unfold ind. destruct (fle O s a) eqn:E.
  - rewrite (fle_trans s a b E Hab). lia.
  - destruct (fle O s b); lia.
Qed.

Theorem monotone_in_time b samples more : count_le O b samples <= count_le O b (samples ++ more).
Proof. rewrite count_le_app. lia. Qed.

Theorem bucket_le_count b samples : count_le O b samples <= N.of_nat (length samples).
Proof. apply count_le_le_length. Qed.

(* a value that is not <= itself (NaN) and hence (hypothesis) <= nothing is counted by count() only *)
Theorem nan_in_no_bucket s samples b : (forall x, fle O s x = false) ->
  count_le O b (samples ++ [s]) = count_le O b samples.
Proof. intros H. rewrite count_le_app, count_le_cons, count_le_nil. unfold ind. rewrite H. lia. Qed.

Theorem batch_equals_single bounds h0 ops1 ops2 : hist_new O bounds = Some h0 -> ascending O bounds = true ->
  all_samples O ops1 = all_samples O ops2 ->
  h_buckets O (hfinal h0 ops1) = h_buckets O (hfinal h0 ops2)
  /\ h_count O (hfinal h0 ops1) = h_count O (hfinal h0 ops2).
Proof.
  intros Hn Ha He.
  destruct (bucket_counts bounds h0 ops1 Hn Ha) as (K1 & C1 & _).
  destruct (bucket_counts bounds h0 ops2 Hn Ha) as (K2 & C2 & _).
  simpl in *. rewrite K1, K2, C1, C2, He. auto.
Qed.

Lemma bump_all_length s bs cs : length (bump_all O s bs cs) = length cs.
Proof. revert cs; induction bs as [|b bs IH]; intros [|c cs]; simpl; auto. Qed.

Lemma fold_bump_first_length bs l : forall cs,
  length (fold_left (fun cs s => bump_first O s bs cs) l cs) = length cs.
Proof. induction l; intros; simpl; auto. rewrite IHl, bump_first_length. reflexivity. Qed.

Lemma hstep_lens h o : length (h_buckets O h) = length (h_bounds O h) ->
  length (h_buckets O (hstep O h o)) = length (h_bounds O (hstep O h o)).
Proof.
  intros H. destruct o; simpl.
  - rewrite bump_all_length. exact H.
  - rewrite add_lists_length; auto.
    rewrite prefix_sums_length, fold_bump_first_length, map_length. reflexivity.
Qed.

Lemma hfinal_lens ops : forall h, length (h_buckets O h) = length (h_bounds O h) ->
  length (h_buckets O (hfinal h ops)) = length (h_bounds O (hfinal h ops)).
Proof. induction ops as [|o ops IH]; intros h H; simpl; auto. apply IH. apply hstep_lens. exact H. Qed.

(* ---- the model satisfies the executable specification (snaps_ok) *)
Hypothesis fsame_refl : forall a : Fl, fsame O a a = true.

Lemma list_eqb_N_refl (l : list N) : list_eqb N.eqb l l = true.
Proof. induction l; simpl; auto. rewrite N.eqb_refl. exact IHl. Qed.

Lemma hrun_snaps_ok bounds h0 : hist_new O bounds = Some h0 -> forall todo done,
  snaps_ok O bounds done todo (hrun O (hfinal h0 done) todo) = true.
Proof.
  intros Hn. induction todo as [|o todo IH]; intros done; simpl; auto.
  assert (E : hstep O (hfinal h0 done) o = hfinal h0 (done ++ [o])).
  { unfold hfinal. rewrite fold_left_app. reflexivity. }
  rewrite E, IH, andb_true_r. unfold snap_ok, snap_of.
  rewrite (count_total bounds h0 _ Hn), N.eqb_refl. simpl andb.
  assert (S : h_sum O (hfinal h0 (done ++ [o])) = spec_sum O (done ++ [o])).
  { rewrite hfinal_sum. unfold spec_sum. destruct bounds; simpl in Hn; [discriminate|]. injection Hn as <-. reflexivity. }
  rewrite S, fsame_refl. simpl andb.
  destruct (ascending O bounds) eqn:Ha.
  - destruct (bucket_counts bounds h0 (done ++ [o]) Hn Ha) as (K & _ & _). simpl in K. rewrite K.
    rewrite map_length, N.eqb_refl, list_eqb_N_refl. reflexivity.
  - rewrite andb_true_r. apply N.eqb_eq. f_equal.
    rewrite hfinal_lens; [rewrite hfinal_bounds|]; destruct bounds; simpl in Hn; try discriminate;
      injection Hn as <-; simpl; rewrite ?map_length; reflexivity.
Qed.

End HistProofs.
