(* C15 — property theorems (statements only; proofs in ProofsHist.v / ProofsDist.v / ExecProofs.v).

   Reading guide.  [O : FloatOps] is any floating-point interface; the hypotheses on it are
   stated in each theorem ([fle] transitive; a value that is <= nothing, i.e. NaN).  [hfinal h0 ops]
   is the model of Histogram after the operations [ops] (record / record_many);
   [count_le O b samples] is the number of samples s with s <= b (Spec.v).  [db_new] / [get_distribution]
   model DistributionBuilder; [held] is the set of overrides it holds (sanitised, de-duplicated).
   [rfinal] / [rs_snapshot] model RollingSummary.                                                *)
From Coq Require Import List NArith Bool.
Import ListNotations.
Require Import MV.C15.Model MV.C15.Spec MV.C15.Exec MV.C15.ProofsHist MV.C15.ProofsDist MV.C15.ProofsRoll MV.C15.ProofsPrec MV.C15.ExecProofs.
Open Scope N_scope.

Theorem C15_bucket_counts : forall (O : FloatOps),
  (forall a b c : F O, fle O a b = true -> fle O b c = true -> fle O a c = true) ->
  forall bounds h0 ops, hist_new O bounds = Some h0 -> ascending O bounds = true ->
  h_buckets O (hfinal O h0 ops) = map (fun b => count_le O b (all_samples O ops)) bounds
  /\ h_count O (hfinal O h0 ops) = N.of_nat (length (all_samples O ops))
  /\ h_bounds O (hfinal O h0 ops) = bounds.
Proof. exact bucket_counts. Qed.

Theorem C15_count_is_number_of_samples : forall (O : FloatOps) bounds h0 ops, hist_new O bounds = Some h0 ->
  h_count O (hfinal O h0 ops) = N.of_nat (length (all_samples O ops)).
Proof. exact count_total. Qed.

Theorem C15_counts_monotone_in_bound : forall (O : FloatOps),
  (forall a b c : F O, fle O a b = true -> fle O b c = true -> fle O a c = true) ->
  forall a b samples, fle O a b = true -> count_le O a samples <= count_le O b samples.
Proof. exact monotone_in_bound. Qed.

Theorem C15_counts_monotone_in_time : forall (O : FloatOps) b samples more,
  count_le O b samples <= count_le O b (samples ++ more).
Proof. exact monotone_in_time. Qed.

Theorem C15_every_bucket_at_most_inf_bucket : forall (O : FloatOps) b samples,
  count_le O b samples <= N.of_nat (length samples).
Proof. exact bucket_le_count. Qed.

Theorem C15_nan_in_no_bucket : forall (O : FloatOps) s samples b, (forall x, fle O s x = false) ->
  count_le O b (samples ++ [s]) = count_le O b samples.
Proof. exact nan_in_no_bucket. Qed.

Theorem C15_batch_equals_single : forall (O : FloatOps),
  (forall a b c : F O, fle O a b = true -> fle O b c = true -> fle O a c = true) ->
  forall bounds h0 ops1 ops2, hist_new O bounds = Some h0 -> ascending O bounds = true ->
  all_samples O ops1 = all_samples O ops2 ->
  h_buckets O (hfinal O h0 ops1) = h_buckets O (hfinal O h0 ops2)
  /\ h_count O (hfinal O h0 ops1) = h_count O (hfinal O h0 ops2).
Proof. exact batch_equals_single. Qed.

(* the model's output satisfies the executable property for every well-formed case of the three
   kinds (histogram: any; overrides: the code after the fix; rolling summary: n > 0, dur > 0) *)
Theorem C15_spec_ok_on_model : forall (O : FloatOps),
  (forall a b c : F O, fle O a b = true -> fle O b c = true -> fle O a c = true) ->
  (forall a : F O, fsame O a a = true) ->
  forall c, gwf O c = true -> gspec_ok O c (grun_case O c) = true.
Proof. exact spec_ok_on_model. Qed.

Theorem C15_spec_ok_sound_dist : forall (O : FloatOps) fixed san global name ovs usfx unit ty d fam,
  gspec_ok O (CDist O fixed san global name ovs usfx unit) (ODist O ty d fam) = true ->
  optb_same O d (spec_choice O san global name ovs) = true
  /\ (ty = true <-> spec_choice O san global name ovs <> None)
  /\ (ty = true <-> d <> None).
Proof. exact spec_ok_sound_dist. Qed.

(* Exposure: in the model of Inner::render, for EVERY unit-suffix configuration (suffix enabled or not,
   described with any unit or not) the series rendered are those of the buckets that apply to the METRIC
   name, the TYPE line says histogram exactly when such buckets exist, hence exactly when bucket series
   are rendered; the family name (metric name + unit suffix) only labels the TYPE line. *)
Theorem C15_exposed_as_histogram_iff_buckets_apply : forall (O : FloatOps) san global name ovs usfx unit,
  let '(fam, ty, dist) := render_family O (db_new O true san global ovs) usfx unit (eff_key san name) in
  dist = spec_choice O san global name ovs
  /\ (ty = true <-> spec_choice O san global name ovs <> None)
  /\ (ty = true <-> dist <> None)
  /\ fam = family_name usfx unit (eff_key san name).
Proof. exact exposed_iff_buckets_apply. Qed.

Theorem C15_spec_ok_sound_hist : forall (O : FloatOps) bounds done cs cnt sm,
  snap_ok O bounds done (cs, cnt, sm) = true ->
  cnt = N.of_nat (length (all_samples O done))
  /\ fsame O sm (spec_sum O done) = true
  /\ (ascending O bounds = true -> cs = map (fun b => count_le O b (all_samples O done)) bounds).
Proof. exact snap_ok_sound. Qed.

(* The model of DistributionBuilder (HashMap insert of sanitised matchers, sort by the derived Ord,
   first match) equals the sort-free specification of Spec.v, for every set of overrides and name. *)
Theorem C15_override_model_meets_spec : forall (O : FloatOps) san global name ovs,
  get_distribution O (db_new O true san global ovs) (eff_key san name) = spec_choice O san global name ovs.
Proof. exact model_meets_spec. Qed.

(* Which override wins: if some override applies, the distribution is a histogram whose bounds are
   those of the LAST override filed under the matcher that is least, in the derived Ord of Matcher
   ([matcher_cmp]: Full < Prefix < Suffix, then the sanitised pattern in String order), among the
   matchers of the applying overrides; if none applies, the global buckets, else a summary. *)
Theorem C15_override_precedence : forall (O : FloatOps) san global name ovs,
  let d := get_distribution O (db_new O true san global ovs) (eff_key san name) in
  ((exists o, In o ovs /\ applies san (fst o) name = true) ->
     exists o, In o ovs /\ applies san (fst o) name = true
               /\ (forall o', In o' ovs -> applies san (fst o') name = true ->
                     matcher_cmp (eff_matcher san (fst o)) (eff_matcher san (fst o')) <> Gt)
               /\ d = last_bounds O san (eff_matcher san (fst o)) ovs
               /\ d <> None)
  /\ ((forall o, In o ovs -> applies san (fst o) name = false) -> d = global).
Proof. exact override_precedence_full. Qed.

(* Matcher::matches on the sanitised matcher and name is the declarative [applies] of Spec.v *)
Theorem C15_matches_is_applies : forall san m name,
  matches true (eff_matcher san m) (eff_key san name) = applies san m name.
Proof. exact matches_is_applies. Qed.

Theorem C15_type_histogram_iff_distribution_histogram : forall (O : FloatOps) (d : dbuilder O) name,
  get_distribution_type O d name = true <-> get_distribution O d name <> None.
Proof. exact type_iff_histogram. Qed.

Theorem C15_matcher_sound_prefix : forall fixed p r,
  matches fixed (matcher_sanitized fixed (MPrefix, p)) (sanitize_name (p ++ r)) = true.
Proof. exact prefix_sound. Qed.

Theorem C15_matcher_sound_full : forall fixed n,
  matches fixed (matcher_sanitized fixed (MFull, n)) (sanitize_name n) = true.
Proof. exact full_sound. Qed.

(* raw pattern is a suffix of the raw name (possibly the whole name) => the sanitised matcher matches *)
Theorem C15_matcher_sound_suffix : forall pre p,
  matches true (matcher_sanitized true (MSuffix, p)) (sanitize_name (pre ++ p)) = true.
Proof. exact suffix_sound. Qed.

Theorem C15_matcher_suffix_refuted_before_fix : exists pre p, pre <> [] /\
  matches false (matcher_sanitized false (MSuffix, p)) (sanitize_name (pre ++ p)) = false.
Proof. exact suffix_unsound_before_fix. Qed.

Theorem C15_suffix_override_refuted_before_fix :
  exists c : gcase ZO, (match c with CDist _ fixed _ _ _ _ _ _ => fixed = false | _ => False end)
                       /\ gspec_ok ZO c (grun_case ZO c) = false.
Proof. exact suffix_refuted_before_fix. Qed.

(* The window theorem.  For every history of adds with non-decreasing timestamps and every time
   [now] not before the last add, the state reached from RollingSummary::new(n, dur):
   - a snapshot holds only samples of the history that are finite and newer than now - n*dur;
   - it holds every finite sample with timestamp >= now - n*dur + dur;
   - as multisets: |must_hold| <= |snapshot| <= |may_hold|;
   - count() is the number of samples ever added;
   - at most n buckets, strictly descending by begin and at least dur apart. *)
Theorem C15_window : forall (O : FloatOps) (n dur : N), 0 < n -> 0 < dur ->
  forall (hist : list (N * F O)) (now : N),
  nondecr O 0 hist -> last_time O 0 hist <= now ->
  let r := radd_all O (rs_new O n dur) hist in
  (forall v, In v (rs_snapshot O r now) ->
     exists t, In (t, v) hist /\ fisinf O v = false /\ (dur * n <= now -> now - dur * n < t))
  /\ (forall t v, In (t, v) hist -> fisinf O v = false -> now + dur <= t + dur * n -> In v (rs_snapshot O r now))
  /\ (length (must_hold O dur (dur * n) now hist) <= length (rs_snapshot O r now))%nat
  /\ (length (rs_snapshot O r now) <= length (may_hold O (dur * n) now hist))%nat
  /\ r_count O r = N.of_nat (length hist)
  /\ N.of_nat (length (r_buckets O r)) <= n
  /\ descN dur (begins O (r_buckets O r)).
Proof. exact window_theorem. Qed.

(* truncate(max_buckets - 1) in add never removes a bucket that retain kept *)
Theorem C15_window_truncate_never_evicts : forall (O : FloatOps) (n dur : N), 0 < n -> 0 < dur ->
  forall (hist : list (N * F O)) (now : N) (v : F O),
  nondecr O 0 hist -> last_time O 0 hist <= now ->
  let r := radd_all O (rs_new O n dur) hist in
  try_add O (r_dur O r) v now (r_buckets O r) = None ->
  let kept := filter (unexpired O (r_maxdur O r) now) (r_buckets O r) in
  firstn (N.to_nat (r_max O r - 1)) kept = kept.
Proof. exact truncate_never_evicts. Qed.

(* the invariant behind it: every bucket holds exactly the finite samples whose timestamp lies in
   [begin, begin + dur), and every sample that must still be held lies in some bucket *)
Theorem C15_window_invariant : forall (O : FloatOps) (n dur : N), 0 < n -> 0 < dur ->
  forall l past la r, params_ok O n dur r -> WInv O n dur past la (r_buckets O r) -> nondecr O la l ->
  params_ok O n dur (radd_all O r l) /\ WInv O n dur (past ++ l) (last_time O la l) (r_buckets O (radd_all O r l)).
Proof. exact radd_all_inv. Qed.

Theorem C15_window_count_counts_all : forall (O : FloatOps) ops r,
  r_count O (rfinal O r ops) = r_count O r + adds O ops.
Proof. exact count_counts_all. Qed.

(* a summary's _sum and _count cover ALL samples: after any operations (any timestamps) count = number of
   adds and sum = the adds folded in order; a snapshot reports exactly these two and leaves the state alone,
   whatever the window currently holds (the quantiles come from the window: C15_window) *)
Theorem C15_summary_sum_covers_all : forall (O : FloatOps) ops r,
  r_sum O (rfinal O r ops) = fold_left (fadd O) (add_values O ops) (r_sum O r).
Proof. exact sum_covers_all. Qed.

Theorem C15_summary_snapshot_reports_lifetime_count_and_sum : forall (O : FloatOps) (r : rsum O) t,
  exists sc mn mx qs, rstep O r (RSnap O t) = (r, OSnap O (r_count O r) (r_sum O r) sc mn mx qs).
Proof. exact snapshot_reports_lifetime. Qed.

Theorem C15_window_snapshot_merges_unexpired : forall (O : FloatOps) (r : rsum O) now v,
  In v (rs_snapshot O r now) <->
  exists b, In b (r_buckets O r) /\ In v (rb_vals O b) /\
            (r_maxdur O r <= now -> now - r_maxdur O r < rb_begin O b).
Proof. exact snapshot_merges_unexpired. Qed.

Theorem C15_window_new_bucket_covers_sample : forall dur reftime now, 0 < dur -> reftime <= now ->
  next_begin dur reftime now <= now /\ now < next_begin dur reftime now + dur.
Proof. exact next_begin_covers. Qed.

(* quantile labels (Quantile::new; the Display renderings are oracle inputs): "min", "max" or "p..."; never a dot *)
Theorem C15_quantile_label_shape : forall fc fd,
  ~ In 46 (qlabel fc fd)
  /\ (qlabel fc fd = [109; 105; 110] \/ qlabel fc fd = [109; 97; 120] \/ exists r, qlabel fc fd = 112 :: r).
Proof. exact (fun fc fd => conj (qlabel_no_dot fc fd) (qlabel_cases fc fd)). Qed.

(* the order hypotheses are satisfiable (integers with a NaN-like element) on a non-trivial case *)
Theorem C15_hypotheses_satisfiable :
  (forall a b c : F ZO, fle ZO a b = true -> fle ZO b c = true -> fle ZO a c = true)
  /\ (forall a : F ZO, fsame ZO a a = true)
  /\ (forall x : F ZO, fle ZO None x = false).
Proof. exact (conj zle_trans (conj zsame_refl znan_le_nothing)). Qed.
