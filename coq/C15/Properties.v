(* C15 — property theorems (statements only; proofs in ProofsHist.v / ProofsDist.v / ExecProofs.v).

   Reading guide.  [O : FloatOps] is any floating-point interface; the hypotheses on it are
   stated in each theorem ([fle] transitive; a value that is <= nothing, i.e. NaN).  [hfinal h0 ops]
   is the model of Histogram after the operations [ops] (record / record_many);
   [count_le O b samples] is the number of samples s with s <= b (Spec.v).  [db_new] / [get_distribution]
   model DistributionBuilder; [held] is the set of overrides it holds (sanitised, de-duplicated).
   [rfinal] / [rs_snapshot] model RollingSummary.                                                *)
From Coq Require Import List NArith Bool.
Import ListNotations.
Require Import MV.C15.Model MV.C15.Spec MV.C15.Exec MV.C15.ProofsHist MV.C15.ProofsDist MV.C15.ExecProofs.
Open Scope N_scope.

Theorem C15_bucket_counts : forall (O : FloatOps),
  (forall a b c : F O, fle O a b = true -> fle O b c = true -> fle O a c = true) ->
  forall bounds h0 ops, hist_new O bounds = Some h0 -> ascending O bounds = true ->
  h_buckets O (hfinal O h0 ops) = map (fun b => count_le O b (all_samples O ops)) bounds
  /\ h_count O (hfinal O h0 ops) = N.of_nat (length (all_samples O ops))
  /\ h_bounds O (hfinal O h0 ops) = bounds.
Proof. exact bucket_counts. Qed.

Theorem C15_count_is_number_of_samples : forall (O : FloatOps) bounds h0 ops, hist_new O bounds = Some h0 ->
  h_count O (hfinal O h0 ops) = N.of_nat (length (all_samples O ops)).
Proof. exact count_total. Qed.

Theorem C15_counts_monotone_in_bound : forall (O : FloatOps),
  (forall a b c : F O, fle O a b = true -> fle O b c = true -> fle O a c = true) ->
  forall a b samples, fle O a b = true -> count_le O a samples <= count_le O b samples.
Proof. exact monotone_in_bound. Qed.

Theorem C15_counts_monotone_in_time : forall (O : FloatOps) b samples more,
  count_le O b samples <= count_le O b (samples ++ more).
Proof. exact monotone_in_time. Qed.

Theorem C15_every_bucket_at_most_inf_bucket : forall (O : FloatOps) b samples,
  count_le O b samples <= N.of_nat (length samples).
Proof. exact bucket_le_count. Qed.

Theorem C15_nan_in_no_bucket : forall (O : FloatOps) s samples b, (forall x, fle O s x = false) ->
  count_le O b (samples ++ [s]) = count_le O b samples.
Proof. exact nan_in_no_bucket. Qed.

Theorem C15_batch_equals_single : forall (O : FloatOps),
  (forall a b c : F O, fle O a b = true -> fle O b c = true -> fle O a c = true) ->
  forall bounds h0 ops1 ops2, hist_new O bounds = Some h0 -> ascending O bounds = true ->
  all_samples O ops1 = all_samples O ops2 ->
  h_buckets O (hfinal O h0 ops1) = h_buckets O (hfinal O h0 ops2)
  /\ h_count O (hfinal O h0 ops1) = h_count O (hfinal O h0 ops2).
Proof. exact batch_equals_single. Qed.

(* FULL STATEMENT AIMED AT:  forall c, gwf O c = true -> gspec_ok O c (grun_case O c) = true.
   Proved for the histogram cases; for override and rolling-summary cases spec_ok is evaluated on
   the implementation's output of every generated case, but not proved of the model for all cases. *)
Theorem C15_spec_ok_on_model_partial : forall (O : FloatOps),
  (forall a b c : F O, fle O a b = true -> fle O b c = true -> fle O a c = true) ->
  (forall a : F O, fsame O a a = true) ->
  forall bounds ops, gspec_ok O (CHist O bounds ops) (grun_case O (CHist O bounds ops)) = true.
Proof. exact spec_ok_on_model_hist. Qed.

Theorem C15_spec_ok_sound_hist : forall (O : FloatOps) bounds done cs cnt sm,
  snap_ok O bounds done (cs, cnt, sm) = true ->
  cnt = N.of_nat (length (all_samples O done))
  /\ fsame O sm (spec_sum O done) = true
  /\ (ascending O bounds = true -> cs = map (fun b => count_le O b (all_samples O done)) bounds).
Proof. exact snap_ok_sound. Qed.

(* FULL STATEMENT AIMED AT:  get_distribution (db_new true san global ovs) key = spec_choice san global name ovs
   (least applying matcher in the order Full < Prefix < Suffix, then by pattern).  Proved: the
   chosen bounds belong to a held override that matches and whose KIND is minimal among the held
   overrides that match (Full before Prefix before Suffix); no match => global buckets, else summary.
   Not proved: the order by pattern within one kind, and [matches] = [applies] of Spec.v. *)
Theorem C15_override_precedence_partial : forall (O : FloatOps) fixed san global ovs name,
  match get_distribution O (db_new O fixed san global ovs) name with
  | Some b =>
      (exists m, In (m, b) (held O fixed san ovs) /\ matches fixed m name = true /\
                 forall x, In x (held O fixed san ovs) -> matches fixed (fst x) name = true ->
                           mrank (fst m) <= mrank (fst (fst x)))
      \/ ((forall x, In x (held O fixed san ovs) -> matches fixed (fst x) name = false) /\ global = Some b)
  | None => (forall x, In x (held O fixed san ovs) -> matches fixed (fst x) name = false) /\ global = None
  end.
Proof. exact override_precedence. Qed.

Theorem C15_type_histogram_iff_distribution_histogram : forall (O : FloatOps) (d : dbuilder O) name,
  get_distribution_type O d name = true <-> get_distribution O d name <> None.
Proof. exact type_iff_histogram. Qed.

Theorem C15_matcher_sound_prefix : forall fixed p r,
  matches fixed (matcher_sanitized fixed (MPrefix, p)) (sanitize_name (p ++ r)) = true.
Proof. exact prefix_sound. Qed.

Theorem C15_matcher_sound_full : forall fixed n,
  matches fixed (matcher_sanitized fixed (MFull, n)) (sanitize_name n) = true.
Proof. exact full_sound. Qed.

(* FULL STATEMENT AIMED AT: also for pre = [] (the suffix is the whole name; handled in the code by
   the second disjunct of Matcher::matches, exercised by the correspondence runs, not proved). *)
Theorem C15_matcher_sound_suffix_partial : forall pre p, pre <> [] ->
  matches true (matcher_sanitized true (MSuffix, p)) (sanitize_name (pre ++ p)) = true.
Proof. exact suffix_sound_proper. Qed.

Theorem C15_matcher_suffix_refuted_before_fix : exists pre p, pre <> [] /\
  matches false (matcher_sanitized false (MSuffix, p)) (sanitize_name (pre ++ p)) = false.
Proof. exact suffix_unsound_before_fix. Qed.

Theorem C15_suffix_override_refuted_before_fix :
  exists c : gcase ZO, (match c with CDist _ fixed _ _ _ _ => fixed = false | _ => False end)
                       /\ gspec_ok ZO c (grun_case ZO c) = false.
Proof. exact suffix_refuted_before_fix. Qed.

(* FULL STATEMENT AIMED AT (C15_window): for non-decreasing timestamps a snapshot contains no sample
   older than now - n*dur and every sample at least as new as now - n*dur + dur, and truncate never
   evicts an unexpired bucket.  Proved: the three facts below (count; which buckets a snapshot
   merges; where a new bucket begins).  Not proved: the invariant tying each retained value to the
   timestamp it was added with — that part is checked per case by spec_ok (window_ok). *)
Theorem C15_window_count_counts_all : forall (O : FloatOps) ops r,
  r_count O (rfinal O r ops) = r_count O r + adds O ops.
Proof. exact count_counts_all. Qed.

Theorem C15_window_snapshot_merges_unexpired_partial : forall (O : FloatOps) (r : rsum O) now v,
  In v (rs_snapshot O r now) <->
  exists b, In b (r_buckets O r) /\ In v (rb_vals O b) /\
            (r_maxdur O r <= now -> now - r_maxdur O r < rb_begin O b).
Proof. exact snapshot_merges_unexpired. Qed.

Theorem C15_window_new_bucket_covers_sample_partial : forall dur reftime now, 0 < dur -> reftime <= now ->
  next_begin dur reftime now <= now /\ now < next_begin dur reftime now + dur.
Proof. exact next_begin_covers. Qed.

(* the order hypotheses are satisfiable (integers with a NaN-like element) on a non-trivial case *)
Theorem C15_hypotheses_satisfiable :
  (forall a b c : F ZO, fle ZO a b = true -> fle ZO b c = true -> fle ZO a c = true)
  /\ (forall a : F ZO, fsame ZO a a = true)
  /\ (forall x : F ZO, fle ZO None x = false).
Proof. exact (conj zle_trans (conj zsame_refl znan_le_nothing)). Qed.
