From Coq Require Import List NArith Bool.
Import ListNotations.
Require Import MV.C15.Model MV.C15.Spec MV.C15.Exec.
Open Scope N_scope.

Theorem C15_placeholder : True.
Proof. exact I. Qed.
