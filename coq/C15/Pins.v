From Coq Require Import List NArith Bool.
Import ListNotations.
Require Import MV.C15.Model MV.C15.Spec MV.C15.Exec MV.C15.ProofsHist MV.C15.ProofsDist MV.C15.ExecProofs.
Open Scope N_scope.
Require Import MV.C15.Properties.

Check (C15_bucket_counts : forall (O : FloatOps),
  (forall a b c : F O, fle O a b = true -> fle O b c = true -> fle O a c = true) ->
  forall bounds h0 ops, hist_new O bounds = Some h0 -> ascending O bounds = true ->
  h_buckets O (hfinal O h0 ops) = map (fun b => count_le O b (all_samples O ops)) bounds
  /\ h_count O (hfinal O h0 ops) = N.of_nat (length (all_samples O ops))
  /\ h_bounds O (hfinal O h0 ops) = bounds).
Print Assumptions C15_bucket_counts.
Check (C15_count_is_number_of_samples : forall (O : FloatOps) bounds h0 ops, hist_new O bounds = Some h0 ->
  h_count O (hfinal O h0 ops) = N.of_nat (length (all_samples O ops))).
Print Assumptions C15_count_is_number_of_samples.
Check (C15_counts_monotone_in_bound : forall (O : FloatOps),
  (forall a b c : F O, fle O a b = true -> fle O b c = true -> fle O a c = true) ->
  forall a b samples, fle O a b = true -> count_le O a samples <= count_le O b samples).
Print Assumptions C15_counts_monotone_in_bound.
Check (C15_counts_monotone_in_time : forall (O : FloatOps) b samples more,
  count_le O b samples <= count_le O b (samples ++ more)).
Print Assumptions C15_counts_monotone_in_time.
Check (C15_every_bucket_at_most_inf_bucket : forall (O : FloatOps) b samples,
  count_le O b samples <= N.of_nat (length samples)).
Print Assumptions C15_every_bucket_at_most_inf_bucket.
Check (C15_nan_in_no_bucket : forall (O : FloatOps) s samples b, (forall x, fle O s x = false) ->
  count_le O b (samples ++ [s]) = count_le O b samples).
Print Assumptions C15_nan_in_no_bucket.
Check (C15_batch_equals_single : forall (O : FloatOps),
  (forall a b c : F O, fle O a b = true -> fle O b c = true -> fle O a c = true) ->
  forall bounds h0 ops1 ops2, hist_new O bounds = Some h0 -> ascending O bounds = true ->
  all_samples O ops1 = all_samples O ops2 ->
  h_buckets O (hfinal O h0 ops1) = h_buckets O (hfinal O h0 ops2)
  /\ h_count O (hfinal O h0 ops1) = h_count O (hfinal O h0 ops2)).
Print Assumptions C15_batch_equals_single.
Check (C15_spec_ok_on_model_partial : forall (O : FloatOps),
  (forall a b c : F O, fle O a b = true -> fle O b c = true -> fle O a c = true) ->
  (forall a : F O, fsame O a a = true) ->
  forall bounds ops, gspec_ok O (CHist O bounds ops) (grun_case O (CHist O bounds ops)) = true).
Print Assumptions C15_spec_ok_on_model_partial.
Check (C15_spec_ok_sound_hist : forall (O : FloatOps) bounds done cs cnt sm,
  snap_ok O bounds done (cs, cnt, sm) = true ->
  cnt = N.of_nat (length (all_samples O done))
  /\ fsame O sm (spec_sum O done) = true
  /\ (ascending O bounds = true -> cs = map (fun b => count_le O b (all_samples O done)) bounds)).
Print Assumptions C15_spec_ok_sound_hist.
Check (C15_override_precedence_partial : forall (O : FloatOps) fixed san global ovs name,
  match get_distribution O (db_new O fixed san global ovs) name with
  | Some b =>
      (exists m, In (m, b) (held O fixed san ovs) /\ matches fixed m name = true /\
                 forall x, In x (held O fixed san ovs) -> matches fixed (fst x) name = true ->
                           mrank (fst m) <= mrank (fst (fst x)))
      \/ ((forall x, In x (held O fixed san ovs) -> matches fixed (fst x) name = false) /\ global = Some b)
  | None => (forall x, In x (held O fixed san ovs) -> matches fixed (fst x) name = false) /\ global = None
  end).
Print Assumptions C15_override_precedence_partial.
Check (C15_type_histogram_iff_distribution_histogram : forall (O : FloatOps) (d : dbuilder O) name,
  get_distribution_type O d name = true <-> get_distribution O d name <> None).
Print Assumptions C15_type_histogram_iff_distribution_histogram.
Check (C15_matcher_sound_prefix : forall fixed p r,
  matches fixed (matcher_sanitized fixed (MPrefix, p)) (sanitize_name (p ++ r)) = true).
Print Assumptions C15_matcher_sound_prefix.
Check (C15_matcher_sound_full : forall fixed n,
  matches fixed (matcher_sanitized fixed (MFull, n)) (sanitize_name n) = true).
Print Assumptions C15_matcher_sound_full.
Check (C15_matcher_sound_suffix_partial : forall pre p, pre <> [] ->
  matches true (matcher_sanitized true (MSuffix, p)) (sanitize_name (pre ++ p)) = true).
Print Assumptions C15_matcher_sound_suffix_partial.
Check (C15_matcher_suffix_refuted_before_fix : exists pre p, pre <> [] /\
  matches false (matcher_sanitized false (MSuffix, p)) (sanitize_name (pre ++ p)) = false).
Print Assumptions C15_matcher_suffix_refuted_before_fix.
Check (C15_suffix_override_refuted_before_fix : exists c : gcase ZO, (match c with CDist _ fixed _ _ _ _ => fixed = false | _ => False end)
                       /\ gspec_ok ZO c (grun_case ZO c) = false).
Print Assumptions C15_suffix_override_refuted_before_fix.
Check (C15_window_count_counts_all : forall (O : FloatOps) ops r,
  r_count O (rfinal O r ops) = r_count O r + adds O ops).
Print Assumptions C15_window_count_counts_all.
Check (C15_window_snapshot_merges_unexpired_partial : forall (O : FloatOps) (r : rsum O) now v,
  In v (rs_snapshot O r now) <->
  exists b, In b (r_buckets O r) /\ In v (rb_vals O b) /\
            (r_maxdur O r <= now -> now - r_maxdur O r < rb_begin O b)).
Print Assumptions C15_window_snapshot_merges_unexpired_partial.
Check (C15_window_new_bucket_covers_sample_partial : forall dur reftime now, 0 < dur -> reftime <= now ->
  next_begin dur reftime now <= now /\ now < next_begin dur reftime now + dur).
Print Assumptions C15_window_new_bucket_covers_sample_partial.
Check (C15_hypotheses_satisfiable : (forall a b c : F ZO, fle ZO a b = true -> fle ZO b c = true -> fle ZO a c = true)
  /\ (forall a : F ZO, fsame ZO a a = true)
  /\ (forall x : F ZO, fle ZO None x = false)).
Print Assumptions C15_hypotheses_satisfiable.
