From Coq Require Import List NArith Bool.
Import ListNotations.
Require Import MV.C15.Model MV.C15.Spec MV.C15.Exec.
Open Scope N_scope.
Require Import MV.C15.Properties.

Check (C15_placeholder : True).
Print Assumptions C15_placeholder.
