From Coq Require Import List NArith Bool.
Import ListNotations.
Require Import MV.C15.Model MV.C15.Spec MV.C15.Exec MV.C15.ProofsHist MV.C15.ProofsDist MV.C15.ProofsRoll MV.C15.ProofsPrec MV.C15.ExecProofs.
Open Scope N_scope.
Require Import MV.C15.Properties.

Check (C15_bucket_counts : forall (O : FloatOps),
  (forall a b c : F O, fle O a b = true -> fle O b c = true -> fle O a c = true) ->
  forall bounds h0 ops, hist_new O bounds = Some h0 -> ascending O bounds = true ->
  h_buckets O (hfinal O h0 ops) = map (fun b => count_le O b (all_samples O ops)) bounds
  /\ h_count O (hfinal O h0 ops) = N.of_nat (length (all_samples O ops))
  /\ h_bounds O (hfinal O h0 ops) = bounds).
Print Assumptions C15_bucket_counts.
Check (C15_count_is_number_of_samples : forall (O : FloatOps) bounds h0 ops, hist_new O bounds = Some h0 ->
  h_count O (hfinal O h0 ops) = N.of_nat (length (all_samples O ops))).
Print Assumptions C15_count_is_number_of_samples.
Check (C15_counts_monotone_in_bound : forall (O : FloatOps),
  (forall a b c : F O, fle O a b = true -> fle O b c = true -> fle O a c = true) ->
  forall a b samples, fle O a b = true -> count_le O a samples <= count_le O b samples).
Print Assumptions C15_counts_monotone_in_bound.
Check (C15_counts_monotone_in_time : forall (O : FloatOps) b samples more,
  count_le O b samples <= count_le O b (samples ++ more)).
Print Assumptions C15_counts_monotone_in_time.
Check (C15_every_bucket_at_most_inf_bucket : forall (O : FloatOps) b samples,
  count_le O b samples <= N.of_nat (length samples)).
Print Assumptions C15_every_bucket_at_most_inf_bucket.
Check (C15_nan_in_no_bucket : forall (O : FloatOps) s samples b, (forall x, fle O s x = false) ->
  count_le O b (samples ++ [s]) = count_le O b samples).
Print Assumptions C15_nan_in_no_bucket.
Check (C15_batch_equals_single : forall (O : FloatOps),
  (forall a b c : F O, fle O a b = true -> fle O b c = true -> fle O a c = true) ->
  forall bounds h0 ops1 ops2, hist_new O bounds = Some h0 -> ascending O bounds = true ->
  all_samples O ops1 = all_samples O ops2 ->
  h_buckets O (hfinal O h0 ops1) = h_buckets O (hfinal O h0 ops2)
  /\ h_count O (hfinal O h0 ops1) = h_count O (hfinal O h0 ops2)).
Print Assumptions C15_batch_equals_single.
Check (C15_spec_ok_on_model : forall (O : FloatOps),
  (forall a b c : F O, fle O a b = true -> fle O b c = true -> fle O a c = true) ->
  (forall a : F O, fsame O a a = true) ->
  forall c, gwf O c = true -> gspec_ok O c (grun_case O c) = true).
Print Assumptions C15_spec_ok_on_model.
Check (C15_spec_ok_sound_dist : forall (O : FloatOps) fixed san global name ovs usfx unit ty d fam,
  gspec_ok O (CDist O fixed san global name ovs usfx unit) (ODist O ty d fam) = true ->
  optb_same O d (spec_choice O san global name ovs) = true
  /\ (ty = true <-> spec_choice O san global name ovs <> None)
  /\ (ty = true <-> d <> None)).
Print Assumptions C15_spec_ok_sound_dist.
Check (C15_exposed_as_histogram_iff_buckets_apply : forall (O : FloatOps) san global name ovs usfx unit,
  let '(fam, ty, dist) := render_family O (db_new O true san global ovs) usfx unit (eff_key san name) in
  dist = spec_choice O san global name ovs
  /\ (ty = true <-> spec_choice O san global name ovs <> None)
  /\ (ty = true <-> dist <> None)
  /\ fam = family_name usfx unit (eff_key san name)).
Print Assumptions C15_exposed_as_histogram_iff_buckets_apply.
Check (C15_spec_ok_sound_hist : forall (O : FloatOps) bounds done cs cnt sm,
  snap_ok O bounds done (cs, cnt, sm) = true ->
  cnt = N.of_nat (length (all_samples O done))
  /\ fsame O sm (spec_sum O done) = true
  /\ (ascending O bounds = true -> cs = map (fun b => count_le O b (all_samples O done)) bounds)).
Print Assumptions C15_spec_ok_sound_hist.
Check (C15_override_model_meets_spec : forall (O : FloatOps) san global name ovs,
  get_distribution O (db_new O true san global ovs) (eff_key san name) = spec_choice O san global name ovs).
Print Assumptions C15_override_model_meets_spec.
Check (C15_override_precedence : forall (O : FloatOps) san global name ovs,
  let d := get_distribution O (db_new O true san global ovs) (eff_key san name) in
  ((exists o, In o ovs /\ applies san (fst o) name = true) ->
     exists o, In o ovs /\ applies san (fst o) name = true
               /\ (forall o', In o' ovs -> applies san (fst o') name = true ->
                     matcher_cmp (eff_matcher san (fst o)) (eff_matcher san (fst o')) <> Gt)
               /\ d = last_bounds O san (eff_matcher san (fst o)) ovs
               /\ d <> None)
  /\ ((forall o, In o ovs -> applies san (fst o) name = false) -> d = global)).
Print Assumptions C15_override_precedence.
Check (C15_matches_is_applies : forall san m name,
  matches true (eff_matcher san m) (eff_key san name) = applies san m name).
Print Assumptions C15_matches_is_applies.
Check (C15_type_histogram_iff_distribution_histogram : forall (O : FloatOps) (d : dbuilder O) name,
  get_distribution_type O d name = true <-> get_distribution O d name <> None).
Print Assumptions C15_type_histogram_iff_distribution_histogram.
Check (C15_matcher_sound_prefix : forall fixed p r,
  matches fixed (matcher_sanitized fixed (MPrefix, p)) (sanitize_name (p ++ r)) = true).
Print Assumptions C15_matcher_sound_prefix.
Check (C15_matcher_sound_full : forall fixed n,
  matches fixed (matcher_sanitized fixed (MFull, n)) (sanitize_name n) = true).
Print Assumptions C15_matcher_sound_full.
Check (C15_matcher_sound_suffix : forall pre p,
  matches true (matcher_sanitized true (MSuffix, p)) (sanitize_name (pre ++ p)) = true).
Print Assumptions C15_matcher_sound_suffix.
Check (C15_matcher_suffix_refuted_before_fix : exists pre p, pre <> [] /\
  matches false (matcher_sanitized false (MSuffix, p)) (sanitize_name (pre ++ p)) = false).
Print Assumptions C15_matcher_suffix_refuted_before_fix.
Check (C15_suffix_override_refuted_before_fix : exists c : gcase ZO, (match c with CDist _ fixed _ _ _ _ _ _ => fixed = false | _ => False end)
                       /\ gspec_ok ZO c (grun_case ZO c) = false).
Print Assumptions C15_suffix_override_refuted_before_fix.
Check (C15_window : forall (O : FloatOps) (n dur : N), 0 < n -> 0 < dur ->
  forall (hist : list (N * F O)) (now : N),
  nondecr O 0 hist -> last_time O 0 hist <= now ->
  let r := radd_all O (rs_new O n dur) hist in
  (forall v, In v (rs_snapshot O r now) ->
     exists t, In (t, v) hist /\ fisinf O v = false /\ (dur * n <= now -> now - dur * n < t))
  /\ (forall t v, In (t, v) hist -> fisinf O v = false -> now + dur <= t + dur * n -> In v (rs_snapshot O r now))
  /\ (length (must_hold O dur (dur * n) now hist) <= length (rs_snapshot O r now))%nat
  /\ (length (rs_snapshot O r now) <= length (may_hold O (dur * n) now hist))%nat
  /\ r_count O r = N.of_nat (length hist)
  /\ N.of_nat (length (r_buckets O r)) <= n
  /\ descN dur (begins O (r_buckets O r))).
Print Assumptions C15_window.
Check (C15_window_truncate_never_evicts : forall (O : FloatOps) (n dur : N), 0 < n -> 0 < dur ->
  forall (hist : list (N * F O)) (now : N) (v : F O),
  nondecr O 0 hist -> last_time O 0 hist <= now ->
  let r := radd_all O (rs_new O n dur) hist in
  try_add O (r_dur O r) v now (r_buckets O r) = None ->
  let kept := filter (unexpired O (r_maxdur O r) now) (r_buckets O r) in
  firstn (N.to_nat (r_max O r - 1)) kept = kept).
Print Assumptions C15_window_truncate_never_evicts.
Check (C15_window_invariant : forall (O : FloatOps) (n dur : N), 0 < n -> 0 < dur ->
  forall l past la r, params_ok O n dur r -> WInv O n dur past la (r_buckets O r) -> nondecr O la l ->
  params_ok O n dur (radd_all O r l) /\ WInv O n dur (past ++ l) (last_time O la l) (r_buckets O (radd_all O r l))).
Print Assumptions C15_window_invariant.
Check (C15_window_count_counts_all : forall (O : FloatOps) ops r,
  r_count O (rfinal O r ops) = r_count O r + adds O ops).
Print Assumptions C15_window_count_counts_all.
Check (C15_summary_sum_covers_all : forall (O : FloatOps) ops r,
  r_sum O (rfinal O r ops) = fold_left (fadd O) (add_values O ops) (r_sum O r)).
Print Assumptions C15_summary_sum_covers_all.
Check (C15_summary_snapshot_reports_lifetime_count_and_sum : forall (O : FloatOps) (r : rsum O) t,
  exists sc mn mx qs, rstep O r (RSnap O t) = (r, OSnap O (r_count O r) (r_sum O r) sc mn mx qs)).
Print Assumptions C15_summary_snapshot_reports_lifetime_count_and_sum.
Check (C15_window_snapshot_merges_unexpired : forall (O : FloatOps) (r : rsum O) now v,
  In v (rs_snapshot O r now) <->
  exists b, In b (r_buckets O r) /\ In v (rb_vals O b) /\
            (r_maxdur O r <= now -> now - r_maxdur O r < rb_begin O b)).
Print Assumptions C15_window_snapshot_merges_unexpired.
Check (C15_window_new_bucket_covers_sample : forall dur reftime now, 0 < dur -> reftime <= now ->
  next_begin dur reftime now <= now /\ now < next_begin dur reftime now + dur).
Print Assumptions C15_window_new_bucket_covers_sample.
Check (C15_quantile_label_shape : forall fc fd,
  ~ In 46 (qlabel fc fd)
  /\ (qlabel fc fd = [109; 105; 110] \/ qlabel fc fd = [109; 97; 120] \/ exists r, qlabel fc fd = 112 :: r)).
Print Assumptions C15_quantile_label_shape.
Check (C15_hypotheses_satisfiable : (forall a b c : F ZO, fle ZO a b = true -> fle ZO b c = true -> fle ZO a c = true)
  /\ (forall a : F ZO, fsame ZO a a = true)
  /\ (forall x : F ZO, fle ZO None x = false)).
Print Assumptions C15_hypotheses_satisfiable.
