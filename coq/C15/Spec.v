(* C15 — the property, written without the mechanisms of the code (no per-bound counters, no
   first-match + prefix sums, no sorting, no time-aligned buckets):

   (1) histogram: the count reported for a bound b is the number of samples s recorded so far
       with  s <= b ; count() is the number of samples; sum() is the samples added in the code's
       own association order (one + per single sample, one inner sum per batch);
   (2) overrides: among the configured overrides (an equal matcher configured twice keeps the
       last bounds) that APPLY to the name, the least one in the order Full < Prefix < Suffix,
       then by pattern, decides; otherwise the global buckets; otherwise a summary.  APPLY is
       defined on the sanitised name: full = equal, prefix = is a prefix, suffix = the name ends
       with the pattern sanitised in place (non-initial rule), or is the whole sanitised pattern;
   (3) rolling summary: count and sum cover every sample ever added; for non-decreasing
       timestamps a snapshot at [now] holds only samples newer than now - n*dur, holds every
       sample at least as new as now - n*dur + dur, and every rendered quantile lies within the
       relative error of [min, max] of what it holds; 0 when it holds nothing.                  *)
From Coq Require Import List NArith Bool.
Import ListNotations.
Require Import MV.C15.Model.
Open Scope N_scope.

(* ---------------------------------------------------------------- (2) float-free: application *)
Fixpoint is_prefix (p key : list N) : bool :=
  match p, key with
  | [], _ => true
  | x :: p', y :: k' => (x =? y) && is_prefix p' k'
  | _, _ => false
  end.
Fixpoint is_suffix (key s : list N) : bool :=
  str_eqb key s || match key with [] => false | _ :: r => is_suffix r s end.

(* a pattern sanitised as the tail of a name: every character under the non-initial rule *)
Definition sanitize_tail (s : list N) : list N := map (fun c => if valid_char c then c else 95) s.

(* does the override pattern (k, p), given raw, apply to the raw metric name, in the exporter
   (both are sanitised) *)
Definition applies_raw (k : mkind) (p name : list N) : bool :=
  let key := sanitize_name name in
  match k with
  | MFull => str_eqb key (sanitize_name p)
  | MPrefix => is_prefix (sanitize_name p) key
  | MSuffix => is_suffix key (sanitize_tail p) || str_eqb key (sanitize_name p)
  end.

(* Matcher::matches on an already sanitised key and pattern (DistributionBuilder used directly) *)
Definition applies_key (k : mkind) (p key : list N) : bool :=
  match k with
  | MFull => str_eqb key p
  | MPrefix => is_prefix p key
  | MSuffix => is_suffix key p || ((utf8_len key =? utf8_len p) && str_eqb key (sanitize_name p))
  end.

(* the matcher an override is filed under *)
Definition eff_matcher (san : bool) (m : matcher) : matcher :=
  if san then (match fst m with MSuffix => (MSuffix, sanitize_tail (snd m)) | k => (k, sanitize_name (snd m)) end)
  else m.

Definition m_lt (a b : matcher) : bool := match matcher_cmp a b with Lt => true | _ => false end.
Fixpoint least (l : list matcher) : option matcher :=
  match l with
  | [] => None
  | m :: r => match least r with
              | None => Some m
              | Some m' => if m_lt m' m then Some m' else Some m
              end
  end.

Section WithFloats.
Variable O : FloatOps.
Notation Fl := (F O).

(* ------------------------------------------------------------------------------ (1) histogram *)
Definition samples_of (o : hop O) : list Fl := match o with HRec _ s => [s] | HMany _ l => l end.
Definition all_samples (ops : list (hop O)) : list Fl := flat_map samples_of ops.
Definition count_le (b : Fl) (samples : list Fl) : N :=
  N.of_nat (length (filter (fun s => fle O s b) samples)).

Fixpoint ascending (bs : list Fl) : bool :=
  match bs with
  | a :: ((b :: _) as r) => fle O a b && ascending r
  | _ => true
  end.

Definition spec_sum (ops : list (hop O)) : Fl :=
  fold_left (fun acc o => match o with
                          | HRec _ s => fadd O acc s
                          | HMany _ l => fadd O acc (fold_left (fadd O) l (fzero O))
                          end) ops (fzero O).

Fixpoint list_eqb {A} (e : A -> A -> bool) (a b : list A) : bool :=
  match a, b with
  | [], [] => true
  | x :: r, y :: r' => e x y && list_eqb e r r'
  | _, _ => false
  end.

(* one observed snapshot against the operations performed so far *)
Definition snap_ok (bounds : list Fl) (done : list (hop O)) (s : hsnap O) : bool :=
  let '(cs, cnt, sm) := s in
  (cnt =? N.of_nat (length (all_samples done)))
  && fsame O sm (spec_sum done)
  && (N.of_nat (length cs) =? N.of_nat (length bounds))
  && (if ascending bounds then list_eqb N.eqb cs (map (fun b => count_le b (all_samples done)) bounds) else true).

Fixpoint snaps_ok (bounds : list Fl) (done todo : list (hop O)) (snaps : list (hsnap O)) : bool :=
  match todo, snaps with
  | [], [] => true
  | o :: r, s :: rs => snap_ok bounds (done ++ [o]) s && snaps_ok bounds (done ++ [o]) r rs
  | _, _ => false
  end.

(* ------------------------------------------------------------------------------ (2) overrides *)
Definition applies (san : bool) (m : matcher) (name : list N) : bool :=
  if san then applies_raw (fst m) (snd m) name else applies_key (fst m) (snd m) name.

(* bounds filed under matcher [em]: those of the last override whose effective matcher is [em] *)
Fixpoint last_bounds (san : bool) (em : matcher) (ovs : list (override O)) : option (list Fl) :=
  match ovs with
  | [] => None
  | o :: r => match last_bounds san em r with
              | Some b => Some b
              | None => if matcher_eqb (eff_matcher san (fst o)) em then Some (snd o) else None
              end
  end.

Definition spec_choice (san : bool) (global : option (list Fl)) (name : list N) (ovs : list (override O))
  : option (list Fl) :=
  let cands := map (fun o => eff_matcher san (fst o)) (filter (fun o => applies san (fst o) name) ovs) in
  match least cands with
  | Some em => last_bounds san em ovs
  | None => global
  end.

(* ------------------------------------------------------------------------- (3) rolling window *)
Record rspec := { sp_past : list (N * Fl); sp_last : N; sp_mono : bool; sp_count : N; sp_sum : Fl }.
Definition rspec0 : rspec := {| sp_past := []; sp_last := 0; sp_mono := true; sp_count := 0; sp_sum := fzero O |}.

Definition finite_vals (l : list (N * Fl)) : list Fl :=
  map snd (filter (fun tv => negb (fisinf O (snd tv))) l).
(* samples that may be in a snapshot at [now]: newer than now - n*dur *)
Definition may_hold (maxdur now : N) (past : list (N * Fl)) : list Fl :=
  finite_vals (filter (fun tv => if maxdur <=? now then now - maxdur <? fst tv else true) past).
(* samples that must be in it: at least as new as now - n*dur + dur *)
Definition must_hold (dur maxdur now : N) (past : list (N * Fl)) : list Fl :=
  finite_vals (filter (fun tv => now + dur <=? fst tv + maxdur) past).

Definition smin (l : list Fl) : Fl := fold_left (fun m v => if fle O v m && negb (fle O m v) then v else m) l (fpinf O).
Definition smax (l : list Fl) : Fl := fold_left (fun m v => if fle O m v && negb (fle O v m) then v else m) l (fninf O).

(* [mn], [mx] (the sketch's own idea of min and max) are observed but nothing is claimed about them *)
Definition window_ok (dur maxdur now : N) (past : list (N * Fl)) (scount : N) (mn mx : Fl) (qs : list Fl) : bool :=
  let may := may_hold maxdur now past in
  let must := must_hold dur maxdur now past in
  (N.of_nat (length must) <=? scount) && (scount <=? N.of_nat (length may))
  && (if scount =? 0
      then forallb (fun q => fsame O q (fzero O)) qs
      else forallb (fun q => fwithin O q (smin may) (smax may)) qs).

(* the rendered quantiles alone (the snapshot's own count is not visible through the exporter): all 0 when
   nothing may be held; within the window's [min, max] when something must be held; either when the snapshot may
   or may not be empty *)
Definition window_q_ok (dur maxdur now : N) (past : list (N * Fl)) (qs : list Fl) : bool :=
  let may := may_hold maxdur now past in
  let must := must_hold dur maxdur now past in
  let zero := forallb (fun q => fsame O q (fzero O)) qs in
  let within := forallb (fun q => fwithin O q (smin may) (smax may)) qs in
  match may, must with
  | [], _ => zero
  | _ :: _, [] => zero || within
  | _ :: _, _ :: _ => within
  end.

Definition rspec_step (n dur : N) (s : rspec) (o : rop O) (x : rout O) : option rspec :=
  match o, x with
  | RAdd _ t v, OAdd _ c =>
      if c =? sp_count s + 1
      then Some {| sp_past := sp_past s ++ [(t, v)]; sp_last := t; sp_mono := sp_mono s && (sp_last s <=? t);
                   sp_count := sp_count s + 1; sp_sum := fadd O (sp_sum s) v |}
      else None
  | RSnap _ t, OSnap _ c sm sc mn mx qs =>
      let mono := sp_mono s && (sp_last s <=? t) in
      if (c =? sp_count s) && fsame O sm (sp_sum s)
         && (if mono then window_ok dur (dur * n) t (sp_past s) sc mn mx qs else true)
      then Some {| sp_past := sp_past s; sp_last := t; sp_mono := mono; sp_count := sp_count s; sp_sum := sp_sum s |}
      else None
  (* through the exporter: _count = number of samples ever recorded and _sum = their sum, regardless of the
     window; the quantiles come from the window only *)
  | RAdd _ t v, OAck _ =>
      Some {| sp_past := sp_past s ++ [(t, v)]; sp_last := t; sp_mono := sp_mono s && (sp_last s <=? t);
              sp_count := sp_count s + 1; sp_sum := fadd O (sp_sum s) v |}
  | RSnap _ t, ORen _ c sm qs =>
      let mono := sp_mono s && (sp_last s <=? t) in
      if (c =? sp_count s) && fsame O sm (sp_sum s)
         && (if mono then window_q_ok dur (dur * n) t (sp_past s) qs else true)
      then Some {| sp_past := sp_past s; sp_last := t; sp_mono := mono; sp_count := sp_count s; sp_sum := sp_sum s |}
      else None
  | _, _ => None
  end.

Fixpoint rspec_run (n dur : N) (s : rspec) (ops : list (rop O)) (outs : list (rout O)) : bool :=
  match ops, outs with
  | [], [] => true
  | o :: r, x :: xs => match rspec_step n dur s o x with Some s' => rspec_run n dur s' r xs | None => false end
  | _, _ => false
  end.

(* ------------------------------------------------------------------------- (4) quantile labels *)
(* value: the quantile clamped to [0, 1] (NaN -> 0); label: "min" for 0, "max" for 1, otherwise "p"
   followed by the characters of the Display rendering [fd] of value*100 without the dot *)
Definition fnum_eq (a b : Fl) : bool := fle O a b && fle O b a.
Definition quant_ok (q v : Fl) (label fd : list N) : bool :=
  (if negb (fle O q q) then fnum_eq v (fzero O)
   else if fle O q (fzero O) then fnum_eq v (fzero O)
   else if fle O (fone O) q then fnum_eq v (fone O)
   else fsame O v q)
  && (if fnum_eq v (fzero O) then str_eqb label [109; 105; 110]
      else if fnum_eq v (fone O) then str_eqb label [109; 97; 120]
      else str_eqb label (112 :: filter (fun c => negb (c =? 46)) fd)
           && negb (existsb (fun c => c =? 46) label)).

End WithFloats.
