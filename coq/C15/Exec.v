(* C15 — executable entry points used by the correspondence check (cases.v).
   The generic part (any FloatOps) is what the theorems are about; the instance [PF] evaluates it
   on Coq's primitive binary64 floats (native under vm_compute, bit-exact with Rust's f64).      *)
From Coq Require Import List NArith ZArith Bool Floats.
Import ListNotations.
Require Export MV.C15.F64 MV.C15.Model MV.C15.Spec.
Open Scope N_scope.

Section Generic.
Variable O : FloatOps.
Notation Fl := (F O).

Inductive gcase :=
| CHist (bounds : list Fl) (ops : list (hop O))
| CDist (fixed san : bool) (global : option (list Fl)) (name : list N) (ovs : list (override O))
        (usfx : bool) (unit : option (list N))   (* set_enable_unit_suffix; unit the family is described with *)
| CRoll (n dur : N) (ops : list (rop O))
| CQuant (q : Fl) (fc fd : list N).             (* fc, fd: Display renderings of clamped, clamped*100 (oracle) *)

Inductive gout :=
| OHistNone                                              (* Histogram::new returned None *)
| OHist (bounds : list Fl) (snaps : list (hsnap O))      (* bounds echoed by buckets(); one snapshot per op *)
| ODist (ty : bool) (d : option (list Fl)) (fam : list N) (* TYPE line says histogram; series rendered; TYPE-line name *)
| ORoll (l : list (rout O))
| OQuant (v : Fl) (label fc fd : list N)                 (* value(), label(), and the two renderings *)
| OPanic.

Definition grun_case (c : gcase) : gout :=
  match c with
  | CHist bounds ops => match hist_new O bounds with
                        | None => OHistNone
                        | Some h => OHist (h_bounds O h) (hrun O h ops)
                        end
  | CDist fixed san global name ovs usfx unit =>
      let d := db_new O fixed san global ovs in
      let key := if san then sanitize_name name else name in
      let '(fam, ty, dist) := render_family O d usfx unit key in
      ODist ty dist fam
  | CRoll n dur ops => ORoll (rrun O (rs_new O n dur) ops)
  | CQuant q fc fd => let '(v, l) := qnew O q fc fd in OQuant v l fc fd
  end.

Definition fl_list_same (a b : list Fl) : bool := list_eqb (fsame O) a b.
Definition hsnap_same (a b : hsnap O) : bool :=
  let '(c1, n1, s1) := a in let '(c2, n2, s2) := b in
  list_eqb N.eqb c1 c2 && (n1 =? n2) && fsame O s1 s2.
Definition optb_same (a b : option (list Fl)) : bool :=
  match a, b with
  | None, None => true
  | Some x, Some y => fl_list_same x y
  | _, _ => false
  end.
(* conformance of an observed output [b] to the model's output [a].  The quantile values are not
   modelled (the sketch is abstract): the model reports min and max of the multiset it retains and an
   empty quantile list, the observation carries the rendered quantiles, which must be 0 for an empty
   snapshot and otherwise lie within the relative error of the model's [min, max].  The sketch's own
   min()/max() are observed but not compared. *)
Definition rout_same (a b : rout O) : bool :=
  match a, b with
  | OAdd _ c, OAdd _ c' => c =? c'
  | OSnap _ c s sc mn mx _, OSnap _ c' s' sc' _ _ qs =>
      (c =? c') && fsame O s s' && (sc =? sc')
      && (if sc =? 0 then forallb (fun q => fsame O q (fzero O)) qs
          else forallb (fun q => fwithin O q mn mx) qs)
  | OAdd _ _, OAck _ => true
  | OSnap _ c s sc mn mx _, ORen _ c' s' qs =>
      (c =? c') && fsame O s s'
      && (if sc =? 0 then forallb (fun q => fsame O q (fzero O)) qs
          else forallb (fun q => fwithin O q mn mx) qs)
  | _, _ => false
  end.

Definition gout_eqb (a b : gout) : bool :=
  match a, b with
  | OHistNone, OHistNone => true
  | OHist b1 s1, OHist b2 s2 => fl_list_same b1 b2 && list_eqb hsnap_same s1 s2
  | ODist t1 d1 f1, ODist t2 d2 f2 => Bool.eqb t1 t2 && optb_same d1 d2 && str_eqb f1 f2
  | ORoll l1, ORoll l2 => list_eqb rout_same l1 l2
  | OQuant v1 l1 c1 d1, OQuant v2 l2 c2 d2 => fsame O v1 v2 && str_eqb l1 l2 && str_eqb c1 c2 && str_eqb d1 d2
  | _, _ => false
  end.

(* the property in executable form, evaluated on an OBSERVED output *)
Definition gspec_ok (c : gcase) (o : gout) : bool :=
  match c, o with
  | CHist [] _, OHistNone => true
  | CHist (b :: bs) ops, OHist bounds snaps =>
      fl_list_same bounds (b :: bs) && snaps_ok O (b :: bs) [] ops snaps
  | CDist fixed san global name ovs _ _, ODist ty d _ =>
      (* series rendered: the buckets that apply to the METRIC name (none = quantile series) *)
      optb_same d (spec_choice O san global name ovs)
      (* TYPE line: histogram exactly when buckets apply to the METRIC name, whatever the family name is *)
      && Bool.eqb ty (match spec_choice O san global name ovs with Some _ => true | None => false end)
      (* TYPE line agrees with the kind of series rendered (_bucket/+Inf vs quantile) *)
      && Bool.eqb ty (match d with Some _ => true | None => false end)
  | CRoll n dur ops, ORoll l => rspec_run O n dur (rspec0 O) ops l
  | CQuant q _ _, OQuant v label _ fd => quant_ok O q v label fd
  | _, _ => false
  end.

(* preconditions of the property, per case kind *)
Definition gwf (c : gcase) : bool :=
  match c with
  | CHist _ _ => true
  | CDist fixed _ _ _ _ _ _ => fixed
  | CRoll n dur _ => (0 <? n) && (0 <? dur)
  | CQuant _ _ _ => false      (* differential only: the label depends on the float-formatting oracle *)
  end.

End Generic.

(* -------------------------------------------------------------------- the binary64 instance *)
(* 1.0001e-4: the sketch's relative accuracy 1e-4 plus 1e-8 for the rounding of its own log/exp arithmetic
   (a bin's representative can land one ulp outside v*(1 -+ 1e-4)) *)
Definition eps : float := 0x1.a378eb79354b1p-14%float.
Definition pf_within (q lo hi : float) : bool :=
  PrimFloat.leb (PrimFloat.sub lo (PrimFloat.mul eps (PrimFloat.abs lo))) q
  && PrimFloat.leb q (PrimFloat.add hi (PrimFloat.mul eps (PrimFloat.abs hi))).
Definition pf_isinf (x : float) : bool :=
  PrimFloat.eqb x PrimFloat.infinity || PrimFloat.eqb x PrimFloat.neg_infinity.

(* f64::max / f64::min (a NaN operand yields the other one; on a tie, which only matters for -0.0 against
   the constant 0.0, the constant second operand is returned — as observed on the real code) *)
Definition pf_isnan (x : float) : bool := negb (PrimFloat.eqb x x).
Definition pf_max (a b : float) : float :=
  if pf_isnan a then b else if pf_isnan b then a else if PrimFloat.ltb b a then a else b.
Definition pf_min (a b : float) : float :=
  if pf_isnan a then b else if pf_isnan b then a else if PrimFloat.ltb a b then a else b.
Definition pf_clamp01 (q : float) : float := pf_min (pf_max q PrimFloat.zero) PrimFloat.one.

Definition PF : FloatOps :=
  {| F := float; fle := PrimFloat.leb; fadd := PrimFloat.add; fzero := PrimFloat.zero; fone := PrimFloat.one;
     fclamp01 := pf_clamp01;
     fpinf := PrimFloat.infinity; fninf := PrimFloat.neg_infinity; fisinf := pf_isinf;
     fwithin := pf_within; fsame := f64_same |}.

Definition case := gcase PF.
Definition out := gout PF.
Definition run_case : case -> out := grun_case PF.
Definition out_eqb : out -> out -> bool := gout_eqb PF.
Definition spec_ok : case -> out -> bool := gspec_ok PF.
Definition known_class (c : case) : option N := None.

Definition verdicts (l : list (N * case * out)) : list (N * bool * bool * option N) :=
  map (fun '(i, c, o) => (i, out_eqb (run_case c) o, spec_ok c o, known_class c)) l.

(* constructors at the instance, for cases.v *)
Definition chist (b : list float) (ops : list (hop PF)) : case := CHist PF b ops.
Definition cdist (fixed san : bool) (g : option (list float)) (name : list N) (ovs : list (matcher * list float))
  (usfx : bool) (unit : option (list N)) : case :=
  CDist PF fixed san g name ovs usfx unit.
Definition croll (n dur : N) (ops : list (rop PF)) : case := CRoll PF n dur ops.
Definition hrec (s : float) : hop PF := HRec PF s.
Definition hmany (l : list float) : hop PF := HMany PF l.
Definition radd (t : N) (v : float) : rop PF := RAdd PF t v.
Definition rsnap (t : N) : rop PF := RSnap PF t.
Definition ohistnone : out := OHistNone PF.
Definition ohist (b : list float) (s : list (list N * N * float)) : out := OHist PF b s.
Definition odist (ty : bool) (d : option (list float)) (fam : list N) : out := ODist PF ty d fam.
Definition oroll (l : list (rout PF)) : out := ORoll PF l.
Definition opanic : out := OPanic PF.
Definition cquant (q : float) (fc fd : list N) : case := CQuant PF q fc fd.
Definition oquant (v : float) (l fc fd : list N) : out := OQuant PF v l fc fd.
Definition oack : rout PF := OAck PF.
Definition oren (c : N) (s : float) (qs : list float) : rout PF := ORen PF c s qs.
Definition oadd (c : N) : rout PF := OAdd PF c.
Definition osnap (c : N) (s : float) (sc : N) (mn mx : float) (qs : list float) : rout PF := OSnap PF c s sc mn mx qs.
