(* C15 — IEEE-754 binary64 helpers: doubles travel between the Rust driver and Coq as 64-bit patterns
   (Z); [f64] turns a pattern into a Coq primitive float, [sf_eqb] compares two floats as values of
   SpecFloat.spec_float (all NaNs are one value; +0 and -0 are different).  Nothing is axiomatised:
   the functions are evaluated by vm_compute on the kernel's native floats.                       *)
From Coq Require Import Floats ZArith Bool SpecFloat.
Open Scope Z_scope.

Definition sf_of_bits (z : Z) : spec_float :=
  let s := Z.testbit z 63 in
  let e := Z.land (Z.shiftr z 52) 2047 in
  let m := Z.land z (2^52 - 1) in
  if e =? 0 then (match m with Zpos p => S754_finite s p (-1074) | _ => S754_zero s end)
  else if e =? 2047 then (if m =? 0 then S754_infinity s else S754_nan)
  else match m + 2^52 with Zpos p => S754_finite s p (e - 1075) | _ => S754_nan end.

Definition f64 (z : Z) : float := SF2Prim (sf_of_bits z).

Definition sf_eqb (a b : spec_float) : bool :=
  match a, b with
  | S754_zero s, S754_zero s' => Bool.eqb s s'
  | S754_infinity s, S754_infinity s' => Bool.eqb s s'
  | S754_nan, S754_nan => true
  | S754_finite s m e, S754_finite s' m' e' => Bool.eqb s s' && Pos.eqb m m' && Z.eqb e e'
  | _, _ => false
  end.

(* bit-for-bit equality of two doubles (modulo NaN payloads) *)
Definition f64_same (a b : float) : bool := sf_eqb (Prim2SF a) (Prim2SF b).

Lemma sf_eqb_refl a : sf_eqb a a = true.
Proof.
  destruct a; simpl; auto using Bool.eqb_reflx.
  rewrite Bool.eqb_reflx, Pos.eqb_refl, Z.eqb_refl. reflexivity.
Qed.

Lemma f64_same_refl a : f64_same a a = true.
Proof. apply sf_eqb_refl. Qed.
