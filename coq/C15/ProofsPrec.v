(* C15 — full override precedence: the model (HashMap insert, sort by the derived Ord, first match)
   equals the sort-free specification (least applying matcher, bounds of the last override filed
   under it); Matcher::matches = Spec.applies; whole-name suffix soundness. *)
From Coq Require Import List NArith Bool Lia.
Import ListNotations.
Require Import MV.C15.Model MV.C15.Spec MV.C15.ProofsDist.
Open Scope N_scope.

Lemma bool_eq_iff (a b : bool) : (a = true <-> b = true) -> a = b.
Proof. destruct a, b; intuition; try (symmetry; tauto). Qed.

(* ------------------------------------------------------------------------------ strings *)
Lemma starts_with_iff p : forall key, starts_with key p = true <-> exists r, key = p ++ r.
Proof.
  induction p as [|x p IH]; intros key.
  - destruct key; simpl; split; eauto.
  - destruct key as [|y k]; simpl.
    + split; [discriminate|intros [r H]; discriminate].
    + rewrite andb_true_iff, N.eqb_eq, IH. split.
      * intros [-> [r ->]]. eauto.
      * intros [r H]. injection H as -> ->. eauto.
Qed.

Lemma starts_is_prefix p : forall key, starts_with key p = is_prefix p key.
Proof.
  induction p as [|x p IH]; intros key; destruct key; simpl; auto. rewrite IH. reflexivity.
Qed.

Lemma is_suffix_iff s : forall key, is_suffix key s = true <-> exists pre, key = pre ++ s.
Proof.
  induction key as [|c r IH].
  - cbn [is_suffix]. rewrite orb_false_r. split.
    + intros H. apply str_eqb_eq in H. subst. exists []. reflexivity.
    + intros [pre H]. symmetry in H. apply app_eq_nil in H as [_ ->]. reflexivity.
  - cbn [is_suffix]. rewrite orb_true_iff, IH. split.
    + intros [H|[pre ->]]; [apply str_eqb_eq in H; subst; exists []; reflexivity|exists (c :: pre); reflexivity].
    + intros [[|c' pre] H]; [left; simpl in H; subst; apply str_eqb_refl|].
      right. injection H as -> ->. eauto.
Qed.

Lemma ends_with_is_suffix key s : ends_with key s = is_suffix key s.
Proof.
  apply bool_eq_iff. unfold ends_with. rewrite starts_with_iff, is_suffix_iff. split.
  - intros [r H]. exists (rev r). apply (f_equal (@rev N)) in H.
    rewrite rev_involutive, rev_app_distr, rev_involutive in H. exact H.
  - intros [pre ->]. exists (rev pre). apply rev_app_distr.
Qed.

Lemma valid_char_ascii c : valid_char c = true -> c < 128.
Proof.
  unfold valid_char, is_alpha, is_digit. rewrite !orb_true_iff, !andb_true_iff, !N.leb_le, !N.eqb_eq. lia.
Qed.
Lemma valid_start_ascii c : valid_start c = true -> c < 128.
Proof.
  unfold valid_start, is_alpha. rewrite !orb_true_iff, !andb_true_iff, !N.leb_le, !N.eqb_eq. lia.
Qed.
Lemma valid_start_char c : valid_start c = true -> valid_char c = true.
Proof. unfold valid_start, valid_char. rewrite !orb_true_iff. tauto. Qed.

Lemma utf8_len_ascii s : (forall c, In c s -> c < 128) -> utf8_len s = N.of_nat (length s).
Proof.
  induction s as [|c s IH]; intros H; [reflexivity|].
  cbn [utf8_len length]. rewrite IH by (intros; apply H; right; assumption).
  unfold utf8_len1. assert (c < 128) by (apply H; left; reflexivity).
  apply N.ltb_lt in H0. rewrite H0. lia.
Qed.

Lemma sanitize_tail_ascii s : forall c, In c (sanitize_tail s) -> c < 128.
Proof.
  intros c H. unfold sanitize_tail in H. apply in_map_iff in H as (x & <- & _).
  destruct (valid_char x) eqn:E; [apply valid_char_ascii; exact E|lia].
Qed.
Lemma sanitize_name_ascii s : forall c, In c (sanitize_name s) -> c < 128.
Proof.
  destruct s as [|x s]; intros c H; [destruct H|]. simpl in H. destruct H as [<-|H].
  - destruct (valid_start x) eqn:E; [apply valid_start_ascii; exact E|lia].
  - apply (sanitize_tail_ascii s). exact H.
Qed.

Lemma sanitize_tail_idem s : sanitize_tail (sanitize_tail s) = sanitize_tail s.
Proof.
  unfold sanitize_tail. rewrite map_map. apply map_ext. intros c.
  destruct (valid_char c) eqn:E; [rewrite E; reflexivity|reflexivity].
Qed.

(* the first-character rule gives the same result on a pattern and on its tail-sanitised form *)
Lemma sanitize_name_tail s : sanitize_name (sanitize_tail s) = sanitize_name s.
Proof.
  destruct s as [|c s]; [reflexivity|].
  change (sanitize_tail (c :: s)) with ((if valid_char c then c else 95) :: sanitize_tail s).
  cbn [sanitize_name]. f_equal.
  - destruct (valid_char c) eqn:E; [reflexivity|].
    destruct (valid_start c) eqn:E2; [apply valid_start_char in E2; congruence|reflexivity].
  - apply sanitize_tail_idem.
Qed.

Lemma sanitize_lengths s : length (sanitize_name s) = length (sanitize_tail s).
Proof. destruct s; simpl; unfold sanitize_tail; rewrite ?map_length; reflexivity. Qed.

(* ------------------------------------------------- whole-name suffix; full suffix soundness *)
Theorem suffix_sound_whole p :
  matches true (matcher_sanitized true (MSuffix, p)) (sanitize_name p) = true.
Proof.
  unfold matcher_sanitized, matches. cbn [fst snd].
  replace (tl (sanitize_name (95 :: p))) with (sanitize_tail p) by reflexivity.
  rewrite sanitize_name_tail, str_eqb_refl.
  rewrite (utf8_len_ascii _ (sanitize_name_ascii p)), (utf8_len_ascii _ (sanitize_tail_ascii p)).
  rewrite sanitize_lengths, N.eqb_refl. apply orb_true_r.
Qed.

Theorem suffix_sound pre p :
  matches true (matcher_sanitized true (MSuffix, p)) (sanitize_name (pre ++ p)) = true.
Proof.
  destruct pre as [|c pre]; [apply suffix_sound_whole|]. apply suffix_sound_proper. discriminate.
Qed.

(* --------------------------------------------------------------- matches = Spec.applies *)
Definition eff_key (san : bool) (name : list N) : list N := if san then sanitize_name name else name.

Lemma eff_matcher_model san m : eff_matcher san m = if san then matcher_sanitized true m else m.
Proof. destruct san, m as [[] p]; reflexivity. Qed.

Theorem matches_is_applies san m name :
  matches true (eff_matcher san m) (eff_key san name) = applies san m name.
Proof.
  destruct m as [k p]. destruct san; destruct k; unfold applies, eff_matcher, eff_key, matches; cbn [fst snd].
  - reflexivity.
  - unfold applies_raw. apply starts_is_prefix.
  - unfold applies_raw. rewrite ends_with_is_suffix, sanitize_name_tail. f_equal. cbn [andb].
    destruct (str_eqb (sanitize_name name) (sanitize_name p)) eqn:E; [|apply andb_false_r].
    apply str_eqb_eq in E. rewrite E.
    rewrite (utf8_len_ascii _ (sanitize_name_ascii p)), (utf8_len_ascii _ (sanitize_tail_ascii p)).
    rewrite sanitize_lengths, N.eqb_refl. reflexivity.
  - reflexivity.
  - unfold applies_key. apply starts_is_prefix.
  - unfold applies_key. rewrite ends_with_is_suffix. reflexivity.
Qed.

(* ------------------------------------------------ the derived Ord on Matcher is a total order *)
Lemma str_cmp_refl a : str_cmp a a = Eq.
Proof. induction a; simpl; auto. rewrite N.compare_refl. exact IHa. Qed.

Lemma str_cmp_eq a : forall b, str_cmp a b = Eq -> a = b.
Proof.
  induction a as [|x a IH]; intros [|y b] H; simpl in H; try discriminate; auto.
  destruct (x ?= y) eqn:E; try discriminate. apply N.compare_eq in E. f_equal; auto.
Qed.

Lemma str_cmp_antisym a : forall b, str_cmp b a = CompOpp (str_cmp a b).
Proof.
  induction a as [|x a IH]; intros [|y b]; simpl; auto.
  rewrite (N.compare_antisym x y). destruct (x ?= y); simpl; auto.
Qed.

Lemma str_cmp_trans a : forall b c, str_cmp a b <> Gt -> str_cmp b c <> Gt -> str_cmp a c <> Gt.
Proof.
  induction a as [|x a IH]; intros [|y b] [|z c] H1 H2; simpl in *; try congruence.
  destruct (N.compare_spec x y), (N.compare_spec y z), (N.compare_spec x z); subst;
    try congruence; try lia; eauto.
Qed.

Definition enc (m : matcher) : list N := mrank (fst m) :: snd m.
Lemma matcher_cmp_enc a b : matcher_cmp a b = str_cmp (enc a) (enc b).
Proof. reflexivity. Qed.

Lemma mrank_inj k k' : mrank k = mrank k' -> k = k'.
Proof. destruct k, k'; simpl; intros; try reflexivity; discriminate. Qed.

Lemma matcher_cmp_refl a : matcher_cmp a a = Eq.
Proof. rewrite matcher_cmp_enc. apply str_cmp_refl. Qed.
Lemma matcher_cmp_eq a b : matcher_cmp a b = Eq -> a = b.
Proof.
  rewrite matcher_cmp_enc. intros H. apply str_cmp_eq in H. unfold enc in H. injection H as H1 H2.
  destruct a, b; simpl in *. apply mrank_inj in H1. congruence.
Qed.
Lemma matcher_cmp_antisym a b : matcher_cmp b a = CompOpp (matcher_cmp a b).
Proof. rewrite !matcher_cmp_enc. apply str_cmp_antisym. Qed.
Lemma matcher_le_trans a b c : matcher_cmp a b <> Gt -> matcher_cmp b c <> Gt -> matcher_cmp a c <> Gt.
Proof. rewrite !matcher_cmp_enc. apply str_cmp_trans. Qed.
Lemma matcher_le_antisym a b : matcher_cmp a b <> Gt -> matcher_cmp b a <> Gt -> a = b.
Proof.
  intros H1 H2. rewrite (matcher_cmp_antisym a b) in H2. apply matcher_cmp_eq.
  destruct (matcher_cmp a b); simpl in *; congruence.
Qed.

Lemma matcher_eqb_eq a b : matcher_eqb a b = true <-> a = b.
Proof.
  unfold matcher_eqb. rewrite andb_true_iff, N.eqb_eq. split.
  - intros [H1 H2]. apply str_eqb_eq in H2. apply mrank_inj in H1. destruct a, b; simpl in *; congruence.
  - intros ->. split; [reflexivity|apply str_eqb_refl].
Qed.
Lemma matcher_eqb_refl a : matcher_eqb a a = true.
Proof. apply matcher_eqb_eq. reflexivity. Qed.

(* the least element of a list of matchers *)
Lemma least_none l : least l = None -> l = [].
Proof. destruct l as [|m r]; simpl; auto. destruct (least r) as [m'|]; [destruct (m_lt m' m)|]; discriminate. Qed.

Lemma least_spec l em : least l = Some em ->
  In em l /\ forall k, In k l -> matcher_cmp em k <> Gt.
Proof.
  revert em. induction l as [|m r IH]; intros em H; [discriminate|].
  simpl in H. destruct (least r) as [m'|] eqn:E.
  - destruct (IH m' eq_refl) as [Hin Hle]. unfold m_lt in H. destruct (matcher_cmp m' m) eqn:C; injection H as <-.
    + split; [left; reflexivity|]. intros k [<-|Hk]; [rewrite matcher_cmp_refl; discriminate|].
      apply (matcher_le_trans m m' k); [|apply Hle; exact Hk].
      rewrite (matcher_cmp_antisym m' m), C. discriminate.
    + split; [right; exact Hin|]. intros k [<-|Hk]; [congruence|apply Hle; exact Hk].
    + split; [left; reflexivity|]. intros k [<-|Hk]; [rewrite matcher_cmp_refl; discriminate|].
      apply (matcher_le_trans m m' k); [|apply Hle; exact Hk].
      rewrite (matcher_cmp_antisym m' m), C. discriminate.
  - injection H as <-. apply least_none in E. subst r. split; [left; reflexivity|].
    intros k [<-|[]]. rewrite matcher_cmp_refl. discriminate.
Qed.

(* ------------------------------------------------------------------------- quantile labels *)
Lemma qlabel_no_dot fc fd : ~ In 46 (qlabel fc fd).
Proof.
  unfold qlabel. destruct (str_eqb fc [48]); [intros [H|[H|[H|[]]]]; discriminate|].
  destruct (str_eqb fc [49]); [intros [H|[H|[H|[]]]]; discriminate|].
  intros [H|H]; [discriminate|]. apply filter_In in H as [_ H]. discriminate.
Qed.

Lemma qlabel_cases fc fd : qlabel fc fd = [109; 105; 110] \/ qlabel fc fd = [109; 97; 120]
  \/ exists r, qlabel fc fd = 112 :: r.
Proof.
  unfold qlabel. destruct (str_eqb fc [48]); auto. destruct (str_eqb fc [49]); auto. right. right. eauto.
Qed.

Section PrecProofs.
Variable O : FloatOps.
Notation Fl := (F O).

(* --------------------------------------------------------------- the HashMap of overrides *)
Fixpoint alookup (k : matcher) (l : list (override O)) : option (list Fl) :=
  match l with
  | [] => None
  | (k', v) :: r => if matcher_eqb k' k then Some v else alookup k r
  end.

Lemma alookup_insert k k0 v0 l :
  alookup k (hm_insert O k0 v0 l) = if matcher_eqb k0 k then Some v0 else alookup k l.
Proof.
  induction l as [|[k' v'] r IH]; simpl.
  - reflexivity.
  - destruct (matcher_eqb k0 k') eqn:E.
    + apply matcher_eqb_eq in E. subst k'. simpl. destruct (matcher_eqb k0 k); reflexivity.
    + simpl. rewrite IH. destruct (matcher_eqb k' k) eqn:E2; [|reflexivity].
      apply matcher_eqb_eq in E2. subst k'. rewrite E. reflexivity.
Qed.

Lemma keys_insert_sub k v l x : In x (map fst (hm_insert O k v l)) -> x = k \/ In x (map fst l).
Proof.
  induction l as [|[k' v'] r IH]; simpl.
  - intros [<-|[]]. left. reflexivity.
  - destruct (matcher_eqb k k'); simpl; intros [<-|H]; auto. destruct (IH H); auto.
Qed.

Lemma keys_insert_nodup k v l : NoDup (map fst l) -> NoDup (map fst (hm_insert O k v l)).
Proof.
  induction l as [|[k' v'] r IH]; simpl; intros H.
  - constructor; [intros []|constructor].
  - inversion H as [|? ? Hn Hr]; subst. destruct (matcher_eqb k k') eqn:E; simpl.
    + constructor; assumption.
    + constructor; [|apply IH; exact Hr]. intros Hin. apply keys_insert_sub in Hin as [->|Hin]; [|contradiction].
      rewrite matcher_eqb_refl in E. discriminate.
Qed.

Lemma nodup_lookup l : NoDup (map fst l) -> forall k b, In (k, b) l -> alookup k l = Some b.
Proof.
  induction l as [|[k' v'] r IH]; intros H k b Hin; [destruct Hin|].
  simpl in H. inversion H as [|? ? Hn Hr]; subst. simpl. destruct Hin as [E|Hin].
  - injection E as -> ->. rewrite matcher_eqb_refl. reflexivity.
  - destruct (matcher_eqb k' k) eqn:E; [|apply IH; assumption].
    apply matcher_eqb_eq in E. subst k'. exfalso. apply Hn. apply (in_map fst) in Hin. exact Hin.
Qed.

Lemma lookup_in k l b : alookup k l = Some b -> In (k, b) l.
Proof.
  induction l as [|[k' v'] r IH]; simpl; [discriminate|].
  destruct (matcher_eqb k' k) eqn:E; [|intros H; right; apply IH; exact H].
  apply matcher_eqb_eq in E. subst k'. intros [= ->]. left. reflexivity.
Qed.

Definition ins (san : bool) (acc : list (override O)) (o : override O) : list (override O) :=
  hm_insert O (eff_matcher san (fst o)) (snd o) acc.

Lemma fold_left_ext {A B} (f g : A -> B -> A) : (forall a b, f a b = g a b) ->
  forall l a, fold_left f l a = fold_left g l a.
Proof. intros H. induction l; intros; simpl; auto. rewrite H. apply IHl. Qed.

Lemma hm_of_fold san ovs : hm_of O true san ovs = fold_left (ins san) ovs [].
Proof.
  unfold hm_of. apply fold_left_ext. intros acc o. unfold ins. rewrite eff_matcher_model.
  destruct san; reflexivity.
Qed.

Lemma fold_lookup san k : forall ovs acc,
  alookup k (fold_left (ins san) ovs acc)
  = match last_bounds O san k ovs with Some v => Some v | None => alookup k acc end.
Proof.
  induction ovs as [|o r IH]; intros acc; [reflexivity|].
  cbn [fold_left last_bounds]. rewrite IH. destruct (last_bounds O san k r); [reflexivity|].
  unfold ins. rewrite alookup_insert. destruct (matcher_eqb (eff_matcher san (fst o)) k); reflexivity.
Qed.

Lemma fold_nodup san : forall ovs acc, NoDup (map fst acc) -> NoDup (map fst (fold_left (ins san) ovs acc)).
Proof.
  induction ovs as [|o r IH]; intros acc H; [exact H|]. cbn [fold_left]. apply IH.
  unfold ins. apply keys_insert_nodup. exact H.
Qed.

Lemma fold_keys_sub san : forall ovs acc x, In x (map fst (fold_left (ins san) ovs acc)) ->
  In x (map fst acc) \/ exists o, In o ovs /\ x = eff_matcher san (fst o).
Proof.
  induction ovs as [|o r IH]; intros acc x H; [left; exact H|]. cbn [fold_left] in H.
  apply IH in H as [H|(o' & Ho' & E)].
  - unfold ins in H. apply keys_insert_sub in H as [->|H]; [right; exists o; split; [left|]; reflexivity|left; exact H].
  - right. exists o'. split; [right; exact Ho'|exact E].
Qed.

Lemma last_bounds_some san k ovs : (exists o, In o ovs /\ eff_matcher san (fst o) = k) ->
  last_bounds O san k ovs <> None.
Proof.
  induction ovs as [|o r IH]; intros (o' & Hin & E); [destruct Hin|].
  cbn [last_bounds]. destruct (last_bounds O san k r) eqn:L; [discriminate|].
  destruct Hin as [->|Hin].
  - rewrite E, matcher_eqb_refl. discriminate.
  - exfalso. apply IH; [exists o'; auto|reflexivity].
Qed.

(* -------------------------------------------------------------------- sorting by the derived Ord *)
Fixpoint ssorted (l : list (override O)) : Prop :=
  match l with
  | [] => True
  | o :: r => (forall x, In x r -> matcher_cmp (fst o) (fst x) <> Gt) /\ ssorted r
  end.

Lemma sort_insert_ssorted o l : ssorted l -> ssorted (sort_insert O o l).
Proof.
  induction l as [|o' r IH]; intros Hs.
  - simpl. split; [intros x []|exact I].
  - destruct Hs as [H1 H2]. cbn [sort_insert]. destruct (matcher_cmp (fst o) (fst o')) eqn:E.
    + split; [|split; assumption]. intros x [<-|Hx]; [congruence|].
      apply (matcher_le_trans _ (fst o')); [congruence|apply H1; exact Hx].
    + split; [|split; assumption]. intros x [<-|Hx]; [congruence|].
      apply (matcher_le_trans _ (fst o')); [congruence|apply H1; exact Hx].
    + split; [|apply IH; exact H2]. intros x Hx. apply sort_insert_In in Hx as [->|Hx].
      * rewrite (matcher_cmp_antisym (fst o) (fst o')), E. discriminate.
      * apply H1. exact Hx.
Qed.

Lemma sort_overrides_ssorted l : ssorted (sort_overrides O l).
Proof. induction l; simpl; [exact I|]. apply sort_insert_ssorted. exact IHl. Qed.

Lemma first_match_cmp_least fixed name l : ssorted l -> forall b, first_match O fixed name l = Some b ->
  exists m, In (m, b) l /\ matches fixed m name = true /\
            forall x, In x l -> matches fixed (fst x) name = true -> matcher_cmp m (fst x) <> Gt.
Proof.
  induction l as [|[m0 b0] l IH]; intros Hs b H; simpl in H; [discriminate|].
  destruct Hs as [H1 H2]. destruct (matches fixed m0 name) eqn:E.
  - injection H as <-. exists m0. split; [left; reflexivity|]. split; [exact E|].
    intros x [<-|Hin] _; [simpl; rewrite matcher_cmp_refl; discriminate|]. apply (H1 x Hin).
  - destruct (IH H2 b H) as (m & Hin & Hm & Hleast). exists m. split; [right; exact Hin|]. split; [exact Hm|].
    intros x [<-|Hx] Hmx; [simpl in Hmx; congruence|]. apply Hleast; auto.
Qed.

(* ------------------------------------------------------------------ the model meets the spec *)
Theorem model_meets_spec san global name ovs :
  get_distribution O (db_new O true san global ovs) (eff_key san name) = spec_choice O san global name ovs.
Proof.
  unfold get_distribution, db_new, spec_choice. cbn [db_fixed db_overrides db_global].
  rewrite hm_of_fold. set (H := fold_left (ins san) ovs []).
  set (key := eff_key san name).
  set (cands := map (fun o => eff_matcher san (fst o)) (filter (fun o => applies san (fst o) name) ovs)).
  assert (F2 : NoDup (map fst H)) by (apply fold_nodup; constructor).
  assert (F3 : forall k, alookup k H = last_bounds O san k ovs).
  { intros k. unfold H. rewrite fold_lookup. destruct (last_bounds O san k ovs); reflexivity. }
  assert (F5 : forall k b, In (k, b) H -> matches true k key = true -> In k cands).
  { intros k b Hin Hm. apply (in_map fst) in Hin. cbn [fst] in Hin.
    apply fold_keys_sub in Hin as [[]|(o & Ho & ->)].
    unfold cands. apply in_map_iff. exists o. split; [reflexivity|]. apply filter_In. split; [exact Ho|].
    rewrite <- matches_is_applies. exact Hm. }
  assert (F6 : forall k, In k cands -> exists b, In (k, b) H /\ matches true k key = true).
  { intros k Hk. unfold cands in Hk. apply in_map_iff in Hk as (o & <- & Ho). apply filter_In in Ho as [Ho Ha].
    pose proof (last_bounds_some san _ ovs (ex_intro _ o (conj Ho eq_refl))) as Hl.
    rewrite <- F3 in Hl. destruct (alookup (eff_matcher san (fst o)) H) as [b|] eqn:L; [|congruence].
    exists b. split; [apply lookup_in; exact L|]. unfold key. rewrite matches_is_applies. exact Ha. }
  destruct (first_match O true key (sort_overrides O H)) as [b|] eqn:FM.
  - destruct (first_match_cmp_least _ _ _ (sort_overrides_ssorted H) _ FM) as (m & Hin & Hm & Hl).
    apply (proj1 (sort_overrides_In O _ _)) in Hin. pose proof (F5 m b Hin Hm) as Hc.
    destruct (least cands) as [em|] eqn:LC; [|apply least_none in LC; rewrite LC in Hc; destruct Hc].
    destruct (least_spec _ _ LC) as [Hem Hle].
    assert (em = m).
    { apply matcher_le_antisym; [apply Hle; exact Hc|].
      destruct (F6 em Hem) as (b' & Hb' & Hm').
      apply (Hl (em, b')); [apply (proj2 (sort_overrides_In O _ _)); exact Hb'|exact Hm']. }
    subst em. rewrite <- F3. symmetry. apply nodup_lookup; assumption.
  - destruct (least cands) as [em|] eqn:LC; [exfalso|reflexivity].
    destruct (least_spec _ _ LC) as [Hem _]. destruct (F6 em Hem) as (b' & Hb' & Hm').
    pose proof (first_match_none O true key _ FM (em, b') (proj2 (sort_overrides_In O _ _) Hb')) as Hf.
    cbn [fst] in Hf. congruence.
Qed.

(* which override wins, stated with the derived Ord on Matcher (kind Full < Prefix < Suffix, then the
   pattern in String order) *)
Theorem override_precedence_full san global name ovs :
  let d := get_distribution O (db_new O true san global ovs) (eff_key san name) in
  ((exists o, In o ovs /\ applies san (fst o) name = true) ->
     exists o, In o ovs /\ applies san (fst o) name = true
               /\ (forall o', In o' ovs -> applies san (fst o') name = true ->
                     matcher_cmp (eff_matcher san (fst o)) (eff_matcher san (fst o')) <> Gt)
               /\ d = last_bounds O san (eff_matcher san (fst o)) ovs
               /\ d <> None)
  /\ ((forall o, In o ovs -> applies san (fst o) name = false) -> d = global).
Proof.
  intros d. unfold d. rewrite model_meets_spec. unfold spec_choice.
  set (cands := map (fun o => eff_matcher san (fst o)) (filter (fun o => applies san (fst o) name) ovs)).
  split.
  - intros (o0 & Ho0 & Ha0).
    assert (Hc0 : In (eff_matcher san (fst o0)) cands)
      by (unfold cands; apply in_map_iff; exists o0; split; [reflexivity|apply filter_In; auto]).
    destruct (least cands) as [em|] eqn:LC; [|apply least_none in LC; rewrite LC in Hc0; destruct Hc0].
    destruct (least_spec _ _ LC) as [Hem Hle]. unfold cands in Hem.
    apply in_map_iff in Hem as (o & <- & Ho). apply filter_In in Ho as [Ho Ha].
    exists o. split; [exact Ho|]. split; [exact Ha|]. split; [|split; [reflexivity|]].
    + intros o' Ho' Ha'. apply Hle. unfold cands. apply in_map_iff. exists o'. split; [reflexivity|apply filter_In; auto].
    + apply last_bounds_some. exists o. auto.
  - intros Hno. replace cands with (@nil matcher); [reflexivity|]. unfold cands.
    replace (filter (fun o => applies san (fst o) name) ovs) with (@nil (override O)); [reflexivity|].
    symmetry. clear cands d. induction ovs as [|o r IH]; [reflexivity|].
    cbn [filter]. rewrite (Hno o (or_introl eq_refl)). apply IH. intros o' Ho'. apply Hno. right. exact Ho'.
Qed.

(* a histogram family is exposed as a Prometheus histogram (TYPE line and series) exactly when buckets
   apply to the METRIC name, for every unit-suffix configuration: the family name plays no role *)
Theorem exposed_iff_buckets_apply san global name ovs usfx unit :
  let '(fam, ty, dist) := render_family O (db_new O true san global ovs) usfx unit (eff_key san name) in
  dist = spec_choice O san global name ovs
  /\ (ty = true <-> spec_choice O san global name ovs <> None)
  /\ (ty = true <-> dist <> None)
  /\ fam = family_name usfx unit (eff_key san name).
Proof.
  unfold render_family.
  pose proof (type_iff_histogram O (db_new O true san global ovs) (eff_key san name)) as T.
  rewrite model_meets_spec in *. repeat split; try apply T; auto.
Qed.

End PrecProofs.
