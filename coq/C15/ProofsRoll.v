(* C15 — the RollingSummary model: invariants and the window theorem, for every history of adds
   with non-decreasing timestamps. *)
From Coq Require Import List NArith Bool Lia.
Import ListNotations.
Require Import MV.C15.Model MV.C15.Spec.
Open Scope N_scope.

Section RollProofs.
Variable O : FloatOps.
Notation Fl := (F O).
Variables n dur : N.
Hypothesis Hn : 0 < n.
Hypothesis Hd : 0 < dur.
Notation maxdur := (dur * n).

Definition coversT (b : rbucket O) (t : N) : bool := (rb_begin O b <=? t) && (t <? rb_begin O b + dur).
Definition covers (b : rbucket O) (tv : N * Fl) : bool := coversT b (fst tv).
Definition begins (bs : list (rbucket O)) : list N := map (rb_begin O) bs.

(* strictly descending, consecutive begins at least one duration apart *)
Fixpoint descN (l : list N) : Prop :=
  match l with
  | a :: ((b :: _) as r) => b + dur <= a /\ descN r
  | _ => True
  end.

Lemma descN_tail a r : descN (a :: r) -> descN r.
Proof. destruct r; simpl; tauto. Qed.

Lemma descN_below a r : descN (a :: r) -> forall x, In x r -> x + dur <= a.
Proof.
  revert a. induction r as [|b r IH]; intros a H x Hin; [destruct Hin|].
  simpl in H. destruct H as [H1 H2]. destruct Hin as [<-|Hin]; [exact H1|].
  specialize (IH b H2 x Hin). lia.
Qed.

Lemma descN_cons a l : (forall x, In x l -> x + dur <= a) -> descN l -> descN (a :: l).
Proof. destruct l as [|b l]; simpl; auto. Qed.

Lemma coversT_true b t : coversT b t = true <-> rb_begin O b <= t /\ t < rb_begin O b + dur.
Proof. unfold coversT. rewrite andb_true_iff, N.leb_le, N.ltb_lt. tauto. Qed.

Lemma coversT_false b t : coversT b t = false <-> (t < rb_begin O b \/ rb_begin O b + dur <= t).
Proof.
  unfold coversT. rewrite andb_false_iff, N.leb_gt, N.ltb_ge. tauto.
Qed.

Lemma in_begins b bs : In b bs -> In (rb_begin O b) (begins bs).
Proof. apply in_map. Qed.

(* ---- the search loop of add *)
Lemma try_add_none v now bs : descN (begins bs) -> try_add O dur v now bs = None ->
  forall b, In b bs -> coversT b now = false.
Proof.
  induction bs as [|b0 r IH]; intros Hdesc H b Hin; [destruct Hin|].
  simpl in H. destruct (rb_begin O b0 + dur <? now) eqn:E1.
  - apply N.ltb_lt in E1. apply coversT_false. right.
    destruct Hin as [<-|Hin]; [lia|].
    pose proof (descN_below _ _ Hdesc _ (in_begins _ _ Hin)). lia.
  - destruct ((rb_begin O b0 <=? now) && (now <? rb_begin O b0 + dur)) eqn:E2; [discriminate|].
    destruct (try_add O dur v now r) eqn:E3; [discriminate|].
    destruct Hin as [<-|Hin]; [exact E2|].
    apply IH; auto. exact (descN_tail _ _ Hdesc).
Qed.

Definition upd (v : Fl) (now : N) (b : rbucket O) : rbucket O :=
  if coversT b now then {| rb_begin := rb_begin O b; rb_vals := sk_add O v (rb_vals O b) |} else b.

Lemma upd_begin v now b : rb_begin O (upd v now b) = rb_begin O b.
Proof. unfold upd. destruct (coversT b now); reflexivity. Qed.

Lemma map_id_on {A} (f : A -> A) l : (forall x, In x l -> f x = x) -> map f l = l.
Proof. induction l; simpl; auto. intros H. rewrite H, IHl; auto. Qed.

Lemma try_add_some v now bs bs' : descN (begins bs) -> try_add O dur v now bs = Some bs' ->
  bs' = map (upd v now) bs /\ exists b, In b bs /\ coversT b now = true.
Proof.
  revert bs'. induction bs as [|b0 r IH]; intros bs' Hdesc H; [discriminate|].
  simpl in H. destruct (rb_begin O b0 + dur <? now) eqn:E1; [discriminate|].
  destruct ((rb_begin O b0 <=? now) && (now <? rb_begin O b0 + dur)) eqn:E2.
  - injection H as <-. split.
    + cbn [map]. replace (upd v now b0) with {| rb_begin := rb_begin O b0; rb_vals := sk_add O v (rb_vals O b0) |}
        by (unfold upd, coversT; rewrite E2; reflexivity).
      f_equal. symmetry. apply map_id_on. intros x Hx. unfold upd.
      assert (coversT x now = false) as ->; [|reflexivity].
      apply coversT_false. right.
      pose proof (descN_below _ _ Hdesc _ (in_begins _ _ Hx)).
      apply andb_prop in E2 as [E2 _]. apply N.leb_le in E2. lia.
    + exists b0. split; [left; reflexivity|exact E2].
  - destruct (try_add O dur v now r) as [r'|] eqn:E3; [|discriminate]. injection H as <-.
    destruct (IH r' (descN_tail _ _ Hdesc) eq_refl) as [-> (b & Hb & Hc)]. split.
    + cbn [map]. replace (upd v now b0) with b0 by (unfold upd, coversT; rewrite E2; reflexivity). reflexivity.
    + exists b. split; [right; exact Hb|exact Hc].
Qed.

Lemma begins_upd v now bs : begins (map (upd v now) bs) = begins bs.
Proof. unfold begins. rewrite map_map. apply map_ext. intros. apply upd_begin. Qed.

(* ---- retain / snapshot filter *)
Lemma unexpired_true now b : unexpired O maxdur now b = true <-> (maxdur <= now -> now - maxdur < rb_begin O b).
Proof.
  unfold unexpired. destruct (maxdur <=? now) eqn:E.
  - apply N.leb_le in E. rewrite N.ltb_lt. tauto.
  - apply N.leb_gt in E. split; auto. intros _ H. lia.
Qed.

Lemma filter_nil {A} (p : A -> bool) l : (forall x, In x l -> p x = false) -> filter p l = [].
Proof. induction l; simpl; auto. intros H. rewrite H by auto. apply IHl. auto. Qed.

Lemma descN_filter (p : rbucket O -> bool) bs : descN (begins bs) -> descN (begins (filter p bs)).
Proof.
  induction bs as [|b r IH]; intros H; [exact I|].
  simpl filter. specialize (IH (descN_tail _ _ H)). destruct (p b); [|exact IH].
  simpl. apply descN_cons; [|exact IH].
  intros x Hx. apply (descN_below _ _ H). unfold begins in *. apply in_map_iff in Hx as (y & <- & Hy).
  apply filter_In in Hy as [Hy _]. apply in_map. exact Hy.
Qed.

(* if the newest bucket has expired, all have *)
Lemma filter_head_expired now b0 r : descN (begins (b0 :: r)) -> unexpired O maxdur now b0 = false ->
  filter (unexpired O maxdur now) r = [].
Proof.
  intros Hdesc H. apply filter_nil. intros x Hx.
  pose proof (descN_below _ _ Hdesc _ (in_begins _ _ Hx)) as Hb.
  unfold unexpired in *. destruct (maxdur <=? now); [|discriminate].
  apply N.ltb_ge in H. apply N.ltb_ge. lia.
Qed.

(* a descending list whose elements are all >= lo: the head is at least (length-1) durations above lo *)
Lemma descN_span lo a r : descN (a :: r) -> (forall x, In x (a :: r) -> lo <= x) ->
  lo + N.of_nat (length r) * dur <= a.
Proof.
  revert a. induction r as [|b r IH]; intros a Hdesc Hlo.
  - simpl. specialize (Hlo a (or_introl eq_refl)). lia.
  - simpl in Hdesc. destruct Hdesc as [H1 H2].
    assert (IH' := IH b H2 (fun x Hx => Hlo x (or_intror Hx))).
    change (length (b :: r)) with (S (length r)). rewrite Nat2N.inj_succ, N.mul_succ_l. lia.
Qed.

Lemma mul_cancel_lt a b : a * dur + dur <= b * dur -> a + 1 <= b.
Proof.
  intros H. destruct (N.le_gt_cases (a + 1) b) as [|G]; auto. exfalso.
  assert (b + 1 <= a + 1) by lia.
  assert (K : (b + 1) * dur <= (a + 1) * dur) by (apply N.mul_le_mono_r; exact H0).
  rewrite !N.mul_add_distr_r, !N.mul_1_l in K. lia.
Qed.

(* ---- sketch contents *)
Notation fv := (finite_vals O).

Lemma fv_app l1 l2 : fv (l1 ++ l2) = fv l1 ++ fv l2.
Proof. unfold finite_vals. rewrite filter_app, map_app. reflexivity. Qed.

Lemma fv_single t v : fv [(t, v)] = sk_add O v [].
Proof. unfold finite_vals, sk_add. simpl. destruct (fisinf O v); reflexivity. Qed.

Lemma sk_add_app v l : sk_add O v l = l ++ sk_add O v [].
Proof. unfold sk_add. destruct (fisinf O v); [rewrite app_nil_r|]; reflexivity. Qed.

Lemma covers_upd v now b tv : covers (upd v now b) tv = covers b tv.
Proof. unfold covers, coversT. rewrite upd_begin. reflexivity. Qed.

Lemma next_begin_props reftime now : reftime + dur <= now ->
  let nb := next_begin dur reftime now in reftime + dur <= nb /\ nb <= now /\ now < nb + dur.
Proof.
  intros H. unfold next_begin.
  assert (E : now - reftime = (now - reftime) / dur * dur + (now - reftime) mod dur)
    by (rewrite N.mul_comm; apply N.div_mod; lia).
  pose proof (N.mod_lt (now - reftime) dur ltac:(lia)) as L.
  assert (Q : 0 < (now - reftime) / dur) by (apply N.div_str_pos; lia).
  assert (Q' : 1 * dur <= (now - reftime) / dur * dur) by (apply N.mul_le_mono_r; lia).
  rewrite N.mul_1_l in Q'.
  generalize dependent ((now - reftime) mod dur). intros m E L.
  generalize dependent ((now - reftime) / dur * dur). intros x E Q'. cbv zeta. lia.
Qed.

Record WInv (past : list (N * Fl)) (la : N) (bs : list (rbucket O)) : Prop := {
  wi_times : forall tv, In tv past -> fst tv <= la;
  wi_desc : descN (begins bs);
  wi_begins : forall b, In b bs -> rb_begin O b <= la;
  wi_vals : forall b, In b bs -> rb_vals O b = fv (filter (covers b) past);
  wi_cover : forall tv, In tv past -> la + dur <= fst tv + maxdur -> exists b, In b bs /\ covers b tv = true;
  wi_head : match bs with b0 :: _ => la < rb_begin O b0 + dur | [] => past = [] end;
  wi_len : N.of_nat (length bs) <= n
}.

Lemma WInv_init : WInv [] 0 [].
Proof. constructor; simpl; try tauto; try lia. Qed.

Lemma maxdur_ge_dur : dur <= maxdur.
Proof. rewrite <- (N.mul_1_r dur) at 1. apply N.mul_le_mono_l. lia. Qed.

(* a bucket covering a sample that must still be held is unexpired *)
Lemma cover_unexpired now b (tv : N * Fl) : covers b tv = true -> now + dur <= fst tv + maxdur ->
  unexpired O maxdur now b = true.
Proof.
  intros Hc Hm. apply coversT_true in Hc as [_ H2]. apply unexpired_true. intros Hle. lia.
Qed.

(* the bound that makes truncate(max_buckets - 1) the identity *)
Lemma retained_length la now bs : descN (begins bs) -> (forall b, In b bs -> rb_begin O b <= la) -> la <= now ->
  (forall b, In b bs -> coversT b now = false) ->
  N.of_nat (length (filter (unexpired O maxdur now) bs)) <= n - 1.
Proof.
  intros Hdesc Hb Hla Hnc.
  remember (filter (unexpired O maxdur now) bs) as fl eqn:Efl.
  destruct fl as [|b1 rest]; [simpl; lia|].
  assert (Hin : forall x, In x (b1 :: rest) -> In x bs /\ unexpired O maxdur now x = true)
    by (intros x Hx; rewrite Efl in Hx; apply filter_In in Hx; exact Hx).
  assert (Hd1 : descN (begins (b1 :: rest))) by (rewrite Efl; apply descN_filter; exact Hdesc).
  destruct (Hin b1 (or_introl eq_refl)) as [Hb1 _].
  assert (B1 : rb_begin O b1 + dur <= now).
  { specialize (Hnc b1 Hb1). apply coversT_false in Hnc. specialize (Hb b1 Hb1). lia. }
  change (length (b1 :: rest)) with (S (length rest)). rewrite Nat2N.inj_succ.
  destruct (N.le_gt_cases maxdur now) as [Hle|Hgt].
  - assert (S1 := descN_span (now - maxdur + 1) (rb_begin O b1) (begins rest) Hd1).
    assert (Hlo : forall x, In x (rb_begin O b1 :: begins rest) -> now - maxdur + 1 <= x).
    { intros x Hx. change (rb_begin O b1 :: begins rest) with (begins (b1 :: rest)) in Hx.
      unfold begins in Hx. apply in_map_iff in Hx as (y & <- & Hy).
      destruct (Hin y Hy) as [_ Hu]. pose proof (proj1 (unexpired_true _ _) Hu Hle). lia. }
    specialize (S1 Hlo). unfold begins in S1. rewrite map_length in S1.
    assert (K : N.of_nat (length rest) * dur + dur + 1 <= n * dur) by (rewrite (N.mul_comm n dur); lia).
    assert (K2 : (N.of_nat (length rest) + 1) * dur + dur <= n * dur).
    { destruct (N.le_gt_cases (N.of_nat (length rest) + 1 + 1) n) as [G|G].
      - assert (M := N.mul_le_mono_r _ _ dur G). rewrite !N.mul_add_distr_r, !N.mul_1_l in *. lia.
      - exfalso. assert (G' : n <= N.of_nat (length rest) + 1) by lia.
        assert (M := N.mul_le_mono_r _ _ dur G'). rewrite !N.mul_add_distr_r, !N.mul_1_l in *. lia. }
    apply mul_cancel_lt in K2. lia.
  - assert (S1 := descN_span 0 (rb_begin O b1) (begins rest) Hd1 ltac:(intros; lia)).
    unfold begins in S1. rewrite map_length in S1.
    assert (K2 : (N.of_nat (length rest) + 1) * dur + dur <= n * dur).
    { destruct (N.le_gt_cases (N.of_nat (length rest) + 1 + 1) n) as [G|G].
      - assert (M := N.mul_le_mono_r _ _ dur G). rewrite !N.mul_add_distr_r, !N.mul_1_l in *. lia.
      - exfalso. assert (G' : n <= N.of_nat (length rest) + 1) by lia.
        assert (M := N.mul_le_mono_r _ _ dur G'). rewrite !N.mul_add_distr_r, !N.mul_1_l in *.
        rewrite (N.mul_comm dur n) in Hgt. lia. }
    apply mul_cancel_lt in K2. lia.
Qed.

Lemma vals_step past now v b :
  fv (filter (covers b) (past ++ [(now, v)]))
  = fv (filter (covers b) past) ++ (if coversT b now then sk_add O v [] else []).
Proof.
  rewrite filter_app, fv_app. f_equal. cbn [filter]. unfold covers at 1. cbn [fst].
  destruct (coversT b now); [apply fv_single|reflexivity].
Qed.

Lemma times_step past la now v : (forall tv, In tv past -> fst tv <= la) -> la <= now ->
  forall tv : N * Fl, In tv (past ++ [(now, v)]) -> fst tv <= now.
Proof.
  intros H Hla tv Hin. apply in_app_or in Hin as [Hin|[<-|[]]]; [specialize (H tv Hin); lia|simpl; lia].
Qed.

(* the invariant is preserved by add at a time not before the previous add *)
Lemma add_inv past la (r : rsum O) v now :
  r_max O r = n -> r_dur O r = dur -> r_maxdur O r = maxdur ->
  WInv past la (r_buckets O r) -> la <= now ->
  WInv (past ++ [(now, v)]) now (rs_add_buckets O r v now).
Proof.
  intros Hmax Hdur Hmd W Hla. unfold rs_add_buckets. rewrite Hmax, Hdur, Hmd.
  set (bs := r_buckets O r) in *.
  destruct (try_add O dur v now bs) as [bs'|] eqn:ET.
  - (* stored in an existing bucket *)
    destruct (try_add_some _ _ _ _ (wi_desc _ _ _ W) ET) as [-> (bc & Hbc & Hcc)].
    constructor.
    + apply (times_step past la); [apply (wi_times _ _ _ W)|exact Hla].
    + rewrite begins_upd. apply (wi_desc _ _ _ W).
    + intros b Hin. apply in_map_iff in Hin as (b' & <- & Hb'). rewrite upd_begin.
      pose proof (wi_begins _ _ _ W b' Hb'). lia.
    + intros b Hin. apply in_map_iff in Hin as (b' & <- & Hb').
      rewrite (filter_ext _ _ (covers_upd v now b')), vals_step.
      unfold upd. destruct (coversT b' now); cbn [rb_vals]; rewrite (wi_vals _ _ _ W b' Hb').
      * apply sk_add_app.
      * rewrite app_nil_r. reflexivity.
    + intros tv Hin Hm. apply in_app_or in Hin as [Hin|[<-|[]]].
      * destruct (wi_cover _ _ _ W tv Hin ltac:(lia)) as (b & Hb & Hc).
        exists (upd v now b). split; [apply in_map; exact Hb|rewrite covers_upd; exact Hc].
      * exists (upd v now bc). split; [apply in_map; exact Hbc|rewrite covers_upd; exact Hcc].
    + pose proof (wi_head _ _ _ W) as Hh. pose proof (wi_desc _ _ _ W) as Hds.
      destruct bs as [|b0 rest]; [destruct Hbc|]. cbn [map]. rewrite upd_begin.
      destruct Hbc as [->|Hbc].
      * apply coversT_true in Hcc. lia.
      * pose proof (descN_below _ _ Hds _ (in_begins _ _ Hbc)).
        pose proof (wi_begins _ _ _ W b0 (or_introl eq_refl)).
        apply coversT_true in Hcc. lia.
    + rewrite map_length. apply (wi_len _ _ _ W).
  - (* a new bucket *)
    pose proof (try_add_none _ _ _ (wi_desc _ _ _ W) ET) as Hnc.
    assert (Hold : forall tv, In tv past -> now + dur <= fst tv + maxdur ->
                   exists b, In b (filter (unexpired O maxdur now) bs) /\ covers b tv = true).
    { intros tv Hin Hm. destruct (wi_cover _ _ _ W tv Hin ltac:(lia)) as (b & Hb & Hc).
      exists b. split; [|exact Hc]. apply filter_In. split; [exact Hb|].
      apply (cover_unexpired now b tv Hc Hm). }
    pose proof (retained_length la now bs (wi_desc _ _ _ W) (wi_begins _ _ _ W) Hla Hnc) as Hlen.
    destruct (filter (unexpired O maxdur now) bs) as [|b1 rest] eqn:Efl.
    + (* everything expired: the new bucket begins now *)
      set (nb := {| rb_begin := now; rb_vals := sk_add O v [] |}).
      assert (Hc : coversT nb now = true) by (apply coversT_true; simpl; lia).
      assert (Hp : filter (covers nb) past = []).
      { apply filter_nil. intros tv Hin. apply coversT_false. cbn [rb_begin nb].
        pose proof (wi_times _ _ _ W tv Hin) as Ht.
        destruct (N.lt_ge_cases (fst tv) now) as [|Hge]; [left; assumption|exfalso].
        pose proof (wi_head _ _ _ W) as Hh. fold bs in Hh.
        destruct bs as [|b0 r0]; [rewrite Hh in Hin; destruct Hin|].
        pose proof (wi_begins _ _ _ W b0 (or_introl eq_refl)) as Hb0.
        specialize (Hnc b0 (or_introl eq_refl)). apply coversT_false in Hnc. lia. }
      constructor.
      * apply (times_step past la); [apply (wi_times _ _ _ W)|exact Hla].
      * exact I.
      * intros b [<-|[]]. simpl. lia.
      * intros b [<-|[]]. rewrite vals_step, Hp, Hc. reflexivity.
      * intros tv Hin Hm. apply in_app_or in Hin as [Hin|[<-|[]]].
        -- destruct (Hold tv Hin Hm) as (b & [] & _).
        -- exists nb. split; [left; reflexivity|exact Hc].
      * simpl. lia.
      * simpl. lia.
    + (* some buckets remain: the new one is aligned on the newest *)
      pose proof (wi_head _ _ _ W) as Hh. fold bs in Hh.
      destruct bs as [|b0 r0]; [discriminate|].
      assert (Hu0 : unexpired O maxdur now b0 = true).
      { destruct (unexpired O maxdur now b0) eqn:E; [reflexivity|].
        cbn [filter] in Efl. rewrite E in Efl.
        rewrite (filter_head_expired now b0 r0 (wi_desc _ _ _ W) E) in Efl. discriminate. }
      cbn [filter] in Efl. rewrite Hu0 in Efl. injection Efl as <- Erest.
      pose proof (wi_begins _ _ _ W b0 (or_introl eq_refl)) as Hb0.
      assert (B0 : rb_begin O b0 + dur <= now).
      { specialize (Hnc b0 (or_introl eq_refl)). apply coversT_false in Hnc. lia. }
      assert (Hlt : rb_begin O b0 <? now = true) by (apply N.ltb_lt; lia). rewrite Hlt.
      rewrite firstn_all2 by (change (length (b0 :: rest)) with (S (length rest)) in *; lia).
      destruct (next_begin_props (rb_begin O b0) now B0) as (P1 & P2 & P3).
      set (nbeg := next_begin dur (rb_begin O b0) now) in *.
      set (nb := {| rb_begin := nbeg; rb_vals := sk_add O v [] |}).
      assert (Hsub : forall b, In b (b0 :: rest) -> In b (b0 :: r0)).
      { intros b [->|Hb]; [left; reflexivity|right]. rewrite <- Erest in Hb. apply filter_In in Hb. tauto. }
      assert (Hc : coversT nb now = true) by (apply coversT_true; simpl; lia).
      assert (Hp : filter (covers nb) past = []).
      { apply filter_nil. intros tv Hin. apply coversT_false. cbn [rb_begin nb].
        pose proof (wi_times _ _ _ W tv Hin) as Ht. left. lia. }
      constructor.
      * apply (times_step past la); [apply (wi_times _ _ _ W)|exact Hla].
      * change (begins (nb :: b0 :: rest)) with (nbeg :: begins (b0 :: rest)).
        apply descN_cons.
        -- intros x Hx. unfold begins in Hx. apply in_map_iff in Hx as (y & <- & Hy).
           apply Hsub in Hy. destruct Hy as [<-|Hy]; [exact P1|].
           pose proof (descN_below _ _ (wi_desc _ _ _ W) _ (in_begins _ _ Hy)). lia.
        -- assert (E : b0 :: rest = filter (unexpired O maxdur now) (b0 :: r0))
             by (cbn [filter]; rewrite Hu0, Erest; reflexivity).
           rewrite E. apply descN_filter. apply (wi_desc _ _ _ W).
      * intros b [<-|Hb]; [simpl; lia|]. pose proof (wi_begins _ _ _ W b (Hsub b Hb)). lia.
      * intros b [<-|Hb].
        -- rewrite vals_step, Hp, Hc. reflexivity.
        -- rewrite vals_step, (Hnc b (Hsub b Hb)), app_nil_r. apply (wi_vals _ _ _ W b (Hsub b Hb)).
      * intros tv Hin Hm. apply in_app_or in Hin as [Hin|[<-|[]]].
        -- destruct (Hold tv Hin Hm) as (b & Hb & Hcv). exists b. split; [right; exact Hb|exact Hcv].
        -- exists nb. split; [left; reflexivity|exact Hc].
      * simpl. lia.
      * change (length (nb :: b0 :: rest)) with (S (length (b0 :: rest))). rewrite Nat2N.inj_succ. lia.
Qed.

(* ---- what a snapshot holds, under the invariant, at any time not before the last add *)
Section Window.
Variables (past : list (N * Fl)) (la : N) (bs : list (rbucket O)).
Hypothesis W : WInv past la bs.
Variable now : N.
Hypothesis Hnow : la <= now.
Notation U := (filter (unexpired O maxdur now) bs).
Notation snap := (flat_map (rb_vals O) U).

Definition mayp (tv : N * Fl) : bool := if maxdur <=? now then now - maxdur <? fst tv else true.
Definition mustp (tv : N * Fl) : bool := now + dur <=? fst tv + maxdur.

Lemma mayp_true tv : mayp tv = true <-> (maxdur <= now -> now - maxdur < fst tv).
Proof.
  unfold mayp. destruct (maxdur <=? now) eqn:E.
  - apply N.leb_le in E. rewrite N.ltb_lt. tauto.
  - apply N.leb_gt in E. split; auto. intros _ H. lia.
Qed.

(* no sample older than the window *)
Lemma snapshot_no_older v : In v snap ->
  exists t, In (t, v) past /\ fisinf O v = false /\ (maxdur <= now -> now - maxdur < t).
Proof.
  intros H. apply in_flat_map in H as (b & Hb & Hv). apply filter_In in Hb as [Hb Hu].
  rewrite (wi_vals _ _ _ W b Hb) in Hv. unfold finite_vals in Hv.
  apply in_map_iff in Hv as ([t v'] & E & Hf). simpl in E. subst v'.
  apply filter_In in Hf as [Hf Hfin]. apply filter_In in Hf as [Hin Hc].
  exists t. split; [exact Hin|]. split; [simpl in Hfin; destruct (fisinf O v); [discriminate|reflexivity]|].
  intros Hle. apply coversT_true in Hc. simpl in Hc. pose proof (proj1 (unexpired_true _ _) Hu Hle). lia.
Qed.

(* every sample at least as new as now - n*dur + dur *)
Lemma snapshot_every_newer t v : In (t, v) past -> fisinf O v = false -> now + dur <= t + maxdur -> In v snap.
Proof.
  intros Hin Hfin Hm. destruct (wi_cover _ _ _ W (t, v) Hin ltac:(simpl; lia)) as (b & Hb & Hc).
  apply in_flat_map. exists b. split.
  - apply filter_In. split; [exact Hb|]. apply (cover_unexpired now b (t, v) Hc). simpl. exact Hm.
  - rewrite (wi_vals _ _ _ W b Hb). unfold finite_vals. apply in_map_iff. exists (t, v). split; [reflexivity|].
    apply filter_In. split; [apply filter_In; auto|]. simpl. rewrite Hfin. reflexivity.
Qed.

(* counting *)
Lemma fv_len_mono (p q : N * Fl -> bool) l : (forall x, In x l -> p x = true -> q x = true) ->
  (length (fv (filter p l)) <= length (fv (filter q l)))%nat.
Proof.
  unfold finite_vals. induction l as [|x l IH]; intros H; [simpl; lia|].
  assert (IH' := IH (fun y Hy => H y (or_intror Hy))). clear IH.
  cbn [filter]. destruct (p x) eqn:Ep.
  - rewrite (H x (or_introl eq_refl) Ep). cbn [filter]. destruct (negb (fisinf O (snd x))); simpl; lia.
  - destruct (q x); cbn [filter]; [destruct (negb (fisinf O (snd x)))|]; simpl; lia.
Qed.

Lemma fv_len_disjoint (p q : N * Fl -> bool) l : (forall x, In x l -> p x = true -> q x = true -> False) ->
  (length (fv (filter p l)) + length (fv (filter q l)) = length (fv (filter (fun x => p x || q x) l)))%nat.
Proof.
  unfold finite_vals. induction l as [|x l IH]; intros H; [reflexivity|].
  assert (IH' := IH (fun y Hy => H y (or_intror Hy))). clear IH.
  cbn [filter]. destruct (p x) eqn:Ep; destruct (q x) eqn:Eq; cbn [orb filter].
  - exfalso. apply (H x (or_introl eq_refl) Ep Eq).
  - destruct (negb (fisinf O (snd x))); simpl; lia.
  - destruct (negb (fisinf O (snd x))); simpl; lia.
  - exact IH'.
Qed.

Definition cov (l : list (rbucket O)) (tv : N * Fl) : bool := existsb (fun b => covers b tv) l.

Lemma snap_length_cov l : descN (begins l) -> (forall b, In b l -> rb_vals O b = fv (filter (covers b) past)) ->
  length (flat_map (rb_vals O) l) = length (fv (filter (cov l) past)).
Proof.
  induction l as [|b l IH]; intros Hdesc Hv.
  - simpl. unfold cov. simpl. clear. induction past; simpl; auto.
  - cbn [flat_map]. rewrite app_length, (Hv b (or_introl eq_refl)),
      (IH (descN_tail _ _ Hdesc) (fun x Hx => Hv x (or_intror Hx))).
    rewrite (fv_len_disjoint (covers b) (cov l)).
    + f_equal.
    + intros tv _ H1 H2. unfold cov in H2. apply existsb_exists in H2 as (x & Hx & Hcx).
      pose proof (descN_below _ _ Hdesc _ (in_begins _ _ Hx)).
      apply coversT_true in H1, Hcx. lia.
Qed.

Lemma snapshot_count_bounds :
  (length (fv (filter mustp past)) <= length snap)%nat /\ (length snap <= length (fv (filter mayp past)))%nat.
Proof.
  rewrite (snap_length_cov U).
  - split; apply fv_len_mono.
    + intros tv Hin Hm. unfold mustp in Hm. apply N.leb_le in Hm.
      destruct (wi_cover _ _ _ W tv Hin ltac:(lia)) as (b & Hb & Hc).
      unfold cov. apply existsb_exists. exists b. split; [|exact Hc].
      apply filter_In. split; [exact Hb|]. apply (cover_unexpired now b tv Hc Hm).
    + intros tv Hin Hc. unfold cov in Hc. apply existsb_exists in Hc as (b & Hb & Hc).
      apply filter_In in Hb as [Hb Hu]. apply mayp_true. intros Hle.
      apply coversT_true in Hc. pose proof (proj1 (unexpired_true _ _) Hu Hle). lia.
  - apply descN_filter. apply (wi_desc _ _ _ W).
  - intros b Hb. apply filter_In in Hb as [Hb _]. apply (wi_vals _ _ _ W b Hb).
Qed.

End Window.

(* ---- every state reached by adds with non-decreasing timestamps satisfies the invariant *)
Definition radd_all (r : rsum O) (l : list (N * Fl)) : rsum O :=
  fold_left (fun r tv => rs_add O r (snd tv) (fst tv)) l r.
Fixpoint nondecr (la : N) (l : list (N * Fl)) : Prop :=
  match l with [] => True | tv :: r => la <= fst tv /\ nondecr (fst tv) r end.
Definition last_time (la : N) (l : list (N * Fl)) : N := last (map fst l) la.

Definition params_ok (r : rsum O) : Prop := r_max O r = n /\ r_dur O r = dur /\ r_maxdur O r = maxdur.

Lemma last_cons {A} (a : A) l d : last (a :: l) d = last l a.
Proof.
  revert a d. induction l as [|b l IH]; intros a d; [reflexivity|].
  change (last (a :: b :: l) d) with (last (b :: l) d). rewrite (IH b d), (IH b a). reflexivity.
Qed.

Lemma radd_all_inv l : forall past la r, params_ok r -> WInv past la (r_buckets O r) -> nondecr la l ->
  params_ok (radd_all r l) /\ WInv (past ++ l) (last_time la l) (r_buckets O (radd_all r l)).
Proof.
  induction l as [|[t v] l IH]; intros past la r Hp W Hnd.
  - simpl. rewrite app_nil_r. auto.
  - destruct Hnd as [H1 H2]. destruct Hp as (P1 & P2 & P3). cbn [fst snd] in *.
    assert (W' := add_inv past la r v t P1 P2 P3 W H1).
    specialize (IH (past ++ [(t, v)]) t (rs_add O r v t) (conj P1 (conj P2 P3)) W' H2).
    unfold last_time in *. cbn [map fst]. rewrite last_cons.
    rewrite <- app_assoc in IH. exact IH.
Qed.

Lemma radd_all_count l : forall r, r_count O (radd_all r l) = r_count O r + N.of_nat (length l).
Proof.
  induction l as [|tv l IH]; intros r; [simpl; lia|].
  change (radd_all r (tv :: l)) with (radd_all (rs_add O r (snd tv) (fst tv)) l).
  rewrite IH. change (length (tv :: l)) with (S (length l)). rewrite Nat2N.inj_succ. simpl. lia.
Qed.

Lemma rs_new_ok : params_ok (rs_new O n dur) /\ WInv [] 0 (r_buckets O (rs_new O n dur)).
Proof. split; [repeat split|apply WInv_init]. Qed.

Theorem window_theorem hist now : nondecr 0 hist -> last_time 0 hist <= now ->
  let r := radd_all (rs_new O n dur) hist in
  (forall v, In v (rs_snapshot O r now) ->
     exists t, In (t, v) hist /\ fisinf O v = false /\ (maxdur <= now -> now - maxdur < t))
  /\ (forall t v, In (t, v) hist -> fisinf O v = false -> now + dur <= t + maxdur -> In v (rs_snapshot O r now))
  /\ (length (must_hold O dur maxdur now hist) <= length (rs_snapshot O r now))%nat
  /\ (length (rs_snapshot O r now) <= length (may_hold O maxdur now hist))%nat
  /\ r_count O r = N.of_nat (length hist)
  /\ N.of_nat (length (r_buckets O r)) <= n
  /\ descN (begins (r_buckets O r)).
Proof.
  intros Hnd Hnow r.
  destruct rs_new_ok as [P0 W0].
  destruct (radd_all_inv hist [] 0 _ P0 W0 Hnd) as [(P1 & P2 & P3) W]. fold r in P1, P2, P3, W.
  cbn [app] in W. unfold rs_snapshot. rewrite P3.
  split; [|split; [|split; [|split; [|split; [|split]]]]].
  - intros v. apply (snapshot_no_older _ _ _ W now Hnow).
  - intros t v. apply (snapshot_every_newer _ _ _ W now Hnow).
  - apply (snapshot_count_bounds _ _ _ W now Hnow).
  - apply (snapshot_count_bounds _ _ _ W now Hnow).
  - unfold r. rewrite radd_all_count. simpl. lia.
  - apply (wi_len _ _ _ W).
  - apply (wi_desc _ _ _ W).
Qed.

(* truncate(max_buckets - 1) in add never removes a bucket that retain kept *)
Theorem truncate_never_evicts hist now v : nondecr 0 hist -> last_time 0 hist <= now ->
  let r := radd_all (rs_new O n dur) hist in
  try_add O (r_dur O r) v now (r_buckets O r) = None ->
  let kept := filter (unexpired O (r_maxdur O r) now) (r_buckets O r) in
  firstn (N.to_nat (r_max O r - 1)) kept = kept.
Proof.
  intros Hnd Hnow r.
  destruct rs_new_ok as [P0 W0].
  destruct (radd_all_inv hist [] 0 _ P0 W0 Hnd) as [(P1 & P2 & P3) W]. fold r in P1, P2, P3, W.
  rewrite P1, P2, P3. intros ET kept.
  pose proof (try_add_none _ _ _ (wi_desc _ _ _ W) ET) as Hnc.
  pose proof (retained_length _ now _ (wi_desc _ _ _ W) (wi_begins _ _ _ W) Hnow Hnc) as L.
  apply firstn_all2. fold kept in L. lia.
Qed.

(* ---- the model's outputs satisfy the executable specification, for every operation list *)
Hypothesis fsame_refl : forall a : Fl, fsame O a a = true.

Definition Rel (r : rsum O) (s : rspec O) : Prop :=
  params_ok r /\ r_count O r = sp_count O s /\ r_sum O r = sp_sum O s /\
  (sp_mono O s = true -> exists la, la <= sp_last O s /\ WInv (sp_past O s) la (r_buckets O r)).

Lemma rrun_spec ops : forall r s, Rel r s -> rspec_run O n dur s ops (rrun O r ops) = true.
Proof.
  induction ops as [|o ops IH]; intros r s (Hp & Hc & Hs & Hw); [reflexivity|].
  destruct Hp as (P1 & P2 & P3).
  destruct o as [t v|t].
  - cbn [rrun rstep rspec_run rspec_step]. cbn [rs_add r_count].
    rewrite Hc, N.eqb_refl. apply IH. split; [repeat split; assumption|].
    cbn [sp_count sp_sum r_count r_sum rs_add sp_mono sp_last sp_past r_buckets].
    split; [rewrite Hc; reflexivity|]. split; [rewrite Hs; reflexivity|].
    intros Hm. apply andb_prop in Hm as [Hm Ht]. apply N.leb_le in Ht.
    destruct (Hw Hm) as (la & Hla & W). exists t. split; [lia|].
    apply (add_inv _ la r v t P1 P2 P3 W). lia.
  - cbn [rrun rstep rspec_run rspec_step].
    rewrite Hc, N.eqb_refl, Hs, fsame_refl. cbn [andb].
    assert (WO : (if sp_mono O s && (sp_last O s <=? t)
                  then window_ok O dur maxdur t (sp_past O s) (N.of_nat (length (rs_snapshot O r t)))
                         (vals_min O (rs_snapshot O r t)) (vals_max O (rs_snapshot O r t)) []
                  else true) = true).
    { destruct (sp_mono O s && (sp_last O s <=? t)) eqn:Hm; [|reflexivity].
      apply andb_prop in Hm as [Hm Ht]. apply N.leb_le in Ht.
      destruct (Hw Hm) as (la & Hla & W).
      assert (Hnow : la <= t) by lia.
      destruct (snapshot_count_bounds _ _ _ W t Hnow) as [B1 B2].
      unfold window_ok, rs_snapshot. rewrite P3.
      assert (E1 : N.of_nat (length (must_hold O dur maxdur t (sp_past O s)))
                   <=? N.of_nat (length (flat_map (rb_vals O) (filter (unexpired O maxdur t) (r_buckets O r)))) = true).
      { apply N.leb_le. unfold must_hold. unfold mustp in B1. lia. }
      assert (E2 : N.of_nat (length (flat_map (rb_vals O) (filter (unexpired O maxdur t) (r_buckets O r))))
                   <=? N.of_nat (length (may_hold O maxdur t (sp_past O s))) = true).
      { apply N.leb_le. unfold may_hold. unfold mayp in B2. lia. }
      rewrite E1, E2. cbn [andb forallb].
      destruct (N.of_nat (length (flat_map (rb_vals O) (filter (unexpired O maxdur t) (r_buckets O r)))) =? 0);
        reflexivity. }
    rewrite WO. apply IH. split; [repeat split; assumption|].
    cbn [sp_count sp_sum sp_mono sp_last sp_past].
    split; [exact Hc|]. split; [exact Hs|].
    intros Hm. apply andb_prop in Hm as [Hm Ht]. apply N.leb_le in Ht.
    destruct (Hw Hm) as (la & Hla & W). exists la. split; [lia|exact W].
Qed.

Theorem rrun_spec_ok ops : rspec_run O n dur (rspec0 O) ops (rrun O (rs_new O n dur) ops) = true.
Proof.
  apply rrun_spec. destruct rs_new_ok as [P0 W0].
  split; [exact P0|]. split; [reflexivity|]. split; [reflexivity|].
  intros _. exists 0. split; [simpl; lia|exact W0].
Qed.

End RollProofs.
