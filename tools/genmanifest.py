#!/usr/bin/env python3
"""Regenerate MANIFEST.json from the property modules present in vlib/ (vlib/cNN.py with PROP)."""
import importlib, json, os, sys
ROOT = os.path.dirname(os.path.dirname(os.path.abspath(__file__)))
sys.path.insert(0, ROOT)
ids = [json.loads(l)["id"] for l in open(os.path.join(ROOT, "properties.jsonl"))]
checks, na, served = [], [], []
pending = json.load(open(os.path.join(ROOT, "tools", "pending.json")))
for pid in ids:
    if pid in pending["claimed"] and pid not in pending.get("withdrawn", {}):
        p = importlib.import_module("vlib." + pid.lower()).PROP
        served.append(pid)
        checks.append({
            "property_id": pid,
            "quick_cmd": "./check %s --tier quick" % pid,
            "thorough_cmd": "./check %s --tier thorough" % pid,
            "evidence_file": "evidence/%s.json" % pid,
            "replay_cmd_template": "./check %s --replay {path}" % pid,
            "engine": "coq-proof+correspondence",
            "level_claimed": {"category": "proof", "text": p.level_text, "design_ref": p.design_ref},
            "level_note": p.level_note,
            "technique": p.technique,
        })
    else:
        na.append({"property_id": pid, "reason": pending.get("withdrawn", {}).get(pid) or pending["not_built"].get(pid, "check not built yet; not claimed (the technique applies, see DESIGN.md section 4)")})
m = {
    "version": 1,
    "setup_cmd": "./setup.sh",
    "hooks": {
        "guard": "metrics_verif",
        "enable": "RUSTFLAGS=\"--cfg metrics_verif\" cargo +1.74.0 build --offline --release, run in /verif/harness whose crates have path dependencies on /repo/<crate> (so every check rebuilds from /repo's working tree)",
        "baseline_off_cmd": "cd /repo && cargo test --workspace --no-fail-fast --offline; git -C /repo checkout Cargo.lock",
        "source_commits": pending.get("hook_commits", []),
        "add_only": True,
    },
    "engines": [{
        "name": "coq-proof+correspondence", "path": "check", "serves_properties": served,
        "kind_free_text": "Coq 8.16.1 theorems (kernel-checked, statement-pinned, Print Assumptions audited) about a hand-written executable Gallina model of the anchored code; on every run the model (vm_compute under coqc) and the implementation (Rust harness built from /repo with --cfg metrics_verif) are executed on the same generated cases and compared, and the executable form of the property (spec_ok) is evaluated on the implementation's outputs",
    }],
    "checks": checks,
    "not_applicable": na,
    "notes": "DESIGN.md describes the approach; known_findings.json lists fixed/open findings; seeded/ holds the independently written breaking changes used to test the checks.",
}
json.dump(m, open(os.path.join(ROOT, "MANIFEST.json"), "w"), indent=1)
# merge per-property known-findings fragments (known/Cxx.json) into the single committed file
kd = os.path.join(ROOT, "known")
allk = []
if os.path.isdir(kd):
    for f in sorted(os.listdir(kd)):
        if f.endswith(".json"):
            allk += json.load(open(os.path.join(kd, f)))["findings"]
json.dump({"comment": "Known findings. open = genuine defect recorded, not repaired (suppresses exactly its class); fixed = repaired by a fix: commit in /repo (suppresses nothing). Generated from known/*.json by tools/genmanifest.py; never written at run time.",
           "findings": allk}, open(os.path.join(ROOT, "known_findings.json"), "w"), indent=1)
print("claimed:", served)
