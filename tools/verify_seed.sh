#!/bin/bash
# tools/verify_seed.sh <dir-with-patch.diff-demo.sh> <crates to test, space separated>
# Confirms a seeded change in a scratch worktree: (1) without the patch the demo passes,
# (2) with it the demo fails, (3) with it the existing tests of the given crates pass.
set -u
d="$(readlink -f "$1")"; shift
crates="$*"
wt="/tmp/vseed-$$"; export CARGO_TARGET_DIR="${VSEED_TARGET:-/tmp/vseed-target}"
git -C /repo worktree add -q --detach "$wt" HEAD || exit 3
trap 'git -C /repo worktree remove --force "$wt" 2>/dev/null' EXIT
cd "$wt"
run_demo() { (cd "$wt" && bash "$d/demo.sh" >/tmp/vseed-demo-$$.log 2>&1); echo $?; }
echo "demo without patch: exit=$(run_demo)"
git checkout -q -- . ; git clean -qfd
git apply "$d/patch.diff" || { echo "patch does not apply"; exit 3; }
echo "demo with patch: exit=$(run_demo)"
git clean -qfd
for c in $crates; do
  r=$(cargo test -p "$c" --offline 2>&1 | grep -E "^test result" | awk '{p+=$4; f+=$6} END {print "passed="p" failed="f}')
  echo "existing tests of $c with patch: $r"
done
