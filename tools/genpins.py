#!/usr/bin/env python3
"""genpins.py Cxx — regenerate coq/Cxx/Pins.v from coq/Cxx/Properties.v:
for every `Theorem name : statement.` a statement pin `Check (name : statement).` and
`Print Assumptions name.`  Pins.v is committed; ./check compiles it on every run, so a property
theorem whose statement is edited (weakened) without regenerating the pins breaks the check."""
import re, sys, os
pid = sys.argv[1]
d = os.path.join(os.path.dirname(os.path.dirname(os.path.abspath(__file__))), "coq", pid)
src = open(os.path.join(d, "Properties.v")).read()
# strip comments (non-nested is enough for headers; nested handled by loop)
def strip(s):
    out, depth, i = [], 0, 0
    while i < len(s):
        if s.startswith("(*", i): depth += 1; i += 2
        elif s.startswith("*)", i) and depth: depth -= 1; i += 2
        else:
            if depth == 0: out.append(s[i])
            i += 1
    return "".join(out)
code = strip(src)
m0 = re.search(r"^(Theorem|Lemma)\s", code, re.M)
hdr = code[:m0.start()].strip()
out = [hdr, "Require Import MV.%s.Properties." % pid, ""]
n = 0
for m in re.finditer(r"^Theorem\s+(\w+)\s*:\s*(.*?)\.\s*\nProof\.", code, re.S | re.M):
    out.append("Check (%s : %s)." % (m.group(1), m.group(2).strip()))
    out.append("Print Assumptions %s." % m.group(1))
    n += 1
open(os.path.join(d, "Pins.v"), "w").write("\n".join(out) + "\n")
print("%s: %d theorems pinned" % (pid, n))
