import json,re,os,shutil,glob,sys
wave, wname = sys.argv[1], sys.argv[2]
pre=json.load(open('/tmp/pre%s.json'%wave)) if os.path.exists('/tmp/pre%s.json'%wave) else {}
for p in sys.argv[3:]:
    d='/verif/seeded/%s/%s'%(p,wname)
    os.makedirs(d,exist_ok=True)
    for f in glob.glob('/tmp/seed%s-out-%s/*'%(wave,p)):
        if os.path.isfile(f): shutil.copy(f,d)
    mut=open('/tmp/seed%s-res/%s.mut'%(wave,p)).read()
    ver=open('/tmp/seed%s-res/%s.verify'%(wave,p)).read().strip().replace('\n','; ')
    viol=re.findall(r'VIOLATION property=\S+ replay=\S*/(C\d+-[a-z0-9-]+?)-[0-9a-f]{10}',mut)
    summ=[l for l in mut.splitlines() if re.match(r'^C\d\d: ',l)]
    f=d+'/meta.json'
    m=json.load(open(f))
    if p in pre: m['check_verdict']=pre[p]
    elif viol: m['check_verdict']='%s change: VIOLATION (%s) on the first run — %s'%(wname, ', '.join(sorted(set(viol))), summ[-1] if summ else '')
    else: m['check_verdict']='%s change: first MISSED (quick tier exit 0) — strengthening in progress'%wname
    m['confirmed_by_main_builder']='tools/verify_seed.sh: '+ver+'; tools/mutcheck.sh run as recorded in check_verdict'
    json.dump(m,open(f,'w'),indent=1)
    print(p,m['check_verdict'][:120])
