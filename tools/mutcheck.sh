#!/bin/bash
# tools/mutcheck.sh Cxx <patch.diff> [check args...]
# Run ./check Cxx against a scratch worktree of /repo with <patch.diff> applied; /repo itself is not
# touched, evidence/replays go to a scratch directory.  Prints the check's output and exit code.
set -u
pid="$1"; patch="$(readlink -f "$2")"; shift 2
id="$$"
wt="/tmp/mutwt-$id"; h="/tmp/muth-$id"; out="/tmp/mutout-$id"
git -C /repo worktree add -q --detach "$wt" HEAD || exit 3
cleanup() { git -C /repo worktree remove --force "$wt" 2>/dev/null; rm -rf "$h" "$out"; }
trap cleanup EXIT
if ! git -C "$wt" apply "$patch"; then echo "patch does not apply"; exit 3; fi
mkdir -p "$h" "$out"
rsync -a --exclude target /verif/harness/ "$h/"
find "$h" -name Cargo.toml -exec sed -i "s|\"/repo/|\"$wt/|g" {} +
cd /verif
VERIF_HARNESS="$h" VERIF_OUTDIR="$out" VERIF_CARGO_TARGET="${MUT_TARGET:-/verif/.cache/target-mut}" ./check "$pid" "$@"
rc=$?
echo "mutcheck: exit=$rc"
for f in "$out"/replays/*.json; do [ -f "$f" ] && { echo "--- $f"; head -c 1500 "$f"; echo; }; done
exit $rc
