#!/bin/bash
# Confirms and runs one wave of seeded changes: for each Cxx:crate[,crate] runs tools/verify_seed.sh and tools/mutcheck.sh on /tmp/seed<wave>-out-Cxx and prints one summary line.
# usage: seedproc.sh <wave> <muttarget> Cxx:crate[,crate] ...
cd /verif
w=$1; mt=$2; shift 2
mkdir -p /tmp/seed$w-res
for spec in "$@"; do
  p="${spec%%:*}"; crates="$(echo ${spec#*:} | tr ',' ' ')"
  tools/verify_seed.sh /tmp/seed$w-out-$p $crates > /tmp/seed$w-res/$p.verify 2>&1
  MUT_TARGET=/verif/.cache/$mt tools/mutcheck.sh $p /tmp/seed$w-out-$p/patch.diff > /tmp/seed$w-res/$p.mut 2>&1
  echo "$p verify: $(tr '\n' ';' < /tmp/seed$w-res/$p.verify | tail -c 300)  MUT: $(grep -E 'VIOLATION|mutcheck: exit' /tmp/seed$w-res/$p.mut | sed 's|replay=/tmp/mutout-[0-9]*/replays/||' | tr '\n' ';' | head -c 400)"
done
