#!/usr/bin/env python3
"""Regenerate the machine-generated blocks of DESIGN.md (between <!-- GEN:x --> ... <!-- /GEN:x -->):
status table (theorem counts from Pins.v, findings from known/*.json, commits from /repo) and the
seeded-changes table (from seeded/*/meta.json)."""
import glob, importlib, json, os, re, subprocess, sys
ROOT = os.path.dirname(os.path.dirname(os.path.abspath(__file__)))
sys.path.insert(0, ROOT)
props = [json.loads(l) for l in open(os.path.join(ROOT, "properties.jsonl"))]
notes = json.load(open(os.path.join(ROOT, "tools", "design_notes.json")))

def thms(pid):
    p = os.path.join(ROOT, "coq", pid, "Pins.v")
    if not os.path.exists(p):
        return 0, []
    names = re.findall(r"^Print Assumptions\s+([\w.']+)", open(p).read(), re.M)
    names = [n.rstrip('.') for n in names]
    return len(names), [n for n in names if "_partial" in n]

rows = ["| id | theorems (pinned, closed) | `_partial` | findings: fixed (commit) / **open** | engines beyond differential runs | notes |", "|---|---|---|---|---|---|"]
for pr in props:
    pid = pr["id"]
    n, partial = thms(pid)
    kf = os.path.join(ROOT, "known", pid + ".json")
    fs = json.load(open(kf))["findings"] if os.path.exists(kf) else []
    fx = ["%s (%s)" % (f["id"], f.get("commit", "?")) for f in fs if f["status"] == "fixed"]
    op = ["**%s**" % f["id"] for f in fs if f["status"] == "open"]
    rows.append("| %s | %d | %s | %s | %s | %s |" % (
        pid, n, ", ".join("`%s`" % x for x in partial) or "–", "; ".join(fx + op) or "none",
        notes.get(pid, {}).get("engines", "–"), notes.get(pid, {}).get("note", "")))
status = "\n".join(rows)

srows = ["| property | change (file) | needs to manifest | verdict of the check |", "|---|---|---|---|"]
WAVES = {"second": " (2nd)", "third": " (3rd)", "fourth": " (4th)", "fifth": " (5th)", "sixth": " (6th)", "seventh": " (7th)", "eighth": " (8th)", "ninth": " (9th)"}
for d in sorted(glob.glob(os.path.join(ROOT, "seeded", "C*")) + [x for w in WAVES for x in glob.glob(os.path.join(ROOT, "seeded", "C*", w))]):
    mf = os.path.join(d, "meta.json")
    if not os.path.exists(mf):
        continue
    m = json.load(open(mf))
    srows.append("| %s | %s (%s) | %s | %s |" % (
        os.path.basename(d) if os.path.basename(d) not in WAVES else os.path.basename(os.path.dirname(d)) + WAVES[os.path.basename(d)], str(m.get("what_it_breaks", "")).replace("|", "/").replace("\n", " ")[:260],
        ", ".join(m.get("files_changed", []))[:80], str(m.get("needs_to_manifest", "")).replace("|", "/").replace("\n", " ")[:220],
        str(m.get("check_verdict", "not run yet")).replace("|", "/")))
seeded = "\n".join(srows)

log = subprocess.check_output(["git", "-C", "/repo", "log", "--reverse", "--format=%h %s", "b762b22..HEAD"]).decode().splitlines()
commits = "\n".join("* `%s` %s" % tuple(l.split(" ", 1)) for l in log)

p = os.path.join(ROOT, "DESIGN.md")
s = open(p).read()
for tag, body in (("status", status), ("seeded", seeded), ("commits", commits)):
    pat = re.compile(r"(<!-- GEN:%s -->\n).*?(<!-- /GEN:%s -->)" % (tag, tag), re.S)
    if not pat.search(s):
        print("marker for", tag, "missing"); continue
    s = pat.sub(lambda m: m.group(1) + body + "\n" + m.group(2), s)
total = sum(thms(pr["id"])[0] for pr in props)
s = re.sub(r"All \d+ pinned property theorems", "All %d pinned property theorems" % total, s)
open(p, "w").write(s)
print("DESIGN.md blocks regenerated (%d pinned theorems)" % total)
