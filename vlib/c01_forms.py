"""C01 — the fixed table of macro call sites.

One python description per call site; from it are generated (run this file as a script)
  * harness/hcore/src/c01_sites.rs : `pub fn emit(idx, &Args)` with one REAL macro invocation per table row,
  * coq/C01/Sites.v                : `site_table : list form` (the structured description of the same rows).
vlib/c01.py imports FORMS to know which arguments a site uses.

A source `vsrc` is ("lit", s) a literal token | ("const", s) a constant expression (not a literal token: takes the
`$x:expr` arms) | ("arg", i) the i-th computed String of the arguments (0 = name, 1/2 = label values/keys, 3 = description).
"""
import os

CALLS = ["counter", "gauge", "histogram", "describe_counter", "describe_gauge", "describe_histogram"]
COQ_CALLS = ["RegCounter", "RegGauge", "RegHistogram", "DescCounter", "DescGauge", "DescHistogram"]
LEVELS = ["TRACE", "DEBUG", "INFO", "WARN", "ERROR"]
UNITS = [("Count", "count"), ("Percent", "percent"), ("Seconds", "seconds"), ("Milliseconds", "milliseconds"),
         ("Microseconds", "microseconds"), ("Nanoseconds", "nanoseconds"), ("Tebibytes", "tebibytes"),
         ("Gibibytes", "gibibytes"), ("Mebibytes", "mebibytes"), ("Kibibytes", "kibibytes"), ("Bytes", "bytes"),
         ("TerabitsPerSecond", "terabits_per_second"), ("GigabitsPerSecond", "gigabits_per_second"),
         ("MegabitsPerSecond", "megabits_per_second"), ("KilobitsPerSecond", "kilobits_per_second"),
         ("BitsPerSecond", "bits_per_second"), ("CountPerSecond", "count_per_second")]
MODULE_PATH = "c01::sites"

LIT_NAMES = ["req", "lat.ms", "a", "q_total", "", "nämé", "x y", "req"]
CONSTS = {"NAME_A": "const_name", "NAME_B": "req", "KEY_A": "svc", "VAL_A": "http", "VAL_B": "", "DESC_A": "const desc"}
LIT_TARGETS = ["tgt_a", "svc::db", "", "c01::sites"]
LIT_DESCS = ["a counter", "", "bytes → out", "d"]
LABEL_PAIRS = [
    [(("lit", "k"), ("lit", "v"))],
    [(("lit", "service"), ("lit", "http")), (("lit", "code"), ("lit", "200"))],
    [(("lit", "b"), ("lit", "2")), (("lit", "a"), ("lit", "1")), (("lit", "b"), ("lit", "3"))],   # unsorted + duplicate key
    [(("lit", "v"), ("lit", "k"))],                                                            # key/value look swapped
    [(("lit", ""), ("lit", ""))],
]
EXPR_PAIRS = [
    [(("lit", "k"), ("arg", 1))],
    [(("lit", "k1"), ("arg", 1)), (("lit", "k2"), ("arg", 2))],
    [(("const", "KEY_A"), ("const", "VAL_A"))],
    [(("arg", 2), ("arg", 1))],                                   # computed key, values in the other order
    [(("lit", "z"), ("lit", "1")), (("arg", 1), ("const", "VAL_B")), (("lit", "a"), ("arg", 2))],   # mixed -> expr arm
]
N_COLL = 4   # 0: &Vec<(String,String)>  1: Vec<Label> by value  2: slice::Iter<Label>  3: &[(String,String)]


def build():
    forms = []
    i = 0
    # register macros: kind x name source x label form x prefix combination
    for call in range(3):
        for name_kind in ("lit", "expr"):
            lab_forms = [("none",)] + [("pairs", p) for p in LABEL_PAIRS[:2]] + [("pairs", p) for p in EXPR_PAIRS[:2]] + \
                        [("coll", k) for k in range(2)]
            for lf in lab_forms:
                for prefix in range(4):      # 0 neither, 1 target:, 2 level:, 3 both
                    i += 1
                    if name_kind == "lit":
                        name = ("lit", LIT_NAMES[i % len(LIT_NAMES)])
                    else:
                        name = ("arg", 0) if i % 5 else ("const", "NAME_A" if i % 2 else "NAME_B")
                    lab = lf
                    # rotate through the remaining label shapes so that every shape occurs with every macro
                    if lf[0] == "pairs" and lf[1] is LABEL_PAIRS[1]:
                        lab = ("pairs", LABEL_PAIRS[1 + (i % 4)])
                    if lf[0] == "pairs" and lf[1] is EXPR_PAIRS[1]:
                        lab = ("pairs", EXPR_PAIRS[1 + (i % 4)])
                    if lf[0] == "coll" and lf[1] == 1:
                        lab = ("coll", 1 + (i % 3))
                    forms.append(dict(call=call, name=name, labels=lab,
                                      target=LIT_TARGETS[i % len(LIT_TARGETS)] if prefix & 1 else None,
                                      level=[0, 1, 3, 4, 2][i % 5] if prefix & 2 else None,
                                      unit=("none",), desc=("lit", "")))
    # describe macros: kind x name source x unit form x description source
    for call in range(3, 6):
        for name_kind in ("lit", "expr"):
            for unit_kind in ("none", "lit", "arg"):
                for desc_kind in ("lit", "expr"):
                    i += 1
                    if name_kind == "lit":
                        name = ("lit", LIT_NAMES[i % len(LIT_NAMES)])
                    else:
                        name = ("arg", 0) if i % 3 else ("const", "NAME_A")
                    unit = ("none",) if unit_kind == "none" else (("lit", (i * 7) % len(UNITS)) if unit_kind == "lit" else ("arg",))
                    if desc_kind == "lit":
                        desc = ("lit", LIT_DESCS[i % len(LIT_DESCS)])
                    else:
                        desc = ("arg", 3) if i % 4 else ("const", "DESC_A")
                    forms.append(dict(call=call, name=name, labels=("none",), target=None, level=None, unit=unit, desc=desc))
    return forms


FORMS = build()


def uses(form):
    """which argument strings a site reads: set of indices 0..3, plus 'lbls', 'unit'"""
    u = set()
    def src(v):
        if v[0] == "arg":
            u.add(v[1])
    src(form["name"]); src(form["desc"])
    if form["labels"][0] == "pairs":
        for k, v in form["labels"][1]:
            src(k); src(v)
    if form["labels"][0] == "coll":
        u.add("lbls")
    if form["unit"][0] == "arg":
        u.add("unit")
    return u


# ------------------------------------------------------------------------------------------- Rust
def rs_str(s):
    out = '"'
    for ch in s:
        if ch == '"' or ch == "\\":
            out += "\\" + ch
        elif 32 <= ord(ch) < 127:
            out += ch
        else:
            out += "\\u{%x}" % ord(ch)
    return out + '"'


def rs_src(v):
    if v[0] == "lit":
        return rs_str(v[1])
    if v[0] == "const":
        return v[1]
    return "a.s[%d].clone()" % v[1]


def rs_site(f):
    parts = []
    if f["call"] < 3:
        if f["target"] is not None:
            parts.append("target: %s" % rs_str(f["target"]))
        if f["level"] is not None:
            parts.append("level: Level::%s" % LEVELS[f["level"]])
        parts.append(rs_src(f["name"]))
        lab = f["labels"]
        if lab[0] == "pairs":
            for k, v in lab[1]:
                parts.append("%s => %s" % (rs_src(k), rs_src(v)))
        elif lab[0] == "coll":
            parts.append(["&a.pairs", "a.labels.clone()", "a.labels.iter()", "&a.pairs[..]"][lab[1]])
        return "{ let _ = %s!(%s); }" % (CALLS[f["call"]], ", ".join(parts))
    parts.append(rs_src(f["name"]))
    if f["unit"][0] == "lit":
        parts.append("Unit::%s" % UNITS[f["unit"][1]][0])
    elif f["unit"][0] == "arg":
        parts.append("a.unit")
    parts.append(rs_src(f["desc"]))
    return "{ %s!(%s); }" % (CALLS[f["call"]], ", ".join(parts))


def rust_text():
    L = ["// GENERATED by vlib/c01_forms.py — do not edit.  One real macro call site per row of the C01 form table.",
         "// module path of every site: " + MODULE_PATH,
         "#![allow(clippy::all)]",
         "use metrics::{counter, describe_counter, describe_gauge, describe_histogram, gauge, histogram, Label, Level, Unit};",
         "",
         "pub struct Args { pub s: [String; 4], pub pairs: Vec<(String, String)>, pub labels: Vec<Label>, pub unit: Unit }",
         ""]
    for k, v in CONSTS.items():
        L.append("const %s: &str = %s;" % (k, rs_str(v)))
    L += ["",
          "pub fn emit(idx: usize, a: &Args) {", "    match idx {"]
    for i, f in enumerate(FORMS):
        L.append("        %d => %s" % (i, rs_site(f)))
    L += ["        _ => panic!(\"no such site {}\", idx),", "    }", "}", ""]
    return "\n".join(L)


# -------------------------------------------------------------------------------------------- Coq
def cq_s(s):
    return "[" + "; ".join(str(b) for b in s.encode("utf-8")) + "]"


def cq_src(v):
    if v[0] == "lit":
        return "VLit %s" % cq_s(v[1])
    if v[0] == "const":
        return "VConst %s" % cq_s(CONSTS[v[1]])
    return "VArg %d" % v[1]


def cq_form(f):
    lab = f["labels"]
    if lab[0] == "none":
        l = "LNone"
    elif lab[0] == "pairs":
        l = "LPairs [%s]" % "; ".join("(%s, %s)" % (cq_src(k), cq_src(v)) for k, v in lab[1])
    else:
        l = "LColl %d" % lab[1]
    u = "UNone" if f["unit"][0] == "none" else ("ULit %d" % f["unit"][1] if f["unit"][0] == "lit" else "UArg")
    return ("{| f_call := %s; f_name := %s; f_labels := %s; f_target := %s; f_level := %s; f_unit := %s; f_desc := %s |}" % (
        COQ_CALLS[f["call"]], cq_src(f["name"]), l,
        "None" if f["target"] is None else "Some %s" % cq_s(f["target"]),
        "None" if f["level"] is None else "Some %d" % f["level"], u, cq_src(f["desc"])))


def coq_text():
    L = ["(* GENERATED by vlib/c01_forms.py — do not edit.  The C01 table of macro call sites: row i describes the",
         "   macro invocation `i => ...` of harness/hcore/src/c01_sites.rs (definitions only). *)",
         "From Coq Require Import List NArith.", "Import ListNotations.", "Require Import MV.C01.Model.",
         "Open Scope N_scope.", "",
         "Definition site_table : list form := ["]
    L.append(";\n".join("  " + cq_form(f) for f in FORMS))
    L += ["].", "",
          "Definition no_site : form := {| f_call := RegCounter; f_name := VLit []; f_labels := LNone; f_target := None;",
          "                               f_level := None; f_unit := UNone; f_desc := VLit [] |}.",
          "Definition site (i : N) : form := nth (N.to_nat i) site_table no_site.", ""]
    return "\n".join(L)


if __name__ == "__main__":
    root = os.path.dirname(os.path.dirname(os.path.abspath(__file__)))
    open(os.path.join(root, "harness", "hcore", "src", "c01_sites.rs"), "w").write(rust_text())
    os.makedirs(os.path.join(root, "coq", "C01"), exist_ok=True)
    open(os.path.join(root, "coq", "C01", "Sites.v"), "w").write(coq_text())
    print("%d sites" % len(FORMS))
