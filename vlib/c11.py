"""C11 — TCP exporter: trace validation.  A case is a scenario description; the Rust driver runs it
against a real exporter on loopback sockets and returns the transport thread's hook log plus what every
client read.  The log (the exporter's nondeterministic inputs) becomes the Coq `case`, the streams
and boundary counters the Coq `OUT`; Coq replays the log through the model (`agree`) and evaluates
the property on the implementation's streams (`spec_ok`)."""
import json
import os
import struct
from concurrent.futures import ThreadPoolExecutor

from . import core
from .core import Prop, cq_N, cq_Z, cq_bool, cq_list, cq_opt, cq_pair, MachineryBroken

OPS = {"ci": 4, "ca": 5, "gi": 6, "gd": 7, "gs": 8, "hr": 9}
KINDS = {"c": 0, "g": 1, "h": 2}
MOPS = {4: "IncrementCounter", 5: "SetCounter", 6: "IncrementGauge", 7: "DecrementGauge", 8: "SetGauge", 9: "RecordHistogram"}
UNITS = ["-", "bytes", "seconds", "count", "milliseconds", "count_per_second"]


def hxs(h, chunk=3000):
    """hex string -> Coq byte list; long strings in chunks (a string literal is a nested term)"""
    if len(h) <= chunk:
        return '(hx "%s")' % h
    return "(" + " ++ ".join('hx "%s"' % h[i:i + chunk] for i in range(0, len(h), chunk)) + ")"


def hxb(s):
    return hxs(s.encode().hex())


def f64bits(v):
    return struct.unpack("<Q", struct.pack("<d", float(v)))[0]


class C11(Prop):
    pid = "C11"
    pkg = "htcp"
    binname = "c11"
    quick_cases = 26
    thorough_cases = 300
    shard = 4
    procs = 6
    rule = ("scenarios against a real exporter on 127.0.0.1 with real client sockets: buffer_size in {None,0,1,2,3,8,64,1024}; "
            "1-4 clients drawn from fast reader / stalled reader (SO_RCVBUF 1024, exporter SO_SNDBUF shrunk, reads only at the end) / "
            "close after phase 1 / RST (SO_LINGER 0) after phase 1 / late joiner; 0-4 describes before the first connect and 0-2 between "
            "the phases (now and then re-describing a name with another type); 1-3 emitting threads with counter/gauge/histogram operations, labels and numbered values, paced so that at most "
            "buffer_size channel messages are in flight; a scripted fault plan (short write / EINTR / EAGAIN) for the first conn.write calls; "
            "non-trivial = at least one client and one emission; distinct = distinct scenario descriptions; plus a free-running stress engine "
            "(3 instances x 10 s quick, 6 x 40 s thorough: 1-3 clients, 1-3 emitters with a 0-31 x spin ns pause, rounds within the buffer)")
    design_ref = "DESIGN.md 4 C11"
    technique = ("Coq proof: invariants of a transcribed model of run_transport/drive_connection/State for all event sequences, write-result oracles and limits; "
                 "trace validation: real exporter on real sockets, hook log replayed through the model, streams and counters compared")
    level_text = ("Theorems (Coq, all event sequences, all write-result oracles including short writes, EAGAIN and EINTR, buffer_size None and Some n): "
                  "for every connected client at every event boundary the bytes its socket accepted are whole length-delimited frames followed by a proper prefix "
                  "of one frame whose rest is parked in wbuf (C11_stream_integrity), so the Spec decoder never sees a torn, interleaved or duplicated frame "
                  "(C11_frame_roundtrip[_torn_tail]); the frames are a subsequence of (metadata known at accept, in map order) ++ (metric frames fanned out since), "
                  "all of them if drop-oldest never fired (C11_prefix_metadata_then_metrics_in_order); client_count = |clients| and should_send = (|clients| > 0) "
                  "(C11_client_count_exact); start-up reaches the loop for every limit (C11_starts_for_every_limit); the Spec decoder inverts the modelled prost encoding of Metadata and Metric events for all names, "
                  "label lists, timestamps, operations and values (C11_fields/metadata/metric_roundtrip: name, labels, operation kind and value intact); a stream of the proved shape passes the boolean "
                  "stream check (C11_stream_log_ok_reflect) and the model's own run passes spec_ok, also for clients the model has removed (C11_spec_ok_on_model_all_clients, C11_removed_client_stream; see note). "
                  "In a separate small interleaving model of push_metric / waker / receive loop, waking after every try_send never leaves a message in the channel with the transport parked "
                  "(C11_wake_always_never_stuck); the wake-only-if-empty variant does (C11_wake_if_was_empty_gets_stuck). The five defects are refuted on the pre-fix "
                  "settings of the model (C11_*_refuted_before_fix). Trace validation ties the model to /repo: every run replays the hook log of real exporters "
                  "on real sockets through the model and compares per-client byte streams and boundary counters; spec_ok is evaluated on the streams the clients read.")
    level_note = ("C11_spec_ok_on_model_all_clients (the model's own run passes spec_ok, all clauses, also for clients the model has removed by the end of the run) is proved under "
                  "case_wf_all: the recorded events are a run of the model, wake-up frames are encoded metrics, the run ends quiet, every client entry names its accept, agrees with the log on "
                  "discards and has a model record (connected or in the `gone` ghost); the former hypothesis still_connected is gone. What remains of it is the meaning of the mark: a client "
                  "marked as staying is connected in the model's final state (for a staying client the model had removed the statement is false). Removed clients: C11_removed_client_stream "
                  "(whole frames plus a proper prefix, a subsequence of what was enqueued, which is a prefix of metadata-at-accept ++ frames fanned out since). Hypotheses shown satisfiable on "
                  "concrete cases, one with a removed client. harness_ok (what the exporter drained from its channel = what the harness described and emitted: the end-to-end delivery clause) "
                  "is a hypothesis of that theorem and is evaluated on every run, not proved: it depends on the channel and the should_send gate seen from other threads, which are not modelled "
                  "(the Metric encoding is modelled, proved invertible and compared byte for byte per run). The emitter-to-transport wake-up handshake is covered on the code by test only: a "
                  "free-running engine (real exporter thread, reading clients, emitters paced at about the drain rate, rounds within the buffer; a stall = nothing arrives for 15 s while emissions "
                  "are outstanding) samples schedules and proves nothing. Wake.v is a SEPARATE model: Model.v has no emitter-side push step (it starts at what a wake-up drained), so no lemma links "
                  "the two, and Wake.v is not tied to the code by trace validation (emitter-side steps are not hooked). `overflowed` is a ghost flag set where drop-oldest discards (to_drain > 0). "
                  "Trusted: Coq kernel; hand-written model; cfg(metrics_verif) hooks (event log, socket wrapper that scripts some write results).")
    assumptions = [
        "mio readiness, kernel socket buffers and the crossbeam channel are the runtime's (exercised, not modelled); the harness paces emissions so that at most buffer_size channel messages are in flight",
        "EINTR and part of the EAGAIN / short-write results of conn.write are injected by the cfg(metrics_verif) socket wrapper (a non-blocking loopback socket does not return EINTR on Linux); the rest come from the kernel",
        "HashMap iteration order is abstracted: per-client steps of one fan-out touch disjoint state, the write-result oracle is given per client token; the metadata order at an accept is an input",
        "label keys of one metric are distinct in the generated cases (the model does collect them into an ordered map; the harness's expectation does not); a metric name re-described with another type keeps its first type (what the code does; modelled and expected as such); f64 values in the cases are integers below 2^53 and compared as bit patterns",
        "timestamps are inputs of the model (taken from the logged frame); seconds and nanos are non-negative",
    ]
    trusted_extra = [
        "prost encoding of Metadata and Metric messages is modelled (enc_meta, enc_metric from the inputs logged before encoding) and compared byte for byte with what the exporter produced on every run",
        "std/mio TCP, epoll, crossbeam-channel (exercised)",
    ]

    def __init__(self):
        self._outs = {}

    # ------------------------------------------------------------------ generation
    def gen(self, rng, n):
        cases = []
        fixed = [
            dict(limit=None, inj=[], pre=["c.m0.bytes.hello"], mid=[], clients=["F"], threads=[["a", ["ci"], [], 3, 0]], pad=0, sndbuf=0),
            dict(limit=8, inj=[], pre=["c.m0.bytes.hello", "g.m1.-.d1"], mid=[], clients=["F", "C"],
                 threads=[["a", ["ci", "gs"], [["k", "v"]], 3, 5]], pad=0, sndbuf=0),
            dict(limit=1024, inj=[], pre=["c.m0.bytes.hello"], mid=[], clients=["F", "S"], threads=[["a", ["ci"], [], 60, 20]], pad=200, sndbuf=2048),
            dict(limit=64, inj=["-", "-", "s7", "e", "s3", "b", "e"], pre=["h.m2.seconds.x"], mid=["h.m2.seconds.y"], clients=["F", "L"],
                 threads=[["a", ["hr", "gd"], [], 4, 4]], pad=0, sndbuf=0),
            dict(limit=2, inj=["s1", "b", "s2", "b"], pre=["c.m0.-.a", "g.m1.-.b", "h.m2.-.c"], mid=[], clients=["F", "R", "F"],
                 threads=[["a", ["ci"], [], 5, 5], ["b", ["gs"], [], 5, 5]], pad=0, sndbuf=0),
            dict(limit=0, inj=[], pre=["c.m0.bytes.hello", "g.m0.seconds.again"], mid=["h.m0.-.third"], clients=["F", "L"],
                 threads=[["a", ["ci", "hr"], [["k", "v"], ["a", ""]], 3, 3]], pad=0, sndbuf=0),
        ]
        for c in fixed[:n]:
            cases.append(c)
        while len(cases) < n:
            r = rng.fork()
            limit = r.weighted([(2, None), (1, 0), (2, 1), (2, 2), (1, 3), (2, 8), (3, 64), (3, 1024)])
            stall = r.chance(1, 5)
            ncl = r.range(1, 4)
            clients = []
            for i in range(ncl):
                clients.append(r.weighted([(5, "F"), (2, "C"), (2, "R"), (2, "L"), (3 if stall else 0, "S")]))
            if all(k == "L" for k in clients) or all(k in "CR" for k in clients):
                clients[0] = "F"
            if stall and "S" not in clients:
                clients.append("S")
            names = ["m%d" % i for i in range(4)]
            kind_of = {nm: r.pick("cgh") for nm in names}

            def desc():
                nm = r.pick(names)
                kind = kind_of[nm] if not r.chance(1, 5) else r.pick("cgh")   # now and then re-described with another type
                return "%s.%s.%s.%s" % (kind, nm, r.pick(UNITS), r.pick(["", "d", "some-text", "x" * r.range(1, 20)]))
            pre = [desc() for _ in range(r.weighted([(2, 0), (3, 1), (3, 2), (2, 4)]))]
            mid = [desc() for _ in range(r.weighted([(5, 0), (3, 1), (2, 2)]))]
            nth = r.range(1, 3)
            threads = []
            for t in range(nth):
                ops = [r.pick(list(OPS)) for _ in range(r.range(1, 3))]
                labels = []
                for k in r.shuffle(["k", "a", "zone"])[: r.below(3)]:
                    labels.append([k, r.pick(["v", "", "w1", "long-value-%d" % r.below(10)])])
                hi = 40 if stall else 12
                threads.append([r.pick(["a", "req", "m0", "q"]), ops, labels, r.range(0, hi), r.range(0, hi)])
            if stall:
                pad, sndbuf = r.pick([150, 300]), 2048
            else:
                pad, sndbuf = r.weighted([(6, 0), (2, r.range(1, 40)), (1, 130)]), 0
            ninj = r.weighted([(3, 0), (3, r.range(1, 6)), (3, r.range(6, 30))])
            inj = []
            for _ in range(ninj):
                inj.append(r.weighted([(4, "-"), (4, "s%d" % r.below(1000)), (2, "e"), (2, "b")]))
            cases.append(dict(limit=limit, inj=inj, pre=pre, mid=mid, clients=clients, threads=threads, pad=pad, sndbuf=sndbuf))
        return cases

    def impl_line(self, c):
        th = ";".join("%s/%s/%s/%d/%d" % (t[0], "+".join(t[1]), ",".join("%s:%s" % (k, v) for k, v in t[2]), t[3], t[4])
                      for t in c["threads"])
        return "limit=%s inj=%s pre=%s mid=%s clients=%s threads=%s pad=%d sndbuf=%d" % (
            "none" if c["limit"] is None else c["limit"], ",".join(c["inj"]), ";".join(c["pre"]), ";".join(c["mid"]),
            ",".join(c["clients"]), th, c["pad"], c.get("sndbuf", 0))

    # ------------------------------------------------------------------ output of the driver
    def parse_out(self, c, line):
        kv = {}
        for tok in line.split(" "):
            if "=" in tok:
                k, v = tok.split("=", 1)
                kv[k] = v
        if "error" in kv:
            raise MachineryBroken("C11 driver: %s" % line[:200])
        clients = []
        for x in kv.get("clients", "").split(","):
            if not x:
                continue
            k, port, h = x.split(":")
            clients.append([k, int(port), h])
        log = [e for e in kv.get("log", "").split(";") if e]
        return dict(served=kv["served"] == "1", quiet=kv["quiet"] == "1", panic=kv["panic"] == "1",
                    nudges=int(kv["nudges"]), resync=int(kv.get("resync", "0")), clients=clients, log=log)

    def group(self, log):
        """flat hook log -> (events, boundary observations, drops, accept index per port, token per port)"""
        events, obs, drops = [], [], set()
        accepts, removes = 0, 0
        count, ss = 0, False
        at_of, tok_of = {}, {}
        cur = None

        def close():
            nonlocal cur
            if cur is not None:
                events.append(cur)
                obs.append((accepts - removes, count, ss))
                cur = None
        for e in log:
            p = e.split(":")
            k = p[0]
            if k == "S" or k == "X":
                continue
            if k == "C":
                if p[1] == "+":
                    close()          # increment_clients opens an accept
                count, ss = int(p[2]), p[3] == "1"
                continue
            if k == "A":
                close()
                accepts += 1
                at_of[int(p[2])] = len(events)
                tok_of[int(p[2])] = int(p[1])
                cur = ["A", [x for x in p[3].split(",") if x]]
                continue
            if k == "WB":
                close()
                cur = ["W", [], [], {}, [], []]
                continue
            if k == "T":
                close()
                cur = ["T", int(p[1]), []]
                continue
            if k == "WE":
                close()
                continue
            if cur is None:
                continue
            if k == "M":
                cur[1].append((p[1], int(p[2]), None if p[3] == "-" else p[3][1:], p[4]))
            elif k == "K":
                labels = [tuple(kv.split("=")) for kv in p[2].split(",") if kv]
                cur[5].append((p[1], labels, int(p[3]), int(p[4])))
            elif k == "B":
                cur[2] = [x for x in p[1].split(",") if x]
            elif k == "F":
                if cur[0] == "W" and int(p[1]) not in cur[3]:
                    cur[3][int(p[1])] = []
                    cur[4].append(int(p[1]))
            elif k == "Q":
                if int(p[2]) > 0:
                    drops.add(int(p[1]))
            elif k == "W":
                w = {"b": "WouldBlock", "i": "Interrupted", "e": "WErr"}.get(p[3]) or "Wrote %s" % cq_N(int(p[3]))
                if cur[0] == "W":
                    cur[3].setdefault(int(p[1]), []).append(w)
                    if int(p[1]) not in cur[4]:
                        cur[4].append(int(p[1]))
                elif cur[0] == "T":
                    cur[2].append(w)
            elif k == "R":
                removes += 1
        close()
        return events, obs, sorted(drops), at_of, tok_of

    # ------------------------------------------------------------------ expectations of the harness
    def expected_metas(self, descs):
        order, cur = [], {}
        for d in descs:
            kind, name, unit, desc = d.split(".")
            if name not in cur:
                order.append(name)
                cur[name] = [KINDS[kind], None, None]
            cur[name][1] = None if unit == "-" else unit
            cur[name][2] = desc
        return ["(mkDMeta %s %s %s %s)" % (hxb(n), cq_N(cur[n][0]), cq_opt(hxb(cur[n][1]) if cur[n][1] is not None else None),
                                            cq_opt(hxb(cur[n][2]))) for n in order]

    def expected_threads(self, c, late, nudges):
        out = []
        nud = ["(mkDMetric %s [(%s, %s)] 4 %s)" % (hxb("zz"), hxb("t"), hxb("0"), cq_N(j + 1)) for j in range(nudges)]
        out.append(cq_pair(hxb("0"), cq_list(nud)))
        for i, t in enumerate(c["threads"]):
            name, ops, labels, n1, n2 = t
            tid = str(i + 1)
            lab = [(k, v) for k, v in labels] + [("t", tid)] + ([("pad", "x" * c["pad"])] if c["pad"] else [])
            lab.sort(key=lambda kv: kv[0].encode())
            labt = cq_list(["(%s, %s)" % (hxb(k), hxb(v)) for k, v in lab])
            ms = []
            for j in range(n1 if late else 0, n1 + n2):
                op = ops[j % len(ops)]
                v = j + 1 if op in ("ci", "ca") else f64bits(j + 1)
                ms.append("(mkDMetric %s %s %s %s)" % (hxb(name), labt, cq_N(OPS[op]), cq_N(v)))
            out.append(cq_pair(hxb(tid), cq_list(ms)))
        return cq_list(out)

    # ------------------------------------------------------------------ Coq terms
    def coq_case2(self, c, o):
        events, obs, drops, at_of, tok_of = self.group(o["log"])
        evs = []
        for e in events:
            if e[0] == "A":
                evs.append("CAccept %s" % cq_list([hxs(x) for x in e[1]]))
            elif e[0] == "T":
                evs.append("CWritable %s %s" % (cq_N(e[1]), cq_list(e[2])))
            else:
                metas = ["(%s, %s, %s, %s)" % (hxs(n), cq_N(ty), cq_opt(hxs(u) if u is not None else None), hxs(d)) for n, ty, u, d in e[1]]
                ws = ["(%s, %s)" % (cq_N(t), cq_list(e[3][t])) for t in e[4]]
                items = ["(mkItem %s %s (%s %s))" % (hxs(n), cq_list(["(%s, %s)" % (hxs(k), hxs(v)) for k, v in labs]), MOPS[op], cq_N(val))
                         for n, labs, op, val in e[5]]
                evs.append("CWake %s %s %s %s" % (cq_list(metas), cq_list(items), cq_list([hxs(f) for f in e[2]]), cq_list(ws)))
        cl = []
        for (k, port, _h) in o["clients"]:
            late = k == "L"
            stay = k in "FSL"
            tok = tok_of.get(port) if port else None
            cl.append("(mkCinfo %s %d %s %s %s)" % (
                cq_opt(cq_N(tok) if tok is not None else None), at_of.get(port, 0), cq_bool(stay),
                cq_list(self.expected_metas(c["pre"] + (c["mid"] if late else []))),
                self.expected_threads(c, late, o["nudges"])))
        return "(mkCase %s %s %s %s)" % (cq_opt(None if c["limit"] is None else cq_N(c["limit"])), cq_list(evs),
                                         cq_list([cq_N(t) for t in drops]), cq_list(cl))

    def coq_case(self, c):
        o = self._outs.get(json.dumps(c, sort_keys=True))
        if o is None:
            o = dict(served=False, quiet=False, panic=False, nudges=0, clients=[], log=[])
        return self.coq_case2(c, o)

    def coq_out(self, c, o):
        _events, obs, _d, _a, _t = self.group(o["log"])
        return "(mkOut %s %s false %s %s)" % (
            cq_bool(o["served"]), cq_bool(o["quiet"]), cq_list([hxs(h) for _k, _p, h in o["clients"]]),
            cq_list(["(%s, %s, %s)" % (cq_Z(n), cq_Z(cnt), cq_bool(s)) for n, cnt, s in obs]))

    # ------------------------------------------------------------------ running (several driver processes)
    def evaluate(self, binpath, cases, tier, tag="cases"):
        if not cases:
            return []
        lines = [self.impl_line(c) for c in cases]
        k = max(1, min(self.procs, len(lines)))
        chunks = [list(range(i, len(lines), k)) for i in range(k)]

        def one(idx):
            rc, outs, err = core.run_impl(binpath, [lines[i] for i in idx], timeout=1800)
            if rc != 0 or len(outs) != len(idx):
                raise MachineryBroken("harness binary %s: rc=%s, %d lines for %d cases\nstderr: %s" % (binpath, rc, len(outs), len(idx), err[-3000:]))
            return list(zip(idx, outs))
        outs = [None] * len(lines)
        with ThreadPoolExecutor(max_workers=k) as ex:
            for res in ex.map(one, chunks):
                for i, o in res:
                    outs[i] = o
        parsed = [self.parse_out(c, o) for c, o in zip(cases, outs)]
        for c, o in zip(cases, parsed):
            self._outs[json.dumps(c, sort_keys=True)] = o
        triples = [(i, self.coq_case2(c, o), self.coq_out(c, o)) for i, (c, o) in enumerate(zip(cases, parsed))]
        res = core.run_model(self.pid, triples, exec_mod=self.exec_mod, shard=self.shard, tag=tag)
        return [dict(case=c, out=self.brief(o), agree=res[i][0], spec=res[i][1], known=res[i][2])
                for i, (c, o) in enumerate(zip(cases, parsed))]

    def brief(self, o):
        """what goes into evidence / replay files (streams and frames shortened)"""
        def cut(s):
            return s if len(s) <= 160 else s[:160] + "...(%d bytes)" % (len(s) // 2)
        return dict(served=o["served"], quiet=o["quiet"], panic=o["panic"], nudges=o["nudges"],
                    clients=[[k, p, cut(h)] for k, p, h in o["clients"]],
                    log=[cut(e) for e in o["log"][:400]])

    # ------------------------------------------------------------------ free-running stress engine
    def stress_lines(self, tier, rng):
        """parameter lines for the driver's `stress` mode: real exporter, reading clients, emitters paced at about the
        transport's drain rate, rounds that stay within the buffer"""
        secs = 10 if tier == "quick" else 40
        base = [dict(limit=4096, clients=1, emitters=1, per=300, spin=250),
                dict(limit=1024, clients=2, emitters=1, per=100, spin=rng.pick([80, 120, 200])),
                dict(limit=None, clients=1, emitters=2, per=150, spin=rng.pick([150, 300, 500]))]
        if tier != "quick":
            base += [dict(limit=64, clients=1, emitters=1, per=40, spin=rng.pick([100, 250, 600])),
                     dict(limit=8, clients=2, emitters=1, per=6, spin=rng.pick([250, 1000])),
                     dict(limit=4096, clients=3, emitters=3, per=200, spin=rng.pick([100, 400]))]
        for b in base:
            b["secs"] = secs
            b["wait"] = 15000
        return base

    def extra_checks(self, ctx):
        params = self.stress_lines(ctx["tier"], ctx["rng"])

        def line(b):
            return "stress " + " ".join("%s=%s" % (k, "none" if v is None else v) for k, v in b.items())

        def one(b):
            rc, outs, err = core.run_impl(ctx["binpath"], [line(b)], timeout=600)
            if rc != 0 or len(outs) != 1:
                raise MachineryBroken("C11 stress engine: rc=%s out=%r stderr=%s" % (rc, outs, err[-2000:]))
            return b, outs[0]
        violations = []
        rounds = emitted = 0
        with ThreadPoolExecutor(max_workers=len(params)) as ex:
            results = list(ex.map(one, params))
        for b, out in results:
            kv = dict(t.split("=", 1) for t in out.split() if "=" in t)
            if kv.get("ok") == "1":
                rounds += int(kv.get("rounds", 0))
                emitted += int(kv.get("emitted", 0))
                continue
            if "error" in kv or kv.get("kind") in ("connect", "not-accepted"):
                raise MachineryBroken("C11 stress engine could not start: %s" % out)
            if kv.get("kind") == "stall":
                desc = ("free-running engine (samples schedules): with a client connected and emission within the buffer, delivery stalled: "
                        "%s of %s emitted metrics received and then nothing for %s ms; first missing metric %s (round %s)" % (
                            kv.get("received"), kv.get("emitted"), kv.get("waited_ms"), kv.get("first_missing"), kv.get("round")))
            else:
                desc = "free-running engine (samples schedules): a client's stream is not the emitted sequence: %s (round %s)" % (
                    kv.get("detail", out), kv.get("round"))
            violations.append(("stress", desc, dict(engine="free-running emitter vs transport thread", parameters=b, driver_line=line(b),
                                                    driver_output=out, first_missing=kv.get("first_missing"), seed=ctx["seed"])))
            break
        ctx["coverage"].update({
            "stress_engine": "free-running: real exporter thread, reading clients, emitters paced at about the drain rate, rounds within the buffer; "
                             "judged by the delivery clause; samples schedules, proves nothing",
            "stress_instances": len(params), "stress_rounds": rounds, "stress_metrics_emitted": emitted,
            "stress_seconds_each": params[0]["secs"], "stress_stall_wait_ms": params[0]["wait"],
        })
        return violations

    def signature(self, c, out):
        if not c["clients"] or not any(t[3] + t[4] for t in c["threads"]):
            return None
        return json.dumps(c, sort_keys=True)

    def shrink(self, c):
        cands = []
        if c["inj"]:
            cands.append(dict(c, inj=[]))
            cands.append(dict(c, inj=c["inj"][: len(c["inj"]) // 2]))
        if len(c["clients"]) > 1:
            for i in range(len(c["clients"])):
                cands.append(dict(c, clients=c["clients"][:i] + c["clients"][i + 1:]))
        if len(c["threads"]) > 1:
            for i in range(len(c["threads"])):
                cands.append(dict(c, threads=c["threads"][:i] + c["threads"][i + 1:]))
        for i, t in enumerate(c["threads"]):
            if t[3] > 1 or t[4] > 1:
                cands.append(dict(c, threads=c["threads"][:i] + [[t[0], t[1], t[2], t[3] // 2, t[4] // 2]] + c["threads"][i + 1:]))
            if t[2]:
                cands.append(dict(c, threads=c["threads"][:i] + [[t[0], t[1], [], t[3], t[4]]] + c["threads"][i + 1:]))
        if c["pre"]:
            cands.append(dict(c, pre=c["pre"][:-1]))
        if c["mid"]:
            cands.append(dict(c, mid=[]))
        if c["pad"]:
            cands.append(dict(c, pad=0, sndbuf=0))
        return cands[:10]


PROP = C11()
