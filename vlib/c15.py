"""C15 — histogram buckets, bucket-override precedence, rolling summary windows.

Three kinds of case (one Coq sum type):
  H  metrics_util::storage::Histogram: bounds + a sequence of record / record_many operations
  D  Matcher / DistributionBuilder: a set of overrides, optional global buckets and one metric name,
     either directly (san=0) or through PrometheusBuilder + render (san=1, matchers and name sanitised)
  R  RollingSummary (through Distribution::new_summary / record_samples) under a mock quanta clock
Doubles travel as 16 hex digits (bit patterns)."""
import struct
from decimal import Decimal

from .core import Prop, cq_N, cq_bool, cq_list, cq_opt


def hx(x):
    return "%016x" % struct.unpack("<Q", struct.pack("<d", x))[0]


def unhx(h):
    return struct.unpack("<d", struct.pack("<Q", int(h, 16)))[0]


def nextafter(x, up):
    b = struct.unpack("<q", struct.pack("<d", x))[0]
    if x == 0.0:
        return 5e-324 if up else -5e-324
    b += 1 if (x > 0) == up else -1
    return struct.unpack("<d", struct.pack("<q", b))[0]


def rust_display(x):
    """Rust's `format!("{}", x)` for f64: shortest round-trip digits, positional, no exponent."""
    if x != x:
        return "NaN"
    if x in (float("inf"), float("-inf")):
        return "inf" if x > 0 else "-inf"
    t = format(Decimal(repr(x)), "f")
    if "." in t:
        t = t.rstrip("0").rstrip(".")
    if x == 0 and str(x).startswith("-") and not t.startswith("-"):
        t = "-" + t
    return t


def f64max(a, b):
    if a != a:
        return b
    if b != b:
        return a
    return a if b < a else b


def f64min(a, b):
    if a != a:
        return b
    if b != b:
        return a
    return a if a < b else b


INF = float("inf")
NAN = "7ff8000000000000"
POOL = [-INF, -2.5, -1.0, -0.0, 0.0, 5e-324, 0.1, 0.2, 0.30000000000000004, 0.5, 1.0, 1.0000000000000002, 2.0, 10.0, 1e16, 1e300, INF]


def cq_f(h):
    return "(f64 0x%s%%Z)" % h


def cq_fl(hs):
    return cq_list([cq_f(h) for h in hs])


def cq_str(s):
    return cq_list([cq_N(ord(ch)) for ch in s])


def valid_start(ch):
    return (ch.isascii() and ch.isalpha()) or ch in "_:"


def valid_char(ch):
    return (ch.isascii() and ch.isalnum()) or ch in "_:"


def sanitize(s):
    return "".join((ch if (valid_start(ch) if i == 0 else valid_char(ch)) else "_") for i, ch in enumerate(s))


SEGS = ["http", "2xx", "5xx", "req", ".", "_", " ", "-", ":", "é", "日", "9", "a", "A", "0", "x", "\U0001f600"]
KINDS = {"F": "MFull", "P": "MPrefix", "S": "MSuffix"}


class C15(Prop):
    pid = "C15"
    pkg = "hprom"
    binname = "c15"
    quick_cases = 3000
    thorough_cases = 60000
    shard = 200
    rule = ("five case kinds (30% H, 30% D, 15% R, 15% V, 10% Q). H: 0..6 bounds from a 17-value pool (+-inf, +-0, subnormal, neighbours, NaN rarely; "
            "ascending with repeats, 15% shuffled) and 1..10 record/record_many operations (batches of 0..6) whose samples are bounds, "
            "their neighbours, pool values or NaN, observed after every operation. D: 0..6 overrides (Full/Prefix/Suffix, patterns cut "
            "from the name raw or pre-sanitised, or random segments incl. digits, non-ASCII), optional global buckets, one name, through "
            "DistributionBuilder directly or through PrometheusBuilder+render; the render configuration is a product of independent dimensions: "
            "unit suffix on/off x described with no unit / count (no suffix) / percent (suffix ratio) / a unit whose suffix is its name x global "
            "buckets or none x metric name ending in the unit suffix or not x per override kind x target (metric name, suffixed family name, "
            "common prefix, neither, repeat); the distribution over these dimensions is written to the evidence (config_distribution). R: bucket_count 1..5, duration in {1,2,5,7,10}ns, 1..14 "
            "add/snapshot operations with time steps on and around bucket and window edges (10% of cases with a backward step). "
            "V: the R operations through the real exporter under a mock quanta clock (PrometheusBuilder+build_recorder, histogram!().record, render): "
            "a burst of 1..6 samples (1/8 +-inf), then 1..4 renders at times chosen on and one tick around the window and bucket edges so that none/some/"
            "all samples are outside the window, optionally more samples and renders; the distribution (samples outside the window per render, "
            "infinite samples) is written to the evidence (summary_window_distribution). W (extra engine, not part of the case count): the V operations on the REAL clock (build_recorder(), real sleeps, ticks = ms) in three processes = "
            "three regimes of quanta's recent time (none / Upkeep 600 s / set once), 4 (thorough 10) scenarios each, side by side: rounds of 1..3 samples + "
            "render at once, separated by sleeps of >= 1.3 windows + 100 ms, windows 400..1200 ms; a run whose round took longer than a quarter bucket is repeated. "
            "Q: one quantile (a 30-value list incl. 0, 1, out-of-range, -0.0, NaN, +-inf, 0.29, 0.57, 1e-7, or k/1000, k/100000). "
            "Non-trivial = at least one operation / override; distinct = distinct (case, output)")
    design_ref = "DESIGN.md 4 C15"
    technique = ("Coq proof over an abstract float interface (FloatOps) about hand-written models of Histogram, Matcher/DistributionBuilder "
                 "and RollingSummary; differential correspondence against the real code with the model evaluated on Coq primitive binary64 floats")
    level_text = ("Theorems (Coq, any FloatOps instance with a transitive <= (and reflexive fsame for C15_spec_ok_on_model); all inputs, histories, configurations, no size bounds). "
                  "Histogram: with ascending bounds every bucket equals the number of samples <= its bound after any record/record_many sequence "
                  "(C15_bucket_counts), monotone in bound and time, every bucket <= count = number of samples, NaN in no bucket, all batchings "
                  "agree (C15_batch_equals_single). Overrides: the DistributionBuilder model (HashMap insert of sanitised matchers, sort by the "
                  "derived Ord, first match) equals a sort-free specification (C15_override_model_meets_spec); the winner is the least applying "
                  "matcher in the derived Ord Full < Prefix < Suffix then pattern, with the bounds of the last override filed under it, else global, "
                  "else summary (C15_override_precedence); Matcher::matches = Spec.applies; type says histogram iff a histogram is built; in the model of "
                  "Inner::render, for every unit-suffix configuration, TYPE says histogram iff buckets apply to the METRIC name iff bucket series are "
                  "rendered (C15_exposed_as_histogram_iff_buckets_apply); prefix / "
                  "full / suffix (incl. whole-name) soundness after sanitisation; the pre-fix suffix rule refuted. Rolling summary: for every history "
                  "with non-decreasing timestamps the invariant (buckets descending and >= dur apart, <= n, each holding exactly the finite samples "
                  "of its [begin, begin+dur)) holds, a snapshot contains no sample older than now-n*dur and every sample >= now-n*dur+dur (also as "
                  "multiset counts), truncate never evicts a retained bucket, count counts all adds and sum is the fold of all adds whatever left the "
                  "window, a snapshot reports exactly these (C15_window, C15_window_truncate_never_evicts, C15_summary_sum_covers_all). "
                  "C15_spec_ok_on_model: the models' outputs satisfy the executable property for all histogram, override and rolling-summary cases (not for quantile-label cases). "
                  "All models are tied to /repo by running the real code and the model (on Coq primitive binary64 floats) on the same cases each "
                  "run; spec_ok is evaluated on every implementation output.")
    level_note = ("Not proved: that Coq's primitive floats satisfy the order hypotheses (would need FloatAxioms). The while loop that finds a new "
                  "bucket's begin is modelled by its closed form. DDSketch is abstract: only the snapshot count and min*(1-eps) <= q <= max*(1+eps), "
                  "eps = 1.0001e-4, are checked; the sketch's own min()/max() are not compared (sketches-ddsketch 0.3.0 merge ignores "
                  "non-positive-only sketches when updating min/max). Which of quanta's time sources (now / recent) the code reads is decided by "
                  "evaluation only (real-clock engine), not by theorem. The quantile-label case kind (Quantile::new / parse_quantiles) is differential "
                  "plus per-case spec_ok only: float Display formatting is an oracle input computed by the python side and cross-checked against "
                  "the driver's own rendering; f64::max/min ties (-0.0 vs 0.0) are modelled as observed (the constant operand wins).")
    assumptions = ["u64 counters and nanosecond instants do not overflow",
                   "quanta mock clock stands for the real clock, except in the real-clock engine (12 scenarios quick / 30 thorough, three regimes of quanta's recent time), which exists to tell which time source the code reads",
                   "the theorems are stated for every FloatOps instance whose <= is transitive and in which a value not <= itself (NaN) is <= nothing; "
                   "that Coq's primitive floats satisfy this is not proved (it would need the FloatAxioms of the standard library)",
                   "rolling-summary samples in the correspondence runs are non-NaN doubles that are 0, of magnitude 1e-3..1e6, or +-inf (Summary::add drops infinities from the sketch; _sum and _count include them); NaN samples are outside the summary clause (no order; DDSketch files them under zero)"]
    trusted_extra = ["sketches-ddsketch (quantile estimation; only count/min/max and min*(1-1e-4) <= q <= max*(1+1e-4) are checked)",
                     "Coq primitive floats (kernel-native binary64 under vm_compute) as the evaluation of FloatOps",
                     "std HashMap iteration order inside DistributionBuilder::new (exercised; the model uses insertion order and unique keys)"]

    # ------------------------------------------------------------------ generators
    def gen_fval(self, rng, bounds):
        r = rng.below(20)
        if r < 2:
            return NAN
        if r < 9 and bounds:
            b = unhx(rng.pick(bounds))
            if b != b:
                return NAN
            k = rng.below(3)
            if k == 0 or b in (INF, -INF):
                return hx(b)
            return hx(nextafter(b, k == 1))
        return hx(rng.pick(POOL))

    def gen_hist(self, rng):
        k = rng.weighted([(1, 0), (3, 1), (4, 2), (6, 3), (4, 4), (2, 6)])
        vals = [rng.pick(POOL) for _ in range(k)]
        if rng.chance(1, 3) and vals:
            vals.append(rng.pick(vals))
        vals.sort()
        bounds = [hx(v) for v in vals]
        if rng.chance(3, 20):
            bounds = rng.shuffle(bounds)
        if rng.chance(1, 20) and bounds:
            bounds[rng.below(len(bounds))] = NAN
        ops = []
        for _ in range(rng.range(1, 10)):
            if rng.chance(1, 2):
                ops.append(["S", self.gen_fval(rng, bounds)])
            else:
                ops.append(["M", [self.gen_fval(rng, bounds) for _ in range(rng.below(7))]])
        return dict(k="H", bounds=bounds, ops=ops)

    def gen_name(self, rng):
        return "".join(rng.pick(SEGS) for _ in range(rng.range(1, 4)))

    UNITS = ["count", "percent", "seconds", "milliseconds", "microseconds", "nanoseconds", "tebibytes", "gibibytes", "mebibytes",
             "kibibytes", "bytes", "terabits_per_second", "gigabits_per_second", "megabits_per_second", "kilobits_per_second",
             "bits_per_second", "count_per_second"]

    @staticmethod
    def unit_suffix(u):
        return None if u in (None, "count") else "ratio" if u == "percent" else u

    @staticmethod
    def py_matches(kind, pat, key):
        """Matcher::sanitized + Matcher::matches (after the fix) on an already sanitised key; used for coverage statistics only"""
        if kind == "F":
            return key == sanitize(pat)
        if kind == "P":
            return key.startswith(sanitize(pat))
        return key.endswith(sanitize("_" + pat)[1:]) or key == sanitize(pat)

    def bare_pattern(self, rng, kind, name):
        if kind == "F":
            pat = name
        elif kind == "P":
            pat = name[:rng.range(0, len(name))]
        else:
            pat = name[rng.range(0, len(name)):]
        m = rng.below(4)
        if m == 0:
            pat = sanitize(pat)
        elif m == 1 and kind == "S":
            pat = sanitize("_" + pat)[1:]
        return pat

    def gen_dist(self, rng):
        """The builder configuration is a product of independent dimensions: sanitising path or direct; unit suffix on/off;
        described with a unit (no suffix / renamed suffix / suffix = unit name) or not; global buckets or none; metric name
        ending in the unit suffix or not; and per override: kind x target (bare metric name, suffixed family name, a prefix
        common to both, neither)."""
        san = 1 if rng.chance(3, 5) else 0
        usfx = 1 if rng.chance(1, 2) else 0
        unit = rng.weighted([(6, None), (2, "count"), (4, "percent"), (6, "seconds"), (2, "bytes"), (1, "milliseconds"),
                             (1, "count_per_second"), (1, "bits_per_second"), (2, rng.pick(self.UNITS))])
        sfx = self.unit_suffix(unit) or self.unit_suffix(rng.pick(self.UNITS[1:]))   # the (potential) suffix patterns aim at
        name = self.gen_name(rng)
        if rng.chance(1, 6):
            name = sanitize(name)
        if rng.chance(1, 5):
            name = name + "_" + sfx                # the metric name itself already ends in the unit suffix
        fam = sanitize(name) + "_" + sfx
        glob = [hx(100.0)] + ([hx(200.0)] if rng.chance(1, 2) else []) if rng.chance(2, 5) else None
        ovs = []
        for i in range(rng.weighted([(1, 0), (3, 1), (3, 2), (3, 3), (2, 4), (1, 6)])):
            kind = rng.pick("FPS")
            target = rng.pick(["bare", "bare", "family", "family", "common", "neither", "repeat"])
            if target == "bare":
                pat = self.bare_pattern(rng, kind, name)
            elif target == "family":
                ln = len(sanitize(name))
                if kind == "F":
                    pat = fam
                elif kind == "P":
                    pat = fam[:rng.range(ln + 1, len(fam))]
                else:
                    pat = rng.pick(["_" + sfx, sfx, sfx[rng.range(0, len(sfx) - 1):], fam[rng.range(0, ln):]])
            elif target == "common":
                pat = sanitize(name)[:rng.range(0, len(name))] if kind != "S" else sfx[rng.range(0, len(sfx) - 1):]
            elif target == "repeat" and ovs:
                pat = ovs[rng.below(len(ovs))][1]
            else:
                pat = self.gen_name(rng)
                if rng.chance(1, 4):
                    pat = pat[:rng.range(0, len(pat))]
            b = [hx(float(i + 1))] + ([hx(i + 1.5)] if rng.chance(1, 3) else [])
            ovs.append([kind, pat, b])
        if san == 0:
            # DistributionBuilder used directly: no unit suffix, no description; the key is what a recorder would pass
            usfx, unit = 0, None
            if rng.chance(1, 10):
                name = sanitize(name)
        return dict(k="D", san=san, glob=glob, name=name, ovs=ovs, usfx=usfx, unit=unit)

    def config_stats(self, cases):
        """distribution of the generated override/render cases over the configuration dimensions (for the evidence file)"""
        st = dict(render_cases=0, unit_suffix_on=0, described_none=0, described_no_suffix=0, described_renamed_suffix=0,
                  described_same_suffix=0, global_buckets=0, family_name_differs=0, suffix_x_unit_x_overrides_x_noglobal=0,
                  type_differs_if_family_name_were_used=0)
        ov = {}
        for c in cases:
            if c["k"] != "D" or not c["san"]:
                continue
            st["render_cases"] += 1
            u, usfx = c.get("unit"), c.get("usfx", 0)
            st["unit_suffix_on"] += usfx
            st["described_none" if u is None else "described_no_suffix" if u == "count" else
               "described_renamed_suffix" if u == "percent" else "described_same_suffix"] += 1
            st["global_buckets"] += c["glob"] is not None
            key = sanitize(c["name"])
            sfx = self.unit_suffix(u) if usfx else None
            fam = key + "_" + sfx if sfx else key
            st["family_name_differs"] += fam != key
            st["suffix_x_unit_x_overrides_x_noglobal"] += bool(fam != key and c["ovs"] and c["glob"] is None)
            # classification against the POTENTIAL family name, independent of the switches
            psfx = self.unit_suffix(u)
            pfam = key + "_" + psfx if psfx else key
            a_key = a_fam = False
            for k, p, _ in c["ovs"]:
                mk, mf = self.py_matches(k, p, key), self.py_matches(k, p, pfam)
                cls = "both" if mk and mf else "metric_name_only" if mk else "family_name_only" if mf else "neither"
                ov[KINDS[k][1:] + ":" + cls] = ov.get(KINDS[k][1:] + ":" + cls, 0) + 1
                a_key |= mk
                a_fam |= self.py_matches(k, p, fam)
            st["type_differs_if_family_name_were_used"] += bool(c["glob"] is None and a_key != a_fam)
        st["overrides_by_kind_and_target"] = dict(sorted(ov.items()))
        return st

    RVALS = [1.0, 2.5, 1000.0, 0.001, 1e6, -3.0, 0.0, 42.0, 7.25, -1000.5, 0.5]

    def gen_roll(self, rng):
        n = rng.range(1, 5)
        dur = rng.pick([1, 2, 5, 7, 10])
        maxdur = n * dur
        t = rng.pick([0, 0, rng.below(3 * maxdur + 1), maxdur, 1000])
        back = rng.chance(1, 10)
        ops = []
        for _ in range(rng.range(1, 14)):
            step = rng.pick([0, 1, max(dur - 1, 0), dur, dur + 1, max(maxdur - dur, 0), max(maxdur - 1, 0), maxdur, maxdur + 1,
                             rng.below(2 * maxdur + 1), rng.below(dur + 1)])
            if back and rng.chance(1, 4):
                t = max(0, t - rng.pick([1, dur, step]))
            else:
                t += step
            if rng.chance(13, 20):
                v = rng.weighted([(20, hx(rng.pick(self.RVALS))), (1, hx(INF)), (1, hx(-INF)), (1, hx(-0.0))])
                ops.append(["A", t, v])
            else:
                ops.append(["P", t])
        if not any(o[0] == "P" for o in ops):
            ops.append(["P", t + rng.pick([0, 1, dur, maxdur - 1, maxdur])])
        return dict(k="R", n=n, dur=dur, ops=ops)

    def gen_render(self, rng):
        """summary observed through the exporter (Inner::render) under the mock clock: a burst of samples, then renders at times
        chosen so that none, some or all samples have left the window (on and one tick around the window and bucket edges),
        optionally more samples and another render"""
        n = rng.range(1, 5)
        dur = rng.pick([1, 2, 5, 7, 10])
        maxdur = n * dur
        t = rng.pick([0, 0, rng.below(3 * maxdur + 1), maxdur, 1000])
        ops = []

        def val():
            return rng.weighted([(14, hx(rng.pick(self.RVALS))), (1, hx(INF)), (1, hx(-INF))])

        def burst(k):
            nonlocal t
            ts = []
            for _ in range(k):
                t += rng.pick([0, 0, 1, max(dur - 1, 0), dur, dur + 1, rng.below(dur + 1), max(maxdur - dur, 0), rng.below(maxdur + 1)])
                ops.append(["A", t, val()])
                ts.append(t)
            return ts

        def renders(ts, k):
            nonlocal t
            first, last = ts[0], ts[-1]
            cands = [last, last + 1, first + maxdur - 1, first + maxdur, first + maxdur + 1, last + maxdur - dur, last + maxdur - dur + 1,
                     last + maxdur - 1, last + maxdur, last + maxdur + 1, last + 2 * maxdur + 3, first + dur * rng.range(1, n + 1),
                     first + dur * rng.range(1, n + 1) - 1, last + rng.below(2 * maxdur + 2)]
            cands = sorted(set(c for c in cands if c >= last))
            for c in sorted(rng.pick(cands) for _ in range(k)):
                ops.append(["P", c])
                t = max(t, c)

        ts = burst(rng.range(1, 6))
        renders(ts, rng.range(1, 4))
        if rng.chance(1, 3):
            ts = burst(rng.range(1, 3))
            renders(ts, rng.range(1, 2))
        if rng.chance(1, 12) and len(ops) > 2:
            j = rng.range(1, len(ops) - 1)          # one backward step: compared with the model, window clauses not asserted
            ops[j] = [ops[j][0], max(0, ops[j][1] - rng.pick([1, dur, maxdur]))] + ops[j][2:]
        return dict(k="V", n=n, dur=dur, ops=ops)

    def window_stats(self, cases):
        """per snapshot/render: how many of the finite samples recorded so far are outside the window (t <= now - n*dur)"""
        st = {}
        for c in cases:
            if c["k"] not in ("R", "V"):
                continue
            d = st.setdefault("render_path" if c["k"] == "V" else "direct_api",
                              dict(cases=0, cases_with_infinite_samples=0, snapshots=0, no_sample_yet=0, none_outside_window=0,
                                   some_outside_window=0, all_outside_window=0, on_window_edge=0, infinite_samples_before_snapshot=0))
            d["cases"] += 1
            maxdur = c["n"] * c["dur"]
            past, ninf = [], 0
            d["cases_with_infinite_samples"] += any(o[0] == "A" and unhx(o[2]) in (INF, -INF) for o in c["ops"])
            for o in c["ops"]:
                if o[0] == "A":
                    if unhx(o[2]) in (INF, -INF):
                        ninf += 1
                    else:
                        past.append(o[1])
                    continue
                d["snapshots"] += 1
                d["infinite_samples_before_snapshot"] += ninf > 0
                out = [tt for tt in past if o[1] >= maxdur and tt <= o[1] - maxdur]
                d["on_window_edge"] += any(o[1] >= maxdur and tt in (o[1] - maxdur, o[1] - maxdur + 1, o[1] - maxdur + c["dur"]) for tt in past)
                d["no_sample_yet" if not past else "none_outside_window" if not out else
                  "all_outside_window" if len(out) == len(past) else "some_outside_window"] += 1
        return st

    QVALS = [0.0, 0.5, 0.9, 0.95, 0.99, 0.999, 0.9999, 1.0, 1.2, -1.0, -0.0, 0.25, 0.1, 0.7, 1e-7, 0.123456789, 0.29, 0.57,
             0.05, 0.005, 0.3, 0.07, 0.14, 0.55, 1.0000000000000002, 0.9999999999999999, 5e-324, 1e300, INF, -INF]

    def gen_quant(self, rng):
        r = rng.below(10)
        if r < 5:
            q = rng.pick(self.QVALS)
        elif r < 6:
            return self.mk_quant(NAN)
        elif r < 8:
            q = rng.below(1001) / 1000.0
        else:
            q = rng.below(100001) / 100000.0
        return self.mk_quant(hx(q))

    def mk_quant(self, qh):
        q = unhx(qh)
        v = f64min(f64max(q, 0.0), 1.0)
        return dict(k="Q", q=qh, fc=rust_display(v), fd=rust_display(v * 100.0))

    def gen(self, rng, n):
        cases = []
        for i in range(n):
            k = i % 10
            if k == 8 or (k == 5 and (i // 10) % 2 == 0):
                cases.append(self.gen_render(rng))
                continue
            cases.append(self.gen_quant(rng) if k == 9 else self.gen_hist(rng) if k % 3 == 0 else self.gen_dist(rng) if k % 3 == 1 else self.gen_roll(rng))
        if getattr(self, "_stats", None) is None:
            self._stats = self.config_stats(cases)
            self._wstats = self.window_stats(cases)
        return cases

    def extra_checks(self, ctx):
        ctx["coverage"]["config_distribution"] = getattr(self, "_stats", None)
        ctx["coverage"]["summary_window_distribution"] = getattr(self, "_wstats", None)
        return self.real_clock_engine(ctx)

    # ------------------------------------------------------------------ real-clock engine
    REGIMES = {0: "no upkeep: nothing maintains quanta's recent time",
               1: "quanta::Upkeep with a 600 s interval running in the process",
               2: "quanta::set_recent called once at start-up"}
    RWINDOWS = [(1, 400), (1, 700), (1, 1000), (2, 400), (2, 500), (3, 400)]
    RROUND_VALUES = [[1000.0, 42.0], [5.0, 2.5], [7.25, 0.5]]

    @staticmethod
    def nominal_ops(c):
        """a real-clock scenario on its nominal time line (ticks = ms): what the model and the specification are run on"""
        t, ops = 0, []
        for o in c["ops"]:
            if o[0] == "S":
                t += o[1]
            elif o[0] == "A":
                ops.append(["A", t, o[1]])
            else:
                ops.append(["P", t])
        return ops

    def gen_real(self, rng, regime):
        """rounds of (1..3 samples, render at once [, render again]) separated by sleeps of at least 1.3 windows + 100 ms: a sample
        just recorded is inside the window, everything from earlier rounds is outside; nothing is ever near an edge"""
        n, dur = rng.pick(self.RWINDOWS)
        win = n * dur
        rounds = 3 if win <= 700 and rng.chance(1, 2) else 2
        ops = []
        for r in range(rounds):
            if r:
                ops.append(["S", (13 * win + 9) // 10 + rng.range(100, 300)])
            for _ in range(rng.range(1, 3)):
                ops.append(["A", hx(rng.pick(self.RROUND_VALUES[r]))])
            ops.append(["P"])
            if rng.chance(1, 3):
                ops.append(["P"])
        return dict(k="W", regime=regime, n=n, dur=dur, ops=ops)

    @staticmethod
    def timing_ok(c, real_ms):
        """the run kept to the scenario: every operation of a round happened within a quarter of a bucket of the round's first"""
        i, first = 0, None
        for o in c["ops"]:
            if o[0] == "S":
                first = None
                continue
            if i >= len(real_ms):
                return False
            if first is None:
                first = real_ms[i]
            if real_ms[i] - first > c["dur"] // 4:
                return False
            i += 1
        return i == len(real_ms)

    def real_clock_engine(self, ctx):
        """The render-path summary cases once more on the REAL clock (build_recorder(), no clock override, real sleeps): a mock
        clock cannot tell WHICH of quanta's time sources (now / recent) the code reads.  One process per regime (quanta's recent
        time is process-global), scenarios of a process side by side.  Judged by the same model and spec_ok on nominal times."""
        import time
        from concurrent.futures import ThreadPoolExecutor
        from . import core
        t0 = time.time()
        rng = ctx["rng"].fork()
        per = 4 if ctx["tier"] == "quick" else 10
        scen = [self.gen_real(rng, regime) for regime in (0, 1, 2) for _ in range(per)]
        done, pending, attempts, stalled = {}, list(range(len(scen))), 0, 0

        def run_regime(idx):
            rc, outs, err = core.run_impl(ctx["binpath"], [self.impl_line(scen[i]) for i in idx], timeout=300)
            if rc != 0 or len(outs) != len(idx):
                raise core.MachineryBroken("c15 driver (real clock) failed: rc=%s %s" % (rc, err[-1000:]))
            return list(zip(idx, outs))

        while pending and attempts < 3:
            attempts += 1
            groups = [[i for i in pending if scen[i]["regime"] == r] for r in (0, 1, 2)]
            with ThreadPoolExecutor(max_workers=3) as ex:
                res = [x for g in ex.map(run_regime, [g for g in groups if g]) for x in g]
            pending = []
            for i, line in res:
                o = self.parse_out(scen[i], line)
                if "panic" not in o and not self.timing_ok(scen[i], o["real_ms"]):
                    stalled += 1            # the machine stalled inside a round: the run says nothing, repeat it
                    pending.append(i)
                else:
                    done[i] = o
        idx = sorted(done)
        triples = [(k, self.coq_case(scen[i]), self.coq_out(scen[i], done[i])) for k, i in enumerate(idx)]
        res = core.run_model(self.pid, triples, exec_mod=self.exec_mod, shard=self.shard, tag="real") if triples else {}
        ctx["coverage"]["real_clock_engine"] = dict(
            regimes={self.REGIMES[r]: dict(scenarios=sum(1 for i in idx if scen[i]["regime"] == r),
                                           renders=sum(1 for i in idx if scen[i]["regime"] == r for o in scen[i]["ops"] if o[0] == "P"),
                                           sleeps=sum(1 for i in idx if scen[i]["regime"] == r for o in scen[i]["ops"] if o[0] == "S"))
                     for r in (0, 1, 2)},
            windows_ms=sorted({scen[i]["n"] * scen[i]["dur"] for i in idx}), process_rounds=attempts, repeated_because_stalled=stalled,
            inconclusive_after_3_runs=len(pending), wall_s=round(time.time() - t0, 2),
            sample=dict(case=scen[idx[0]], impl_out=done[idx[0]]) if idx else None)
        bad = [k for k in range(len(idx)) if not res[k][1]]
        dis = [k for k in range(len(idx)) if not res[k][0]]
        for kind, ks, what, extra in (
                ("realclock-spec", bad, "on the REAL clock (regime: %s) the rendered summary violates the property: _count/_sum do not cover all samples, "
                 "or the quantiles ignore a sample recorded just before the render / include samples older than 1.3 windows", {}),
                ("realclock-corr", dis, "real-clock render observations (regime: %s) disagree with the Coq model run on the nominal times",
                 dict(no_failing_input=True, broken="correspondence C15/Exec.v run_case vs harness c15 (real clock)"))):
            if ks:
                i = idx[ks[0]]
                return [(kind, what % self.REGIMES[scen[i]["regime"]],
                         dict(case=scen[i], impl_out=done[i], nominal_ops=self.nominal_ops(scen[i]), failing_scenarios=len(ks), **extra))]
        return []

    # ------------------------------------------------------------------ implementation side
    def impl_line(self, c):
        if c["k"] == "H":
            toks = []
            for o in c["ops"]:
                if o[0] == "S":
                    toks.append("S" + o[1])
                else:
                    toks.append("M" + (",".join(o[1]) if o[1] else "-"))
            return "H %s | %s" % (",".join(c["bounds"]) if c["bounds"] else "-", " ".join(toks))
        if c["k"] == "D":
            toks = ["%s:%s:%s" % (k, p.encode("utf-8").hex(), ",".join(b)) for k, p, b in c["ovs"]]
            return "D %d %s %s %d %s | %s" % (c["san"], ",".join(c["glob"]) if c["glob"] else "-", c["name"].encode("utf-8").hex() or "-",
                                              c.get("usfx", 0), c.get("unit") or "-", " ".join(toks))
        if c["k"] == "Q":
            return "Q " + c["q"]
        if c["k"] == "W":
            toks = [("A" + o[1]) if o[0] == "A" else ("S%d" % o[1]) if o[0] == "S" else "P" for o in c["ops"]]
            return "W %d %d %d | %s" % (c["regime"], c["n"], c["dur"], " ".join(toks))
        toks = [("A%d:%s" % (o[1], o[2])) if o[0] == "A" else ("P%d" % o[1]) for o in c["ops"]]
        if c["k"] == "V":
            return "V %d %d | %s" % (c["n"], c["dur"], " ".join(toks))
        return "R %d %d | %s" % (c["n"], c["dur"], " ".join(toks))

    def parse_out(self, c, line):
        if line.startswith("panic:"):
            return dict(panic=line[6:])
        if c["k"] == "H":
            if line == "none":
                return dict(none=True)
            parts = [p.strip() for p in line.split("|")]
            bounds = parts[0][2:].split(",") if parts[0][2:] else []
            snaps = []
            for p in parts[1:]:
                cs, cnt, sm = p.split(";")
                snaps.append([[int(x) for x in cs.split(",")] if cs else [], int(cnt), sm])
            return dict(bounds=bounds, snaps=snaps)
        if c["k"] == "D":
            parts = line.split(" ")
            if len(parts) != 3 or parts[0] not in ("h", "s") or not (parts[1] == "S" or parts[1].startswith("H:")):
                return dict(panic="unparsable: " + line[:200])
            ty, d, fam = parts
            return dict(ty=ty, d=None if d == "S" else d[2:].split(","), fam="" if fam == "-" else bytes.fromhex(fam).decode("utf-8"))
        if c["k"] == "Q":
            v, l, fc, fd = line.split()
            un = lambda h: "" if h == "-" else bytes.fromhex(h).decode("utf-8")
            return dict(v=v, label=un(l), fc=un(fc), fd=un(fd))
        outs, real_ms = [], []
        for t in line.split():
            if "@" in t:
                t, ms = t.rsplit("@", 1)
                real_ms.append(int(ms))
            if t == "k":
                outs.append(["k"])
            elif t[0] == "r":
                _, cnt, sm, qs = t.split(":")
                outs.append(["r", int(cnt), sm, qs.split(",")])
            elif t[0] == "a":
                outs.append(["a", int(t[1:])])
            else:
                _, cnt, sm, sc, mn, mx, qs = t.split(":")
                outs.append(["p", int(cnt), sm, int(sc), mn, mx, qs.split(",")])
        if c["k"] == "W":
            return dict(outs=outs, real_ms=real_ms)
        return dict(outs=outs)

    # ------------------------------------------------------------------ Coq side
    def coq_case(self, c):
        if c["k"] == "H":
            ops = [("hrec %s" % cq_f(o[1])) if o[0] == "S" else ("hmany %s" % cq_fl(o[1])) for o in c["ops"]]
            return "(chist %s %s)" % (cq_fl(c["bounds"]), cq_list(ops))
        if c["k"] == "D":
            ovs = ["((%s, %s), %s)" % (KINDS[k], cq_str(p), cq_fl(b)) for k, p, b in c["ovs"]]
            return "(cdist true %s %s %s %s %s %s)" % (cq_bool(c["san"]), cq_opt(None if c["glob"] is None else cq_fl(c["glob"])),
                                                       cq_str(c["name"]), cq_list(ovs), cq_bool(c.get("usfx", 0)),
                                                       cq_opt(None if c.get("unit") is None else cq_str(c["unit"])))
        if c["k"] == "Q":
            return "(cquant %s %s %s)" % (cq_f(c["q"]), cq_str(c["fc"]), cq_str(c["fd"]))
        rops = self.nominal_ops(c) if c["k"] == "W" else c["ops"]
        ops = [("radd %s %s" % (cq_N(o[1]), cq_f(o[2]))) if o[0] == "A" else ("rsnap %s" % cq_N(o[1])) for o in rops]
        return "(croll %s %s %s)" % (cq_N(c["n"]), cq_N(c["dur"]), cq_list(ops))

    def coq_out(self, c, o):
        if "panic" in o:
            return "opanic"
        if c["k"] == "H":
            if o.get("none"):
                return "ohistnone"
            snaps = ["(%s, %s, %s)" % (cq_list([cq_N(x) for x in cs]), cq_N(cnt), cq_f(sm)) for cs, cnt, sm in o["snaps"]]
            return "(ohist %s %s)" % (cq_fl(o["bounds"]), cq_list(snaps))
        if c["k"] == "D":
            return "(odist %s %s %s)" % (cq_bool(o["ty"] == "h"), cq_opt(None if o["d"] is None else cq_fl(o["d"])), cq_str(o["fam"]))
        if c["k"] == "Q":
            return "(oquant %s %s %s %s)" % (cq_f(o["v"]), cq_str(o["label"]), cq_str(o["fc"]), cq_str(o["fd"]))
        xs = []
        for t in o["outs"]:
            if t[0] == "k":
                xs.append("oack")
            elif t[0] == "r":
                xs.append("oren %s %s %s" % (cq_N(t[1]), cq_f(t[2]), cq_fl(t[3])))
            elif t[0] == "a":
                xs.append("oadd %s" % cq_N(t[1]))
            else:
                xs.append("osnap %s %s %s %s %s %s" % (cq_N(t[1]), cq_f(t[2]), cq_N(t[3]), cq_f(t[4]), cq_f(t[5]), cq_fl(t[6])))
        return "(oroll %s)" % cq_list(xs)

    def signature(self, c, out):
        if c["k"] == "D" and not c["ovs"]:
            return None
        return [c, out]

    def shrink(self, c):
        cands = []
        if c["k"] == "H":
            ops, bs = c["ops"], c["bounds"]
            for i in range(len(ops)):
                cands.append(dict(c, ops=ops[:i] + ops[i + 1:]))
            for i in range(len(bs)):
                cands.append(dict(c, bounds=bs[:i] + bs[i + 1:]))
            for i, o in enumerate(ops):
                if o[0] == "M":
                    for j in range(len(o[1])):
                        cands.append(dict(c, ops=ops[:i] + [["M", o[1][:j] + o[1][j + 1:]]] + ops[i + 1:]))
        elif c["k"] == "D":
            ovs, name = c["ovs"], c["name"]
            for i in range(len(ovs)):
                cands.append(dict(c, ovs=ovs[:i] + ovs[i + 1:]))
            if c["glob"] is not None:
                cands.append(dict(c, glob=None))
            if c.get("unit") not in (None, "seconds"):
                cands.append(dict(c, unit="seconds"))
            for i in range(len(name)):
                if len(name) > 1:
                    cands.append(dict(c, name=name[:i] + name[i + 1:]))
            for i, (k, p, b) in enumerate(ovs):
                for j in range(len(p)):
                    cands.append(dict(c, ovs=ovs[:i] + [[k, p[:j] + p[j + 1:], b]] + ovs[i + 1:]))
        elif c["k"] in ("Q", "W"):
            pass
        else:
            ops = c["ops"]
            for i in range(len(ops)):
                cands.append(dict(c, ops=ops[:i] + ops[i + 1:]))
            if c["n"] > 1:
                cands.append(dict(c, n=c["n"] - 1))
            if c["k"] == "V":
                # through the exporter nothing is rendered before the first sample: keep a sample first and a render in the case
                cands = [x for x in cands if x["ops"] and x["ops"][0][0] == "A" and any(o[0] == "P" for o in x["ops"])]
        return cands


PROP = C15()
