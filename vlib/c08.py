"""C08 — Prometheus exposition text is well-formed for any input strings.

Two correspondence layers on the same case stream:
 (D) sanitize_metric_name / sanitize_label_key / sanitize_label_value / sanitize_description,
     write_help_line, write_type_line, key_to_parts + write_metric_line on adversarial strings;
 (O) whole PrometheusHandle::render() outputs of a recorder built with PrometheusBuilder
     (unit suffix on/off, buckets on/off, global labels, descriptions with units).
The Coq side evaluates the model (exact text for D, multiset of families/sample lines for O) and
spec_ok = the strict exposition-format reader of C08/Spec.v on the implementation's text."""
from .core import Prop, cq_N, cq_bool, cq_list, cq_opt, cq_pair

FX = True   # the model of the code after the `fix:` commit (False: the code as found)

UNITS = ["Count", "Percent", "Seconds", "Milliseconds", "Microseconds", "Nanoseconds", "Tebibytes", "Gibibytes",
         "Mebibytes", "Kibibytes", "Bytes", "TerabitsPerSecond", "GigabitsPerSecond", "MegabitsPerSecond",
         "KilobitsPerSecond", "BitsPerSecond", "CountPerSecond"]
UNIT_STR = ["count", "percent", "seconds", "milliseconds", "microseconds", "nanoseconds", "tebibytes", "gibibytes",
            "mebibytes", "kibibytes", "bytes", "terabits_per_second", "gigabits_per_second", "megabits_per_second",
            "kilobits_per_second", "bits_per_second", "count_per_second"]
QUANTILES = ["0", "0.5", "0.9", "0.95", "0.99", "0.999", "1"]
KIND = {"c": "KCounter", "g": "KGauge", "s": "KSummary", "h": "KHistogram"}
FKIND = {"c": "FCounter", "g": "FGauge", "d": "FDist"}
MKIND = {"f": "MFull", "p": "MPrefix", "s": "MSuffix"}


def gb_of(c):
    """global set_buckets: explicit, or (older corpus files) whenever bounds are given"""
    return c.get("gb", 1 if c["buckets"] else 0)

SPECIALS = ['"', "\\", "\n", "\r", ",", "=", "{", "}", "#", ":", " ", "\0", "\t"]
ALPHA = SPECIALS + ['"', "\\", "\\", "\n", "n", "a", "b", "_", "0", "9", "Z", "\u00e9", "\u0080", "\u2028",
                    "\u0301", "\U0001F600", "\U0010FFFF", "\u00ff", "-", "+", "."]
INJECT = ['"} 1\n# TYPE x counter\nx 1', '\n# HELP a b', '\\"} 2', '\\\n"', 'a\\\n"b', '",le="1', '\\n', '\\\\n', '"\n',
          '\n\n', '# TYPE', '{a="b"}', 'x 1\ny 2', '\\', '\\\\', '\\\\\\', '"', '""', '\\"', '\n\\', '\\\n\\', '\\\n"\\']


def cq_str(s):
    if not s:
        return "(@nil N)"
    # long literals are cut into pieces (a 30 kB string literal overflows coqc's stack)
    parts = ['cps (hx "%s")' % "".join("%06x" % ord(ch) for ch in s[i:i + 400]) for i in range(0, len(s), 400)]
    return "(" + " ++ ".join(parts) + ")"


def hx(s):
    return s.encode("utf-8").hex() if s else "-"


def cq_pairs(l):
    return cq_list([cq_pair(cq_str(k), cq_str(v)) for k, v in l])


def cq_unit(u):
    return "None" if u is None else "(Some %s)" % UNITS[u]


# ---- a python copy of the sanitisers, used ONLY by the generator to avoid cases outside the
# property's precondition (colliding family names / label sets make the HashMap-merged value
# order-dependent).  The precondition itself is decided in Coq (wf_case).
def py_name(s, colon=True):
    def ok(c, first):
        if c.isascii() and (c.isalpha() or c == "_" or (colon and c == ":")):
            return True
        return (not first) and c.isascii() and c.isdigit()
    return "".join(c if ok(c, i == 0) else "_" for i, c in enumerate(s))


def py_esc(s, desc):
    out, pb = [], False
    for c in s:
        if c == "\n":
            out.append("\\n")
        elif c == '"' and not desc:
            pb = False
            out.append('\\"')
        elif c == "\\":
            if pb:
                out.append("\\\\")
            pb = not pb
        else:
            if pb:
                pb = False
                out.append("\\\\")
            out.append(c)
    if pb:
        out.append("\\\\")
    return "".join(out)


def py_labels(globals_, labels):
    m = {}
    for k, v in list(globals_) + list(labels):
        m[k] = v
    return tuple('%s="%s"' % (py_name(k, False), py_esc(v, False)) for k, v in m.items())


def py_unit_suffix(u):
    if u is None or u == 0:
        return ""
    return "_ratio" if u == 1 else "_" + UNIT_STR[u]


def fmt_float(x):
    x = float(x)
    return str(int(x)) if x == int(x) else repr(x)


class C08(Prop):
    pid = "C08"
    pkg = "hprom"
    binname = "c08"
    quick_cases = 3000
    thorough_cases = 20000
    shard = 100
    rule = ("75% direct cases: the four sanitisers, write_help_line, write_type_line and key_to_parts+write_metric_line on strings over "
            "an adversarial alphabet (quote, backslash, LF, CR, ',', '=', '{', '}', '#', ':', space, NUL, TAB, 'n', digits first, U+0080, "
            "U+00E9, U+0301, U+2028, astral), backslash runs of every length 0..6 before every special character, line-forging payloads, "
            "valid identifiers; 25% whole render() outputs: 1..4 families of counters/gauges/histograms, 1..3 label sets each, global labels "
            "overlapping key labels, 0..2 describe calls with any Unit, unit suffix on/off, global buckets on/off, 0..3 per-metric bucket overrides "
            "(Matcher::Full/Prefix/Suffix built from raw and sanitised names, their heads/tails, the unit-suffixed family names, and "
            "non-matching variants). A case is non-trivial if it "
            "satisfies the property's precondition (wf_case: non-empty names, distinct family names) and contains at least one character "
            "outside [a-zA-Z_] or is a rendering; distinct = distinct (case, implementation output)")
    design_ref = "DESIGN.md 4 C08"
    technique = ("Coq proof about a hand-written model of formatting.rs and of render()'s text composition, against an independent strict "
                 "exposition-format reader (Spec.v); differential correspondence on sanitisers, line writers and whole render() outputs, "
                 "and the reader evaluated on every implementation output")
    level_text = ("Theorems (Coq, all strings over Unicode scalar values, all Units, unit suffix on and off, global buckets on and off, every "
                  "set of per-metric bucket overrides, any number of families/series/labels): sanitised metric and label names match the grammar and keep their length; the escape "
                  "machine's output is a concatenation of escape tokens for every input and every look-behind state, so the reader of an "
                  "independent strict exposition-format parser (Spec.v) consumes it entirely and takes the next quote as the closing one, and no "
                  "raw newline occurs; every sample/HELP/TYPE line written by the model is read back with exactly the sanitised label pairs in "
                  "order plus le/quantile; for every structured rendering satisfying the precondition the whole text parses line by line, has "
                  "exactly the expected number of HELP/TYPE/sample/blank lines (user data adds none) and satisfies the family rule "
                  "(C08_family_structure), which the code before commit 9e605eb violated (C08_family_structure_refuted_before_fix); the word on "
                  "the TYPE line and the kind of samples written are chosen by the same predicate of the base name for every override set "
                  "(C08_type_line_matches_samples). The model is "
                  "tied to /repo by running the real sanitisers, line writers and PrometheusHandle::render() and the model on the same generated "
                  "cases each run, and the Spec.v reader is evaluated on every implementation output.")
    level_note = ("Trusted: Coq kernel; hand-written model (tied by differential runs, not by translation); the transcription of the format grammar in "
                  "Spec.v, which is stricter than the format (single spaces, no timestamps, no free comments) and does not check that label names "
                  "within one sample are distinct or differ from le/quantile (C07's precondition); number formatting (Display) is an oracle; the "
                  "grouping of keys into families and label sets (HashMap/IndexMap in get_recent_metrics) is input data of the rendering model and "
                  "belongs to C07; in the correspondence runs histogram keys receive samples only under global buckets, so summaries and "
                  "override-selected histograms are rendered empty (summary quantile values are not modelled); all overrides of one case share "
                  "one list of bounds (which override wins is C15's business). The decoded label "
                  "value equals the original only for values without backslashes (C08_escape_faithful_without_backslash); with backslashes the "
                  "look-behind machine is lossy (a pending backslash before LF is reordered or, before a quote, dropped) but always well-formed.")
    assumptions = ["Display of u64/f64 is an oracle: formatted numbers are case data; the generator uses integer-valued doubles below 2^53 and simple bucket bounds, whose Display form python reproduces exactly",
                   "histogram keys receive samples only when global buckets are set (then they are certainly Prometheus histograms); under per-metric overrides alone and in summary mode they are rendered with no recorded samples (quantile values of the DDSketch are not modelled)",
                   "HashMap iteration order is unspecified: renderings are compared as multisets of families and of sample lines per family"]
    trusted_extra = ["python UTF-8 decoding of the driver's hex output into code points",
                     "the reading of the Prometheus text format 0.0.4 grammar transcribed in C08/Spec.v (stricter: single spaces, no timestamps, no free comments)"]

    # ------------------------------------------------------------------ generators
    def adv(self, rng, maxlen=8, nonempty=False):
        r = rng.below(10)
        if r < 4:
            n = rng.range(1 if nonempty else 0, maxlen)
            s = "".join(rng.pick(ALPHA) for _ in range(n))
        elif r < 7:
            pre = "".join(rng.pick(ALPHA) for _ in range(rng.below(3)))
            suf = "".join(rng.pick(ALPHA) for _ in range(rng.below(3)))
            s = pre + "\\" * rng.range(0, 6) + rng.pick(SPECIALS + ["n", "a"]) + suf
        elif r < 8:
            s = rng.pick(INJECT)
        elif r < 9:
            s = rng.pick(["a", "ab", "a_b", "A9", "_", "__x", "le", "quantile", "x:y", "a1"])
        else:
            s = rng.pick("0123456789") + "".join(rng.pick(["a", "_", "1", ":"]) for _ in range(rng.below(4)))
        if nonempty and not s:
            s = rng.pick(ALPHA)
        return s

    def pairs(self, rng, n, keys=None):
        out = []
        for _ in range(n):
            k = rng.pick(keys) if keys and rng.chance(1, 2) else self.adv(rng, 5, nonempty=not rng.chance(1, 40))
            out.append([k, self.adv(rng, 8)])
        return out

    def gen_direct(self, rng):
        r = rng.below(20)
        if r < 10:
            w = rng.below(4)
            return dict(t="S", w=w, s=self.adv(rng, 10))
        if r < 12:
            return dict(t="H", name=self.adv(rng, 6, nonempty=not rng.chance(1, 30)), desc=self.adv(rng, 10))
        if r < 13:
            return dict(t="T", name=self.adv(rng, 6, nonempty=not rng.chance(1, 30)), k=rng.pick("cgsh"))
        keys = [self.adv(rng, 4, nonempty=True) for _ in range(2)]
        return dict(t="L", name=self.adv(rng, 6, nonempty=not rng.chance(1, 30)),
                    globals=self.pairs(rng, rng.below(3), keys), labels=self.pairs(rng, rng.below(4), keys),
                    suffix=rng.pick([None, None, 0, 1, 2]),
                    addl=rng.pick([None, None, ["l", rng.pick(["+Inf", "0.5", "10", "1"])], ["q", rng.pick(["0", "0.99", "1"])]]),
                    value=rng.pick(["0", "1", "42", "-3.14", "18446744073709551615", "NaN", "inf", "-inf", "0.000001", "1e21"]),
                    unit=rng.pick([None, None] + list(range(17))))

    def gen_render(self, rng):
        on = 1 if rng.chance(2, 3) else 0
        buckets = rng.pick([[], ["1", "5", "10"], ["1", "5", "10"], ["0.5", "2.5"], ["100"]])
        gb = 1 if buckets and rng.chance(1, 3) else 0
        with_ovr = bool(buckets) and rng.chance(3, 4)
        gkeys = [self.adv(rng, 4, nonempty=True) for _ in range(2)]
        globals_ = self.pairs(rng, rng.weighted([(3, 0), (2, 1), (1, 2)]), gkeys)
        fams, snames, hnames = [], set(), set()
        for _ in range(rng.range(1, 4)):
            for _try in range(20):
                name = self.adv(rng, 6, nonempty=True) if not rng.chance(1, 3) else rng.pick(["reqs", "lat", "a", "a_seconds", "a_sum", "b_bucket", "x:y"])
                k = rng.pick("cgd")
                descs = [[rng.pick([None, 0, 1, 2, 2, 3, 10, rng.below(17)]), self.adv(rng, 10)] for _ in range(rng.weighted([(2, 0), (3, 1), (1, 2)]))]
                sn = py_name(name)
                unit = descs[0][0] if descs and on else None
                hn = sn + py_unit_suffix(unit)
                if sn in snames or hn in hnames or sn in hnames or hn in snames:
                    continue
                snames.add(sn)
                hnames.add(hn)
                series, seen = [], set()
                for _ in range(rng.range(1, 3)):
                    labels = self.pairs(rng, rng.below(3), gkeys)
                    lv = py_labels(globals_, labels)
                    if lv in seen:
                        continue
                    seen.add(lv)
                    if k == "c":
                        vals = [rng.pick([0, 1, 3, 42, (1 << 62)]) for _ in range(rng.below(3))]
                    elif k == "g":
                        vals = [rng.pick([0, 1, -3, 42, (1 << 52)]) for _ in range(rng.below(3))]
                    else:
                        # samples only when the family is certainly a histogram (global buckets): summary
                        # quantile values are not modelled
                        vals = [rng.pick([0, 1, 2, 5, 7, 100, 1000]) for _ in range(rng.below(5))] if gb else []
                    series.append(dict(labels=labels, vals=vals))
                fams.append(dict(k=k, name=name, descs=descs, series=series))
                break
        # per-metric overrides: matching and non-matching Full / Prefix / Suffix matchers built from the
        # raw and the sanitised names, their heads and tails, the family names (with unit suffix) and noise
        ovr = []
        if with_ovr:
            for _ in range(rng.range(1, 4)):
                f = rng.pick(fams)
                raw = f["name"]
                sn = py_name(raw)
                unit = f["descs"][0][0] if f["descs"] else None
                fam = sn + py_unit_suffix(unit)
                base = rng.pick([raw, sn, raw, sn, fam, py_unit_suffix(unit) or "_x", self.adv(rng, 4)])
                k = rng.pick("fps")
                r = rng.below(4)
                if k == "p" and r == 0 and len(base) > 1:
                    base = base[:rng.range(1, len(base))]
                if k == "s" and r == 0 and len(base) > 1:
                    base = base[rng.range(0, len(base) - 1):]
                if r == 1:
                    base = base + rng.pick(["x", "_", "1"])
                ovr.append([k, base])
        return dict(t="R", on=on, gb=gb, ovr=ovr, buckets=buckets, globals=globals_, fams=fams)

    def gen(self, rng, n):
        cases = []
        for i in range(n):
            cases.append(self.gen_render(rng) if i % 4 == 3 else self.gen_direct(rng))
        return cases

    # ------------------------------------------------------------------ implementation side
    def impl_line(self, c):
        def ps(l):
            return "%d %s" % (len(l), " ".join("%s %s" % (hx(k), hx(v)) for k, v in l))
        t = c["t"]
        if t == "S":
            return "S %d %s" % (c["w"], hx(c["s"]))
        if t == "H":
            return "H %s %s" % (hx(c["name"]), hx(c["desc"]))
        if t == "T":
            return "T %s %s" % (hx(c["name"]), c["k"])
        if t == "L":
            a = c["addl"]
            return "L %s %s %s %s %s %s %s %s" % (
                hx(c["name"]), ps(c["globals"]), ps(c["labels"]), "-" if c["suffix"] is None else c["suffix"],
                a[0] if a else "-", hx(a[1]) if a else "-", hx(c["value"]), "-" if c["unit"] is None else c["unit"])
        ovr = c.get("ovr", [])
        toks = (["R", str(c["on"]), str(gb_of(c)), str(len(c["buckets"]))] + list(c["buckets"]) + [str(len(ovr))]
                + [x for k, m in ovr for x in (k, hx(m))] + [ps(c["globals"]), str(len(c["fams"]))])
        for f in c["fams"]:
            toks += [f["k"], hx(f["name"]), str(len(f["descs"]))]
            for u, d in f["descs"]:
                toks += ["-" if u is None else str(u), hx(d)]
            toks.append(str(len(f["series"])))
            for s in f["series"]:
                toks += [ps(s["labels"]), str(len(s["vals"]))] + [str(v) for v in s["vals"]]
        return " ".join(toks)

    def parse_out(self, c, line):
        if line.startswith("P"):
            return {"panic": bytes.fromhex(line[1:]).decode("utf-8", "replace")}
        return bytes.fromhex(line).decode("utf-8")

    # ------------------------------------------------------------------ Coq side
    def coq_series(self, c, f, s):
        k, vals = f["k"], s["vals"]
        value, points, bks, ssum, scount = "", [], [], "", ""
        if k == "c":
            value = str(sum(vals) % (1 << 64))
        elif k == "g":
            value = fmt_float(vals[-1]) if vals else "0"
        else:
            # both readings of the distribution; the model decides which one is rendered
            points = [(q, "0") for q in QUANTILES]
            bks = [(fmt_float(b), str(sum(1 for v in vals if v <= float(b)))) for b in c["buckets"]]
            ssum, scount = fmt_float(sum(vals)), str(len(vals))
        return "{| s_labels := %s; s_value := %s; s_points := %s; s_buckets := %s; s_sum := %s; s_count := %s |}" % (
            cq_pairs(s["labels"]), cq_str(value), cq_pairs(points), cq_pairs(bks), cq_str(ssum), cq_str(scount))

    def coq_case(self, c):
        t = c["t"]
        if t == "S":
            return "(CSan %s %s)" % (cq_N(c["w"]), cq_str(c["s"]))
        if t == "H":
            return "(CHelp %s %s)" % (cq_str(c["name"]), cq_str(c["desc"]))
        if t == "T":
            return "(CType %s %s)" % (cq_str(c["name"]), KIND[c["k"]])
        if t == "L":
            a = c["addl"]
            return "(CLine %s %s %s %s %s %s %s %s)" % (
                cq_bool(FX), cq_str(c["name"]), cq_pairs(c["globals"]), cq_pairs(c["labels"]),
                cq_opt(None if c["suffix"] is None else cq_N(c["suffix"])),
                cq_opt(None if not a else cq_pair(cq_bool(a[0] == "l"), cq_str(a[1]))),
                cq_str(c["value"]), cq_unit(c["unit"]))
        fams = []
        for f in c["fams"]:
            d = f["descs"][0] if f["descs"] else None
            fams.append("{| f_kind := %s; f_name := %s; f_desc := %s; f_series := %s |}" % (
                FKIND[f["k"]], cq_str(f["name"]),
                cq_opt(None if d is None else cq_pair(cq_str(d[1]), cq_unit(d[0]))),
                cq_list([self.coq_series(c, f, s) for s in f["series"]])))
        ovr = cq_list([cq_pair(MKIND[k], cq_str(m)) for k, m in c.get("ovr", [])])
        return "(CRender %s {| unit_on := %s; gbuckets := %s; overrides := %s; globals := %s; fams := %s |})" % (
            cq_bool(FX), cq_bool(c["on"] == 1), cq_bool(gb_of(c) == 1), ovr, cq_pairs(c["globals"]), cq_list(fams))

    def coq_out(self, c, out):
        if isinstance(out, dict):
            return cq_str("PANIC " + out["panic"])
        return cq_str(out)

    def signature(self, c, out):
        t = c["t"]
        if t == "R":
            return [c, out] if c["fams"] else None
        strs = [c.get("s", ""), c.get("name", ""), c.get("desc", "")]
        for k, v in c.get("globals", []) + c.get("labels", []):
            strs += [k, v]
        if t in ("H", "T", "L") and not c["name"]:
            return None
        if t == "S" and c["w"] < 2 and not c["s"]:
            return None
        if all(ch.isascii() and (ch.isalpha() or ch == "_") for s in strs for ch in s):
            return None
        return [c, out]

    def shrink(self, c):
        def shorter(s):
            return [s[:i] + s[i + 1:] for i in range(len(s))]
        cands = []
        t = c["t"]
        for key in ("s", "name", "desc"):
            if key in c and isinstance(c[key], str):
                for s2 in shorter(c[key]):
                    cands.append(dict(c, **{key: s2}))
        for key in ("globals", "labels"):
            if key in c:
                l = c[key]
                for i in range(len(l)):
                    cands.append(dict(c, **{key: l[:i] + l[i + 1:]}))
                for i, (k, v) in enumerate(l):
                    for k2 in shorter(k):
                        cands.append(dict(c, **{key: l[:i] + [[k2, v]] + l[i + 1:]}))
                    for v2 in shorter(v):
                        cands.append(dict(c, **{key: l[:i] + [[k, v2]] + l[i + 1:]}))
        if t == "L":
            for key in ("suffix", "addl", "unit"):
                if c[key] is not None:
                    cands.append(dict(c, **{key: None}))
        if t == "R":
            fams = c["fams"]
            for i in range(len(fams)):
                cands.append(dict(c, fams=fams[:i] + fams[i + 1:]))
            ovr = c.get("ovr", [])
            for i in range(len(ovr)):
                cands.append(dict(c, ovr=ovr[:i] + ovr[i + 1:]))
            if len(c["buckets"]) > 1:
                cands.append(dict(c, buckets=c["buckets"][:1]))
            for i, f in enumerate(fams):
                def withf(f2):
                    return dict(c, fams=fams[:i] + [f2] + fams[i + 1:])
                for j in range(len(f["series"])):
                    if len(f["series"]) > 1:
                        cands.append(withf(dict(f, series=f["series"][:j] + f["series"][j + 1:])))
                for j in range(len(f["descs"])):
                    cands.append(withf(dict(f, descs=f["descs"][:j] + f["descs"][j + 1:])))
                for j, (u, d) in enumerate(f["descs"]):
                    for d2 in shorter(d)[:6]:
                        cands.append(withf(dict(f, descs=f["descs"][:j] + [[u, d2]] + f["descs"][j + 1:])))
                for n2 in shorter(f["name"]):
                    if n2:
                        cands.append(withf(dict(f, name=n2)))
                for j, s in enumerate(f["series"]):
                    def withs(s2):
                        return withf(dict(f, series=f["series"][:j] + [s2] + f["series"][j + 1:]))
                    if s["vals"]:
                        cands.append(withs(dict(s, vals=[])))
                    for m in range(len(s["labels"])):
                        cands.append(withs(dict(s, labels=s["labels"][:m] + s["labels"][m + 1:])))
                    for m, (k, v) in enumerate(s["labels"]):
                        for v2 in shorter(v)[:6]:
                            cands.append(withs(dict(s, labels=s["labels"][:m] + [[k, v2]] + s["labels"][m + 1:])))
        return cands[:80]


PROP = C08()
