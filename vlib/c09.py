"""C09 — DogStatsD PayloadWriter: op sequences (writes of all four kinds, drains) on ONE writer."""
import copy
import math
import struct

from .core import Prop, MachineryBroken, cq_N, cq_list, cq_opt, cq_bool

TWO32 = 1 << 32


def f2b(x):
    return struct.unpack(">Q", struct.pack(">d", x))[0]


def b2f(b):
    return struct.unpack(">d", struct.pack(">Q", b))[0]


# floats whose ryu renderings have many different lengths (3 .. 24 bytes)
FLOATS = [0.0, -0.0, 1.0, 2.0, -1.0, 0.5, 10.0, 42.0, 1967.0, 3.13232, 22.22, 88.0, 123.4, 0.1, 0.1 + 0.2, 1e15, 1e16, 1e17, 1e21,
          1e22, 1e100, 1.5e-7, -1.5e-7, 1e-5, 1e-6, 123456.789, 5e-324, 1.7976931348623157e308, -1.7976931348623157e308,
          2.2250738585072014e-308, 9007199254740993.0, 1 / 3.0, -2 / 3.0, 1e-320, 65536.0, 4294967296.0, 1.0000000000000002,
          float("nan"), float("inf"), float("-inf")]
FLOAT_BITS = [f2b(x) for x in FLOATS] + [0x7ff8000000000001, 0xfff8000000000000, 0x0000000000000001, 0x800fffffffffffff]
RATES = [0.5, 1.0, 1e-9, 0.25, 0.3333333333333333, 0.001, 1e-320]
U64S = [0, 1, 9, 10, 99, 12345, 91919, (1 << 32) - 1, 1 << 32, (1 << 63), (1 << 64) - 1]
ALPHA = "abcxyz019_.-"
DELIMS = ":|,#@\nT="
WIDE = ["é", "漢", "\U0001f600"]


def hexs(s):
    return s.encode("utf-8").hex()


class C09(Prop):
    pid = "C09"
    pkg = "hdog"
    binname = "c09"
    exec_mod = "XExec"
    quick_cases = 2400
    thorough_cases = 8000
    shard = 150
    design_ref = "DESIGN.md 4 C09"
    technique = ("Coq proof about a statement-by-statement model of PayloadWriter (byte-list state machine, panics explicit) against an "
                 "independent DogStatsD message parser and framing/size/conservation clauses; differential correspondence on op sequences "
                 "through the cfg(metrics_verif) verif_driver hook")
    rule = ("Three case kinds, 80/10/10. (W) random op sequences (1..11 ops) on ONE writer: write_counter / write_gauge / write_histogram / "
            "write_distribution and payloads() drains (full, partial k=0..4, repeated = flush cycles); max_payload_len in {0..80 (most), "
            "81..400, 1432, 8192, rarely 2^32-1 / 2^32 / 2^32+5}; length prefix on/off; prefix none / 0..2 / 1..4 / 5..24 bytes; 0..5 global "
            "labels; names of length 0..max+8; 0..4 own labels incl. bare tags and empty keys; histogram value lists 0..300 (thorough: ..1500) "
            "from a pool of floats whose ryu renderings are 3..24 bytes (extremes, subnormals, NaN, +-inf, random bit patterns); sample rate "
            "none / 0.5 / 1.0 / 1e-9 / ...; 1 case in 5 draws strings from an adversarial alphabet with the delimiters : | , # @ \\n T = and "
            "multi-byte UTF-8. Compared per op: WriteResult, Payloads::len(), every payload byte string, panic. (B) 0..4 builder operations "
            "(with_remote_address from a pool of 31 addresses: every scheme, bare host:port, IPv6, empty paths, nested and misplaced ://, "
            "near-miss schemes, randomly damaged; with_maximum_payload_length from {0,1,1432,8192,65527,65528,70000,2^32-1,2^32,2^32+1,2^64-1, "
            "random}) then the validated forwarder configuration (transport id, max, length-prefix flag, displayed address). (F) one flush of "
            "State through the synchronous forwarder stand-in: at most one counter/gauge/histogram, names from the telemetry prefix, its near "
            "misses and random strings, both aggregation modes (injected clock), global prefix incl. the telemetry prefix itself. "
            "Flush-case and end-to-end metric names are drawn in RELATION to the global prefix (equal to it, starting with it with / without a "
            "'.' boundary, a prefix of it, empty; prefixes app / a / svc.api / empty / the telemetry namespace / datadog.dogstatsd / none / random), "
            "plus the telemetry namespace (exact, '.'-extended, extended without boundary) and its near misses; the distribution is in "
            "coverage.name_prefix_relations. Non-trivial = a payload was yielded / a point dropped / a builder op ran; distinct = distinct "
            "(case, outputs). Both tiers run the end-to-end engine: real exporters built by DogStatsDBuilder on a harness UnixListener over "
            ">= 3 flush intervals (quick 4, thorough 16; 8 metrics of all three kinds each, stream split by LE32 prefixes, every frame parsed, "
            "names compared with WSpec.e2e_name) and 6 real build() calls.")
    level_text = ("Theorems (Coq, all op sequences, all maxima, both framing modes, all prefixes/labels/value strings): the executable "
                  "specification accepts every output of the writer model (C09_spec_ok_on_model, unconditional) and acceptance means SpecP "
                  "(C09_spec_ok_sound): WriteResults determined by which values fit, each drain yields the first k frames of the payloads "
                  "announced since the previous drain, each frame = LE32(|body|)++body (or body) with |body| <= max, and the bodies of each "
                  "write parse (under delimiter-freeness, wf_msg) to its expected message over runs of exactly the values that fit. From any state satisfying Winv (max < 2^32) no "
                  "operation panics and Winv is preserved (C09_total*); C09_len_bound, C09_framing, C09_drain_yields_committed, "
                  "C09_point_conservation (one write call), C09_message_roundtrip (parser reads back every rendered message). Wiring: address parsing equals the documented scheme table "
                  "(C09_addr_*), the builder equals its reference semantics and accepted lengths respect the transport limit, length prefix "
                  "iff unix stream (C09_builder_*), telemetry names are never prefixed, one flush never panics and its output passes the flush specification "
                  "(C09_telemetry_prefix_bypass, C09_flush_total, C09_flush_spec_ok_on_model); every payload of a flush is the frame of the message of "
                  "one registered metric whose name is <global prefix>.<registered name>, or the registered name itself for telemetry-namespace "
                  "names (C09_e2e_name_is_prefixed). The code as found is refuted clause by clause (C09_*_refuted_before_fix*). Models are tied to /repo by "
                  "running the real code and the model on the same generated cases each run, byte for byte.")
    level_note = ("spec_ok_on_model is proved for all three case kinds (C09_xspec_ok_on_model). C09_spec_ok_sound is one direction "
                  "(acceptance implies SpecP), not an equivalence. Trusted: Coq kernel; hand-written models tied by differential runs; itoa/ryu "
                  "number formatting and std's to_socket_addrs are oracles (echoed by the driver); usize arithmetic other than the subtraction "
                  "in current_len assumed not to wrap; build() itself (thread spawn) is exercised only by the end-to-end engine (6 calls and 4 / 16 exporters per run), the "
                  "generated builder cases go through the cfg(metrics_verif) hook verif_forwarder_config that repeats build()'s validation; histogram "
                  "storage order (AtomicBucket) is avoided by recording equal values. Names, tags or prefixes containing : | , # newline are "
                  "emitted unescaped; the message clause is stated under delimiter-freeness (wf_msg) and is vacuous for such inputs.")
    assumptions = ["itoa/ryu render the numbers; the rendered strings are non-empty and are passed to the model as data (python checks that each reads back to the same value)",
                   "std::net::ToSocketAddrs decides whether a host:port text is an address; its verdicts are passed to the model as data",
                   "buffer lengths stay below 2^64 (usize additions do not wrap)",
                   "harness built with overflow checks: the usize subtraction in current_len panics on underflow (as modelled)",
                   "message clause only for delimiter-free names/tags/prefix (wf_msg)",
                   "flush cases: at most one metric per kind (registry iteration order is not modelled), raw (unsampled) histograms with equal values"]
    trusted_extra = ["itoa 1.x / ryu 1.x number formatting (exercised, echoed by the driver, not modelled)",
                     "Codec.ux (primitive-integer packed byte literals, used only to transport test data into Coq; no theorem depends on it)",
                     "metrics::Key / Label accessors (name(), labels(), key(), value()) return the strings they were built from",
                     "verif_state_driver::Driver (C10's hook) as the synchronous stand-in for Forwarder::run",
                     "std UnixListener/UnixStream in the end-to-end engine"]

    # ------------------------------------------------------------------ generator
    def _str(self, rng, lo, hi, adversarial):
        n = rng.range(lo, hi)
        out = []
        for _ in range(n):
            r = rng.below(40)
            if adversarial and r < 6:
                out.append(rng.pick(DELIMS))
            elif adversarial and r < 8:
                out.append(rng.pick(WIDE))
            else:
                out.append(rng.pick(ALPHA))
        return "".join(out)

    def _labels(self, rng, nmax, adversarial, smax=6):
        ls = []
        for _ in range(rng.weighted([(4, 0), (3, 1), (2, 2), (1, rng.range(0, nmax))])):
            k = self._str(rng, 0 if rng.chance(1, 8) else 1, smax, adversarial)
            v = "" if rng.chance(1, 4) else self._str(rng, 1, smax, adversarial)
            ls.append([k, v])
        return ls

    def _float_bits(self, rng):
        if rng.chance(1, 6):
            return rng.next()          # arbitrary bit pattern
        if rng.chance(1, 5):
            return f2b(float(rng.range(0, 100000)) / rng.pick([1, 10, 1000]))
        return rng.pick(FLOAT_BITS)

    def gen_one(self, rng, big):
        adversarial = rng.chance(1, 5)
        mx = rng.weighted([(14, rng.range(0, 80)), (2, 1432), (1, 8192), (1, rng.range(81, 400))])
        if rng.chance(1, 300):
            mx = rng.pick([TWO32, TWO32 - 1, TWO32 + 5])
        lp = rng.below(2)
        pfx = rng.weighted([(3, None), (2, self._str(rng, 1, 4, adversarial)), (1, self._str(rng, 5, 24, adversarial)),
                            (1, self._str(rng, 0, 2, adversarial))])
        gl = self._labels(rng, 5, adversarial) if rng.chance(1, 2) else []
        small = mx <= 400
        ops = []
        nops = rng.range(1, 10)
        # a few fixed names so that equal metrics repeat
        for _ in range(nops):
            r = rng.below(100)
            if small:
                name_hi = rng.weighted([(6, 6), (2, min(mx, 60)), (1, min(mx + 8, 120))])
            else:
                name_hi = rng.weighted([(8, 12), (1, 60), (1, 0)])
                if rng.chance(1, 40) and mx < 10000:
                    name_hi = mx + 8
            name = self._str(rng, 0 if rng.chance(1, 10) else min(1, name_hi), name_hi, adversarial)
            labels = self._labels(rng, 4, adversarial)
            if r < 22:
                ops.append(["D", rng.weighted([(5, None), (1, 0), (2, rng.range(0, 4))])])
            elif r < 40:
                ts = rng.weighted([(2, None), (1, rng.pick([0, 345678, 1700000000, (1 << 64) - 1]))])
                ops.append(["c", name, labels, rng.pick(U64S) if rng.chance(2, 3) else rng.next(), ts])
            elif r < 58:
                ts = rng.weighted([(2, None), (1, rng.pick([0, 345678, 1700000000, (1 << 64) - 1]))])
                ops.append(["g", name, labels, self._float_bits(rng), ts])
            else:
                rate = rng.weighted([(3, None), (1, f2b(rng.pick(RATES)))])
                if big:
                    nv = rng.weighted([(12, rng.range(0, 12)), (4, rng.range(10, 300)), (1, rng.range(300, 1500))])
                else:
                    nv = rng.weighted([(6, rng.range(0, 12)), (2, rng.range(10, 60)), (1, rng.range(60, 300))])
                if rng.chance(1, 3):
                    pool = [self._float_bits(rng) for _ in range(rng.range(1, 3))]
                    vals = [rng.pick(pool) for _ in range(nv)]
                else:
                    vals = [self._float_bits(rng) for _ in range(nv)]
                ops.append([rng.pick("hd"), name, labels, rate, vals])
        if rng.chance(2, 3):
            ops.append(["D", None])
        return dict(max=mx, lp=lp, prefix=pfx, glabels=gl, ops=ops)

    ADDRS = ["127.0.0.1:8125", "udp://127.0.0.1:8127", "unix:///tmp/d.sock", "unixgram:///tmp/d.sock", "spongebob://1.2.3.4:5",
             "unix://", "unixgram://", "udp://", "://", "unix:/x", "UNIX:///x", "unix:///a://b", "udp://[::1]:80", "nothing", "",
             "1.2.3.4:99999", "udp://unix://x", "x://unix://y", "unixgram", "unix:///tmp/\u00e9", "a:://b", "::///", "unix//:x",
             "unixgram:///", "udp://1.2.3.4", "[::1]:8125", "unix:://x", ":/unix://x", "udp:///tmp/x", "unixgra://x", "unixgramm://x"]
    MAXES = [0, 1, 1432, 8192, 65527, 65528, 70000, TWO32 - 1, TWO32, TWO32 + 1, (1 << 64) - 1]
    FNAMES = ["datadog.dogstatsd.client", "datadog.dogstatsd.client.x", "datadog.dogstatsd.clien", "datadog.dogstatsd.clientele",
              "xdatadog.dogstatsd.client", "Datadog.dogstatsd.client.y", "datadog.dogstatsd.client.packets_sent", "a", "", "req.count"]

    def gen_builder(self, rng):
        ops = []
        for _ in range(rng.range(0, 4)):
            if rng.chance(3, 5):
                a = rng.pick(self.ADDRS)
                if rng.chance(1, 6):
                    i = rng.below(len(a) + 1)
                    a = a[:i] + rng.pick(["://", ":", "/", "unix", "x"]) + a[i:]
                ops.append(["a", a])
            else:
                ops.append(["m", rng.pick(self.MAXES) if rng.chance(3, 4) else rng.below(1 << rng.range(1, 64))])
        return dict(kind="B", ops=ops)

    NS = "datadog.dogstatsd.client"
    REL_FAMILIES = ["equal", "prefix_dot", "prefix_no_boundary", "name_prefix_of_prefix", "telemetry_ns", "telemetry_near_miss",
                    "unrelated"]
    E2E_PREFIXES = ["app", "a", "svc.api", "", "datadog.dogstatsd.client", "datadog.dogstatsd", None]

    @classmethod
    def rel(cls, prefix, name):
        """relation between a global prefix and a registered metric name (for generation and the coverage report)"""
        if name.startswith(cls.NS):
            rest = name[len(cls.NS):]
            return "telemetry_ns_exact" if rest == "" else "telemetry_ns_dot" if rest[0] == "." else "telemetry_ns_no_boundary"
        if cls.NS.startswith(name) and name != "" or name.lower().lstrip("x").startswith(cls.NS[:17]):
            near = True
        else:
            near = False
        if prefix is None:
            return "no_prefix_telemetry_near_miss" if near else "no_prefix"
        if prefix == "":
            return "empty_prefix"
        if name == prefix:
            return "equal"
        if name.startswith(prefix + "."):
            return "starts_with_prefix_dot"
        if name.startswith(prefix):
            return "starts_with_prefix_no_boundary"
        if prefix.startswith(name):
            return "name_is_prefix_of_prefix"
        return "telemetry_near_miss" if near else "unrelated"

    def _related_name(self, rng, prefix, fam):
        tail = rng.pick(["le.requests", "lication.x", "x", "s", "_total", "1"])
        p = prefix or ""
        if fam == "equal":
            return p
        if fam == "prefix_dot":
            return p + "." + rng.pick(["y", "uptime_seconds", "a.b", ""])
        if fam == "prefix_no_boundary":
            return p + tail
        if fam == "name_prefix_of_prefix":
            return p[:rng.below(len(p))] if p else ""
        if fam == "telemetry_ns":
            return self.NS + rng.pick(["", ".x", ".packets_sent", "x", "ele", "_y"])
        if fam == "telemetry_near_miss":
            return rng.pick(["datadog.dogstatsd", "datadog.dogstatsd.clien", "xdatadog.dogstatsd.client", "Datadog.dogstatsd.client.y",
                             "datadog.dogstatsd.clienT", "datadog.dogstatsd."])
        return rng.pick(["req.count", "zzz", "q", "lat", "temp"])

    def gen_flush(self, rng):
        adversarial = rng.chance(1, 8)
        mx = rng.weighted([(6, rng.range(20, 90)), (2, 1432), (2, 8192), (1, rng.range(0, 20))])
        pfx = rng.weighted([(2, None), (2, "app"), (1, "a"), (1, "svc.api"), (1, ""), (1, self.NS), (1, "datadog.dogstatsd"),
                            (3, self._str(rng, 1, 6, adversarial))])
        ms = []
        for k in rng.shuffle("cgh"):
            if not rng.chance(3, 4):
                continue
            if rng.chance(5, 6):
                name = self._related_name(rng, pfx, rng.pick(self.REL_FAMILIES))
            else:
                name = self._str(rng, 0, 30, adversarial)
            labels = self._labels(rng, 3, adversarial)
            if k == "c":
                ms.append(["c", name, labels, [rng.pick(U64S) if rng.chance(1, 3) else rng.below(1000) for _ in range(rng.range(0, 3))]])
            elif k == "g":
                ms.append(["g", name, labels, self._float_bits(rng)])
            else:
                ms.append(["h", name, labels, self._float_bits(rng), rng.weighted([(1, 0), (3, rng.range(1, 4)), (2, rng.range(5, 40))])])
        return dict(kind="F", aggressive=rng.below(2), dist=rng.below(2), max=mx, lp=rng.below(2), prefix=pfx,
                    glabels=self._labels(rng, 3, adversarial) if rng.chance(1, 2) else [], now=rng.pick([0, 1700000000, (1 << 64) - 1, rng.below(1 << 40)]),
                    ms=ms)

    def gen(self, rng, n):
        big = n > 5000
        out = []
        for _ in range(n):
            r = rng.below(10)
            if r == 0:
                out.append(self.gen_builder(rng))
            elif r == 1:
                out.append(self.gen_flush(rng))
            else:
                out.append(self.gen_one(rng, big))
        if getattr(self, "_rel_flush", None) is None:     # the main batch of a run (later calls are directed searches)
            rel = {}
            for c in out:
                if c.get("kind") == "F":
                    for m in c["ms"]:
                        k = "%s/%s" % (self.rel(c["prefix"], m[1]), m[0])
                        rel[k] = rel.get(k, 0) + 1
            self._rel_flush = rel
        return out

    # ------------------------------------------------------------------ driver protocol
    @staticmethod
    def _lab(ls):
        return "-" if not ls else ";".join("%s=%s" % (hexs(k), hexs(v)) for k, v in ls)

    def impl_line(self, c):
        if c.get("kind") == "B":
            return "B " + " ".join("a:%s" % hexs(o[1]) if o[0] == "a" else "m:%d" % o[1] for o in c["ops"])
        if c.get("kind") == "F":
            toks = []
            for m in c["ms"]:
                if m[0] == "c":
                    toks.append("c:%s:%s:%s" % (hexs(m[1]), self._lab(m[2]), ",".join(str(v) for v in m[3]) or "-"))
                elif m[0] == "g":
                    toks.append("g:%s:%s:%x" % (hexs(m[1]), self._lab(m[2]), m[3]))
                else:
                    toks.append("h:%s:%s:%x:%d" % (hexs(m[1]), self._lab(m[2]), m[3], m[4]))
            return "F %d %d %d %d %s %s %d | %s" % (c["aggressive"], c["dist"], c["max"], c["lp"],
                                                    "-" if c["prefix"] is None else "+" + hexs(c["prefix"]), self._lab(c["glabels"]),
                                                    c["now"], " ".join(toks))
        toks = []
        for o in c["ops"]:
            if o[0] == "D":
                toks.append("D:%s" % ("-" if o[1] is None else o[1]))
            elif o[0] == "c":
                toks.append("c:%s:%s:%d:%s" % (hexs(o[1]), self._lab(o[2]), o[3], "-" if o[4] is None else o[4]))
            elif o[0] == "g":
                toks.append("g:%s:%s:%x:%s" % (hexs(o[1]), self._lab(o[2]), o[3], "-" if o[4] is None else o[4]))
            else:
                toks.append("%s:%s:%s:%s:%s" % (o[0], hexs(o[1]), self._lab(o[2]), "-" if o[3] is None else "%x" % o[3],
                                                "-" if not o[4] else ",".join("%x" % v for v in o[4])))
        return "%d %d %s %s | %s" % (c["max"], c["lp"], "-" if c["prefix"] is None else "+" + hexs(c["prefix"]),
                                     self._lab(c["glabels"]), " ".join(toks))

    @staticmethod
    def _check_float(bits, s):
        v = b2f(bits)
        t = bytes.fromhex(s).decode()
        if math.isnan(v):
            ok = t == "NaN"
        elif math.isinf(v):
            ok = t == ("inf" if v > 0 else "-inf")
        else:
            ok = float(t) == v and (math.copysign(1, float(t)) == math.copysign(1, v))
        if not ok:
            raise MachineryBroken("ryu rendering %r does not read back as %r (bits %x)" % (t, v, bits))

    def parse_out(self, c, line):
        """output tokens; also attaches the formatted number strings the driver echoed to the case (c['fmt'])"""
        toks = line.split()
        out, fmt = [], []
        if c.get("kind") == "B":
            for t in toks:
                f = t.split(":")
                if f[0] == "A":
                    out.append(["A", f[1]])
                    fmt.append([f[2] == "1", f[3] == "1"])
                elif f[0] == "M":
                    out.append(["M", f[1]])
                    fmt.append(None)
                elif f[1] == "ec":
                    out.append(["C", "ec"])
                else:
                    out.append(["C", f[1], int(f[2]), int(f[3]), f[4]])
            c["fmt"] = fmt + [None] * (len(c["ops"]) - len(fmt))
            return out
        if c.get("kind") == "F":
            vals = [t[2:] for t in toks if t.startswith("V:")]
            now = [t[2:] for t in toks if t.startswith("T:")][0]
            if bytes.fromhex(now).decode() != str(c["now"]):
                raise MachineryBroken("itoa rendering differs for %d" % c["now"])
            if len(vals) == len(c["ms"]):
                for m, v in zip(c["ms"], vals):
                    if m[0] == "c":
                        if bytes.fromhex(v).decode() != str(sum(m[3]) % (1 << 64)):
                            raise MachineryBroken("counter value string %r for increments %r" % (v, m[3]))
                    else:
                        self._check_float(m[3], v)
            vals += [""] * (len(c["ms"]) - len(vals))
            c["fmt"] = dict(vals=vals, now=now)
            if toks[0] == "P":
                return ["P"]
            ps = toks[0][2:]
            return ["F", [] if ps == "-" else ps.split(",")]
        if toks == ["N"]:
            c["fmt"] = [None] * len(c["ops"])
            return [["N"]]
        for o, t in zip(c["ops"], toks):
            f = t.split(":")
            if f[0] == "W":
                out.append(["W", int(f[1]), int(f[2])])
                vs = [] if f[3] == "-" else f[3].split(",")
                fmt.append(dict(vs=vs, aux=None if f[4] == "-" else f[4]))
            elif f[0] == "P" and len(f) == 3:
                out.append(["P"])
                vs = [] if f[1] == "-" else f[1].split(",")
                fmt.append(dict(vs=vs, aux=None if f[2] == "-" else f[2]))
            elif f[0] == "P":
                out.append(["P"])
                fmt.append(None)
            elif f[0] == "D":
                out.append(["D", int(f[1]), [] if f[2] == "-" else f[2].split(",")])
                fmt.append(None)
            else:
                raise MachineryBroken("bad driver token %r" % t)
            # the echoed strings must be what the numbers of the op are (decimal u64 / round-trip f64)
            fm = fmt[-1]
            if fm is not None:
                if o[0] == "c":
                    if bytes.fromhex(fm["vs"][0]).decode() != str(o[3]):
                        raise MachineryBroken("itoa rendering differs for %d" % o[3])
                elif o[0] == "g":
                    self._check_float(o[3], fm["vs"][0])
                elif o[0] in "hd":
                    if len(fm["vs"]) != len(o[4]):
                        raise MachineryBroken("driver echoed %d values for %d" % (len(fm["vs"]), len(o[4])))
                    for b, s in zip(o[4][:50], fm["vs"][:50]):
                        self._check_float(b, s)
                    if o[3] is not None:
                        self._check_float(o[3], fm["aux"])
                if o[0] in "cg" and o[4] is not None and bytes.fromhex(fm["aux"]).decode() != str(o[4]):
                    raise MachineryBroken("itoa rendering differs for timestamp %d" % o[4])
        fmt += [None] * (len(c["ops"]) - len(fmt))
        c["fmt"] = fmt
        return out

    # ------------------------------------------------------------------ Coq terms
    @staticmethod
    def _hx(h):
        """hex string -> Coq term of type list N (Codec.ux: 7 bytes per primitive-int literal)"""
        if not h:
            return "[]"
        return "(ux [%s]%%uint63)" % "; ".join("0x1" + h[i:i + 14] for i in range(0, len(h), 14))

    def _cq_labels(self, ls):
        return cq_list(["(%s, %s)" % (self._hx(hexs(k)), self._hx(hexs(v))) for k, v in ls])

    def coq_case(self, c):
        if c.get("kind") == "B":
            fmt = c.get("fmt") or [None] * len(c["ops"])
            ops = []
            for o, fm in zip(c["ops"], fmt):
                if o[0] == "a":
                    rp, rw = fm or (False, False)
                    ops.append("BAddr %s %s %s" % (self._hx(hexs(o[1])), cq_bool(rp), cq_bool(rw)))
                else:
                    ops.append("BMax %s" % cq_N(o[1]))
            return "(XB %s)" % cq_list(ops)
        if c.get("kind") == "F":
            fm = c.get("fmt") or dict(vals=[""] * len(c["ms"]), now="")
            ms = []
            for m, v in zip(c["ms"], fm["vals"]):
                if m[0] == "c":
                    ms.append("MCounter %s %s %s" % (self._hx(hexs(m[1])), self._cq_labels(m[2]), self._hx(v)))
                elif m[0] == "g":
                    ms.append("MGauge %s %s %s" % (self._hx(hexs(m[1])), self._cq_labels(m[2]), self._hx(v)))
                else:
                    ms.append("MHist %s %s %s %s" % (self._hx(hexs(m[1])), self._cq_labels(m[2]), self._hx(v), cq_N(m[4])))
            return ("(XF {| f_aggressive := %s; f_dist := %s; f_max := %s; f_lp := %s; f_prefix := %s; f_glabels := %s; f_now := %s |} %s)"
                    % (cq_bool(c["aggressive"]), cq_bool(c["dist"]), cq_N(c["max"]), cq_bool(c["lp"]),
                       cq_opt(None if c["prefix"] is None else self._hx(hexs(c["prefix"]))), self._cq_labels(c["glabels"]),
                       self._hx(fm["now"]), cq_list(ms)))
        fmt = c.get("fmt") or [None] * len(c["ops"])
        ops = []
        for o, fm in zip(c["ops"], fmt):
            if o[0] == "D":
                ops.append("Drain %s" % cq_opt(None if o[1] is None else cq_N(o[1])))
                continue
            if fm is None:   # not executed (after a panic): strings irrelevant
                fm = dict(vs=[""] * (1 if o[0] in "cg" else len(o[4])), aux="" if (o[4] if o[0] in "cg" else o[3]) is not None else None)
            if o[0] in "cg":
                ops.append("WScalar %s %s %s %s %s" % ("Counter" if o[0] == "c" else "Gauge", self._hx(hexs(o[1])), self._cq_labels(o[2]),
                                                      self._hx(fm["vs"][0]), cq_opt(None if o[4] is None else self._hx(fm["aux"]))))
            else:
                ops.append("WHist %s %s %s %s %s" % ("Hist" if o[0] == "h" else "Dist", self._hx(hexs(o[1])), self._cq_labels(o[2]),
                                                    cq_list([self._hx(v) for v in fm["vs"]]),
                                                    cq_opt(None if o[3] is None else self._hx(fm["aux"]))))
        return "(mkw %s %s %s %s %s)" % (
            cq_N(c["max"]), cq_bool(c["lp"]), cq_opt(None if c["prefix"] is None else self._hx(hexs(c["prefix"]))),
            self._cq_labels(c["glabels"]), cq_list(ops))

    def coq_out(self, c, out):
        if c.get("kind") == "B":
            xs = []
            names = {"ok": "BOk", "es": "BErrScheme", "er": "BErrResolve", "ec": "BErrConfig"}
            for t in out:
                if t[0] in "AM" or (t[0] == "C" and t[1] == "ec"):
                    xs.append(names[t[1]])
                else:
                    disp = "None" if t[1] == "udp" else "(Some %s)" % self._hx(t[4])
                    xs.append("BConfig %s %s %s %s" % (self._hx(hexs(t[1])), cq_N(t[2]), cq_bool(t[3]), disp))
            return "(OB %s)" % cq_list(xs)
        if c.get("kind") == "F":
            if out == ["P"]:
                return "(OF None)"
            return "(OF (Some %s))" % cq_list([self._hx(p) for p in out[1]])
        xs = []
        for t in out:
            if t[0] == "W":
                xs.append("OWrite %s %s" % (cq_N(t[1]), cq_N(t[2])))
            elif t[0] == "D":
                xs.append("OPayloads %s %s" % (cq_N(t[1]), cq_list([self._hx(p) for p in t[2]])))
            else:   # P, N
                xs.append("OPanic")
        return "(OW %s)" % cq_list(xs)

    def signature(self, c, out):
        if c.get("kind") == "B":
            return None if not c["ops"] else [c["ops"], out]
        if c.get("kind") == "F":
            return None if out == ["P"] or not out[1] else [{k: v for k, v in c.items() if k != "fmt"}, out]
        if not any(t[0] == "D" and t[2] for t in out) and not any(t[0] == "W" and t[2] for t in out):
            return None
        cc = {k: v for k, v in c.items() if k != "fmt"}
        return [cc, out]

    # ------------------------------------------------------------------ end-to-end engine (quick: 4 exporters; thorough: 16 + build() calls)
    E2E = [  # max, prefix, telemetry, aggressive, cycles, interval ms
        (None, None, 1, 0, 4, 80), (70, "srv", 1, 1, 4, 80), (64, None, 0, 0, 5, 60), (1432, "a.b", 0, 1, 4, 80),
        (48, "p", 1, 0, 4, 80), (8192, "datadog.dogstatsd.client", 1, 1, 3, 80),
    ]
    LONG = "a_counter_with_a_name_that_is_much_longer_than_the_small_payload_limits_used_here"
    # real build() after setter sequences: (ops, expected outcome per the reference semantics WSpec.spec_builder)
    E2E_BUILD = [
        ([["a", "unix:///tmp/c09-nonexistent.sock"], ["m", 70000], ["a", "127.0.0.1:9125"]], "err"),
        ([["a", "unixgram:///tmp/c09-nonexistent.sock"], ["m", TWO32 - 1], ["a", "udp://127.0.0.1:9125"]], "err"),
        ([["a", "unix:///tmp/c09-nonexistent.sock"], ["m", 70000]], "ok"),
        ([["m", 65527]], "ok"),
        ([["m", 65528]], "early"),
        ([["a", "unix:///tmp/c09-nonexistent.sock"], ["m", TWO32]], "early"),
    ]

    def _e2e_generated(self, rng, count):
        """exporter scenarios whose metric names are drawn in relation to the global prefix (all families, all kinds)"""
        non_none = rng.shuffle([p for p in self.E2E_PREFIXES if p is not None])
        prefixes = (non_none + [None] + non_none)[:count] if count > 3 else non_none[:count]
        if count > 3:
            prefixes[3] = rng.pick([None, non_none[3]])
        out = []
        for pfx in prefixes:
            kinds = "cgh"
            off = rng.below(3)
            ms = []
            for i, fam in enumerate(rng.shuffle(self.REL_FAMILIES + [rng.pick(self.REL_FAMILIES[:4])])):
                ms.append([kinds[(i + off) % 3], self._related_name(rng, pfx, fam)])
            out.append(dict(max=rng.pick([None, 1432]), prefix=pfx, telemetry=rng.below(2), aggressive=rng.below(2), cycles=3,
                            interval=50, metrics=ms, dist=rng.below(2)))
        return out

    def extra_checks(self, ctx):
        from . import core
        import os
        import re
        thorough = ctx["tier"] == "thorough"
        rng = ctx["rng"].fork()
        binpath = core.harness_build(self.pkg, "c09e2e")
        scen = self._e2e_generated(rng, 10 if thorough else 4)
        if thorough:
            scen += [dict(max=m, prefix=p, telemetry=t, aggressive=a, cycles=c, interval=i, metrics=None, dist=0) for m, p, t, a, c, i in self.E2E]
        lines = []
        for sc in scen:
            ms = "-" if sc["metrics"] is None else ",".join("%s:%s" % (k, hexs(n)) for k, n in sc["metrics"])
            lines.append("%s %s %d %d %d %d %s %d" % ("-" if sc["max"] is None else sc["max"], "-" if sc["prefix"] is None else "+" + hexs(sc["prefix"]),
                                                     sc["telemetry"], sc["aggressive"], sc["cycles"], sc["interval"], ms, sc["dist"]))
        rc, outs, err = core.run_impl(binpath, lines, timeout=300)
        if rc != 0 or len(outs) != len(lines):
            raise MachineryBroken("c09e2e: rc=%s, %d lines for %d scenarios\n%s" % (rc, len(outs), len(lines), err[-2000:]))
        viol, terms, frames_total = [], [], 0
        blines = ["B " + " ".join("a:%s" % hexs(o[1]) if o[0] == "a" else "m:%d" % o[1] for o in ops) for ops, _ in self.E2E_BUILD]
        rc, bouts, err = core.run_impl(binpath, blines, timeout=120)
        if rc != 0 or len(bouts) != len(blines):
            raise MachineryBroken("c09e2e (build): rc=%s\n%s" % (rc, err[-2000:]))
        for (ops, want), got in zip(self.E2E_BUILD, bouts):
            if got != want:
                viol.append(("e2e", "DogStatsDBuilder::build() returned %r where the documented limits require %r" % (got, want),
                             dict(builder_ops=ops, got=got, want=want)))
        ctx["coverage"]["e2e_build_calls"] = len(blines)
        rel = {}
        for k, (sc, line, o) in enumerate(zip(scen, lines, outs)):
            mx = 8192 if sc["max"] is None else sc["max"]
            if o.startswith("ERR") or o == "-":
                viol.append(("e2e", "end-to-end scenario produced no stream: %s" % o[:200], dict(scenario=sc, driver_line=line, out=o[:400])))
                continue
            data = bytes.fromhex(o)
            pos, bodies, bad = 0, [], None
            while pos < len(data):
                if pos + 4 > len(data):
                    bad = "truncated length prefix at offset %d" % pos
                    break
                n = int.from_bytes(data[pos:pos + 4], "little")
                if pos + 4 + n > len(data):
                    bad = "length prefix %d at offset %d runs past the end of the stream (%d bytes)" % (n, pos, len(data))
                    break
                bodies.append(data[pos + 4:pos + 4 + n])
                pos += 4 + n
            if bad:
                viol.append(("e2e", "unix-stream framing broken: " + bad, dict(scenario=sc, driver_line=line, stream=o[:4000])))
                continue
            frames_total += len(bodies)
            if sc["metrics"] is None:
                names = ["reqs", "temp", "lat", self.LONG]
                must = [x for x in ("reqs", "temp", "lat") if len(sc["prefix"] or "") + 1 + len(x) + 30 <= mx]
            else:
                names = [n for _, n in sc["metrics"]]
                must = names
                for kd, n in sc["metrics"]:
                    key = "%s/%s" % (self.rel(sc["prefix"], n), kd)
                    rel[key] = rel.get(key, 0) + 1
            gp = cq_opt(None if sc["prefix"] is None else self._hx(hexs(sc["prefix"])))
            terms.append((sc, line, bodies, "e2e_names_ok %s %s %s %s (%s, %s) %s" % (
                cq_N(mx), gp, cq_list([self._hx(hexs(x)) for x in names]), cq_list([self._hx(hexs(x)) for x in must]),
                self._hx(hexs("env")), self._hx(hexs("e2e")), cq_list([self._hx(b.hex()) for b in bodies]))))
        if terms:
            d = os.path.join(core.CACHE, "cases", self.pid)
            os.makedirs(d, exist_ok=True)
            path = os.path.join(d, "e2e_%d.v" % os.getpid())
            with open(path, "w") as f:
                f.write("From Coq Require Import List NArith.\nImport ListNotations.\nRequire Import MV.C09.XExec.\nOpen Scope N_scope.\n")
                f.write("Eval vm_compute in [%s].\n" % "; ".join(t[3] for t in terms))
            rc, out = core.coqc_file(path, timeout=300)
            for ext in (".v", ".vo", ".vok", ".vos", ".glob"):
                try:
                    os.remove(path[:-2] + ext)
                except OSError:
                    pass
            res = re.findall(r"\b(true|false)\b", out.split(":")[0]) if rc == 0 else []
            if rc != 0 or len(res) != len(terms):
                raise MachineryBroken("e2e evaluation failed:\n" + out[-2000:])
            for (sc, line, bodies, _), r in zip(terms, res):
                if r != "true":
                    got = sorted(set(b.split(b":")[0].decode("utf-8", "replace") for b in bodies))
                    want = None
                    if sc["metrics"] is not None:
                        want = sorted(set(n if n.startswith(self.NS) or sc["prefix"] is None else sc["prefix"] + "." + n for _, n in sc["metrics"]))
                    viol.append(("e2e", "exporter end to end (DogStatsDBuilder -> State::flush -> writer -> unix stream): a received frame is over the limit, "
                                        "does not parse, carries a name that is not <global prefix>.<registered name> (telemetry-namespace names unprefixed), "
                                        "lacks the global label, or an expected metric never arrived",
                                 dict(scenario=sc, driver_line=line, names_received=got, names_expected=want,
                                      frames=[b.decode("utf-8", "replace") for b in bodies[:40]])))
        ctx["coverage"]["e2e_scenarios"] = len(scen)
        ctx["coverage"]["e2e_frames"] = frames_total
        ctx["coverage"]["name_prefix_relations"] = dict(flush_cases=dict(sorted((getattr(self, "_rel_flush", None) or {}).items())),
                                                        e2e_metrics=dict(sorted(rel.items())))
        return viol

    # ------------------------------------------------------------------ shrinking
    def shrink(self, c):
        c = {k: v for k, v in c.items() if k != "fmt"}
        if c.get("kind") == "B":
            ops = c["ops"]
            return [dict(kind="B", ops=ops[:i] + ops[i + 1:]) for i in range(len(ops))]
        if c.get("kind") == "F":
            cands = [dict(copy.deepcopy(c), ms=c["ms"][:i] + c["ms"][i + 1:]) for i in range(len(c["ms"]))]
            if c["glabels"]:
                cands.append(dict(copy.deepcopy(c), glabels=[]))
            if c["prefix"] and len(c["prefix"]) > 1:
                cands.append(dict(copy.deepcopy(c), prefix=c["prefix"][:1]))
            for i, m in enumerate(c["ms"]):
                if m[2]:
                    cands.append(dict(copy.deepcopy(c), ms=c["ms"][:i] + [m[:2] + [[]] + m[3:]] + c["ms"][i + 1:]))
                if m[0] == "h" and m[4] > 1:
                    cands.append(dict(copy.deepcopy(c), ms=c["ms"][:i] + [m[:4] + [1]] + c["ms"][i + 1:]))
            return cands
        ops = c["ops"]
        cands = []

        def with_ops(new):
            d = copy.deepcopy(c)
            d["ops"] = new
            return d

        for i in range(len(ops)):
            cands.append(with_ops(ops[:i] + ops[i + 1:]))
        if c["glabels"]:
            cands.append(dict(copy.deepcopy(c), glabels=c["glabels"][1:]))
            cands.append(dict(copy.deepcopy(c), glabels=[]))
        if c["prefix"]:
            cands.append(dict(copy.deepcopy(c), prefix=c["prefix"][:-1] if len(c["prefix"]) > 1 else None))
        for i, o in enumerate(ops):
            def rep(new):
                return with_ops(ops[:i] + [new] + ops[i + 1:])
            if o[0] == "D":
                if o[1] is not None:
                    cands.append(rep(["D", None]))
                continue
            if len(o[1]) > 1:
                cands.append(rep([o[0], o[1][:len(o[1]) // 2]] + o[2:]))
                cands.append(rep([o[0], o[1][:-1]] + o[2:]))
            if o[2]:
                cands.append(rep(o[:2] + [o[2][1:]] + o[3:]))
            if o[0] in "cg":
                if o[4] is not None:
                    cands.append(rep(o[:4] + [None]))
                if o[0] == "c" and o[3] > 9:
                    cands.append(rep(o[:3] + [1, o[4]]))
                if o[0] == "g" and o[3] != f2b(1.0):
                    cands.append(rep(o[:3] + [f2b(1.0), o[4]]))
            else:
                vs = o[4]
                if o[3] is not None:
                    cands.append(rep(o[:3] + [None, vs]))
                if len(vs) > 1:
                    cands.append(rep(o[:4] + [vs[:len(vs) // 2]]))
                    cands.append(rep(o[:4] + [vs[len(vs) // 2:]]))
                if vs:
                    cands.append(rep(o[:4] + [vs[:-1]]))
                    cands.append(rep(o[:4] + [vs[1:]]))
                if any(v != f2b(1.0) for v in vs):
                    cands.append(rep(o[:4] + [[f2b(1.0)] * len(vs)]))
        if 0 < c["max"] < TWO32:
            cands.append(dict(copy.deepcopy(c), max=c["max"] - 1))
        return cands


PROP = C09()
