"""C14 — copy-on-write strings / label slices: programs over a store of live handles, run on the real
metrics Cow (SharedString, Cow<[Tracked]> through the __VerifCow hook, Cow<[Label]> inside Key) under a
counting allocator, and on the Coq ownership-accounting model."""
from .core import Prop, cq_N, cq_Z, cq_list, cq_bool, cq_bytes

MAXU = (1 << 64) - 1
CREATORS = "bcoslw"


def sim(mode, ops, nbuf=0):
    """abstract run: for every op -> (ok, created_handle_id|None, created_arc_id|None); nbuf = length of the static buffer"""
    live, arcs, res = [], [], []
    for o in ops:
        k = o[0]
        ok, ch, ca = True, None, None
        if k in "bc":
            if o[1] + o[2] <= nbuf:
                live.append(True); ch = len(live) - 1
            else:
                ok = False
        elif k == "o":
            if o[2] < len(o[1]):
                ok = False
            else:
                live.append(True); ch = len(live) - 1
        elif k == "z":
            ok = mode == "t"
        elif k == "s":
            if mode != "k" and o[1] < len(arcs) and arcs[o[1]] > 0:
                live.append(True); ch = len(live) - 1
            else:
                ok = False
        elif k in "ldw":
            if o[1] < len(live) and live[o[1]]:
                if k != "d":
                    live.append(True); ch = len(live) - 1
            else:
                ok = False
        elif k == "m":
            ok = all(h < len(live) and live[h] for h in (o[1], o[2]))
        elif k in "ixXj":
            if o[1] < len(live) and live[o[1]]:
                live[o[1]] = False
            else:
                ok = False
        elif k == "A":
            if mode == "k":
                ok = False
            else:
                arcs.append(1); ca = len(arcs) - 1
        elif k == "C":
            if o[1] < len(arcs) and arcs[o[1]] > 0:
                arcs[o[1]] += 1
            else:
                ok = False
        elif k == "D":
            if o[1] < len(arcs) and arcs[o[1]] > 0:
                arcs[o[1]] -= 1
            else:
                ok = False
        res.append((ok, ch, ca))
    return res, live, arcs


class C14(Prop):
    pid = "C14"
    pkg = "hcore"
    binname = "c14"
    quick_cases = 3000
    thorough_cases = 20000
    shard = 250
    rule = ("random programs (<=40 ops, plus up to 8 extra comparisons) over a store of live handles in four modes: s = SharedString (public "
            "API), t = Cow<[Tracked]> (element type with a counting destructor) and l = Cow<[Label]> (both through the cfg(metrics_verif) "
            "re-export), k = Cow<[Label]> inside Key (public Key/Label API). ONE static buffer per case (0-9 elements, 2-3 letter alphabet, "
            "half of them periodic); every borrow (from_borrowed / const_str / const_slice) is a slice (offset, length) of it, drawn from "
            "directed families: same start as an earlier borrow with another length (incl. the empty prefix), equal content at another "
            "address, overlapping / adjacent, empty at any offset incl. one past the end, out of range (rejected by both sides), uniform; "
            "owned and Arc contents are half of the time the content of a slice of the same buffer; owned with (len,cap) in {(0,0) via new(), (0,0) via "
            "with_capacity(0), (0,n), (n,n), (n,m>n)}, shared from a caller-held Arc; clone, deref, compare (Ord::cmp, PartialEq::eq and equality of the two hashes "
            "reported as three separate observables; ne and partial_cmp checked against them; in mode k over the label iterators) between "
            "any two live handles (10% of the operations, plus a burst over random pairs in a third of the programs), into_owned, conversion "
            "to std::borrow::Cow (modes s, t, l), drop here or on "
            "another thread, with_extra_labels, caller Arc clone/drop, from_owned of a ZST vector (capacity usize::MAX -> panic); ~5% of the "
            "operations deliberately name a consumed handle (rejected by both sides). A case is non-trivial if some operation changes the "
            "number of live heap blocks; distinct = distinct (mode, program, outputs)")
    design_ref = "DESIGN.md 4 C14"
    technique = ("Coq proof: simulation between an explicit-heap model of cow.rs (pointer + (len,cap) words, kind recomputed as Metadata::kind, "
                 "freed flags, Arc strong counts) and a value-semantics specification, for all programs; differential correspondence against the "
                 "real Cow under a counting/quarantining global allocator, element drop counters and Arc::strong_count")
    level_text = ("Theorems (Coq, all programs over all constructors and all (len, cap) incl. empty owned values of capacity 0 and of non-zero "
                  "capacity, borrows that alias inside one static buffer, clone, deref, cmp/eq/hash, into_owned, conversion to std::borrow::Cow, with_extra_labels (clone + into_owned + Vec "
                  "growth + from_owned), drop, caller-side Arc clone/drop, operations naming consumed handles): the explicit-heap model of cow.rs "
                  "(kind recomputed from (len, cap) as Metadata::kind, every access checking a freed flag) produces, operation by operation, exactly "
                  "the results, live-block deltas, live-element deltas and Arc strong counts of a value semantics that has no heap "
                  "(C14_model_meets_spec); hence contents read back are the contents built from, no UseAfterFree/DoubleFree/BadFree/OutOfBounds "
                  "outcome is reachable, and once every handle is given back every buffer is freed, every Arc's strong count equals the caller's "
                  "own references (freed iff none), eq / cmp = Equal / equal hashes coincide and are content equality for every construction history "
                  "(C14_eq_ord_hash_coincide, C14_eq_is_content_equality), and the observed block / element deltas sum to the Arcs the caller still holds and the elements "
                  "inside them (C14_balanced, C14_balanced_counters). The capacity-0 kind collision is covered (such a value owns nothing). The model "
                  "is tied to /repo by running the real Cow (SharedString, Cow<[Tracked]>, Cow<[Label]> directly and in Key) and the model on the same generated "
                  "programs each run, under a counting/quarantining allocator.")
    level_note = ("Partial by nature: this is an ownership-accounting model - pointers are (static buffer, offset) pairs or block indices, so aliasing borrows "
                  "are expressible, but pointer arithmetic, alignment, layout computations inside Vec/Arc "
                  "and the unsafe Send/Sync impls are not modelled (dropping on another thread is exercised on the real code, not modelled; note "
                  "that `unsafe impl Send for Cow<T> where T: Send` does not require T: Sync although a Shared handle is an Arc<T> - unreachable "
                  "through the public API, where T is str or [Label]). Vec growth is modelled up to what the cow can see (zero / non-zero / "
                  "usize::MAX capacity; lengths above isize::MAX panic with capacity overflow). The std::borrow::Cow conversion is exercised on "
                  "SharedString, Cow<[Tracked]> and Cow<[Label]>; Key does not expose it for its labels. ZST element vectors (capacity usize::MAX) make "
                  "from_owned panic after the vector was wrapped in ManuallyDrop, so its elements are never dropped: modelled and observed (z ops), "
                  "unreachable through the public API, excluded from the theorems by the well-formedness of capacities, not counted as a finding. "
                  "Trusted: Coq kernel; hand-written model (tied by differential runs, not by translation); std Vec/String/Arc; the driver's "
                  "allocator as observer.")
    assumptions = ["64-bit target (usize::MAX = 2^64-1, isize::MAX = 2^63-1)",
                   "capacities reported by String/Vec::with_capacity(n) equal n (checked by the driver on every case)"]
    trusted_extra = ["std Vec/String/Arc (exercised, modelled as buffers with a freed flag and a strong count)",
                     "the driver's counting global allocator (header magic, quarantine, poison) as the observer of frees"]

    # ------------------------------------------------------------------ generation
    def _content(self, rng, mode, maxlen=3):
        n = rng.weighted([(3, 0), (3, 1), (3, 2), (2, 3), (1, rng.range(4, 9))]) if maxlen >= 3 else rng.range(0, maxlen)
        al = [0x61, 0x62] if mode == "s" else [1, 2, 3]
        return [rng.pick(al) for _ in range(n)]

    def _buf(self, rng, mode):
        """the one static buffer of a case: short, tiny alphabet, often periodic, so that equal content occurs at
        different addresses and prefixes / overlapping slices abound"""
        al = [0x61, 0x62] if mode == "s" else [1, 2, 3]
        n = rng.weighted([(1, 0), (1, 1), (2, 2), (3, 3), (4, 4), (3, 6), (2, rng.range(5, 9))])
        if rng.chance(1, 2) and n >= 2:
            per = [rng.pick(al) for _ in range(rng.range(1, 2))]
            return [per[i % len(per)] for i in range(n)]
        return [rng.pick(al) for _ in range(n)]

    def _slice(self, rng, buf, prev):
        """(off, len) of a borrowed slice: directed families around the slices already taken (same start with another
        length, same content elsewhere, overlap, empty at any offset incl. one past the end) plus uniform ones"""
        L = len(buf)
        sel = rng.below(10)
        if prev and sel < 3:                                             # same start, another length (incl. the empty prefix)
            off, _ = rng.pick(prev)
            return off, rng.range(0, L - off)
        if prev and sel < 5:                                             # same content at another address, if there is one
            off, n = rng.pick(prev)
            cands = [o for o in range(0, L - n + 1) if o != off and buf[o:o + n] == buf[off:off + n]]
            if cands:
                return rng.pick(cands), n
        if prev and sel < 6:                                             # overlapping / adjacent
            off, n = rng.pick(prev)
            o2 = min(L, off + rng.range(0, max(n, 1)))
            return o2, rng.range(0, L - o2)
        if sel < 7:                                                      # empty slice anywhere
            return rng.range(0, L), 0
        if sel < 8 and rng.chance(1, 4):                                 # out of range (rejected by both sides)
            return rng.range(0, L + 1), L + 1
        off = rng.range(0, L)
        return off, rng.range(0, L - off)

    def _like(self, rng, mode, buf):
        """content for owned / Arc values: half of the time the content of some slice of the static buffer"""
        if buf and rng.chance(1, 2):
            off = rng.range(0, len(buf))
            return list(buf[off:off + rng.range(0, len(buf) - off)])
        return self._content(rng, mode)

    def _owned(self, rng, mode, buf=()):
        d = self._like(rng, mode, buf)
        n = len(d)
        sel = rng.below(6)
        if sel == 0:
            return ["o", [], 0, rng.pick([0, 1, 2])]                    # empty, capacity 0: new() / with_capacity(0) / collect
        if sel == 1:
            return ["o", [], rng.pick([1, 4, 8, 16, 64]), 0]            # empty with spare capacity
        if sel == 2:
            return ["o", d, n, rng.pick([0, 2])]                        # full
        if sel == 3:
            return ["o", d, n + rng.pick([1, 2, 8, 100]), 0]            # spare capacity
        if sel == 4:
            return ["o", d, n, 2]
        return ["o", d, max(n, rng.pick([0, 1, 2, 3, 4])), 0]

    def gen_one(self, rng):
        mode = rng.weighted([(4, "s"), (3, "t"), (3, "k"), (3, "l")])
        buf = self._buf(rng, mode)
        ops, live, arcs = [], [], []
        prev = []
        for _ in range(rng.range(1, 40)):
            lv = [i for i, x in enumerate(live) if x]
            av = [i for i, x in enumerate(arcs) if x > 0]
            r = rng.below(100)
            if rng.chance(1, 20) and live:
                h = rng.below(len(live) + 1)                             # possibly consumed / non-existent
                o = [rng.pick("ldixXwj" if mode != "k" else "ldixXw"), h] if rng.chance(3, 4) else ["m", h, rng.below(len(live) + 1)]
                if o[0] == "w":
                    o.append(self._content(rng, mode, 2))
            elif r < 14 or not (lv or av):
                off, n = self._slice(rng, buf, prev)
                o = [rng.pick("bc"), off, n]
                if off + n <= len(buf):
                    prev.append((off, n))
            elif r < 25:
                o = self._owned(rng, mode, buf)
            elif r < 32 and mode != "k":
                o = ["A", self._like(rng, mode, buf)]
            elif r < 42 and av:
                o = ["s", rng.pick(av)]
            elif r < 47 and av:
                o = ["C", rng.pick(av)]
            elif r < 54 and av:
                o = ["D", rng.pick(av)]
            elif r < 55 and mode == "t":
                o = ["z", rng.pick([0, 1, 3])]
            elif not lv:
                o = self._owned(rng, mode, buf)
            elif r < 63:
                o = ["l", rng.pick(lv)]
            elif r < 67:
                o = ["d", rng.pick(lv)]
            elif r < 77:
                o = ["m", rng.pick(lv), rng.pick(lv)]
            elif r < 81:
                o = ["i", rng.pick(lv)]
            elif r < 84:
                o = ["j" if mode != "k" else "i", rng.pick(lv)]
            elif r < 92:
                o = [rng.pick("xxX"), rng.pick(lv)]
            else:
                o = ["w", rng.pick(lv), self._content(rng, mode, 2)]
            ops.append(o)
            _, live, arcs = sim(mode, ops, len(buf))
        # sometimes compare many pairs of what is live (every construction against every other)
        lv = [i for i, x in enumerate(live) if x]
        if len(lv) >= 2 and rng.chance(1, 3):
            for _ in range(rng.range(2, 8)):
                ops.append(["m", rng.pick(lv), rng.pick(lv)])
        # usually give everything back at the end (balance is observable only then)
        if rng.chance(4, 5):
            for i, x in enumerate(live):
                if x:
                    ops.append([rng.pick("xxiXj" if mode != "k" else "xxiX"), i])
            for i, x in enumerate(arcs):
                for _ in range(x):
                    ops.append(["D", i])
        return dict(mode=mode, buf=buf, ops=ops)

    def gen(self, rng, n):
        return [self.gen_one(rng) for _ in range(n)]

    # ------------------------------------------------------------------ plumbing
    def impl_line(self, c):
        toks = []
        for o in c["ops"]:
            k = o[0]
            if k in "bc":
                toks.append("%s%d,%d" % (k, o[1], o[2]))
            elif k == "A":
                toks.append(k + bytes(o[1]).hex())
            elif k == "o":
                toks.append("o%s:%d:%d" % (bytes(o[1]).hex(), o[2], o[3]))
            elif k == "m":
                toks.append("m%d,%d" % (o[1], o[2]))
            elif k == "w":
                toks.append("w%d:%s" % (o[1], bytes(o[2]).hex()))
            else:
                toks.append("%s%d" % (k, o[1]))
        return "%s %s | %s" % (c["mode"], bytes(c["buf"]).hex() or "-", " ".join(toks))

    def parse_out(self, c, line):
        if line.strip() == "CRASH":
            return [["fCrash", 0, 0, []] for _ in c["ops"]]
        out = []
        for t in line.split():
            r, da, de, ss = t.split("/")
            out.append([r, int(da), int(de), [int(x) for x in ss.split(",")] if ss else []])
        return out

    def coq_case(self, c):
        ops = []
        for o in c["ops"]:
            k = o[0]
            if k in "bc":
                ops.append("FromBorrowed %s %s %s" % (cq_bytes(bytes(c["buf"])), cq_N(o[1]), cq_N(o[2])))
            elif k == "o":
                ops.append("FromOwned %s %s" % (cq_bytes(bytes(o[1])), cq_N(o[2])))
            elif k == "z":
                ops.append("FromOwned %s MAXU" % cq_bytes(bytes([0] * o[1])))
            elif k == "s":
                ops.append("FromShared %d%%nat" % o[1])
            elif k == "l":
                ops.append("Clone %d%%nat" % o[1])
            elif k == "d":
                ops.append("Deref %d%%nat" % o[1])
            elif k == "m":
                ops.append("Cmp %d%%nat %d%%nat" % (o[1], o[2]))
            elif k == "i":
                ops.append("IntoOwned %d%%nat" % o[1])
            elif k == "j":
                ops.append("IntoStdCow %d%%nat" % o[1])
            elif k in "xX":
                ops.append("Drop %d%%nat" % o[1])
            elif k == "w":
                ops.append("WithExtra %d%%nat %s" % (o[1], cq_bytes(bytes(o[2]))))
            elif k == "A":
                ops.append("ArcNew %s" % cq_bytes(bytes(o[1])))
            elif k == "C":
                ops.append("ArcClone %d%%nat" % o[1])
            elif k == "D":
                ops.append("ArcDrop %d%%nat" % o[1])
        return "(%s, %s)" % (cq_bool(c["mode"] != "s"), cq_list(ops))

    FAULTS = {"fBadFree": "BadFree", "fUseAfterFree": "UseAfterFree", "fDoubleFree": "DoubleFree"}

    def coq_out(self, c, out):
        xs = []
        for r, da, de, ss in out:
            if r == "u":
                t = "RUnit"
            elif r == "p":
                t = "RPanic"
            elif r == "bad":
                t = "RBad"
            elif r.startswith("c"):
                t = "RContent %s" % cq_bytes(bytes.fromhex(r[1:]))
            elif r.startswith("jB") or r.startswith("jO"):
                t = "RStd %s %s" % (cq_bool(r[1] == "B"), cq_bytes(bytes.fromhex(r[2:])))
            elif r.startswith("m") and len(r) == 4:
                t = "RCmp %s %s %s" % (cq_N(int(r[1])), cq_bool(r[2] == "1"), cq_bool(r[3] == "1"))
            else:
                t = "RFault %s" % self.FAULTS.get(r, "Crash")
            xs.append("(%s, %s, %s, %s)" % (t, cq_Z(da), cq_Z(de), cq_list([cq_N(s) for s in ss])))
        return cq_list(xs)

    def signature(self, c, out):
        if not any(o[1] != 0 for o in out):
            return None
        return [c, out]

    def shrink(self, c):
        mode, ops, buf = c["mode"], c["ops"], c["buf"]
        old, _, _ = sim(mode, ops, len(buf))
        cands = []

        def rebuild(skip=None, repl=None):
            hmap, amap, new = {}, {}, []
            for j, o in enumerate(ops):
                if j == skip:
                    continue
                o = list(repl[1]) if repl and repl[0] == j else list(o)
                k = o[0]
                drop = False
                if k in "ldixXwmj":
                    for pos in ([1, 2] if k == "m" else [1]):
                        h = o[pos]
                        if h in hmap:
                            if hmap[h] is None:
                                drop = True
                            else:
                                o[pos] = hmap[h]
                        elif old[j][0]:
                            drop = True
                        else:
                            o[pos] = 9999
                elif k in "sCD":
                    r = o[1]
                    if r in amap:
                        if amap[r] is None:
                            drop = True
                        else:
                            o[1] = amap[r]
                    elif old[j][0]:
                        drop = True
                    else:
                        o[1] = 9999
                _, ch, ca = old[j]
                if drop:
                    if ch is not None:
                        hmap[ch] = None
                    if ca is not None:
                        amap[ca] = None
                    continue
                new.append(o)
                _, nch, nca = sim(mode, new, len(buf))[0][-1]
                if ch is not None:
                    hmap[ch] = nch
                if ca is not None:
                    amap[ca] = nca
            return dict(mode=mode, buf=buf, ops=new)

        for i in range(len(ops) - 1, -1, -1):
            cands.append(rebuild(skip=i))
        for i, o in enumerate(ops):
            if o[0] == "A" and len(o[1]) > 0:
                cands.append(rebuild(repl=(i, [o[0], o[1][:-1]])))
            if o[0] in "bc" and o[2] > 0 and o[1] + o[2] <= len(buf):
                cands.append(rebuild(repl=(i, [o[0], o[1], o[2] - 1])))
            if o[0] == "c":
                cands.append(rebuild(repl=(i, ["b", o[1], o[2]])))
            if o[0] == "o" and len(o[1]) > 0 and o[3] == 0:
                cands.append(rebuild(repl=(i, ["o", o[1][:-1], o[2], 0])))
            if o[0] == "o" and o[2] > len(o[1]) and o[3] == 0:
                cands.append(rebuild(repl=(i, ["o", o[1], len(o[1]), 0])))
            if o[0] == "w" and len(o[2]) > 0:
                cands.append(rebuild(repl=(i, ["w", o[1], o[2][:-1]])))
            if o[0] == "X":
                cands.append(rebuild(repl=(i, ["x", o[1]])))
        used = max([o[1] + o[2] for o in ops if o[0] in "bc" and o[1] + o[2] <= len(buf)] + [0])
        if used < len(buf) and not any(o[0] in "bc" and o[1] + o[2] > len(buf) for o in ops):
            cands.append(dict(mode=mode, buf=buf[:used], ops=ops))           # drop the unused tail of the static buffer
        if mode in "tl" and not any(o[0] == "z" for o in ops):
            cands.append(dict(mode="l" if mode == "t" else "t", buf=buf, ops=ops))
        return [x for x in cands if x["ops"]]


PROP = C14()
