"""C12 — idle timeout: histories of Update / Advance / Observe against Recency + Registry."""
from .core import Prop, cq_N, cq_list, cq_opt, cq_bool

KIND = {"c": "Counter", "g": "Gauge", "h": "Histogram"}


DMAX = (2 ** 64 - 1) * 10 ** 9 + 999999999      # Duration::MAX in nanoseconds


def tmo(rng):
    """idle timeout in ticks (ns): small ones around which the advances are drawn, and 'never expire'
    style ones (2^63, u64::MAX ns, Duration::MAX) - arithmetic on instants must not overflow or panic -
    and the zero timeout (Some(ZERO) is a timeout like any other: anything idle for 1 ns is dropped)"""
    return rng.weighted([(12, rng.range(1, 20)), (2, 0), (1, 2 ** 63), (1, 2 ** 64 - 1), (1, DMAX)])


def tmo_tok(t):
    return "-" if t is None else ("M" if t == DMAX else str(t))


def uval(rng):
    """update value: a third of the updates leave the value unchanged (increment(0), set(0) on a
    zero gauge) - an update all the same, which must reset the idle clock"""
    return 0 if rng.chance(1, 3) else rng.below(50)


class C12(Prop):
    pid = "C12"
    pkg = "hcore"
    binname = "c12"
    quick_cases = 3000
    thorough_cases = 60000
    shard = 400
    rule = ("[a quarter of the updates are IN FLIGHT: observations/advances placed between obtaining the handle and the update being applied] random histories (<=40 ops) of Update/Advance/Observe over <=4 key ids x 3 kinds (ids shared across kinds), "
            "mask 0..7, timeout none or T in 1..20 ticks, advances drawn from {0,1,T-1,T,T+1,2T,random}; a case is "
            "non-trivial if it contains at least one deletion or one kept observation of an anchored metric; "
            "distinct = distinct (config, op list, outputs)")
    design_ref = "DESIGN.md 4 C12"
    technique = "Coq proof: refinement of the map+generation model to a per-metric specification machine, for all histories/masks/timeouts; differential correspondence against Recency+Registry under a mock clock, and against the Prometheus exporter under a mock clock and (jitter-free regimes) the real clock"
    level_text = ("Theorems (Coq, all histories, masks, timeouts, any number of keys/kinds): the model of Recency::should_store over a "
                  "generational registry equals a per-metric specification machine (C12_model_meets_spec), whose history-level clauses are proved: "
                  "updated-since-last-observation kept, idle <= timeout kept (boundary), idle > timeout deleted, uncovered kinds never deleted, "
                  "fresh after re-registration, independence of other kinds/keys. The model is tied to /repo by running the real Recency/Registry "
                  "and the model on the same generated histories each run.")
    level_note = ("Trusted: Coq kernel; hand-written model (tied by differential runs, not by translation); quanta mock clock; HashMap/Registry "
                  "modelled as association lists; generation counter assumed not to wrap. The Prometheus exporter's use of this logic (expired series leave the output, an expired histogram loses its aggregated distribution, re-registration restarts from zero) is observed through whole renders under a mock clock with several key spellings (sanitised, non-ASCII, labelled, global labels) and through build_recorder() on the real clock.")
    assumptions = ["quanta mock clock stands for the real clock in the differential histories (the real clock is driven only through two jitter-free regimes of the Prometheus-level engine: every gap either follows an update or is >= 3 timeouts; or the timeout is 120 s)", "generation counter does not wrap (usize)"]
    trusted_extra = ["hashbrown/HashMap inside Recency and Registry (exercised, modelled as association lists)"]

    def gen(self, rng, n):
        cases = []
        for _ in range(n):
            mask = rng.weighted([(6, 7), (1, 0), (3, rng.below(8))])
            if rng.chance(1, 8):
                T = None
            else:
                T = tmo(rng)
            nkeys = rng.range(1, 4)
            ops = []
            tt = T if (T and T < 100) else 5
            for _ in range(rng.range(1, 40)):
                r = rng.below(10)
                k = rng.pick("cgh") if not rng.chance(1, 3) else rng.pick("cg")
                key = rng.below(nkeys)
                if r < 3 and rng.chance(1, 4):
                    # an update in flight: observations / clock advances land inside it
                    inner = []
                    for _ in range(rng.range(1, 3)):
                        if rng.chance(2, 3):
                            inner.append(["O", k if rng.chance(3, 4) else rng.pick("cgh"), key if rng.chance(3, 4) else rng.below(nkeys)])
                        else:
                            inner.append(["A", rng.pick([0, 1, max(tt - 1, 0), tt, tt + 1, 2 * tt])])
                    ops.append(["S", k, key, rng.below(100), inner])
                elif r < 3:
                    v = rng.weighted([(8, rng.below(100)), (1, 0), (1, (1 << 64) - 1 if k == "c" else (1 << 32) - 1)])
                    ops.append(["U", k, key, v])
                elif r < 6:
                    d = rng.pick([0, 1, max(tt - 1, 0), tt, tt + 1, 2 * tt, rng.below(3 * tt + 1)])
                    ops.append(["A", d])
                else:
                    ops.append(["O", k, key])
            cases.append(dict(mask=mask, timeout=T, ops=ops))
        return cases

    @staticmethod
    def _tok(o):
        if o[0] == "U":
            return "U%s%d:%d" % (o[1], o[2], o[3])
        if o[0] == "A":
            return "A%d" % o[1]
        if o[0] == "S":
            return "S%s%d:%d[%s]" % (o[1], o[2], o[3], ",".join(C12._tok(i) for i in o[4]))
        return "O%s%d" % (o[1], o[2])

    @staticmethod
    def _flat(ops):
        """the history as the model sees it: an in-flight update is Register, inner ops, Complete"""
        out = []
        for o in ops:
            if o[0] == "S":
                out.append(["R", o[1], o[2]])
                out.extend(o[4])
                out.append(["C", o[1], o[2], o[3]])
            else:
                out.append(o)
        return out

    def impl_line(self, c):
        toks = []
        for o in c["ops"]:
            toks.append(self._tok(o))
        return "%d %s | %s" % (c["mask"], tmo_tok(c["timeout"]), " ".join(toks))

    def parse_out(self, c, line):
        # "panic": the code under test panicked somewhere in the history - no model run has this outcome
        return line.split()

    def coq_case(self, c):
        m = c["mask"]
        cfg = "{| mask_c := %s; mask_g := %s; mask_h := %s; timeout := %s; by_kind := true |}" % (
            cq_bool(m & 1), cq_bool(m & 2), cq_bool(m & 4), cq_opt(None if c["timeout"] is None else cq_N(c["timeout"])))
        ops = []
        for o in self._flat(c["ops"]):
            if o[0] == "U":
                ops.append("Update %s %s %s" % (KIND[o[1]], cq_N(o[2]), cq_N(o[3])))
            elif o[0] == "A":
                ops.append("Advance %s" % cq_N(o[1]))
            elif o[0] == "R":
                ops.append("Register %s %s" % (KIND[o[1]], cq_N(o[2])))
            elif o[0] == "C":
                ops.append("Complete %s %s %s" % (KIND[o[1]], cq_N(o[2]), cq_N(o[3])))
            else:
                ops.append("Observe %s %s" % (KIND[o[1]], cq_N(o[2])))
        return "(%s, %s)" % (cfg, cq_list(ops))

    def coq_out(self, c, out):
        xs = []
        for t in out:
            if t in ("u", "a"):
                xs.append("OUnit")
            elif t == "x":
                xs.append("OAbsent")
            elif t == "d":
                xs.append("ODeleted")
            elif t == "panic":
                continue          # the output list is then shorter than the history: never equal to a model run, and spec_ok is false
            else:
                _, g, vs = t.split(":")
                xs.append("OKept %s %s" % (cq_N(int(g)), cq_list([cq_N(int(v)) for v in vs.split(",")])))
        return cq_list(xs) if xs else "(@nil out)"

    def signature(self, c, out):
        if "d" not in out and not any(t.startswith("k:") for t in out):
            return None
        return [c, out]

    def shrink(self, c):
        ops = c["ops"]
        cands = []
        for i in range(len(ops)):
            cands.append(dict(c, ops=ops[:i] + ops[i + 1:]))
        for i, o in enumerate(ops):
            if o[0] == "S":
                for j in range(len(o[4])):
                    cands.append(dict(c, ops=ops[:i] + [["S", o[1], o[2], o[3], o[4][:j] + o[4][j + 1:]]] + ops[i + 1:]))
                cands.append(dict(c, ops=ops[:i] + [["U", o[1], o[2], o[3]]] + ops[i + 1:]))
            if o[0] == "A" and o[1] > 0:
                cands.append(dict(c, ops=ops[:i] + [["A", o[1] - 1]] + ops[i + 1:]))
            if o[0] == "U" and o[3] > 1:
                cands.append(dict(c, ops=ops[:i] + [["U", o[1], o[2], 1]] + ops[i + 1:]))
        return cands


    # ---------------------------------------------------------------- Prometheus-level engine
    extra_bins = [("hprom", "c12p")]
    extra_coq_targets = ["C12/ExecProm.vo"]

    def extra_checks(self, ctx):
        """The same idle-timeout model observed through the real Prometheus exporter
        (PrometheusBuilder::idle_timeout + mock clock): an observation is a whole render(), expanded
        into one Observe per target in the order of get_recent_metrics.  Covers the exporter-level
        clause: an expired metric disappears from the OUTPUT, an expired histogram loses its
        aggregated distribution, and a re-registered one restarts from zero."""
        from . import core
        rng = ctx["rng"].fork()
        n = 700 if ctx["tier"] == "quick" else 12000
        cases = []
        for _ in range(n):
            mask = rng.weighted([(6, 7), (1, 0), (3, rng.below(8))])
            T = None if rng.chance(1, 8) else tmo(rng)
            tt = T if (T and T < 100) else 5
            nkeys = rng.range(1, 3)
            ops = []
            for _ in range(rng.range(2, 30)):
                r = rng.below(10)
                if r < 4:
                    ops.append(["U", rng.pick("cgh"), rng.below(nkeys), uval(rng)])
                elif r < 7:
                    ops.append(["A", rng.pick([0, 1, max(tt - 1, 0), tt, tt + 1, 2 * tt])])
                else:
                    ops.append(["R"])
            # how the driver spells keys (plain / sanitised / non-ASCII / labelled / global label / mixed):
            # keys are opaque ids in the model, so the spelling must not change any observation
            cases.append(dict(mask=mask, timeout=T, naming=rng.weighted([(2, 0), (2, 1), (1, 2), (2, 3), (1, 4), (3, 5)]), ops=ops))
        fails = self._prom_eval(ctx, cases, "prom", real=False)
        if fails:
            return fails
        # ---- the same histories' shape on the REAL clock (build_recorder(), real sleeps): a mock
        # clock cannot tell which of quanta's time sources the code reads.  Two regimes whose verdicts
        # do not depend on scheduling jitter: S = timeout 150 ms and a 450 ms sleep after EVERY render
        # (so an observation either follows an update - kept whatever the time - or finds the metric
        # unchanged since an observation at least 3 timeouts ago - gone); L = timeout 120 s, no sleep
        # (everything kept).  The model is run with ticks = milliseconds.
        rcases = []
        for i in range(8 if ctx["tier"] == "quick" else 32):
            nkeys = rng.range(1, 2)
            naming = rng.weighted([(2, 0), (2, 1), (1, 2), (2, 3), (1, 4), (3, 5)])
            mask = rng.weighted([(6, 7), (2, rng.below(8))])
            ops = []
            if i % 4 == 3:
                for _ in range(rng.range(3, 12)):
                    ops.append(["U", rng.pick("cgh"), rng.below(nkeys), uval(rng)] if rng.chance(1, 2) else ["R"])
                rcases.append(dict(mask=mask, timeout=120000, naming=naming, ops=ops + [["R"]]))
            else:
                for _ in range(rng.range(2, 4)):
                    for _ in range(rng.range(0, 3)):
                        ops.append(["U", rng.pick("cgh"), rng.below(nkeys), uval(rng)])
                    ops += [["R"], ["A", 450]]
                rcases.append(dict(mask=mask, timeout=150, naming=naming, ops=ops + [["R"]]))
        return self._prom_eval(ctx, rcases, "promreal", real=True)

    def _prom_eval(self, ctx, cases, tag, real):
        from . import core
        binpath = core.harness_build("hprom", "c12p")

        def line(c):
            toks = []
            for o in c["ops"]:
                toks.append("U%s%d:%d" % (o[1], o[2], o[3]) if o[0] == "U" else ("A%d" % o[1] if o[0] == "A" else "R"))
            return "%s%d %s %d | %s" % ("REAL " if real else "", c["mask"], tmo_tok(c["timeout"]), c.get("naming", 0), " ".join(toks))
        rc, outs, err = core.run_impl(binpath, [line(c) for c in cases], timeout=900)
        if rc != 0 or len(outs) != len(cases):
            raise core.MachineryBroken("c12p driver failed: rc=%s %s" % (rc, err[-1000:]))
        triples, shown = [], []
        for i, (c, o) in enumerate(zip(cases, outs)):
            targets = sorted({(op[1], op[2]) for op in c["ops"] if op[0] == "U"}, key=lambda t: ("cgh".index(t[0]), t[1]))
            toks = o.split(" ")
            hist, pouts = [], []
            if o.strip() == "panic":
                toks = []        # the exporter panicked: history kept, no observations -> never equal to a model run
            for op, tok in zip(c["ops"], toks):
                if op[0] == "U":
                    hist.append("Update %s %s %s" % (KIND[op[1]], cq_N(op[2]), cq_N(op[3]))); pouts.append("PUnit")
                elif op[0] == "A":
                    hist.append("Advance %s" % cq_N(op[1])); pouts.append("PUnit")
                else:
                    present = {}
                    body = tok[2:-1]
                    for part in body.split("|") if body else []:
                        k, v = part.split("=")
                        present[(k[0], int(k[1:]))] = [int(x) for x in v.split(",")]
                    for (k, key) in targets:
                        hist.append("Observe %s %s" % (KIND[k], cq_N(key)))
                        if (k, key) in present:
                            pouts.append("PKept %s" % cq_list([cq_N(x) for x in present[(k, key)]]))
                        else:
                            pouts.append("PGone")
            if not toks:
                for op in c["ops"]:
                    if op[0] == "U":
                        hist.append("Update %s %s %s" % (KIND[op[1]], cq_N(op[2]), cq_N(op[3])))
                    elif op[0] == "A":
                        hist.append("Advance %s" % cq_N(op[1]))
                    else:
                        hist += ["Observe %s %s" % (KIND[k], cq_N(key)) for (k, key) in targets]
            m = c["mask"]
            cfg = "{| mask_c := %s; mask_g := %s; mask_h := %s; timeout := %s; by_kind := true |}" % (
                cq_bool(m & 1), cq_bool(m & 2), cq_bool(m & 4), cq_opt(None if c["timeout"] is None else cq_N(c["timeout"])))
            triples.append((i, "(%s, %s)" % (cfg, cq_list(hist)), cq_list(pouts)))
            shown.append(dict(case=c, render_tokens=o, clock="real (build_recorder, sleeps in ms)" if real else "mock"))
        res = core.run_model("C12", triples, exec_mod="ExecProm", shard=200, tag=tag)
        bad = [i for i in range(len(cases)) if not res[i][1]]
        dis = [i for i in range(len(cases)) if not res[i][0]]
        pre = "prometheus_level_real_clock_" if real else "prometheus_level_"
        ctx["coverage"][pre + "histories"] = len(cases)
        ctx["coverage"][pre + "renders"] = sum(1 for c in cases for o in c["ops"] if o[0] == "R")
        ctx["coverage"][pre + "sample"] = shown[0]
        ctx["coverage"][pre + "key_spelling"] = {str(m): sum(1 for c in cases if c["naming"] == m) for m in range(6)}
        kind = "promreal" if real else "prom"
        if bad:
            return [(kind + "-spec", "through the Prometheus exporter (idle_timeout, %s clock) a series is present/absent or has a value other than the per-metric specification says" % ("REAL" if real else "mock"),
                     dict(prom_case=shown[bad[0]], failing=len(bad)))]
        if dis:
            return [(kind + "-corr", "Prometheus-level observations (%s clock) disagree with coq/C12 model (ExecProm.run_case)" % ("real" if real else "mock"), dict(prom_case=shown[dis[0]], no_failing_input=True,
                     broken="correspondence C12/ExecProm.v vs harness c12p"))]
        return []


PROP = C12()
