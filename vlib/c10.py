"""C10 — DogStatsD client-side aggregation: sequential histories through State::flush (payload bytes and
parsed messages) and schedule replay of AtomicCounter/AtomicGauge updates against flushes at atomic-step
granularity."""
import json

from .core import Prop, cq_N, cq_Z, cq_bool, cq_list, cq_opt, cq_bytes

TWO64 = 1 << 64
TWO32 = 1 << 32
BAD = 4294967295
TELEMETRY = "datadog.dogstatsd.client"

NAMES = ["c", "g", "req", "a.b", "lat_ms", TELEMETRY + ".metrics", TELEMETRY, "datadog", "x9",
         TELEMETRY + "x", TELEMETRY[:-1], TELEMETRY + ".", "datadog.dogstatsd"]
LKEYS = ["env", "az", "k", "t"]
LVALS = ["", "prod", "1", "eu-1", "v"]
U64S = [0, 1, 2, 5, 7, 15, 42, 100, 1000, (1 << 32), (1 << 63), TWO64 - 1, TWO64 - 65536]
GZS = [0, 1, -1, 2, 5, 42, -42, 13, 1000, -1000, 10 ** 14, -(10 ** 14)]
NOWS = [0, 7, 345678, 1700000000, TWO64 - 1]


def hexs(s):
    return s.encode().hex()


class C10(Prop):
    pid = "C10"
    pkg = "hdog"
    binname = "c10"
    quick_cases = 2400
    thorough_cases = 15000
    shard = 250
    design_ref = "DESIGN.md 4 C10"
    technique = ("Coq proof: (i) an interleaving machine with one step per atomic access of AtomicCounter/AtomicGauge "
                 "(storage.rs) and the idle decision of State::flush, invariants preserved by every step hence for every "
                 "schedule and any number of threads; (ii) sequential per-key machines built from the same access functions, "
                 "refined against a window-based reference semantics. Correspondence: sequential histories through the real "
                 "State::flush/PayloadWriter (payload bytes compared with C09's writer model, per flush as multisets) and "
                 "schedule replay on the real cells through yield points 1001-1014")
    level_text = ("Theorems (Coq): for every schedule, any number of updater threads and flush cadence, the deltas handed to the "
                  "writer plus those still in flight plus current-last equal the increments whose fetch_add executed (mod 2^64), "
                  "and the idle logic drops only zero deltas; with one flushing thread every delta is (mod 2^64) the growth of the "
                  "added total between the flusher's two most recent current.loads, and all such windows together never exceed what "
                  "was added; once no thread updates the counter any more (flusher between two flushes) at most one catch-up delta and then at most one zero are sent, and then nothing; every gauge flush returns "
                  "the fold of exactly the writes executed before its load; sequentially, for every history of a key: the counter, gauge "
                  "and histogram clauses of the executable property hold on the model, and composed: spec_ok holds on the model's run of every "
                  "well-formed sequential case and of every completed scheduled case outside the open class (C10_spec_ok_on_model; presence phases = idle-once, increment sums, "
                  "absolute running-maximum differences without wrap, global bound, each histogram value in exactly one flush), timestamp "
                  "iff Aggressive; chained with C09's writer theorems: a sequential run never panics and every iteration's payloads are "
                  "the frames (LE32 len ++ body on a stream) of exactly the bodies its writer calls committed, and the stream decodes to them. "
                  "Tied to /repo by running the same histories and schedules on the real code, plus a free-running stress "
                  "(real threads, no scheduler) judged by the conservation identities.")
    level_note = ("SC interleaving (the code's Relaxed/Acquire/Release orderings are weaker). The registry (key -> cell map) is "
                  "not modelled: keys are independent cells. AtomicBucket/reservoir are a sequential bag (C05/C16 own their "
                  "concurrency). Composed theorem for sequential cases: C10_spec_ok_on_model_seq (forall c, seq_wf c -> spec_ok (CSeq c) (run_case (CSeq c)) "
                  "= true; seq_wf = counter values < 2^64, sampling windows within the reservoir, no newline byte in prefix/labels/key names). "
                  "Scheduled cases: C10_spec_ok_on_model_sched (known_class = None, non-empty threads, run completes within the round-robin fuel; "
                  "any mix of increments and absolutes); both shapes: C10_spec_ok_on_model (forall c, known_class c = None -> case_wf_full c -> "
                  "spec_ok c (run_case c) = true). NOT proved: (ii) the concurrent conservation identity for absolutes (with two updaters it is "
                  "false even outside the class); runs that exhaust the round-robin fuel are outside the class link (never generated); (iii) idle-once suffix form: flusher between flushes (C10_idle_once_suffix) or one "
                  "flush in flight (C10_idle_once_suffix_in_flight); other threads may only touch the gauge. A first absolute racing a flush or another first absolute is the open finding C10-rebase-straddle. Stream framing under short writes / back-pressure (Client::send on unix://) is covered ONLY by the unix-stream end-to-end engine "
                  "(paused agent, 0.3-1.1 MB frames, strict decoding): the model and flush_once hand whole payloads to the transport. "
                  "The forwarder loop (forwarder/sync.rs Forwarder::run, incl. the lifetime of FlushState and the UDP send) is not modelled; it is "
                  "exercised end to end by a real exporter built with DogStatsDBuilder against a harness UDP socket in both tiers (judged per key: "
                  "sums, exactly one closing zero, gauge in every flush, histogram values once, timestamp iff Aggressive). "
                  "Read-modify-write steps split without a new yield point are invisible to schedule replay; they are covered by the free-running "
                  "engines only (counter stress, histogram stress, barrier-released absolute() rounds on one counter). "
                  "Histogram record racing a flush is only covered by the free-running stress (no value twice, none fabricated, "
                  "never-sent values within recorders x drains = open finding C10-record-vs-flush-late-claim inherited from C05); the "
                  "model's histogram is a sequential bag. The "
                  "payload parser of vlib/c10.py is trusted for the spec verdict on outputs that differ from the model.")
    rule = ("60% sequential histories: 1-4 keys (names incl. the telemetry prefix, 0-2 labels, bare tags), all configurations "
            "(mode, distributions, sampling with per-window pushes <= reservoir, prefix, global labels, max payload 128..8192 (every single-value line fits) and "
            ">= 2^32, length prefix), 3-16 ops incl. register-only, u64 extremes, >64 histogram values, 1-5 flushes; 40% schedules: "
            "1-2 updaters x 1-3 ops on one counter / one gauge against one forwarder doing 2-3 flushes (State::flush or raw), random/"
            "bursty/out-of-range schedules + round-robin tail. non-trivial = a flush sent something / an updater step fell inside a flush")
    assumptions = ["SC memory model", "yield hooks placed before each atomic access of storage.rs",
                   "integer-valued f64 below 1e15 (exact; ryu prints digits.0)", "fewer than 2^64 updates between flushes",
                   "sampling: at most reservoir-size values per window (beyond that C16)",
                   "one forwarder (State::flush needs &mut FlushState)"]
    trusted_extra = ["harness/sched deterministic scheduler", "verif_state_driver::flush_once transcribes the loop body of Forwarder::run",
                     "C09 writer model (MV.C09.Model) for payload bytes", "vlib/c10.py payload parser",
                     "std atomics, registry, AtomicBucket, reservoir (exercised, not modelled)"]

    # ------------------------------------------------------------------ generators
    def gen(self, rng, n):
        out = []
        for i in range(n):
            if rng.chance(3, 5):
                out.append(self.gen_o(rng))
            else:
                out.append(self.gen_s(rng))
        return out

    def _labels(self, rng, nmax):
        return [[rng.pick(LKEYS), rng.pick(LVALS)] for _ in range(rng.weighted([(4, 0), (3, 1), (1, min(2, nmax))]))]

    def gen_o(self, rng):
        samp = rng.chance(1, 4)
        rsv = rng.pick([0, 1, 2, 3, 6, 16]) if samp else 16
        mx = rng.weighted([(10, 8192), (4, rng.range(128, 200)), (2, 1432)])
        if rng.chance(1, 150):
            mx = rng.pick([TWO32, TWO32 - 1, TWO32 + 5])
        prefix = rng.weighted([(3, None), (2, "px"), (1, "my.app")])
        related = prefix is not None and rng.chance(1, 2)
        rel_names = [] if prefix is None else [prefix, prefix + ".req", prefix + "req", prefix + ".", prefix[:-1], "x" + prefix]
        keys, seen = [], set()
        for _ in range(rng.range(1, 4)):
            k = [rng.pick(rel_names) if related and rng.chance(2, 3) else rng.pick(NAMES), self._labels(rng, 2)]
            sig = json.dumps(k)
            if sig not in seen:
                seen.add(sig)
                keys.append(k)
        nk = len(keys)
        ops, win = [], {}
        style = rng.below(4)   # 0 mixed, 1 increment-only counters, 2 absolute-only counters, 3 gauge/hist heavy
        nops = rng.range(3, 16)
        for _ in range(nops):
            k = rng.below(nk)
            r = rng.below(100)
            if r < 25:
                ops.append(["F", rng.pick(NOWS)])
                win = {}
            elif r < 32:
                ops.append([rng.pick(["rc", "rg", "rh"]), k])
            elif r < 60 and style != 3 or r < 40:
                v = rng.pick(U64S) if rng.chance(1, 3) else rng.range(0, 40)
                if style == 1:
                    ops.append(["ci", k, v])
                elif style == 2:
                    ops.append(["ca", k, v])
                else:
                    ops.append([rng.pick(["ci", "ci", "ca"]), k, v])
            elif r < 80:
                ops.append([rng.pick(["gs", "gs", "gi", "gd"]), k, rng.pick(GZS) if rng.chance(1, 2) else rng.range(-50, 50)])
            else:
                cnt = 1
                if not samp and rng.chance(1, 12):
                    cnt = rng.range(60, 70)
                for _ in range(cnt):
                    if samp and win.get(k, 0) >= rsv:
                        break
                    win[k] = win.get(k, 0) + 1
                    ops.append(["hr", k, rng.pick(GZS) if rng.chance(1, 3) else rng.range(-9, 99)])
        ops.append(["F", rng.pick(NOWS)])
        if rng.chance(2, 3):
            for _ in range(rng.range(1, 3)):
                ops.append(["F", rng.pick(NOWS)])
        return dict(kind="O", aggr=rng.below(2), dist=rng.below(2), samp=int(samp), rsv=rsv, max=mx, lp=rng.below(2),
                    prefix=prefix,
                    glabels=self._labels(rng, 2) if rng.chance(1, 3) else [], keys=keys, ops=ops)

    def gen_s(self, rng):
        kind = rng.weighted([(5, "inc"), (3, "abs"), (2, "mixed"), (3, "gauge")])
        nupd = rng.range(1, 2)
        progs = []
        for _ in range(nupd):
            p = []
            for _ in range(rng.range(1, 3 if nupd == 1 else 2)):
                v = rng.pick([1, 2, 5, 7, 100, TWO64 - 1]) if rng.chance(1, 4) else rng.range(1, 30)
                if kind == "inc":
                    p.append("i%d" % v)
                elif kind == "abs":
                    p.append("a%d" % v)
                elif kind == "mixed":
                    p.append("%s%d" % (rng.pick("ia"), v))
                else:
                    p.append("%s%d" % (rng.pick("sspm"), rng.range(-20, 20)))
            progs.append(p)
        fl = []
        for _ in range(rng.range(2, 3)):
            if kind == "gauge":
                fl.append(rng.pick(["fg", "fs"]))
            else:
                fl.append(rng.pick(["fs", "fs", "fc"]))
        pos = rng.below(len(progs) + 1)
        progs.insert(pos, fl)
        if rng.chance(1, 10) and kind != "gauge":
            progs.append(["fc"])          # a second raw flusher
        nt = len(progs)
        total = sum(1 + 5 * len(p) for p in progs)
        L = rng.range(0, total + 3)
        style = rng.below(4)
        sched = []
        for _ in range(L):
            if style == 0:
                sched.append(rng.below(nt))
            elif style == 1:
                sched.append(sched[-1] if sched and rng.chance(2, 3) else rng.below(nt))
            elif style == 2:
                sched.append(rng.below(nt + 1))
            else:   # flusher first for a while (reach the idle state), then interleave
                sched.append(pos if len(sched) < 6 else rng.below(nt))
        return dict(kind="S", progs=progs, sched=sched)

    # ------------------------------------------------------------------ free-running stress (no scheduler)
    def extra_checks(self, ctx):
        """real threads, no scheduler callback installed (own process): updaters increment one counter by a known
        total and set a gauge while one thread flushes in a loop (raw AtomicCounter::flush, State::flush, alternating);
        judged by the property: the deltas add up to the increments (mod 2^64), no delta exceeds the total, the flush
        after the last (post-join) set reports that value.  Catches added/removed shared accesses that schedule replay
        cannot see (they would run inside one scheduled step)."""
        from . import core
        big = ctx["tier"] == "thorough"
        k = 5 if big else 1
        confs = [(4, 20000 * k, 1, 0), (8, 10000 * k, 3, 1), (6, 20000 * k, 7, 2), (4, 20000 * k, (1 << 61) + 1, 2),
                 (2, 50000 * k, TWO64 - 1, 0), (8, 5000 * k, 5, 1)]
        lines = ["X %d %d %d %d" % c for c in confs]
        rc, outs, err = core.run_impl(ctx["binpath"], lines, timeout=300)
        viol, flushes, nonzero = [], 0, 0
        if rc != 0 or len(outs) != len(lines):
            raise core.MachineryBroken("stress driver failed: rc=%s %s" % (rc, err[-500:]))
        for (t, n, v, mode), line in zip(confs, outs):
            f = line.split()
            total = t * n * v
            ssum, smax, nfl, nz, g = int(f[1]), int(f[2]), int(f[3]), int(f[4]), f[5]
            flushes += nfl
            nonzero += nz
            bad = []
            if ssum != total % TWO64:
                bad.append("deltas add up to %d, increments to %d (mod 2^64)" % (ssum, total % TWO64))
            if total < TWO64 and smax > total:
                bad.append("a single delta %d exceeds everything added %d" % (smax, total))
            if g != "424242":
                bad.append("the flush after the last set reported gauge %s, not 424242" % g)
            if bad:
                viol.append(("stress", "free-running stress (threads=%d incs=%d value=%d mode=%d): %s" % (t, n, v, mode, "; ".join(bad)),
                             dict(stress_line="X %d %d %d %d" % (t, n, v, mode), driver_out=line)))
        viol += self._hist_stress(ctx, core, big)
        viol += self._e2e(ctx, core, big)
        viol += self._stream(ctx, core, big)
        viol += self._abs_rounds(ctx, core, big)
        probe = self.gen(core.Rng(ctx["seed"]), self.quick_cases if not big else self.thorough_cases)
        rel = tel = 0
        for c in probe:
            if c["kind"] != "O":
                continue
            names = [k[0] for k in c["keys"]]
            if c["prefix"] is not None and any(n.startswith(c["prefix"]) or c["prefix"].startswith(n) for n in names):
                rel += 1
            if any(n.startswith(TELEMETRY[:-1]) for n in names):
                tel += 1
        ctx["coverage"]["cases_key_name_related_to_prefix"] = rel
        ctx["coverage"]["cases_key_name_at_telemetry_namespace_boundary"] = tel
        ctx["coverage"]["stress_runs"] = len(confs)
        ctx["coverage"]["stress_increments"] = sum(t * n for t, n, _, _ in confs)
        ctx["coverage"]["stress_flushes"] = flushes
        ctx["coverage"]["stress_nonzero_deltas"] = nonzero
        return viol

    def _e2e(self, ctx, core, big):
        """end to end through the REAL forwarder loop (forwarder/sync.rs Forwarder::run): an exporter built with the public
        DogStatsDBuilder sends to a harness-owned UDP socket; scripted updates with idle windows of >= 5 flush intervals;
        the datagrams are judged per key (sequence, not wall clock): counter deltas = 7 then exactly ONE zero, 10 then
        exactly ONE zero (an optional zero before the first update is the registration zero); the gauge is in every flush
        with its latest value; histogram values exactly once; |T iff Aggressive; names/tags as configured."""
        import time as _time
        confs = [(0, 0, 0, 0, 50), (1, 1, 1, 1, 50), (0, 1, 0, 1, 40)]
        if big:
            confs += [(1, 0, 1, 0, 60), (1, 1, 0, 0, 40)]
        lines = ["E %d %d %d %d %d" % c for c in confs]
        rc, outs, err = core.run_impl(ctx["binpath"], lines, timeout=120)
        if rc != 0 or len(outs) != len(lines):
            raise core.MachineryBroken("end-to-end driver failed: rc=%s %s" % (rc, err[-500:]))
        now = int(_time.time())
        viol, ndg = [], 0
        for (aggr, pfx, lab, dist, iv), line in zip(confs, outs):
            body = line.split(None, 1)[1] if " " in line else "-"
            dgs = [] if body.strip() == "-" else [bytes.fromhex(x) for x in body.strip().split(",")]
            ndg += len(dgs)
            bad = []
            name = lambda n: ("app." + n) if pfx else n
            tags = "env:t" if lab else ""
            cs, gs, hs = [], [], []
            for d in dgs:
                for ln in d.decode("utf-8", "replace").split("\n"):
                    if not ln:
                        continue
                    f = ln.split("|")
                    head = f[0].split(":")
                    ty = f[1] if len(f) > 1 else "?"
                    tg, ts = "", None
                    for x in f[2:]:
                        if x.startswith("#"):
                            tg = x[1:]
                        elif x.startswith("T"):
                            ts = x[1:]
                    if tg != tags:
                        bad.append("unexpected tags in %r" % ln)
                    if ty in ("c", "g"):
                        if (ts is not None) != bool(aggr):
                            bad.append("timestamp %s in %s mode: %r" % ("present" if ts else "absent", "Aggressive" if aggr else "Conservative", ln))
                        elif ts is not None and not (ts.isdigit() and now - 3600 <= int(ts) <= now + 60):
                            bad.append("implausible timestamp in %r" % ln)
                    elif ts is not None:
                        bad.append("timestamp on a histogram message %r" % ln)
                    try:
                        if head[0] == name("ec") and ty == "c" and len(head) == 2:
                            cs.append(int(head[1]))
                        elif head[0] == name("eg") and ty == "g" and len(head) == 2:
                            gs.append(float(head[1]))
                        elif head[0] == name("eh") and ty == ("d" if dist else "h"):
                            hs += [float(v) for v in head[1:]]
                        else:
                            bad.append("unexpected message %r" % ln)
                    except ValueError:
                        bad.append("unparsable message %r" % ln)
            seq = list(cs)
            if seq and seq[0] == 0:
                seq = seq[1:]           # registration zero (flush between register and the first increment)
            toks = "".join("z" if v == 0 else "n" for v in seq)
            import re as _re
            m = _re.fullmatch(r"(n+)z(n+)z", toks)
            if not m:
                bad.append("counter messages %s: expected deltas adding up to 7, exactly one zero, deltas adding up to 10, exactly one zero" % cs)
            else:
                k = len(m.group(1))
                if sum(seq[:k]) != 7 or sum(seq[k + 1:-1]) != 10:
                    bad.append("counter deltas %s do not add up to the increments (7 then 10)" % cs)
            g2 = list(gs)
            if g2 and g2[0] == 0.0:
                g2 = g2[1:]
            k = 0
            while k < len(g2) and g2[k] == 42.0:
                k += 1
            if k < 3 or len(g2) - k < 4 or any(v != -7.0 for v in g2[k:]):
                bad.append("gauge messages %s: expected 42 in every flush, then -7 in every flush" % gs)
            if sorted(hs) != [5.0, 6.0, 7.0]:
                bad.append("histogram values received %s, recorded [5, 6, 7]" % sorted(hs))
            if bad:
                viol.append(("e2e", "end-to-end exporter (aggressive=%d prefix=%d labels=%d distributions=%d interval=%dms): %s"
                             % (aggr, pfx, lab, dist, iv, "; ".join(bad[:4])),
                             dict(e2e_line="E %d %d %d %d %d" % (aggr, pfx, lab, dist, iv),
                                  datagrams=[d.decode("utf-8", "replace") for d in dgs][:80])))
        ctx["coverage"]["e2e_rounds"] = len(confs)
        ctx["coverage"]["e2e_datagrams"] = ndg
        return viol

    def _abs_rounds(self, ctx, core, big):
        """free-running, barrier-released rounds of absolute() on ONE counter (no scheduler): (mode 0) the counter is re-based
        sequentially first, then several threads publish distinct increasing absolutes (each publish takes the next ticket, so all threads write at the frontier) while one thread flushes in a loop - no
        increment runs, so no re-basing absolute races anything and neither open class applies: no delta and no prefix sum of
        deltas may exceed largest value - base (current never moves backwards), and at quiescence the deltas add up to exactly
        that; (mode 1) one thread publishes absolutes while others increment, nothing flushes during the round: at quiescence
        the delta must not exceed everything added.  Catches read-modify-write steps split without a new yield point."""
        confs = [(200, 4, 500, 0), (150, 3, 700, 0), (150, 3, 300, 1)]
        if big:
            confs += [(300, 4, 800, 0), (200, 2, 1000, 0), (200, 4, 300, 1)]
        lines = ["A %d %d %d %d" % c for c in confs]
        rc, outs, err = core.run_impl(ctx["binpath"], lines, timeout=300)
        if rc != 0 or len(outs) != len(lines):
            raise core.MachineryBroken("absolute rounds driver failed: rc=%s %s" % (rc, err[-500:]))
        viol, cov = [], ctx["coverage"]
        rounds = during = nonzero = 0
        for conf, line in zip(confs, outs):
            head, _, first = line.partition("|")
            f = head.split()
            r, bad, dur, nz, nd = (int(x) for x in f[1:6])
            rounds += r
            during += dur
            nonzero += nz
            if bad:
                viol.append(("stress", "concurrent absolute() rounds on one counter (rounds=%d publishers=%d values/thread=%d mode=%d): %d rounds violate the "
                             "property, first: %s" % (conf[0], conf[1], conf[2], conf[3], bad, first.strip()),
                             dict(stress_line="A %d %d %d %d" % conf, driver_out=line[:400])))
        cov["abs_rounds"] = rounds
        cov["abs_rounds_flushes_while_publishing"] = during
        cov["abs_rounds_nonzero_deltas_while_publishing"] = nonzero
        return viol

    def _stream(self, ctx, core, big):
        """end to end over a Unix STREAM socket under back-pressure (the real Forwarder::run / Client::send): large maximum
        payload, one histogram batch per frame (sampling on within the reservoir) so that frames are 0.3-1.1 MB, an agent
        that pauses after the first bytes of every connection (longer than one write timeout; one scenario longer than two,
        so that the exporter's write_all gives up and reconnects).  Jitter-free verdict on what the agent decoded: every
        frame whole ([u32 LE len][one well-formed line], len within the limit; a connection may only END inside a frame and
        the partial bytes must still be payload text), no histogram value twice, none fabricated, counter deltas never add
        up to more than the increments, gauge values only ever the values set, in order."""
        confs = [(120000, 1500000, 300, 450, 100, 0, 0), (40000, 400000, 300, 450, 100, 1, 1), (120000, 1500000, 300, 800, 100, 0, 0)]
        if big:
            confs += [(60000, 700000, 200, 600, 100, 1, 0), (120000, 1500000, 300, 0, 100, 0, 1), (20000, 250000, 150, 200, 60, 0, 0)]
        lines = ["U %d %d %d %d %d %d %d" % c for c in confs]
        rc, outs, err = core.run_impl(ctx["binpath"], lines, timeout=300)
        if rc != 0 or len(outs) != len(lines):
            raise core.MachineryBroken("unix stream driver failed: rc=%s %s" % (rc, err[-500:]))
        viol, cov = [], ctx["coverage"]
        tot = dict(conns=0, frames=0, maxframe=0, trunc=0)
        for conf, line in zip(confs, outs):
            head, _, first = line.partition("|")
            f = head.split()
            conns, frames, maxframe, trunc, dups, fab, distinct, csum, cmax = (int(x) for x in f[1:10])
            gvals = [] if f[10] == "-" else f[10].split(",")
            nerr = int(f[11])
            tot["conns"] += conns
            tot["frames"] += frames
            tot["trunc"] += trunc
            tot["maxframe"] = max(tot["maxframe"], maxframe)
            bad = []
            if nerr:
                bad.append("%d framing/format errors in the received stream, first: %s" % (nerr, first.strip()))
            if dups:
                bad.append("%d histogram values arrived more than once" % dups)
            if fab:
                bad.append("%d histogram values arrived that were never recorded" % fab)
            if csum > 12 or cmax > 12:
                bad.append("counter deltas received add up to %d (largest %d); 12 were added" % (csum, cmax))
            order = [v for i, v in enumerate(gvals) if i == 0 or gvals[i - 1] != v]
            if any(v not in ("0.0", "1.0", "2.0") for v in gvals) or order != sorted(order):
                bad.append("gauge values received %s are not the values set, in order" % order)
            if bad:
                viol.append(("stream", "unix stream under back-pressure (values/batch=%d max payload=%d write timeout=%dms agent pause=%dms): %s"
                             % (conf[0], conf[1], conf[2], conf[3], "; ".join(bad)),
                             dict(stream_line="U %d %d %d %d %d %d %d" % conf, driver_out=line[:600])))
        cov["stream_scenarios"] = len(confs)
        cov["stream_paused_agent_scenarios"] = sum(1 for c in confs if c[3] > 0)
        cov["stream_pause_longer_than_two_write_timeouts"] = sum(1 for c in confs if c[3] > 2 * c[2])
        cov["stream_connections"] = tot["conns"]
        cov["stream_whole_frames"] = tot["frames"]
        cov["stream_largest_frame_bytes"] = tot["maxframe"]
        cov["stream_connections_ended_inside_a_frame"] = tot["trunc"]
        return viol

    def _hist_stress(self, ctx, core, big):
        """free-running histogram stress (sampling off): 2-3 recorder threads record distinct integer values into 1-2
        histogram keys while one thread runs forwarder iterations (20-50 during the recording), then flush until empty.
        Judged on the parsed payloads: no value twice, no fabricated value, and values never sent at most
        recorders x (iterations begun while recording) - that much is the open C05 finding (a push landing in a block
        a concurrent clear_with has just detached) surfacing through AtomicHistogram::flush; anything above is a violation."""
        confs = [(3, 300000, 2, 0, 5000, 700), (2, 400000, 1, 1, 5000, 300), (3, 300000, 1, 1, 4000, 400)]
        if big:
            confs += [(3, 400000, 1, 0, 6000, 500), (3, 300000, 2, 1, 5000, 700), (2, 250000, 1, 1, 5000, 700)]
        lines = ["Y %d %d %d %d %d %d" % c for c in confs]
        rc, outs, err = core.run_impl(ctx["binpath"], lines, timeout=300)
        if rc != 0 or len(outs) != len(lines):
            raise core.MachineryBroken("histogram stress driver failed: rc=%s %s" % (rc, err[-500:]))
        viol, tot, lost_all, during_all, bound_all = [], 0, 0, 0, 0
        for conf, line in zip(confs, outs):
            f = line.split()
            total, dups, fab, lost, during, flushes = (int(x) for x in f[1:7])
            bound = conf[0] * during
            tot += total
            lost_all += lost
            during_all += during
            bound_all += bound
            bad = []
            if dups:
                bad.append("%d values were sent in more than one flush" % dups)
            if fab:
                bad.append("%d values were sent that were never recorded" % fab)
            if lost > bound:
                bad.append("%d of %d recorded values were never sent (tolerated for the open late-claim finding: at most %d = "
                           "%d recorders x %d iterations begun while recording)" % (lost, total, bound, conf[0], during))
            if bad:
                viol.append(("stress", "free-running histogram stress, sampling off (recorders=%d values/recorder=%d keys=%d dist=%d): %s"
                             % (conf[0], conf[1], conf[2], conf[3], "; ".join(bad)),
                             dict(stress_line="Y %d %d %d %d %d %d" % conf, driver_out=line)))
        cov = ctx["coverage"]
        cov["hist_stress_runs"] = len(confs)
        cov["hist_stress_values"] = tot
        cov["hist_stress_iterations_while_recording"] = during_all
        cov["hist_stress_values_never_sent"] = lost_all
        cov["hist_stress_never_sent_bound"] = bound_all
        if lost_all and not viol:
            try:
                known = [k for k in core.load_known() if k.get("id") == "C10-record-vs-flush-late-claim" and k["status"] == "open"]
            except Exception:
                known = []
            if known:
                print("KNOWN-FINDING: property=C10 C10-record-vs-flush-late-claim (%s; %d of %d values never sent this run, bound %d)"
                      % (known[0]["what"], lost_all, tot, bound_all))
        return viol

    # ------------------------------------------------------------------ driver protocol
    @staticmethod
    def _lab(ls):
        return "-" if not ls else ",".join("%s=%s" % (hexs(k), hexs(v)) for k, v in ls)

    def impl_line(self, c):
        if c["kind"] == "S":
            return "S %s ; %s" % ("|".join(",".join(p) for p in c["progs"]), " ".join(map(str, c["sched"])))
        keys = " ".join("%s/%s" % (hexs(n), self._lab(l)) for n, l in c["keys"])
        ops = " ".join(":".join(str(x) for x in o) for o in c["ops"])
        return "O %d %d %d %d %d %d %s %s | %s | %s" % (
            c["aggr"], c["dist"], c["samp"], c["rsv"], c["max"], c["lp"],
            "-" if c["prefix"] is None else "+" + hexs(c["prefix"]), self._lab(c["glabels"]), keys, ops)

    @staticmethod
    def _tagstr(ls):
        return ",".join(k if v == "" else "%s:%s" % (k, v) for k, v in ls)

    def _keymap(self, c):
        m = {}
        for i, (n, l) in enumerate(c["keys"]):
            full = n if (c["prefix"] is None or n.startswith(TELEMETRY)) else c["prefix"] + "." + n
            m.setdefault((full, self._tagstr(c["glabels"] + l)), i)
        return m

    def _parse_payload(self, c, km, p):
        """payload bytes -> (kind, key, values, ts) ; BAD markers if it does not parse"""
        try:
            body = p[4:] if c["lp"] else p
            line = body.decode("utf-8")
            if line.endswith("\n"):
                line = line[:-1]
            f = line.split("|")
            head = f[0].split(":")
            name, vals = head[0], head[1:]
            ty = f[1]
            tags, ts = "", None
            for x in f[2:]:
                if x.startswith("#"):
                    tags = x[1:]
                elif x.startswith("T"):
                    ts = int(x[1:])
                elif x.startswith("@"):
                    pass
                else:
                    return (3, BAD, [0], None)
            key = km.get((name, tags), BAD)
            if ty == "c":
                return (0, key, [int(v) for v in vals], ts)
            if ty in ("g", "h", "d"):
                zs = []
                for v in vals:
                    x = float(v)
                    if x != int(x):
                        return (3, BAD, [0], None)
                    zs.append(int(x))
                if ty == "g":
                    return (1, key, zs, ts)
                if (ty == "d") != bool(c["dist"]):
                    return (3, key, zs, ts)
                return (2, key, zs, ts)
            return (3, BAD, [0], None)
        except Exception:
            return (3, BAD, [0], None)

    def parse_out(self, c, line):
        if c["kind"] == "S":
            tr, rs, done, fin = [x.strip() for x in line.split(";")]
            trace = [[int(a), int(b)] for a, b in (x.split(":") for x in tr.split())]
            res = [[t for t in p.split(",") if t] for p in rs.split("|")]
            return dict(trace=trace, res=res, done=int(done), fin=fin)
        if line.strip() == "N":
            return dict(new_panic=1)
        km = self._keymap(c)
        fl = []
        for tok in line.split():
            if tok == "P":
                fl.append(None)
                continue
            _, ps, cp, gp, hp = tok.split(":")
            payloads = [] if ps == "-" else ps.split(",")
            msgs, hist = [], {}
            for p in payloads:
                kind, key, vals, ts = self._parse_payload(c, km, bytes.fromhex(p))
                if kind == 2:
                    h = hist.setdefault(key, [[], ts])
                    h[0] += vals
                    if ts is not None:
                        h[1] = ts
                else:
                    msgs.append([kind, key, vals, ts])
            for key in sorted(hist):
                msgs.append([2, key, sorted(hist[key][0]), hist[key][1]])
            fl.append(dict(msgs=msgs, payloads=payloads, cp=int(cp), gp=int(gp), hp=int(hp)))
        return dict(fl=fl)

    # ------------------------------------------------------------------ Coq terms
    @staticmethod
    def _cq_labels(ls):
        return cq_list(["(%s, %s)" % (cq_bytes(k), cq_bytes(v)) for k, v in ls])

    @staticmethod
    def _gw(op, z):
        return "(%s %s)" % ({"gs": "WSet", "gi": "WAdd", "gd": "WSub", "s": "WSet", "p": "WAdd", "m": "WSub"}[op], cq_Z(z))

    def coq_case(self, c):
        if c["kind"] == "S":
            def op(x):
                if x == "fc":
                    return "FCnt"
                if x == "fg":
                    return "FGau"
                if x == "fs":
                    return "FState"
                if x[0] == "i":
                    return "UInc %s" % cq_N(int(x[1:]))
                if x[0] == "a":
                    return "UAbs %s" % cq_N(int(x[1:]))
                return "USet %s" % self._gw(x[0], int(x[1:]))
            return "(CSched %s %s)" % (cq_list([cq_list([op(x) for x in p]) for p in c["progs"]]),
                                       cq_list([cq_N(t) for t in c["sched"]]))

        def oop(o):
            t = o[0]
            if t == "F":
                return "OFlush %s" % cq_N(o[1])
            if t in ("rc", "rg", "rh"):
                return "%s %s" % ({"rc": "ORegC", "rg": "ORegG", "rh": "ORegH"}[t], cq_N(o[1]))
            if t == "ci":
                return "OInc %s %s" % (cq_N(o[1]), cq_N(o[2]))
            if t == "ca":
                return "OAbs %s %s" % (cq_N(o[1]), cq_N(o[2]))
            if t == "hr":
                return "ORec %s %s" % (cq_N(o[1]), cq_Z(o[2]))
            return "OGau %s %s" % (cq_N(o[1]), self._gw(t, o[2]))
        return ("(CSeq {| o_aggr := %s; o_dist := %s; o_samp := %s; o_rsv := %s; o_max := %s; o_lp := %s; o_prefix := %s; "
                "o_glabels := %s; o_keys := %s; o_ops := %s |})") % (
            cq_bool(c["aggr"]), cq_bool(c["dist"]), cq_bool(c["samp"]), cq_N(c["rsv"]), cq_N(c["max"]), cq_bool(c["lp"]),
            cq_opt(None if c["prefix"] is None else cq_bytes(c["prefix"])), self._cq_labels(c["glabels"]),
            cq_list(["(%s, %s)" % (cq_bytes(n), self._cq_labels(l)) for n, l in c["keys"]]),
            cq_list([oop(o) for o in c["ops"]]))

    def coq_out(self, c, o):
        if c["kind"] == "S":
            def res(t):
                if "!" in t or "?" in t:
                    return "RCnt 18446744073709551616 0"     # anomaly: fails the spec
                if t == "u":
                    return "RU"
                if t[0] == "c":
                    d, u = t[1:].split("/")
                    return "RCnt %s %s" % (cq_N(int(d)), cq_N(int(u)))
                if t[0] == "g":
                    z, u = t[1:].split("/")
                    return "RGau %s %s []" % (cq_Z(int(z)), cq_N(int(u)))
                d, z, cp, gp = t[1:].split("/")
                return "RState %s %s %s %s []" % (cq_opt(None if d == "-" else cq_N(int(d))), cq_Z(int(z)),
                                                  cq_N(int(cp)), cq_N(int(gp)))
            fd, fu, fz, fg = o["fin"].split("/")
            if "!" in fz:
                fz, fd = "0", str(TWO64)
            return "(OSched %s %s %s (%s, %s, %s, %s))" % (
                cq_list(["(%s, %s)" % (cq_N(a), cq_N(b)) for a, b in o["trace"]]),
                cq_list([cq_list([res(t) for t in p]) for p in o["res"]]), cq_bool(o["done"]),
                cq_N(int(fd)), cq_N(int(fu)), cq_Z(int(fz)), cq_N(int(fg)))
        if o.get("new_panic"):
            return "ONew"
        fl = []
        for f in o["fl"]:
            if f is None:
                fl.append("FPanic")
                continue
            ms = cq_list(["{| m_kind := %s; m_key := %s; m_vals := %s; m_ts := %s |}" % (
                cq_N(k), cq_N(key), cq_list([cq_Z(v) for v in vals]), cq_opt(None if ts is None else cq_N(ts)))
                for k, key, vals, ts in f["msgs"]])
            ps = cq_list([cq_bytes(bytes.fromhex(p)) for p in f["payloads"]])
            fl.append("FOut %s %s %s %s %s" % (ms, ps, cq_N(f["cp"]), cq_N(f["gp"]), cq_N(f["hp"])))
        return "(OSeq %s)" % cq_list(fl)

    def signature(self, c, o):
        if c["kind"] == "S":
            guarded = {t for t, s in o["trace"] if 1001 <= s <= 1014}
            if len(guarded) < 2:
                return None
            return [c["progs"], o["trace"]]
        if o.get("new_panic"):
            return ["new", c["max"]]
        if not any(f and f["payloads"] for f in o["fl"]):
            return None
        return [c, [None if f is None else f["msgs"] for f in o["fl"]]]

    def shrink(self, c):
        """big cuts first (halves, quarters), then single deletions; capped so that one shrinking round stays cheap"""
        out = []

        def cuts(xs):
            n = len(xs)
            res = []
            for parts in (2, 4):
                if n >= parts * 2:
                    step = n // parts
                    for i in range(parts):
                        res.append(xs[:i * step] + xs[(i + 1) * step:])
            for i in range(n):
                res.append(xs[:i] + xs[i + 1:])
            return res

        if c["kind"] == "S":
            for s2 in cuts(c["sched"])[:24]:
                out.append(dict(c, sched=s2))
            for t, p in enumerate(c["progs"]):
                for i in range(len(p)):
                    q = [list(x) for x in c["progs"]]
                    del q[t][i]
                    out.append(dict(c, progs=q))
            return out[:40]
        ops = c["ops"]
        for o2 in cuts(ops)[:30]:
            out.append(dict(c, ops=o2))
        if c["prefix"] is not None:
            out.append(dict(c, prefix=None))
        if c["glabels"]:
            out.append(dict(c, glabels=[]))
        for i, (n, l) in enumerate(c["keys"]):
            if l:
                ks = [list(k) for k in c["keys"]]
                ks[i] = [n, []]
                if len({json.dumps(k) for k in ks}) == len(ks):
                    out.append(dict(c, keys=ks))
        if c["max"] != 8192:
            out.append(dict(c, max=8192))
        if c["lp"]:
            out.append(dict(c, lp=0))
        for i, o in enumerate(ops[:20]):
            if len(o) == 3 and isinstance(o[2], int) and abs(o[2]) > 9:
                out.append(dict(c, ops=ops[:i] + [[o[0], o[1], o[2] // 10]] + ops[i + 1:]))
        return out[:48]


PROP = C10()
