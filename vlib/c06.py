"""C06 — Registry: one storage per (kind, key). Operation histories (one thread) and schedule replay
(2-3 threads) on the real Registry<Key, S> with a counting storage double."""
import os
from . import core
from .core import Prop, cq_N, cq_list, cq_bool, cq_opt

KINDS = "cgh"
KCOQ = {"c": "KCounter", "g": "KGauge", "h": "KHistogram"}
NCLASS = 96
NVAR = 6


class C06(Prop):
    pid = "C06"
    pkg = "hcore"
    binname = "c06"
    quick_cases = 1500
    thorough_cases = 12000
    shard = 100
    design_ref = "DESIGN.md 4 C06"
    technique = ("Coq proof: invariants of an interleaving machine whose atomic steps are the shard-lock critical sections of "
                 "registry/mod.rs (any shard count 2^k, any hash function compatible with key equality), preserved by every step hence "
                 "for every schedule; refinement to one association map per kind; operation-history and schedule-replay correspondence "
                 "on the real Registry<Key, S> with a counting storage double, the model running with the implementation's own get_hash values; "
                 "plus a free-running stress engine (real threads, no scheduler)")
    level_text = ("Theorems (Coq; every schedule, any number of threads and calls, any k, any hash with keq a b -> hash a = hash b, keq an "
                  "equivalence -- instantiated with the C03 model of real keys, C06_instantiated_with_C03): at every configuration each (kind, key class) "
                  "has at most one entry and every storage id occurs in at most one entry of the whole registry; entries sit in the shard their hash "
                  "selects; constructions(kind, class) = removals(kind, class) + live(kind, class); two get_or_create calls with equal keys with no "
                  "removal of that class in between return the same id; the sharded machine is simulated along every schedule by the single-map "
                  "reference machine (same trace, same return values and listings, each hash band of the single map = the shard); at quiescence "
                  "visit/handles return exactly the live entries once, delete returns true iff present and removes exactly that class, a retain call "
                  "leaves exactly the matching entries and a clear call nothing (machine-level, the call run alone); a get_or_create whose closure panics changes "
                  "the registry exactly as the returning call does (C06_panicking_closure_as_returning_call; lock poisoning is not state because every accessor "
                  "recovers the guard); the model's run of every case "
                  "whose keys carry one hash per class passes spec_ok (C06_spec_ok_on_model) and spec_ok = true implies agreement with the single-map replay "
                  "(C06_spec_ok_sound; the converse is not stated). Tied to /repo by "
                  "replaying histories and schedules on the real code (key pools from distinct allocations and storage-aliased families: slices of one static buffer) "
                  "plus five oracle engines (free-running stress; key-side state racing registry operations; bulk history over aliased keys; panicking closures / "
                  "poisoned locks incl. panicking retain predicates and visit callbacks; bulk histories on registries keyed by other Hashable key types).")
    level_note = ("SC interleaving at lock granularity: RwLock and hashbrown are trusted to give mutual exclusion / map semantics (a shard is an "
                  "association list searched by (hash, ==)). retain/clear/visit are modelled as the code is: one shard lock after the other, so "
                  "they are not atomic over the registry (the reference machine sweeps the single map band by band in the same way). The executable "
                  "model runs with hash := the hash the implementation reported for the first key of the same class named by the case, so the key "
                  "contract holds by construction; spec_ok additionally requires that all keys of one class were reported with one hash. "
                  "Key-side state (the hash memo inside Key: get_hash / Clone, yield sites 301-306) is NOT part of the C06 model: the C06 theorems "
                  "assume key_contract, which for a lazily hashed key used and cloned concurrently is C03's theorem (C03_get_hash_stable_under_races: "
                  "every get_hash / clone-then-get_hash returns the true hash under every schedule; C06's invariants and refinement hold under the "
                  "contract). For C06 that race is covered by the keyrace engine only (directed schedules over sites 301-306 and free-running rounds on "
                  "the real registry, judged by an oracle, not compared with the Coq model). Panicking closures: only get_or_create's closure is a model operation "
                  "(both paths); a retain predicate or visit callback that panics midway is judged by the panics engine's reference map only (its effect depends "
                  "on hashbrown's iteration order). Key types other than metrics::Key (DefaultHashable<String / u64 / (u64, String)>, a hand-written weak-hash "
                  "Hashable type): the model is generic in the key under key_contract; for these types the contract (hashable() equal for equal keys, and the "
                  "map's view consistent with it across insertions and resizes) is checked per run by the genkeys engine only.")
    rule = ("histories: 1 thread, 4-14 calls over 2-5 key classes (variants = equal keys built differently incl. two labels sharing a name in either "
            "order and identical labels; same-name pairs inside 3+ labels are distinct classes; classes chosen to collide in one "
            "shard half of the time), all three kinds, every call kind; exhaustive schedules of {2 creators}, {creator || create;delete}, "
            "{create;get || delete} (thorough: + {creator || retain}, {2x2 calls}); get_or_create calls whose closure panics (histories, races, aliased "
            "families) followed by ordinary calls on the same and other shards; storage-aliased key families (slices of one static buffer: prefix "
            "families, twins, overlapping windows, classes of one (shard, hashbrown tag) bucket); directed same-shard triples {creator K || creator K or K2 || "
            "create Y; delete/retain/clear Y} with the size-preserving interleaving and perturbations of it; races: 2-3 threads x 1-2 calls ({2 creators same key}, {creator || "
            "deleter}, {creator || retain/clear}, mixed), random/bursty schedules + round-robin tail; non-trivial = some storage constructed and "
            "(a removal or a second creator of a live class or >=2 threads reaching their locks); distinct = distinct (programs, executed trace)")
    assumptions = ["SC memory model at shard-lock granularity", "yield hooks placed immediately before each shard lock acquisition of registry/mod.rs",
                   "AHash values are taken from the implementation (reported per key), not modelled",
                   "Key's hash memo under racing first use / clone satisfies the key contract (proved in C03, exercised here by the keyrace engine)"]
    trusted_extra = ["harness/sched deterministic scheduler", "std RwLock, hashbrown raw-entry API (exercised, modelled as an association list per shard)"]

    # ---- hash table of the key pool, from the implementation
    _tab = None

    def table(self):
        if self._tab is None:
            binpath = os.path.join(core.TARGET, "release", self.binname)
            rc, outs, err = core.run_impl(binpath, ["TABLE %d %d" % (NCLASS, NVAR)])
            if rc != 0 or not outs or not outs[0].startswith("TABLE"):
                raise core.MachineryBroken("c06 TABLE query failed: %s %s" % (outs, err[-500:]))
            head, body, eqbad = outs[0].split(";")
            if eqbad.strip():
                raise core.MachineryBroken("c06 generator bug: key pool classes/variants do not match == of the real keys: " + eqbad.strip()[:300])
            shards = int(head.split()[1])
            k = shards.bit_length() - 1
            if 1 << k != shards:
                raise core.MachineryBroken("shard count %d is not a power of two" % shards)
            h = {}
            for t in body.split():
                c, v, x = t.split(":")
                h[(int(c), int(v))] = int(x)
            by_shard = {}
            for c in range(NCLASS):
                by_shard.setdefault(h[(c, 0)] & (shards - 1), []).append(c)
            self._tab = dict(k=k, shards=shards, h=h, groups=[g for g in by_shard.values() if len(g) >= 2])
        return self._tab

    # ---- storage-aliased key families (names / label parts are slices of one leaked buffer in the driver)
    _atab = None
    ALIAS0 = 200000

    def atable(self):
        if self._atab is None:
            binpath = os.path.join(core.TARGET, "release", self.binname)
            rc, outs, err = core.run_impl(binpath, ["ATABLE"])
            if rc != 0 or not outs or not outs[0].startswith("ATABLE"):
                raise core.MachineryBroken("c06 ATABLE query failed: %s %s" % (outs[:1], err[-500:]))
            _, body, bad = outs[0].split(";")
            if bad.strip():
                raise core.MachineryBroken("c06 generator bug: aliased key families have classes with equal contents or variants with other contents: " + bad.strip()[:300])
            h = {}
            for t in body.split():
                c, x = t.split(":")
                h[int(c)] = int(x)
            shards = self.table()["shards"]
            buckets = {}
            for c, x in h.items():
                fam = (c - self.ALIAS0) // 10000
                buckets.setdefault((fam, x & (shards - 1), x >> 57), []).append(c)
            groups = {0: [], 1: [], 2: []}
            for (fam, _, _), g in sorted(buckets.items()):
                if len(g) >= 2:
                    groups[fam].append(sorted(g))
            self._atab = dict(h=h, groups=groups)
        return self._atab

    def key(self, c, v):
        if c >= self.ALIAS0:
            return [c, v, self.atable()["h"][c]]
        return [c, v, self.table()["h"][(c, v)]]

    _alias_stats = None

    def alias_case(self, rng, k, exact=False):
        """keys whose names / label keys / label values are slices of ONE static buffer: classes of one family that fall into the
        same shard with the same hashbrown tag (top 7 hash bits), built mostly as borrowed slices (same start, different length),
        mixed with clones, twin-buffer slices, owned and Arc copies of the same contents"""
        at = self.atable()
        st = self._alias_stats or dict(cases=0, pairs_same_shard_same_tag=0, families=[0, 0, 0], variants=[0] * 6)
        self._alias_stats = st
        fam = 0 if exact else rng.weighted([(5, 0), (4, 1), (1, 2)])
        gs = at["groups"][fam] or at["groups"][0]
        g = rng.shuffle(rng.pick(gs))
        cls = g[:rng.range(2, min(4, len(g)))] if not exact else g[:2]
        st["cases"] += 1
        st["families"][fam] += 1
        st["pairs_same_shard_same_tag"] += len(cls) * (len(cls) - 1) // 2
        kd = rng.pick("cgh")
        kinds = [kd] if exact or rng.chance(2, 3) else list("cgh")

        def akey(c):
            v = 0 if exact else rng.pick([0, 0, 0, 0, 4, 3, 1, 2, 5])
            st["variants"][v] += 1
            return self.key(c, v)
        if exact:
            a, b = cls
            progs = [[["C", kd] + akey(a), ["C", kd] + akey(b), ["G", kd] + akey(a), ["G", kd] + akey(b), ["D", kd] + akey(a),
                      ["G", kd] + akey(b), ["H", kd]]]
            return dict(k=k, progs=progs, sched=[])
        if not exact and rng.chance(1, 8):
            cls = cls + [rng.below(NCLASS)]
        if rng.chance(2, 3):
            ops = []
            for _ in range(rng.range(4, 10)):
                what = rng.weighted([(8, "C"), (2, "P"), (4, "G"), (3, "D"), (1, "R"), (1, "V"), (2, "H")])
                d = rng.pick(kinds)
                if what in "CGDP":
                    c = rng.pick(cls)
                    ops.append([what, d] + (akey(c) if c >= self.ALIAS0 else self.key(c, rng.below(NVAR))))
                elif what == "R":
                    ops.append(["R", d, [c for c in cls if rng.chance(1, 2)]])
                else:
                    ops.append([what, d])
            return dict(k=k, progs=[ops], sched=[])
        # races between creators / deleters of DIFFERENT aliased classes of one bucket
        progs = []
        for t in range(rng.range(2, 3)):
            p = []
            for _ in range(rng.range(1, 2)):
                what = rng.weighted([(6, "C"), (2, "D"), (1, "G")])
                p.append([what, kd] + akey(rng.pick([c for c in cls if c >= self.ALIAS0])))
            progs.append(p)
        total = sum(1 + sum(self.oplen(o) for o in p) for p in progs)
        sched = [rng.below(len(progs)) for _ in range(rng.range(0, total + 2))]
        return dict(k=k, progs=progs, sched=sched)

    def pick_classes(self, rng, n):
        t = self.table()
        if rng.chance(1, 2) and t["groups"]:
            g = rng.pick(t["groups"])          # all in one shard
            cs = rng.shuffle(g)[:n]
            while len(cs) < n and rng.chance(1, 2):
                cs.append(rng.below(NCLASS))
            return list(dict.fromkeys(cs))
        if rng.chance(1, 3):
            # two labels sharing a name (either order is ==), identical labels, same-name pair inside 3 labels
            cs = rng.shuffle(list(range(28, 48)))[:n]
            return list(dict.fromkeys(cs))
        # adversarial: same name different labels (c, c+4), same labels different name (c, c+1)
        base = rng.below(NCLASS - 8)
        pool = [base, base + 1, base + 4, base + 5, rng.below(NCLASS), rng.below(NCLASS)]
        return list(dict.fromkeys(rng.shuffle(pool)[:n]))

    def rand_op(self, rng, classes, kinds, w):
        kd = rng.pick(kinds)
        what = rng.weighted(w)
        if what in "CGDP":
            return [what, kd] + self.key(rng.pick(classes), rng.below(NVAR))
        if what == "R":
            keep = [c for c in classes if rng.chance(1, 2)]
            if rng.chance(1, 6):
                keep.append(rng.below(NCLASS))
            return ["R", kd, keep]
        if what == "X":
            return ["X"]
        return [what, kd]

    def corpus(self):
        k = self.table()["k"]
        out = []
        for f, j in super().corpus():
            progs = [[(o[:2] + self.key(o[2], o[3])) if o[0] in "CGDP" else o for o in p] for p in j["case"]["progs"]]
            j = dict(j, case=dict(j["case"], k=k, progs=progs))
            out.append((f, j))
        return out

    @staticmethod
    def interleavings(lens):
        """all schedules that run thread t for lens[t] steps"""
        res = []

        def go(rem, acc):
            if not any(rem):
                res.append(list(acc))
                return
            for t in range(len(rem)):
                if rem[t]:
                    rem[t] -= 1
                    acc.append(t)
                    go(rem, acc)
                    acc.pop()
                    rem[t] += 1
        go(list(lens), [])
        return res

    def enumerated(self, n):
        """exhaustive schedules of the small racing configurations (deterministic prefix of every run)"""
        k = self.table()["k"]
        ns = self.table()["shards"]
        c = self.table()["groups"][0][0] if self.table()["groups"] else 3
        out = []
        K = lambda t, kd, v: [t, kd] + self.key(c, v)
        confs = [([[K("C", "c", 0)], [K("C", "c", 1)]], [3, 3]),
                 ([[K("C", "g", 2)], [K("C", "g", 3), K("D", "g", 4)]], [3, 4]),
                 ([[K("C", "h", 5), K("G", "h", 0)], [K("D", "h", 1)]], [4, 2])]
        if n >= 10000:
            confs.append(([[K("C", "c", 0)], [["R", "c", []]]], [3, 1 + ns]))
            confs.append(([[K("C", "c", 0), K("C", "c", 3)], [K("C", "c", 1), K("D", "c", 2)]], [5, 4]))
        for progs, lens in confs:
            for sch in self.interleavings(lens):
                out.append(dict(k=k, progs=progs, sched=sch))
        from .core import Rng
        r2 = Rng(20601)
        for _ in range(6):
            out.append(self.aba_case(r2, k, exact=True))
        for _ in range(6):
            out.append(self.alias_case(r2, k, exact=True))
        return out

    def gen(self, rng, n):
        cases = self.enumerated(n) if n >= 300 else []
        k = self.table()["k"]
        for idx in range(max(n - len(cases), 0)):
            mode = rng.weighted([(5, "hist"), (2, "cc"), (2, "cd"), (2, "cr"), (3, "mix"), (4, "aba"), (3, "alias")])
            classes = self.pick_classes(rng, rng.range(2, 5))
            kinds = rng.pick(["c", "g", "h", "cg", "cgh", "cgh"])
            if mode == "aba":
                cases.append(self.aba_case(rng, k))
                continue
            if mode == "alias":
                cases.append(self.alias_case(rng, k))
                continue
            if mode == "hist":
                w = [(7, "C"), (3, "P"), (3, "G"), (4, "D"), (3, "R"), (1, "X"), (2, "V"), (3, "H")]
                progs = [[self.rand_op(rng, classes, kinds, w) for _ in range(rng.range(4, 14))]]
                sched = []
            else:
                c0 = classes[0]
                kd = kinds[0]
                mk = lambda t, c=c0, d=kd: [t, d] + self.key(c, rng.below(NVAR))
                if mode == "cc":
                    progs = [[mk("C")], [mk("C")]]
                    if rng.chance(1, 3):
                        progs.append([mk("C")] if rng.chance(1, 2) else [mk("G")])
                    if rng.chance(1, 3):
                        progs[0].append(mk("D") if rng.chance(1, 2) else ["H", kd])
                elif mode == "cd":
                    progs = [[mk("C")], [mk("D")]]
                    if rng.chance(1, 2):
                        progs[0].append(mk("C"))
                    if rng.chance(1, 2):
                        progs[1].insert(0, mk("C"))
                    if rng.chance(1, 3):
                        progs.append([mk("C")])
                elif mode == "cr":
                    sweeper = rng.pick([["R", kd, []], ["R", kd, classes[1:]], ["X"], ["V", kd], ["H", kd]])
                    progs = [[mk("C")], [sweeper]]
                    if rng.chance(1, 2):
                        progs[0].append(mk("C", rng.pick(classes)))
                    if rng.chance(1, 2):
                        progs[1].insert(0, mk("C", rng.pick(classes)))
                    if rng.chance(1, 4):
                        progs.append([mk("C", rng.pick(classes))])
                else:
                    w = [(7, "C"), (2, "P"), (2, "G"), (4, "D"), (2, "R"), (1, "X"), (1, "V"), (1, "H")]
                    progs = [[self.rand_op(rng, classes, kinds, w) for _ in range(rng.range(1, 2))] for _ in range(rng.range(2, 3))]
                nt = len(progs)
                total = sum(1 + sum(self.oplen(o) for o in p) for p in progs)
                L = rng.range(0, min(total + 4, 60))
                style = rng.below(3)
                sched = []
                for _ in range(L):
                    if style == 1 and sched and rng.chance(2, 3):
                        sched.append(sched[-1])
                    else:
                        sched.append(rng.below(nt + (1 if style == 2 else 0)))
            cases.append(dict(k=k, progs=progs, sched=sched))
        # a creator whose closure panics in some directed / racing cases too
        for c in cases[len(self.enumerated(n)) if n >= 300 else 0:]:
            if len(c["progs"]) > 1 and rng.chance(1, 5):
                c["progs"] = [[(["P"] + o[1:]) if o[0] == "C" and rng.chance(1, 2) else o for o in p] for p in c["progs"]]
        self.panic_stats(cases)
        return cases

    _panic_stats = None

    def panic_stats(self, cases):
        """generated panicking-closure calls, and calls made afterwards on the same (kind, shard) / sweeps of that kind (program order)"""
        st = self._panic_stats or dict(panicking_get_or_create=0, later_ops_same_kind_and_shard=0, later_sweeps_of_that_kind=0, cases_with_panic=0)
        self._panic_stats = st
        m = self.table()["shards"] - 1
        for c in cases:
            hit = set()
            anyp = False
            for p in c["progs"]:
                for o in p:
                    if o[0] in "CGDP" and (o[1], o[4] & m) in hit:
                        st["later_ops_same_kind_and_shard"] += 1
                    if (o[0] in "RVH" and any(kd == o[1] for kd, _ in hit)) or (o[0] == "X" and hit):
                        st["later_sweeps_of_that_kind"] += 1
                    if o[0] == "P":
                        st["panicking_get_or_create"] += 1
                        hit.add((o[1], o[4] & m))
                        anyp = True
            st["cases_with_panic"] += 1 if anyp else 0

    def aba_case(self, rng, k, exact=False):
        """three overlapping calls on keys of ONE shard: creator A of K misses under the read lock; before it
        takes the write lock a second creator inserts K (or another same-shard key) and a remover takes a
        pre-registered same-shard key Y out (delete / retain / clear), so the shard's size is unchanged"""
        t = self.table()
        big = [g for g in t["groups"] if len(g) >= 3] or t["groups"]
        g = rng.shuffle(rng.pick(big))
        K, Y = g[0], g[1]
        K2 = g[2] if len(g) > 2 else g[0]
        kd = rng.pick("cgh")
        key = lambda c: self.key(c, rng.below(NVAR))
        second = K if exact or rng.chance(3, 4) else K2
        remover = "D" if exact else rng.weighted([(5, "D"), (3, "R"), (1, "X")])
        if remover == "D":
            rem = ["D", kd] + key(Y)
        elif remover == "R":
            rem = ["R", kd, [c for c in g if c != Y]]
        else:
            rem = ["X"]
        A = [["C", kd] + key(K)]
        B = [["C", kd] + key(second)]
        D = [["C", kd] + key(Y), rem]
        if not exact:
            if rng.chance(1, 2):
                A.append(rng.pick([["H", kd], ["D", kd] + key(K), ["G", kd] + key(K), ["V", kd]]))
            if rng.chance(1, 3):
                B.append(rng.pick([["D", kd] + key(K), ["C", kd] + key(Y), ["H", kd]]))
        roles = [A, B, D]
        perm = [0, 1, 2] if exact else rng.shuffle([0, 1, 2])
        progs = [None, None, None]
        for role, tix in enumerate(perm):
            progs[tix] = roles[role]
        a, b, d = perm
        nrem = self.oplen(rem)
        # D: start, 601, 602 (Y live) | A: start, 601 (miss) | B: start, 601, 602 (insert) | D: remover | A: 602
        sched = [d, d, d, a, a, b, b, b] + [d] * nrem + [a]
        if not exact and rng.chance(1, 3):
            # perturb: swap two neighbours / drop one step / add an out-of-range index
            i = rng.below(len(sched) - 1)
            what = rng.below(3)
            if what == 0:
                sched[i], sched[i + 1] = sched[i + 1], sched[i]
            elif what == 1:
                del sched[i]
            else:
                sched.insert(i, 3)
        return dict(k=k, progs=progs, sched=sched)

    def oplen(self, o):
        n = self.table()["shards"]
        return {"C": 2, "P": 2, "G": 1, "D": 1, "R": n, "X": 3 * n, "V": n, "H": n}[o[0]]

    # ---- text forms
    def op_txt(self, o):
        t = o[0]
        if t in "CGDP":
            return "%s%s%d:%d" % (t, o[1], o[2], o[3])
        if t == "R":
            return "R%s%s" % (o[1], "".join("+%d" % c for c in o[2]))
        if t == "X":
            return "X"
        return "%s%s" % (t, o[1])

    def impl_line(self, c):
        return "%s ; %s" % ("|".join(",".join(self.op_txt(o) for o in p) for p in c["progs"]), " ".join(map(str, c["sched"])))

    def parse_out(self, c, line):
        parts = [x.strip() for x in line.split(";")]
        tr, rs, done, cons, fin, hs, shards = parts
        trace = [[int(a), int(b)] for a, b in (x.split(":") for x in tr.split())]
        res = [[t for t in p.split(",") if t] for p in rs.split("|")]
        cons = [[KINDS.index(a), int(b), int(s)] for a, b, s in (x.split(":") for x in cons.split())]

        def lst(s):
            return [[int(a), int(b)] for a, b in (x.split(":") for x in s.strip().split("+") if x)]
        fin = [lst(x) for x in fin.split("/")]
        hashes = [[None if t == "-" else [int(z) for z in t.split(":")] for t in p.split(",") if t] for p in hs.split("|")]
        return dict(trace=trace, res=res, done=int(done), cons=cons, fin=fin, hashes=hashes, shards=int(shards))

    def coq_key(self, x):
        return "(%s, %s, %s)" % (cq_N(x[0]), cq_N(x[1]), cq_N(x[2]))

    def coq_op(self, o):
        t = o[0]
        if t == "C":
            return "CCreate %s %s" % (KCOQ[o[1]], self.coq_key(o[2:5]))
        if t == "P":
            return "CCreateP %s %s" % (KCOQ[o[1]], self.coq_key(o[2:5]))
        if t == "G":
            return "CGet %s %s" % (KCOQ[o[1]], self.coq_key(o[2:5]))
        if t == "D":
            return "CDelete %s %s" % (KCOQ[o[1]], self.coq_key(o[2:5]))
        if t == "R":
            return "CRetain %s %s" % (KCOQ[o[1]], cq_list([cq_N(c) for c in o[2]]))
        if t == "X":
            return "CClear"
        if t == "V":
            return "CVisit %s" % KCOQ[o[1]]
        return "CHandles %s" % KCOQ[o[1]]

    def coq_case(self, c):
        return "(%s, %s, %s)" % (cq_N(c["k"]), cq_list([cq_list([self.coq_op(o) for o in p]) for p in c["progs"]]),
                                 cq_list([cq_N(t) for t in c["sched"]]))

    def coq_out(self, c, o):
        def pairs(l):
            return cq_list(["(%s, %s)" % (cq_N(a), cq_N(b)) for a, b in l])

        def res(t):
            if t[0] == "S":
                return "CS %s" % cq_N(int(t[1:]))
            if t[0] == "Q" and t[1:].isdigit():
                return "CQ %s" % cq_N(int(t[1:]))
            if t[0] == "O":
                return "CO (Some %s)" % cq_N(int(t[1:]))
            if t == "N":
                return "CO None"
            if t == "T":
                return "CB true"
            if t == "F":
                return "CB false"
            if t == "U":
                return "CU"
            if t[0] == "L":
                return "CL %s" % pairs([[int(a), int(b)] for a, b in (x.split(":") for x in t[1:].split("+") if x)])
            return "CS 4294967295"    # panic / anomaly marker: fails both comparisons
        return "(%s, %s, %s, %s, %s, %s, %s)" % (
            pairs(o["trace"]),
            cq_list([cq_list([res(t) for t in p]) for p in o["res"]]),
            cq_bool(o["done"]),
            cq_list(["(%s, %s, %s)" % (cq_N(a), cq_N(b), cq_N(s)) for a, b, s in o["cons"]]),
            cq_list([pairs(l) for l in o["fin"]]),
            cq_list([cq_list([cq_opt(None if h is None else self.coq_key(h)) for h in p]) for p in o["hashes"]]),
            cq_N(o["shards"]))

    def signature(self, c, o):
        if not o["cons"]:
            return None
        nthreads = len([p for p in c["progs"] if p])
        removal = any(op[0] in "DRX" for p in c["progs"] for op in p)
        creates = [(op[1], op[2]) for p in c["progs"] for op in p if op[0] in "CP"]
        second = len(creates) > len(set(creates))
        if not (removal or second or nthreads >= 2):
            return None
        return [c["progs"], o["trace"]]

    def shrink(self, c):
        out = []
        s = c["sched"]
        for i in range(len(s)):
            out.append(dict(c, sched=s[:i] + s[i + 1:]))
        for t, p in enumerate(c["progs"]):
            for i in range(len(p)):
                q = [list(x) for x in c["progs"]]
                del q[t][i]
                out.append(dict(c, progs=q))
        for t, p in enumerate(c["progs"]):
            for i, op in enumerate(p):
                if op[0] == "R" and op[2]:
                    q = [list(x) for x in c["progs"]]
                    q[t][i] = ["R", op[1], op[2][1:]]
                    out.append(dict(c, progs=q))
        return out

    def extra_checks(self, ctx):
        """free-running stress (no scheduler): real threads race on the shard locks"""
        iters = 30000 if ctx["tier"] == "quick" else 300000
        out = []
        runs = []
        for rep in range(3):
            rc, outs, err = core.run_impl(ctx["binpath"], ["STRESS 8 %d %d" % (iters, ctx["seed"] * 3 + rep)], timeout=600)
            line = outs[0] if outs else ""
            runs.append(line)
            if rc != 0 or not line.startswith("STRESS ok=1 "):
                out.append(("stress", "free-running stress, no scheduler. Phase 1: 8 creator threads over 4 never-deleted classes of ==-equal keys built "
                            "differently (all kinds, with get/visit/handles) + 1 thread creating/deleting/retaining other classes. Phase 2 (checked at "
                            "quiescence after EVERY barrier round, all keys in ONE shard): racing creators of one absent key + a creator of another key + "
                            "deleters of distinct live keys. Violated: handles not Arc::ptr_eq / racing creators got different storages, more than one "
                            "construction for a class created once, a visit showed a class twice, handles listing != visit, delete untruthful or the key "
                            "still present after delete, or constructions != removals + live", dict(observed=line, stderr=err[-500:], cmd="STRESS 8 %d %d" % (iters, ctx["seed"] * 3 + rep))))
                break
        ctx["coverage"]["stress_runs"] = runs
        ctx["coverage"]["stress_dimensions"] = ("STRESS 8 threads x %d iterations x 3 seeds; phase 2: %d barrier rounds per run" % (iters, max(iters // 20, 50)))
        # key-side state racing registry operations (const-constructed, never hashed keys; clones taken during the first use)
        rounds, budget = (20000, 3000) if ctx["tier"] == "quick" else (600000, 60000)
        kruns = []
        for rep in range(2):
            cmd = "KEYRACE %d %d %d" % (rounds, budget, ctx["seed"] * 2 + rep)
            rc, outs, err = core.run_impl(ctx["binpath"], [cmd], timeout=900)
            line = outs[0] if outs else ""
            kruns.append(line)
            if rc != 0 or not line.startswith("KEYRACE ok=1 "):
                out.append(("keyrace", "key-side state racing registry operations: a fresh const-constructed (never hashed) key is used for the first time "
                            "through the registry by one thread while others clone it and resolve the clones (get_or_create / get / delete) and another builds "
                            "an equal key a different way. Part 1: directed schedules with the key's own yield sites 301-306 (every thread order of length 8, "
                            "3 const constructors); part 2: free-running rounds. Violated: a clone reports another get_hash than the key it equals, a clone or "
                            "an equal key reached a different storage (not Arc::ptr_eq), more than one storage was constructed for one key, visit did not list "
                            "the key exactly once, or delete through a clone was untruthful", dict(observed=line, stderr=err[-500:], cmd=cmd)))
                break
        # bulk history over thousands of storage-aliased keys, judged by a reference map keyed by contents
        aruns = []
        for rep in range(2):
            cmd = "ALIAS %d" % (ctx["seed"] * 2 + rep)
            rc, outs, err = core.run_impl(ctx["binpath"], [cmd], timeout=600)
            line = outs[0] if outs else ""
            aruns.append(line)
            if rc != 0 or not line.startswith("ALIAS ok=1 "):
                out.append(("alias", "bulk sequential history over 6000 keys whose names / label keys / label values are slices of one static buffer (3000 prefixes of "
                            "one string, 2000 labels made of prefixes, 1000 overlapping windows; built as borrowed slices, clones, twin-buffer slices, owned and "
                            "Arc copies), judged by a reference single map keyed by contents: a get_or_create / get / delete / visit / handles result was not "
                            "the one of the key's own class (another key's storage was returned or shared, a listing lost or duplicated a class, delete untruthful)",
                            dict(observed=line, stderr=err[-500:], cmd=cmd)))
                break
        # panicking caller-supplied closures / poisoned shard locks, judged by a reference map
        pr = 300 if ctx["tier"] == "quick" else 3000
        pruns = []
        for rep_ in range(2):
            cmd = "PANICS %d %d" % (pr, ctx["seed"] * 2 + rep_)
            rc, outs, err = core.run_impl(ctx["binpath"], [cmd], timeout=600)
            line = outs[0] if outs else ""
            pruns.append(line)
            if rc != 0 or not line.startswith("PANICS ok=1 "):
                out.append(("panics", "sequential rounds with panicking caller-supplied closures (get_or_create on the create path -> the entry is inserted and the "
                            "shard lock poisoned; on the hit path; a retain predicate / visit callback panicking at its n-th call), each followed by ordinary "
                            "operations on every shard, judged by a reference map: a get / delete / visit was not truthful, a retain did not offer every live "
                            "entry exactly once to its predicate, or clear left entries behind", dict(observed=line, stderr=err[-500:], cmd=cmd)))
                break
        # other key types (the registry is generic in K: Hashable), judged by a reference map
        gk, go = (4000, 30000) if ctx["tier"] == "quick" else (12000, 200000)
        gruns = []
        for rep_ in range(2):
            cmd = "GENKEYS %d %d %d" % (gk, go, ctx["seed"] * 2 + rep_)
            rc, outs, err = core.run_impl(ctx["binpath"], [cmd], timeout=900)
            line = outs[0] if outs else ""
            gruns.append(line)
            if rc != 0 or not line.startswith("GENKEYS ok=1 "):
                out.append(("genkeys", "bulk histories (get_or_create / get / delete / retain / clear / visit / handles, every shard's table resizing several times) on "
                            "registries keyed by DefaultHashable<String>, DefaultHashable<u64>, DefaultHashable<(u64, String)> and a hand-written Hashable key type with "
                            "a weak hash, judged by a reference map keyed by contents: equal keys did not have equal hashable(), or a get_or_create / get / delete / "
                            "retain / visit / handles result was not the single map's (a second storage for one key, a key listed twice, delete untruthful)",
                            dict(observed=line, stderr=err[-500:], cmd=cmd)))
                break
        ctx["coverage"]["genkeys_runs"] = gruns
        ctx["coverage"]["panics_runs"] = pruns
        ctx["coverage"]["panicking_closures_in_replayed_cases"] = self._panic_stats
        ctx["coverage"]["alias_bulk_runs"] = aruns
        ctx["coverage"]["alias_replayed_cases"] = self._alias_stats
        ctx["coverage"]["keyrace_runs"] = kruns
        ctx["coverage"]["keyrace_dimensions"] = ("per run: 768 directed schedules (2 threads, sites 301-306, 3 const constructors x 256 thread orders, 2 clones each) + up to "
                                                 "%d free-running rounds within %d ms (4 workers: first user, 2 cloners x 24 clones, 1 equal key from owned parts; all kinds)" % (rounds, budget))
        return out


PROP = C06()
