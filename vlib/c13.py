"""C13 — layers: trees of Prefix / Filter / Router / Fanout / Stack over logging leaf recorders."""
import hashlib
import json

from .core import Prop, cq_N, cq_list, cq_opt, cq_bool, cq_bytes, MachineryBroken

KIND = {"c": "Counter", "g": "Gauge", "h": "Histogram"}
MASK = {1: "MCounter", 2: "MGauge", 4: "MHistogram", 7: "MAll"}
CODES = {"i": 0, "a": 1, "I": 2, "D": 3, "S": 4, "r": 5}
CODE_CH = {v: k for k, v in CODES.items()}
KCODES = {"c": ["i", "a"], "g": ["I", "D", "S"], "h": ["r"]}
ATOMS = ["a", "b", "a", "b", "A", "B", ".", "é", "É", "k", "K"]
TWO53 = 1 << 53


def hx(s):
    return "x" + s.encode("utf-8").hex()


def unhx(t):
    assert t[0] == "x", t
    return bytes.fromhex(t[1:]).decode("utf-8")


class C13(Prop):
    pid = "C13"
    pkg = "hcore"
    binname = "c13"
    quick_cases = 4000
    thorough_cases = 60000
    shard = 250
    rule = ("random recorder trees (<=14 nodes, depth <=4) of PrefixLayer / FilterLayer (0..3 patterns, case-insensitive on/off, DFA on/off) / "
            "RouterBuilder (0..4 routes, masks COUNTER/GAUGE/HISTOGRAM/ALL, duplicated, nested, empty and overlapping patterns) / FanoutBuilder (width 0..4) / "
            "Stack (0..4 pushed layers) over <=4 shared logging leaf recorders, x 1..8 describe/register operations with 0..3 updates through the returned "
            "handle (incl. record_many); names, prefixes, patterns and routes are words of 0..4 atoms over {a,b,A,B,.,e-acute,E-acute,k,K} or are derived from "
            "each other (equal, extended, truncated, case-flipped); a case is non-trivial if the tree is not a bare leaf and at least one leaf call or one "
            "dropped operation is observed; distinct = distinct (tree, operations, observed logs)")
    design_ref = "DESIGN.md 4 C13"
    technique = ("Coq proof: denotational model of the layers (deliveries + handle reach) proved equivalent to a declarative reference semantics, clause theorems "
                 "for all trees/names/tables; differential correspondence against the real layers over logging leaf doubles")
    level_text = ("Theorems (Coq, all recorder trees, names incl. empty/non-ASCII bytes, label sets, kinds, pattern sets, route tables, fanout widths, layer orders): "
                  "the model of Prefix/Filter/Router/Fanout/Stack computes exactly the deliveries and handle reach determined by the declarative specification Den "
                  "(C13_model_meets_spec, C13_spec_determines_model); per-layer clauses prefix_exact, filter_exact, router_exactly_one_longest_prefix, fanout_all_once, "
                  "handle_reaches_each_created_handle_once, stack_is_composition; string lemmas. The model is tied to /repo by running the real layers and the model "
                  "on the same generated configurations each run.")
    level_note = ("Trusted: Coq kernel; hand-written model (tied by differential runs, not by translation). aho-corasick and radix_trie are NOT modelled internally: "
                  "the model contains substring test / remember-longest-stored-prefix walk as stand-ins and the correspondence runs are the only evidence that the "
                  "libraries behave like them. Case-insensitive means ASCII-only folding (what ascii_case_insensitive provides; Unicode case pairs such as "
                  "e-acute/E-acute do not match, and the specification says so). Masks other than COUNTER/GAUGE/HISTOGRAM/ALL make add_route panic by design and "
                  "are not representable in the model. Concurrency of recorders is out of scope (layers hold no mutable state).")
    assumptions = ["gauge/histogram values are integer-valued f64 <= 2^53 (exact); layers pass them through without arithmetic",
                   "strings are valid UTF-8 (Rust str), modelled as byte lists",
                   "every update is made through the handle right after its registration (layers are stateless, so later use is the same call path)"]
    trusted_extra = ["aho-corasick 1.1.3 (AhoCorasick::is_match, NFA and DFA kinds, ascii_case_insensitive): exercised, compared with the substring stand-in",
                     "radix_trie 0.2.1 (Trie::insert / get_ancestor on String keys): exercised, compared with the longest-stored-prefix stand-in",
                     "leaf recorder doubles and the global event log in harness/hcore/src/bin/c13.rs"]

    # ------------------------------------------------------------------ generator
    def word(self, rng, pool, maxlen=4):
        r = rng.below(10)
        if pool and r < 4:
            w = rng.pick(pool)
            m = rng.below(8)
            if m == 0 and w:
                w = w[:rng.below(len(w))]                     # proper prefix
            elif m == 1 and w:
                i = rng.below(len(w))
                w = w[i:i + 1 + rng.below(len(w) - i)]        # substring
            elif m == 2 or m == 5:
                w = w + "".join(rng.pick(ATOMS) for _ in range(rng.range(1, 2)))   # extension
            elif m == 3:
                w = w.swapcase() if rng.chance(1, 2) else "".join(ch.swapcase() if rng.chance(1, 2) else ch for ch in w)
            elif m == 4 and w:
                w = w[1:]
            return w
        n = rng.weighted([(1, 0), (3, 1), (4, 2), (3, 3), (1, maxlen)])
        return "".join(rng.pick(ATOMS) for _ in range(n))

    def gen_layer(self, rng, pool):
        if rng.chance(1, 2):
            w = self.word(rng, pool)
            pool.append(w)
            return ["P", w]
        pats = [self.word(rng, pool) for _ in range(rng.weighted([(1, 0), (4, 1), (3, 2), (1, 3)]))]
        pool.extend(pats)
        return ["F", pats, rng.chance(1, 2), rng.chance(1, 2)]

    def gen_tree(self, rng, depth, budget, pool, ctx=""):
        """budget: [remaining nodes]"""
        budget[0] -= 1
        if depth == 0 or budget[0] <= 0 or rng.chance(1, 6):
            return ["L", rng.below(4)]
        t = rng.weighted([(3, "P"), (4, "F"), (5, "R"), (4, "N"), (3, "S")])
        if t == "P":
            w = self.word(rng, pool)
            pool.append(w)
            return ["P", w, self.gen_tree(rng, depth - 1, budget, pool, w + "." + ctx)]
        if t == "F":
            l = self.gen_layer(rng, pool)
            while l[0] != "F":
                l = self.gen_layer(rng, pool)
            return ["F", l[1], l[2], l[3], self.gen_tree(rng, depth - 1, budget, pool, ctx)]
        if t == "R":
            d = self.gen_tree(rng, depth - 1, budget, pool, ctx)
            routes = []
            for _ in range(rng.weighted([(1, 0), (3, 1), (4, 2), (3, 3), (2, 4)])):
                m = rng.weighted([(3, 7), (2, 1), (2, 2), (2, 4)])
                if routes and rng.chance(1, 4):
                    p = rng.pick(routes)[1]                    # duplicate pattern (overwrite)
                    if rng.chance(1, 2):
                        p = p + rng.pick(ATOMS)                # nested route
                elif ctx and rng.chance(1, 3):
                    # the names arriving here carry the enclosing prefixes: routes that can match them
                    p = ctx + self.word(rng, pool, 2) if rng.chance(2, 3) else ctx[:rng.below(len(ctx) + 1)]
                else:
                    p = self.word(rng, pool, 3)
                pool.append(p)
                routes.append([m, p, self.gen_tree(rng, depth - 1, budget, pool, ctx)])
            return ["R", d, routes]
        if t == "N":
            n = rng.weighted([(1, 0), (2, 1), (4, 2), (2, 3), (1, 4)])
            return ["N", [self.gen_tree(rng, depth - 1, budget, pool, ctx) for _ in range(n)]]
        n = rng.weighted([(1, 0), (3, 1), (4, 2), (2, 3), (1, 4)])
        layers = [self.gen_layer(rng, pool) for _ in range(n)]
        for l in reversed(layers):                       # the operation meets the last pushed layer first
            if l[0] == "P":
                ctx = l[1] + "." + ctx
        base = self.gen_tree(rng, depth - 1, budget, pool, ctx)
        return ["S", base, layers]

    def gen_op(self, rng, pool):
        k = rng.pick("cgh")
        name = self.word(rng, pool)
        if rng.chance(2, 5):
            unit = None if rng.chance(1, 3) else rng.below(17)
            return ["D", k, name, unit, rng.pick(["", "d", "desc é", "a.b"])]
        labels = [[rng.pick(["k", "a", "", "k"]), rng.pick(["v", "", "a", "é"])] for _ in range(rng.weighted([(3, 0), (2, 1), (2, 2), (1, 3)]))]
        md = [rng.pick(["t", "", "a::b"]), rng.below(5), rng.pick([None, "", "m::p"])]
        ups = []
        for _ in range(rng.weighted([(2, 0), (3, 1), (3, 2), (2, 3)])):
            if k == "h" and rng.chance(1, 3):
                ups.append(["m", rng.below(5), rng.weighted([(1, 0), (2, 1), (2, 2), (1, 3)])])
            else:
                hi = (1 << 64) - 1 if k == "c" else TWO53
                ups.append([rng.pick(KCODES[k]), rng.weighted([(6, rng.below(10)), (1, 0), (1, hi), (1, rng.below(hi))])])
        return ["G", k, name, labels, md, ups]

    def gen(self, rng, n):
        cases = []
        for _ in range(n):
            pool = []
            # operation names first (so that patterns/routes can be derived from them), then the tree
            pre = [self.word(rng, pool) for _ in range(3)]
            pool.extend(pre)
            depth = rng.weighted([(2, 1), (3, 2), (3, 3), (2, 4)])
            tree = self.gen_tree(rng, depth, [14], pool)
            if tree[0] == "L" and not rng.chance(1, 20):
                tree = self.gen_tree(rng, max(depth, 2), [14], pool)
            ops = [self.gen_op(rng, pool) for _ in range(rng.range(1, 8))]
            cases.append(dict(tree=tree, ops=ops))
        return cases

    # ------------------------------------------------------------------ implementation side
    def layer_toks(self, l):
        if l[0] == "P":
            return ["P:" + hx(l[1])]
        return ["F:%d:%d:%d" % (l[2], l[3], len(l[1]))] + [hx(p) for p in l[1]]

    def tree_toks(self, t):
        k = t[0]
        if k == "L":
            return ["L%d" % t[1]]
        if k == "P":
            return ["P:" + hx(t[1])] + self.tree_toks(t[2])
        if k == "F":
            return self.layer_toks(["F", t[1], t[2], t[3]]) + self.tree_toks(t[4])
        if k == "R":
            out = ["R:%d" % len(t[2])] + self.tree_toks(t[1])
            for m, p, sub in t[2]:
                out += ["%d:%s" % (m, hx(p))] + self.tree_toks(sub)
            return out
        if k == "N":
            out = ["N:%d" % len(t[1])]
            for sub in t[1]:
                out += self.tree_toks(sub)
            return out
        out = ["S:%d" % len(t[2])] + self.tree_toks(t[1])
        for l in t[2]:
            out += self.layer_toks(l)
        return out

    def op_tok(self, o):
        if o[0] == "D":
            return "D%s:%s:%s:%s" % (o[1], hx(o[2]), "-" if o[3] is None else o[3], hx(o[4]))
        labels = ",".join("%s=%s" % (hx(a), hx(b)) for a, b in o[3]) or "-"
        md = o[4]
        ups = ",".join(("m%d*%d" % (u[1], u[2])) if u[0] == "m" else "%s%d" % (u[0], u[1]) for u in o[5]) or "-"
        return "G%s:%s:%s:%s:%d:%s:%s" % (o[1], hx(o[2]), labels, hx(md[0]), md[1], "-" if md[2] is None else hx(md[2]), ups)

    def impl_line(self, c):
        return " ".join(self.tree_toks(c["tree"])) + " | " + " ".join(self.op_tok(o) for o in c["ops"])

    def parse_out(self, c, line):
        if line.startswith("PANIC"):
            return {"panic": line[6:]}
        per_op = line.split("|")
        if len(per_op) != len(c["ops"]):
            raise MachineryBroken("c13 driver: %d op groups for %d ops: %r" % (len(per_op), len(c["ops"]), line[:300]))
        out = []
        for grp in per_op:
            evs = []
            nreg = 0
            for e in [x for x in grp.split(";") if x]:
                f = e.split(":")
                leaf = int(f[0])
                t = f[1][0]
                if t == "D":
                    evs.append(["D", leaf, f[1][1], unhx(f[2]), None if f[3] == "-" else int(f[3]), unhx(f[4])])
                elif t == "G":
                    labels = [] if f[3] == "-" else [[unhx(a), unhx(b)] for a, b in (kv.split("=") for kv in f[3].split(","))]
                    if int(f[7]) != nreg:
                        raise MachineryBroken("c13 driver: handle ids not consecutive: %r" % grp)
                    nreg += 1
                    evs.append(["G", leaf, f[1][1], unhx(f[2]), labels, [unhx(f[4]), int(f[5]), None if f[6] == "-" else unhx(f[6])]])
                else:
                    evs.append(["U", leaf, int(f[1][1:]), f[2][0], int(f[2][1:])])
            out.append(evs)
        return {"ops": out}

    # ------------------------------------------------------------------ Coq side
    def cq_layer(self, l):
        if l[0] == "P":
            return "LPrefix %s" % cq_bytes(l[1])
        return "LFilter %s %s %s" % (cq_list([cq_bytes(p) for p in l[1]]), cq_bool(l[2]), cq_bool(l[3]))

    def cq_tree(self, t):
        k = t[0]
        if k == "L":
            return "(Leaf %s)" % cq_N(t[1])
        if k == "P":
            return "(Prefix %s %s)" % (cq_bytes(t[1]), self.cq_tree(t[2]))
        if k == "F":
            return "(Filter %s %s %s %s)" % (cq_list([cq_bytes(p) for p in t[1]]), cq_bool(t[2]), cq_bool(t[3]), self.cq_tree(t[4]))
        if k == "R":
            return "(Router %s %s %s)" % (self.cq_tree(t[1]), cq_list(["(%s, %s)" % (MASK[m], cq_bytes(p)) for m, p, _ in t[2]]),
                                          cq_list([self.cq_tree(s) for _, _, s in t[2]]))
        if k == "N":
            return "(Fanout %s)" % cq_list([self.cq_tree(s) for s in t[1]])
        return "(stack %s %s)" % (self.cq_tree(t[1]), cq_list([self.cq_layer(l) for l in t[2]]))

    def cq_op(self, k, name, body):
        return "{| okind := %s; oname := %s; obody := %s |}" % (KIND[k], cq_bytes(name), body)

    def cq_desc_body(self, unit, desc):
        return "BDesc %s %s" % (cq_opt(None if unit is None else cq_N(unit)), cq_bytes(desc))

    def cq_reg_body(self, labels, md):
        return "BReg %s {| m_target := %s; m_level := %s; m_module := %s |}" % (
            cq_list(["(%s, %s)" % (cq_bytes(a), cq_bytes(b)) for a, b in labels]), cq_bytes(md[0]), cq_N(md[1]),
            cq_opt(None if md[2] is None else cq_bytes(md[2])))

    def coq_case(self, c):
        ops = []
        for o in c["ops"]:
            if o[0] == "D":
                ops.append("(%s, [])" % self.cq_op(o[1], o[2], self.cq_desc_body(o[3], o[4])))
            else:
                us = [("UMany %s %s" % (cq_N(u[1]), cq_N(u[2]))) if u[0] == "m" else "U %s %s" % (cq_N(CODES[u[0]]), cq_N(u[1])) for u in o[5]]
                ops.append("(%s, %s)" % (self.cq_op(o[1], o[2], self.cq_reg_body(o[3], o[4])), cq_list(us)))
        return "(%s, %s)" % (self.cq_tree(c["tree"]), cq_list(ops))

    def coq_out(self, c, out):
        if "panic" in out:
            return "(@None (list (list event)))"
        groups = []
        for evs in out["ops"]:
            xs = []
            for e in evs:
                if e[0] == "D":
                    xs.append("EOp %s %s" % (cq_N(e[1]), self.cq_op(e[2], e[3], self.cq_desc_body(e[4], e[5]))))
                elif e[0] == "G":
                    xs.append("EOp %s %s" % (cq_N(e[1]), self.cq_op(e[2], e[3], self.cq_reg_body(e[4], e[5]))))
                else:
                    xs.append("EUpd %s %s %s %s" % (cq_N(e[1]), cq_N(e[2]), cq_N(CODES[e[3]]), cq_N(e[4])))
            groups.append(cq_list(xs))
        return "(Some %s)" % cq_list(groups)

    def signature(self, c, out):
        if c["tree"][0] == "L":
            return None
        return hashlib.sha1(json.dumps([c, out], sort_keys=True).encode()).hexdigest()

    # ------------------------------------------------------------------ shrinking
    def shorter(self, s):
        return [s[:i] + s[i + 1:] for i in range(len(s))]

    def shrink_layer(self, l):
        out = []
        if l[0] == "P":
            out += [["P", s] for s in self.shorter(l[1])]
        else:
            for i in range(len(l[1])):
                out.append(["F", l[1][:i] + l[1][i + 1:], l[2], l[3]])
                out += [["F", l[1][:i] + [s] + l[1][i + 1:], l[2], l[3]] for s in self.shorter(l[1][i])]
            if l[2]:
                out.append(["F", l[1], False, l[3]])
            if l[3]:
                out.append(["F", l[1], l[2], False])
        return out

    def shrink_tree(self, t):
        k = t[0]
        out = []
        if k == "L":
            return [["L", 0]] if t[1] != 0 else []
        if k == "P":
            out.append(t[2])
            out += [["P", s, t[2]] for s in self.shorter(t[1])]
            out += [["P", t[1], s] for s in self.shrink_tree(t[2])]
        elif k == "F":
            out.append(t[4])
            out += [l + [t[4]] for l in self.shrink_layer(["F", t[1], t[2], t[3]])]
            out += [["F", t[1], t[2], t[3], s] for s in self.shrink_tree(t[4])]
        elif k == "R":
            out.append(t[1])
            out += [r[2] for r in t[2]]
            for i, (m, p, s) in enumerate(t[2]):
                rest = t[2][:i], t[2][i + 1:]
                out.append(["R", t[1], rest[0] + rest[1]])
                out += [["R", t[1], rest[0] + [[m, q, s]] + rest[1]] for q in self.shorter(p)]
                out += [["R", t[1], rest[0] + [[m, p, s2]] + rest[1]] for s2 in self.shrink_tree(s)]
                if m != 7:
                    out.append(["R", t[1], rest[0] + [[7, p, s]] + rest[1]])
            out += [["R", s, t[2]] for s in self.shrink_tree(t[1])]
        elif k == "N":
            out += list(t[1])
            for i, s in enumerate(t[1]):
                out.append(["N", t[1][:i] + t[1][i + 1:]])
                out += [["N", t[1][:i] + [s2] + t[1][i + 1:]] for s2 in self.shrink_tree(s)]
        else:
            out.append(t[1])
            for i, l in enumerate(t[2]):
                out.append(["S", t[1], t[2][:i] + t[2][i + 1:]])
                out += [["S", t[1], t[2][:i] + [l2] + t[2][i + 1:]] for l2 in self.shrink_layer(l)]
            out += [["S", s, t[2]] for s in self.shrink_tree(t[1])]
        return out

    def shrink(self, c):
        ops = c["ops"]
        cands = []
        for i in range(len(ops)):
            cands.append(dict(c, ops=ops[:i] + ops[i + 1:]))
        if len(ops) > 1:
            cands = [dict(c, ops=[o]) for o in ops] + cands
        for t in self.shrink_tree(c["tree"]):
            cands.append(dict(c, tree=t))
        for i, o in enumerate(ops):
            def put(o2):
                cands.append(dict(c, ops=ops[:i] + [o2] + ops[i + 1:]))
            for s in self.shorter(o[2]):
                put(o[:2] + [s] + o[3:])
            if o[0] == "G":
                for j in range(len(o[5])):
                    put(o[:5] + [o[5][:j] + o[5][j + 1:]])
                if o[3]:
                    put(o[:3] + [[]] + o[4:])
                if o[4] != ["t", 2, None]:
                    put(o[:4] + [["t", 2, None]] + o[5:])
            elif o[3] is not None or o[4]:
                put(o[:3] + [None, ""])
        return [x for x in cands if x["ops"]]


PROP = C13()
