"""C03 — Key ==, cmp, Hash feed and get_hash() agree and ignore the construction path.
Cases are small groups (usually three) of related keys; every ordered pair and triple is compared."""
from .core import Prop, cq_N, cq_list, cq_bool, cq_bytes

STATIC_CTORS = "SLT"
NEED_EMPTY_FIRST = "NGT"
NAMES = ["", "a", "b", "ab", "aé", "é", "ÿ", "a\x00", "k"]
LNAMES = ["", "a", "b", "c", "aa", "é"]
LVALS = ["", "0", "1", "a", "é", "00"]
WIDE = ["n%d" % i for i in range(10)] + ["", "N", "n", "n00", "é", "ÿ", "\U0001f600", "z"]
COUNTS = [(3, 0), (3, 1), (8, 2), (6, 3), (3, 4), (2, 5), (2, 6), (5, 7), (6, 8), (4, 9), (1, 10), (1, 11), (3, 12)]


def hx(s):
    return s.encode("utf-8").hex()


def unhx(h):
    return bytes.fromhex(h)


class C03(Prop):
    pid = "C03"
    pkg = "hcore"
    binname = "c03"
    quick_cases = 6000
    thorough_cases = 60000
    shard = 250
    rule = ("groups of 2-4 (mostly 3) keys derived from one another (identical, label permutation/rotation/swap, one value or "
            "name changed, label dropped/added/duplicated, name changed or extended) over small alphabets (empty strings, "
            "non-ASCII, NUL), 0..12 labels with the lengths 0,1,2,3,7,8,9,12 favoured (1 in 40 groups: 21..40 labels over three names, all values different), both with pairwise distinct label names and "
            "with repeated names/labels; each key built through a random constructor (from_name, From<name>, from_parts with "
            "Vec / slice::Iter / &[(String,String)], From<(name,labels)>, from_static_name/parts/labels), random string flavours "
            "(static, owned, owned with spare capacity, Arc, case-wide shared Arc; in half of the groups also sub-slices of ONE static buffer of the group, preferring equal start "
            "addresses with different lengths and repeating texts at two addresses, and constructor label lists taken as sub-slices of ONE static "
            "label slice; plus a directed family of 82 such groups), random split into with_extra_labels calls (incl. empty), random clone/get_hash calls; a case is "
            "non-trivial if two different keys of it share the name and have >= 1 label; distinct = distinct (case, output)")
    design_ref = "DESIGN.md 4 C03"
    technique = ("Coq proof over all keys (any name, any label list) about a hand-written arm-by-arm model of PartialEq/Ord/Hash for Key; "
                 "differential correspondence of ==, cmp, the recorded Hasher call sequence and get_hash() against the model on generated key groups")
    level_text = ("Theorems (Coq, all names and all label lists of any length, no bounds) about an arm-by-arm model of PartialEq, Ord::cmp (with the "
                  "two-label arm added by fix commit e2046fb) and Hash for Key: == is an equivalence; cmp is a total order (reflexive, antisymmetric, "
                  "transitive, compatible with its own Equal); a == b iff cmp = Equal; a == b implies the identical sequence of Hasher calls, hence the "
                  "same result for every hasher and the same get_hash(); conversely identical feeds imply ==; == implies same name and labels equal up to "
                  "order; with pairwise distinct label names any permutation of the labels gives ==, cmp Equal and the same feed; every construction "
                  "path (constructor kind, with_extra_labels splits, clone/get_hash calls) yields the key (name, labels in supplied order) and get_hash "
                  "always returns H(feed) for an arbitrary H, sequentially. Under races (C03_get_hash_stable_under_races): for any number of threads, any lists of "
                  "get_hash / clone-then-get_hash calls on one shared lazily hashed key and every sequentially consistent schedule of the six atomic steps "
                  "(yield sites 301-306), every call returns the key's true hash. The model's sort is proved to be the unique stable sort by label name. "
                  "==, cmp and the feed of built keys are those of the content whatever the memo state and construction of either operand "
                  "(C03_observations_ignore_memo_and_construction, C03_twins_compare_alike). "
                  "The code as found is refuted (C03_eq_iff_cmp_Eq_refuted_before_fix). Each run compares == and cmp (observed as built before any hash is "
                  "forced, on differently built twins, with get_hash() forced on one operand and on both), the recorded Hasher call "
                  "sequence, the `hashed` flag and get_hash() consistency/equality classes of the real Key against the model on generated key groups, and replays "
                  "generated schedules of 2-3 racing threads on the real get_hash/Clone through the yield points against the interleaving model.")
    level_note = ("The race theorem is about sequentially consistent interleavings at the granularity of the two loads/two stores of get_hash and the two "
                  "loads of Clone; reorderings allowed by Release/Acquire on weak-memory hardware are outside the model, and the schedule replay samples "
                  "schedules (400 quick / 6000 thorough), it does not enumerate them. AHash is an uninterpreted function of the write sequence. String flavours (static/owned/Arc) "
                  "are not distinguished in the model (Cow delegates ==, cmp, hash to the str); that they make no difference is established by the "
                  "correspondence runs, not by a theorem. slice::sort_by_key is trusted to be a stable sort (the model's sort is proved to be the unique "
                  "stable sorted permutation, so any stable algorithm computes it). Observation, not a violation of the stated property: with three or more "
                  "labels, labels that share a name keep their supplied order in the canonical form, so the same multiset of labels in a different "
                  "order is a different key (C03_label_order_matters_with_repeated_names), whereas with exactly two labels it is the same key.")
    assumptions = [
        "case strings are valid UTF-8 (Key only holds str); bytes are compared as N in the model",
        "AHash with its fixed default keys does not collide on the (at most four) different hash feeds of one case; a collision would surface as a disagreement, never hide one",
        "64-bit little-endian target (usize written as 8 LE bytes through KeyHasher)",
    ]
    trusted_extra = [
        "std Hasher default methods, str/usize Hash impls, slice::sort_by_key (exercised; the sort is modelled by a stable insertion sort proved to be the unique stable sorted permutation)",
        "AHash (uninterpreted function H of the write sequence); Debug form of Key used to read the private `hashed` flag",
    ]

    # ------------------------------------------------------------------ generation
    def _labels(self, rng, n, distinct):
        if distinct:
            names = rng.shuffle(WIDE)[:n]
            return [[nm, rng.pick(LVALS)] for nm in names]
        if rng.chance(1, 4):
            nm = rng.pick(LNAMES)       # all labels share one name
            return [[nm, rng.pick(LVALS)] for _ in range(n)]
        return [[rng.pick(LNAMES if rng.chance(3, 4) else WIDE), rng.pick(LVALS)] for _ in range(n)]

    def _mutate(self, rng, key):
        name, ls = key[0], [list(l) for l in key[1]]
        n = len(ls)
        r = rng.below(16)
        if r == 0 or (n == 0 and r <= 12):
            if n == 0 and rng.chance(1, 2):
                ls = self._labels(rng, rng.range(1, 3), rng.chance(1, 2))
            elif rng.chance(1, 3):
                name = rng.pick(NAMES + [name + "a", name[:-1]])
        elif r <= 2:
            ls = rng.shuffle(ls)
        elif r == 3:
            ls = ls[1:] + ls[:1]
        elif r == 4:
            i = rng.below(n - 1) if n > 1 else 0
            if n > 1:
                ls[i], ls[i + 1] = ls[i + 1], ls[i]
        elif r == 5:
            ls = ls[::-1]
        elif r == 6:
            ls[rng.below(n)][1] = rng.pick(LVALS)
        elif r == 7:
            ls[rng.below(n)][0] = rng.pick(LNAMES + [l[0] for l in ls])
        elif r == 8:
            del ls[rng.below(n)]
        elif r == 9:
            ls.insert(rng.below(n + 1), [rng.pick(LNAMES + [l[0] for l in ls]), rng.pick(LVALS)])
        elif r == 10:
            ls.insert(rng.below(n + 1), list(rng.pick(ls)))
        elif r == 11:
            i, j = rng.below(n), rng.below(n)        # swap the values of two labels
            ls[i][1], ls[j][1] = ls[j][1], ls[i][1]
        elif r == 12:
            i = rng.below(n)                          # make two labels share a name
            ls[i][0] = ls[rng.below(n)][0]
            ls = rng.shuffle(ls) if rng.chance(1, 2) else ls
        elif r == 13:
            name = rng.pick(NAMES + [name + "a", name[:-1], name + "\x00"])
        elif r == 14:
            ls = sorted(ls)
        # r == 15: identical
        return [name, ls[:40]]

    def _dress(self, rng, key, pooled=False):
        name, ls = key
        # "P" = placeholder for a sub-slice of the case's static buffer (resolved by _place); "A" = case-wide shared Arc
        kinds = "PPPPPsoOaA" if pooled else "sssooOaaA"
        fl = lambda: rng.pick(kinds)
        uniform = rng.pick(kinds) if rng.chance(1, 3) else None
        labs = [[hx(k), uniform or fl(), hx(v), uniform or fl()] for k, v in ls]
        # split into constructor labels + with_extra_labels chunks
        chunks = [labs]
        if rng.chance(2, 5):
            cuts = sorted(rng.below(len(labs) + 1) for _ in range(rng.range(1, 2)))
            chunks, prev = [], 0
            for c in cuts:
                chunks.append(labs[prev:c])
                prev = c
            chunks.append(labs[prev:])
        pool = "PPPFIRSSLL" + ("NGTT" if not chunks[0] else "")
        ctor = rng.pick(pool)
        ops = "".join(rng.pick("ch") for _ in range(rng.weighted([(5, 0), (3, 1), (2, 2), (1, 3)])))
        return dict(ctor=ctor, name=hx(name), nf=uniform or fl(), chunks=chunks, ops=ops)

    # ---- shared storage: one static text buffer and one static label slice per case
    @staticmethod
    def _strings(case):
        """every [container, index-of-content, index-of-flavour] of the case (names, labels, pool labels)"""
        out = []
        for k in case["keys"]:
            out.append((k, "name", "nf"))
            for ch in k["chunks"]:
                for l in ch:
                    out += [(l, 0, 1), (l, 2, 3)]
        for l in case.get("lpool") or []:
            out += [(l, 0, 1), (l, 2, 3)]
        return out

    def _place(self, rng, case):
        """resolve "P" flavours to slices p<off>/q<off> of ONE buffer, preferring a start address already used by a
        string of another length (equal start / different length), and keeping repeats of the same text at different
        addresses; build the case's static label slice and point constructor label lists into it"""
        keys = case["keys"]
        if rng.chance(1, 2):
            pool, order = [], sorted(range(len(keys)), key=lambda i: -len(keys[i]["chunks"][0]))
            for i in order:
                k = keys[i]
                c0 = [(l[0], l[2]) for l in k["chunks"][0]]
                if not c0:
                    if pool and rng.chance(1, 4):
                        a = rng.below(len(pool) + 1)
                        k["lp"] = [a, a]
                    continue
                if not rng.chance(3, 4):
                    continue
                pc = [(l[0], l[2]) for l in pool]
                at = next((a for a in range(len(pc) - len(c0) + 1) if pc[a:a + len(c0)] == c0), None)
                if at is None:
                    at = len(pool)
                    pool += [list(l) for l in k["chunks"][0]]
                k["lp"] = [at, at + len(c0)]
            if pool:
                case["lpool"] = pool
        slots = [x for x in self._strings(case) if x[0][x[2]] == "P"]
        texts = [unhx(x[0][x[1]]) for x in slots]
        distinct = rng.shuffle(sorted({t for t in texts if t}))
        parts = list(distinct)
        for t in distinct:
            if rng.chance(1, 3):
                parts.insert(rng.below(len(parts) + 1), t)      # the same text at a second address
        if rng.chance(1, 3):
            parts.insert(0, b"k")
        buf = b"".join(parts)
        bounds = [i for i in range(len(buf) + 1) if i == len(buf) or (buf[i] & 0xC0) != 0x80]
        used = {}
        for x, t in sorted(zip(slots, texts), key=lambda p: -len(p[1])):
            if t:
                cands, i = [], buf.find(t)
                while i >= 0:
                    cands.append(i)
                    i = buf.find(t, i + 1)
            else:
                cands = bounds
            pref = [o for o in cands if any(n != len(t) for n in used.get(o, ()))]
            off = rng.pick(pref) if pref and rng.chance(2, 3) else rng.pick(cands)
            used.setdefault(off, set()).add(len(t))
            x[0][x[2]] = "%s%d" % (rng.pick("pq"), off)
        case["buf"] = buf.hex()
        return case

    @staticmethod
    def _normalise(case):
        """after shrinking: a pooled flavour whose slice no longer holds the text becomes owned, a label-slice
        reference whose contents no longer match is dropped"""
        import copy
        case = copy.deepcopy(case)
        buf = unhx(case.get("buf") or "")
        for box, ci, fi in C03._strings(case):
            f = box[fi]
            if f[0] in "pqP":
                t = unhx(box[ci])
                off = int(f[1:]) if f[1:] else -1
                if off < 0 or buf[off:off + len(t)] != t or off + len(t) > len(buf):
                    box[fi] = "o"
        pool = [(l[0], l[2]) for l in case.get("lpool") or []]
        for k in case["keys"]:
            if k.get("lp"):
                a, b = k["lp"]
                if pool[a:b] != [(l[0], l[2]) for l in k["chunks"][0]] or b > len(pool):
                    k.pop("lp")
        return case

    def _directed(self):
        """storage-independence family: two keys that differ in exactly one string (name, a label name or a label
        value), the two variants being slices with the SAME start address and different lengths of one static buffer
        (incl. the empty prefix), or the same text at two addresses; plus an owned copy of the first key; and keys
        whose constructor labels are sub-slices &Q[0..i], &Q[0..j], &Q[1..j] of one static label slice"""
        out = []
        base = [("region", "eu"), ("az", "1"), ("host", "h7"), ("svc", "api"), ("v", "2"), ("x", ""), ("y", "0"), ("z", "9")]
        def lab(k, v, kf="s", vf="o"):
            return [hx(k), kf, hx(v), vf]
        for nl in (0, 1, 2, 3, 8):
            for short, long_ in (("req", "req_total"), ("", "r"), ("é", "éé"), ("req", "req")):
                for pos in ["name"] + [(i, j) for i in sorted({0, nl - 1}) if 0 <= i < nl for j in (0, 2)]:
                    buf = (long_ + "|" + long_).encode()
                    second = len(long_.encode()) + 1
                    def key(text, off, ctor, owned=False):
                        f = "o" if owned else "%s%d" % ("p" if ctor == "S" else "q", off)
                        ls = [lab(k, v) for k, v in base[:nl]]
                        k = dict(ctor=ctor, name=hx("m"), nf="s", chunks=[ls], ops="")
                        if pos == "name":
                            k["name"], k["nf"] = hx(text), f
                        else:
                            ls[pos[0]][pos[1]], ls[pos[0]][pos[1] + 1] = hx(text), f
                        return k
                    offb = second if short == long_ else 0        # same text: second address; prefix: same start
                    out.append(dict(buf=buf.hex(), keys=[key(short, 0, "S"), key(long_, offb, "P"), key(short, 0, "F", owned=True)]))
        pool = [lab(k, v, "s", "s") for k, v in base[:5]]
        for (a, b), (c, d) in (((0, 2), (0, 3)), ((0, 3), (1, 3)), ((0, 1), (0, 2)), ((0, 4), (0, 5)), ((2, 2), (2, 3)), ((0, 3), (0, 3))):
            mk = lambda a, b, ctor: dict(ctor=ctor, name=hx("m"), nf="s", chunks=[[list(l) for l in pool[a:b]]], ops="", lp=[a, b])
            out.append(dict(lpool=[list(l) for l in pool], buf="", keys=[mk(a, b, "S"), mk(c, d, "L"), mk(a, b, "P")]))
        return out

    def _exhaustive(self, n):
        """all unordered pairs of 2-label lists over {a,b}x{0,1}, then of 3-label lists over {(a,0),(a,1),(b,0)}"""
        out = []
        def plain(name, ls, ctor):
            return dict(ctor=ctor, name=hx(name), nf="o", chunks=[[[hx(k), "o", hx(v), "s"] for k, v in ls]], ops="")
        def pairs(lists):
            for i in range(len(lists)):
                for j in range(i + 1):
                    out.append(dict(keys=[plain("k", lists[i], "P"), plain("k", lists[j], "S")]))
        l2 = [(k, v) for k in "ab" for v in "01"]
        if n >= 1000:
            pairs([[x, y] for x in l2 for y in l2])
        l3 = [("a", "0"), ("a", "1"), ("b", "0")]
        if n >= 2000:
            pairs([[x, y, z] for x in l3 for y in l3 for z in l3])
        return out

    def gen(self, rng, n):
        cases = self._exhaustive(n)
        self.stats = dict(exhaustive_small_pairs=len(cases), label_counts={}, ctors={}, keys=0)
        if n >= 500:
            cases += self._directed()
        self.stats["directed_storage_cases"] = len(cases) - self.stats["exhaustive_small_pairs"]
        n -= len(cases)
        for _ in range(n):
            cnt = rng.weighted(COUNTS)
            distinct = rng.chance(2, 5)
            a = [rng.pick(NAMES), self._labels(rng, cnt, distinct)]
            if rng.chance(1, 40):
                # long label lists with few names and all-different values: std's merge sort path (> 20
                # elements) must keep same-name labels in supplied order
                a[1] = [[rng.pick(["a", "b", ""]), "%d" % i] for i in range(rng.range(21, 40))]
            keys = [a]
            nk = rng.weighted([(1, 2), (8, 3), (1, 4)])
            while len(keys) < nk:
                if rng.chance(1, 10):
                    keys.append([rng.pick(NAMES), self._labels(rng, rng.weighted(COUNTS), rng.chance(1, 2))])
                else:
                    keys.append(self._mutate(rng, rng.pick(keys)))
            keys = rng.shuffle(keys)
            if rng.chance(1, 2):
                # shared-storage mode: strings are slices of one static buffer, label lists slices of one static slice
                cases.append(self._place(rng, dict(keys=[self._dress(rng, k, pooled=True) for k in keys])))
            else:
                cases.append(dict(keys=[self._dress(rng, k) for k in keys]))
        st = self.stats
        st.update(cases_with_shared_buffer=0, cases_with_same_start_different_length=0, cases_with_same_text_two_addresses=0, keys_on_shared_label_slice=0)
        for c in cases:
            if "buf" in c or "lpool" in c:
                st["cases_with_shared_buffer"] += 1
                pl = {}
                for box, ci, fi in self._strings(c):
                    if box[fi][0] in "pq":
                        pl.setdefault(int(box[fi][1:]), set()).add(box[ci])
                if any(len(v) > 1 for v in pl.values()):
                    st["cases_with_same_start_different_length"] += 1
                inv = {}
                for off, ts in pl.items():
                    for t in ts:
                        inv.setdefault(t, set()).add(off)
                if any(len(v) > 1 and t for t, v in inv.items()):
                    st["cases_with_same_text_two_addresses"] += 1
                st["keys_on_shared_label_slice"] += sum(1 for k in c["keys"] if k.get("lp"))
        for c in cases:
            for k in c["keys"]:
                nl = sum(len(ch) for ch in k["chunks"])
                self.stats["label_counts"][nl] = self.stats["label_counts"].get(nl, 0) + 1
                self.stats["ctors"][k["ctor"]] = self.stats["ctors"].get(k["ctor"], 0) + 1
                self.stats["keys"] += 1
        return cases

    def extra_checks(self, ctx):
        st = getattr(self, "stats", None)
        if st:
            ctx["coverage"]["keys_built"] = st["keys"]
            ctx["coverage"]["exhaustive_small_pairs"] = st["exhaustive_small_pairs"]
            ctx["coverage"]["keys_by_label_count"] = {str(k): v for k, v in sorted(st["label_counts"].items())}
            ctx["coverage"]["keys_by_constructor"] = dict(sorted(st["ctors"].items()))
            for f in ("directed_storage_cases", "cases_with_shared_buffer", "cases_with_same_start_different_length",
                      "cases_with_same_text_two_addresses", "keys_on_shared_label_slice"):
                ctx["coverage"][f] = st.get(f, 0)
        return self.memo_race(ctx)

    # ------------------------------------------------------------------ memo race (schedule replay)
    extra_bins = [("hcore", "c03m")]
    extra_coq_targets = ["C03/ExecMemo.vo"]

    def memo_race(self, ctx):
        """get_hash()/clone of ONE lazily hashed key from 2-3 threads under generated schedules,
        replayed on the real code through yield points 301-306; model = coq/C03/MemoRace.v,
        theorem C03_get_hash_stable_under_races (every call returns the true hash, every schedule)."""
        from . import core
        rng = ctx["rng"].fork()
        n = 400 if ctx["tier"] == "quick" else 6000
        cases = []
        for _ in range(n):
            nt = rng.range(2, 3)
            progs = [[rng.pick(["G", "G", "C"]) for _ in range(rng.range(1, 3))] for _ in range(nt)]
            total = sum(1 + 4 * len(p) for p in progs)
            style = rng.below(2)
            sched = []
            for _ in range(rng.range(0, total + 4)):
                sched.append(sched[-1] if (style and sched and rng.chance(1, 2)) else rng.below(nt))
            cases.append((progs, sched))
        binpath = core.harness_build("hcore", "c03m")
        lines = ["%s ; %s" % ("|".join(",".join(p) for p in progs), " ".join(map(str, sched))) for progs, sched in cases]
        rc, outs, err = core.run_impl(binpath, lines, timeout=900)
        if rc != 0 or len(outs) != len(cases):
            raise core.MachineryBroken("c03m driver failed: rc=%s %s" % (rc, err[-1000:]))
        triples, parsed = [], []
        for i, ((progs, sched), line) in enumerate(zip(cases, outs)):
            tr, rs, done = [x.strip() for x in line.split(";")]
            trace = [x.split(":") for x in tr.split()]
            res = [[t for t in p.split(",") if t] for p in rs.split("|")]
            parsed.append(dict(progs=progs, sched=sched, trace=tr, results=rs, done=done))
            cc = "(%s, %s)" % (core.cq_list([core.cq_list(["CGet" if x == "G" else "CCloneGet" for x in p]) for p in progs]),
                               core.cq_list([core.cq_N(t) for t in sched]))
            oo = "(%s, %s, %s)" % (core.cq_list(["(%s, %s)" % (core.cq_N(int(a)), core.cq_N(int(b))) for a, b in trace]),
                                   core.cq_list([core.cq_list([core.cq_N(int(t)) for t in p]) for p in res]), core.cq_bool(done == "1"))
            triples.append((i, cc, oo))
        res = core.run_model("C03", triples, exec_mod="ExecMemo", shard=200, tag="memo")
        bad_spec = [i for i in range(len(cases)) if not res[i][1]]
        disagree = [i for i in range(len(cases)) if not res[i][0]]
        races = sum(1 for p in parsed if p["trace"].count(":303") >= 2 or (":303" in p["trace"] and ":306" in p["trace"]))
        ctx["coverage"]["memo_race_schedules"] = len(cases)
        ctx["coverage"]["memo_race_schedules_with_racing_first_use"] = races
        ctx["coverage"]["memo_race_sample"] = parsed[0]
        if bad_spec:
            return [("memo-spec", "a get_hash() call on a shared lazily hashed key returned a value other than the key's hash under this schedule",
                     dict(memo_case=parsed[bad_spec[0]], failing=len(bad_spec)))]
        if disagree:
            return [("memo-corr", "schedule replay of Key::get_hash/Clone disagrees with coq/C03/MemoRace.v (theorem C03_get_hash_stable_under_races no longer applies); every returned hash was still correct",
                     dict(memo_case=parsed[disagree[0]], disagreeing=len(disagree), no_failing_input=True,
                          broken="correspondence C03/ExecMemo.v run_case vs harness c03m"))]
        return []

    # ------------------------------------------------------------------ implementation side
    @staticmethod
    def _tok(fl, h):
        if fl[0] in "pq":
            return "%s%d.%d" % (fl[0], int(fl[1:]), len(h) // 2)
        return fl + h

    def impl_line(self, c):
        lab = lambda l: "%s:%s" % (self._tok(l[1], l[0]), self._tok(l[3], l[2]))
        ks = []
        for k in c["keys"]:
            chunks = ";".join(",".join(lab(l) for l in ch) for ch in k["chunks"])
            lp = " @%d.%d" % tuple(k["lp"]) if k.get("lp") else ""
            ks.append("%s %s %s L%s%s" % (k["ctor"], self._tok(k["nf"], k["name"]), k["ops"] or "-", chunks, lp))
        head = ""
        if "buf" in c or c.get("lpool"):
            head = "B%s" % (c.get("buf") or "")
            if c.get("lpool"):
                head += " Q" + ",".join(lab(l) for l in c["lpool"])
            head += " || "
        return head + " | ".join(ks)

    def parse_out(self, c, line):
        if line.startswith("panic"):
            return dict(panic=line[6:])
        out = dict(keys=[], e=None, c=None, aux=None)
        for part in line.split(" ; "):
            t = part.split(" ")
            if t[0] == "k":
                out["keys"].append(dict(hashed0=int(t[1]), ghok=int(t[2]), cls=int(t[3]), feed=t[4].split(",") if len(t) > 4 and t[4] else []))
            elif t[0] == "e":
                out["e"] = t[1].split("/")
            elif t[0] == "c":
                out["c"] = t[1].split("/")
            elif t[0] == "x":
                out["aux"] = int(t[1])
            elif t[0] in ("xe", "xc"):
                out[t[0]] = [m.split("/") for m in t[1:]]
        return out

    # ------------------------------------------------------------------ Coq side
    @staticmethod
    def _lab(l):
        return "(%s, %s)" % (cq_bytes(unhx(l[0])), cq_bytes(unhx(l[2])))

    def coq_case(self, c):
        bs = []
        for k in c["keys"]:
            ch = k["chunks"]
            bs.append("{| b_ctor := %s; b_name := %s; b_first := %s; b_extra := %s; b_ops := %s |}" % (
                "CStatic" if k["ctor"] in STATIC_CTORS else "CBuilder", cq_bytes(unhx(k["name"])),
                cq_list([self._lab(l) for l in ch[0]]),
                cq_list([cq_list([self._lab(l) for l in x]) for x in ch[1:]]),
                cq_list([{"c": "PClone", "h": "PHash"}[o] for o in k["ops"]])))
        return cq_list(bs)

    def coq_out(self, c, out):
        if "panic" in out:
            return "OPanic"
        ks = []
        for k in out["keys"]:
            evs = []
            for e in k["feed"]:
                if e[0] == "w":
                    evs.append("HW %s" % cq_bytes(unhx(e[1:])))
                elif e[0] == "b":
                    evs.append("HB %s" % cq_N(int(e[1:], 16)))
                elif e[0] == "u":
                    evs.append("HU %s" % cq_N(int(e[1:])))
                else:
                    evs.append("HB 4096%N")    # a Hasher method the model never uses: cannot match
            ks.append("{| o_hashed0 := %s; o_ghok := %s; o_class := %s; o_feed := %s |}" % (
                cq_bool(k["hashed0"]), cq_bool(k["ghok"]), cq_N(k["cls"]), cq_list(evs)))
        em = lambda m: cq_list([cq_list([cq_bool(ch == "1") for ch in row]) for row in m])
        cmm = lambda m: cq_list([cq_list([{"<": "Lt", "=": "Eq", ">": "Gt"}[ch] for ch in row]) for row in m])
        return "(OOk %s %s %s %s %s %s)" % (cq_list(ks), em(out["e"]), cmm(out["c"]), cq_bool(out["aux"]),
                                            cq_list([em(m) for m in out.get("xe", [])]), cq_list([cmm(m) for m in out.get("xc", [])]))

    def signature(self, c, out):
        seen = set()
        flat = []
        for k in c["keys"]:
            ls = tuple((l[0], l[2]) for ch in k["chunks"] for l in ch)
            flat.append((k["name"], ls))
        nontrivial = any(flat[i] != flat[j] and flat[i][0] == flat[j][0] and flat[i][1] and flat[j][1]
                         for i in range(len(flat)) for j in range(i))
        if not nontrivial:
            return None
        return [c, out]

    def shrink(self, c):
        extra = {f: c[f] for f in ("buf", "lpool") if f in c}
        cands = [dict(x, **extra) for x in self._shrink0(c)]
        for i, k in enumerate(c["keys"]):
            if k.get("lp"):
                nk = {f: v for f, v in k.items() if f != "lp"}
                cands.append(dict(c, keys=c["keys"][:i] + [nk] + c["keys"][i + 1:]))
        if extra:
            cands = [self._normalise(x) for x in cands]
        return cands

    def _shrink0(self, c):
        keys = c["keys"]
        cands = []
        if len(keys) > 1:
            for i in range(len(keys)):
                cands.append(dict(keys=keys[:i] + keys[i + 1:]))
        for i, k in enumerate(keys):
            def rep(nk):
                return dict(keys=keys[:i] + [nk] + keys[i + 1:])
            for ci, ch in enumerate(k["chunks"]):
                if len(ch) >= 4:
                    h = len(ch) // 2
                    for part in (ch[:h], ch[h:], ch[:h // 2] + ch[h:], ch[:h] + ch[h + (len(ch) - h) // 2:]):
                        nch = [list(x) for x in k["chunks"]]
                        nch[ci] = part
                        cands.append(rep(dict(k, chunks=nch)))
            for ci, ch in enumerate(k["chunks"]):
                for li in range(len(ch)):
                    nch = [list(x) for x in k["chunks"]]
                    nch[ci] = ch[:li] + ch[li + 1:]
                    nk = dict(k, chunks=nch)
                    if not nch[0] or k["ctor"] not in NEED_EMPTY_FIRST:
                        cands.append(rep(nk))
            if len(k["chunks"]) > 1:
                flat = [l for ch in k["chunks"] for l in ch]
                cands.append(rep(dict(k, chunks=[flat], ctor="S" if k["ctor"] in STATIC_CTORS else "P")))
            if k["ops"]:
                cands.append(rep(dict(k, ops=k["ops"][1:])))
            if k["ctor"] not in "PS" and len(k["chunks"]) == 1:
                cands.append(rep(dict(k, ctor="S" if k["ctor"] in STATIC_CTORS else "P")))
            if k["nf"] != "o" or any(l[1] != "o" or l[3] != "o" for ch in k["chunks"] for l in ch):
                cands.append(rep(dict(k, nf="o", chunks=[[[l[0], "o", l[2], "o"] for l in ch] for ch in k["chunks"]])))
        # shorten strings consistently over the whole case (same string -> same replacement)
        strs = sorted({k["name"] for k in keys} | {l[j] for k in keys for ch in k["chunks"] for l in ch for j in (0, 2)}, key=lambda s: -len(s))
        for s in strs:
            if not s:
                continue
            for repl in (hx("a"), hx("b"), ""):
                if repl == s or len(repl) > len(s):
                    continue
                f = lambda x: repl if x == s else x
                cands.append(dict(keys=[dict(k, name=f(k["name"]), chunks=[[[f(l[0]), l[1], f(l[2]), l[3]] for l in ch] for ch in k["chunks"]]) for k in keys]))
        return cands


PROP = C03()
