"""C02 — RecorderOnceCell: schedule replay of installers and emitters at atomic-step granularity."""
from .core import Prop, cq_N, cq_list, cq_opt, cq_bool


class C02(Prop):
    pid = "C02"
    pkg = "hcore"
    binname = "c02"
    quick_cases = 3000
    thorough_cases = 60000
    shard = 400
    design_ref = "DESIGN.md 4 C02"
    technique = ("Coq proof: invariants of an interleaving machine (one step per atomic access of cell.rs) preserved by every step, "
                 "hence for every schedule, any number of installers/emitters; schedule-replay correspondence on the real RecorderOnceCell")
    level_text = ("Theorems (Coq, every schedule, any number of threads and per-thread call lists): at most one set() returns Ok; every loser gets "
                  "its own recorder back and no recorder token is lost or duplicated; when all threads are done and someone called set(), exactly one "
                  "Ok; a load returns Some(r) only for the winner's r and only after the pointer write; state INITIALIZED is absorbing, so once a "
                  "load completed with Some(r) every load that starts later completes with Some(r); a load that read a non-INITIALIZED state returns None; "
                  "and C02_spec_ok_on_model: the executable property the check evaluates (all five clauses of spec_ok, the stability walk over the step "
                  "trace included) holds on the model's own run of every case, with no hypothesis on programs or schedule (round-robin tail included). "
                  "Tied to /repo by replaying generated schedules on the real cell through yield points at each atomic access and comparing the "
                  "step trace and every return value.")
    level_note = ("Sequentially consistent interleaving: the Acquire/Release/Relaxed annotations are not modelled (on x86-64 the harness could not "
                  "observe weaker behaviour either). Box::leak and the UnsafeCell write are one atomic step each. Trusted: the yield-point hooks "
                  "(cfg metrics_verif) sit immediately before the accesses they name; the scheduler (harness/sched).")
    rule = ("2-4 threads, each a random list of set(recorder)/try_load calls (distinct recorder tokens), random schedule of thread indices "
            "(finished/out-of-range index = no-op) followed by a round-robin tail; non-trivial = at least two threads reached their CAS or a load "
            "raced an install; distinct = distinct (programs, executed step trace)")
    assumptions = ["SC memory model", "yield hooks placed before each atomic access of cell.rs"]
    trusted_extra = ["harness/sched deterministic scheduler", "std atomics, Box::leak (exercised, not modelled)"]

    def gen(self, rng, n):
        cases = []
        for _ in range(n):
            nt = rng.range(2, 4)
            progs, tok = [], 1
            for t in range(nt):
                kind = rng.weighted([(4, "inst"), (4, "emit"), (3, "mixed")])
                p = []
                if kind == "inst":
                    for _ in range(rng.range(1, 2)):
                        p.append("S%d" % tok); tok += 1
                elif kind == "emit":
                    p = ["L"] * rng.range(1, 4)
                else:
                    for _ in range(rng.range(1, 4)):
                        if rng.chance(1, 2):
                            p.append("S%d" % tok); tok += 1
                        else:
                            p.append("L")
                progs.append(p)
            if not any(c.startswith("S") for p in progs for c in p):
                progs[0] = ["S%d" % tok] + progs[0]
            total = sum(1 + 3 * len(p) for p in progs)
            L = rng.range(0, total + 4)
            style = rng.below(3)
            sched = []
            for _ in range(L):
                if style == 0:
                    sched.append(rng.below(nt))
                elif style == 1:  # bursts
                    sched.append(sched[-1] if sched and rng.chance(2, 3) else rng.below(nt))
                else:
                    sched.append(rng.below(nt + 1))  # includes out-of-range
            cases.append(dict(progs=progs, sched=sched))
        return cases

    def impl_line(self, c):
        return "%s ; %s" % ("|".join(",".join(p) for p in c["progs"]), " ".join(map(str, c["sched"])))

    def parse_out(self, c, line):
        tr, rs, done = [x.strip() for x in line.split(";")]
        trace = [[int(a), int(b)] for a, b in (x.split(":") for x in tr.split())]
        res = [[t for t in p.split(",") if t] for p in rs.split("|")]
        return dict(trace=trace, res=res, done=int(done))

    def coq_case(self, c):
        def call(x):
            return "CLoad" if x == "L" else "CSet %s" % cq_N(int(x[1:]))
        return "(%s, %s)" % (cq_list([cq_list([call(x) for x in p]) for p in c["progs"]]),
                             cq_list([cq_N(t) for t in c["sched"]]))

    def coq_out(self, c, o):
        def res(t):
            if "!" in t:
                return "RSetErr 4294967295"      # anomaly (dropped / torn / not intact): fails the spec
            if t == "N":
                return "RLoad None"
            if t[0] == "V":
                return "RLoad (Some %s)" % cq_N(int(t[1:]))
            if t[0] == "K":
                return "RSetOk %s" % cq_N(int(t[1:]))
            return "RSetErr %s" % cq_N(int(t[1:]))
        return "(%s, %s, %s)" % (cq_list(["(%s, %s)" % (cq_N(a), cq_N(b)) for a, b in o["trace"]]),
                                 cq_list([cq_list([res(t) for t in p]) for p in o["res"]]), cq_bool(o["done"]))

    def signature(self, c, o):
        cas = sum(1 for _, s in o["trace"] if s == 201)
        loads = sum(1 for _, s in o["trace"] if s == 204)
        if cas < 2 and not (cas >= 1 and loads >= 1):
            return None
        return [c["progs"], o["trace"]]

    def shrink(self, c):
        out = []
        s = c["sched"]
        for i in range(len(s)):
            out.append(dict(c, sched=s[:i] + s[i + 1:]))
        for t, p in enumerate(c["progs"]):
            for i in range(len(p)):
                if len(p) > 0:
                    q = [list(x) for x in c["progs"]]
                    del q[t][i]
                    out.append(dict(c, progs=q))
        return out


    def extra_checks(self, ctx):
        """free-running stress (no scheduler): catches changes that add shared accesses the yield
        points cannot see; judged by the property (one Ok, losers get their own recorder back,
        per-thread no Some->None / no change of recorder, final load = winner)"""
        from .core import run_impl
        rounds = 6 if ctx["tier"] == "quick" else 60
        lines = ["STRESS %d %d %d" % (3 + i % 3, 2 + i % 3, 3000) for i in range(rounds)]
        rc, outs, err = run_impl(ctx["binpath"], lines, timeout=600)
        ctx["coverage"]["stress_rounds"] = rounds
        ctx["coverage"]["stress_results"] = outs[:3]
        fails = [o for o in outs if not o.startswith("stress ok")]
        if rc != 0 or len(outs) != rounds or fails:
            return [("stress", "free-running stress of RecorderOnceCell violated the property: " + (fails[0] if fails else "driver failed"),
                     dict(command="echo 'STRESS 4 3 3000' | .cache/target/release/c02", observed=fails[:5], stderr=err[-500:]))]
        return self.global_engine(ctx)

    def global_engine(self, ctx):
        """the REAL global recorder end to end (metrics::set_global_recorder + with_recorder), one
        script per process: sequential installs / emissions on the main thread, on fresh threads and
        from destructors running while a thread unwinds from a panic (U / D: the context must not matter),
        local scopes on the main thread and on one persistent worker (L / G / l: inside, the local recorder
        wins; afterwards that thread follows the global recorder like any other, e), emissions whose recorder
        callback panics (caught; X) or emits again from inside (N: the nested emission reaches the same recorder),
        and a parallel phase (emitters vs further losing installs).  Judged by the property: the
        first install wins, every other attempt hands its own recorder back intact, emissions before
        it go to the no-op recorder, every emission after it reaches the winner, on every thread."""
        from .core import run_impl
        rng = ctx["rng"].fork()
        n = 16 if ctx["tier"] == "quick" else 150
        scripts = [["E", "I1", "E", "I2", "E", "F", "J3", "F", "E", "P3"], ["F", "J1", "F", "E", "I2", "E", "P2", "I3", "E"],
                   ["D", "U1", "E", "D", "I2", "F", "U3", "E", "P2"],
                   ["L50", "l51", "E", "e", "I1", "E", "e", "G52", "l53", "E", "e", "F"],
                   ["X", "N", "I1", "E", "X", "E", "N", "E", "F", "X", "e", "E"]]
        for _ in range(n - len(scripts)):
            ops, r = [], 1
            for _ in range(rng.range(4, 12)):
                k = rng.below(10)
                if k < 3:
                    ops.append("%s%d" % (rng.pick("IJU"), r)); r += 1
                elif k < 7:
                    ops.append(rng.pick("EFDeXN"))
                elif k < 9:
                    ops.append("%s%d" % (rng.pick("LGl"), 50 + len(ops)))
                elif any(o[0] in "IJU" for o in ops):
                    ops.append("P%d" % rng.range(2, 4))     # the parallel phase's extra installs must be losers
                else:
                    ops.append("%s%d" % (rng.pick("IJU"), r)); r += 1
            scripts.append(ops)
        bad = []
        for ops in scripts:
            rc, outs, err = run_impl(ctx["binpath"], ["GLOBAL " + " ".join(ops)], timeout=120)
            toks = outs[0].split() if outs else []
            winner, problem = None, None
            if rc != 0 or len(toks) != len(ops):
                problem = "driver failed: rc=%s %s" % (rc, err[-300:])
            for op, t in zip(ops, toks):
                if problem:
                    break
                if op[0] in "IJU":
                    if winner is None:
                        if t != "K" + op[1:]:
                            problem = "first installation %s did not succeed: %s" % (op, t)
                        winner = op[1:]
                    elif t != "X" + op[1:]:
                        problem = "installation %s after a successful one returned %s (must fail and hand its own recorder back intact)" % (op, t)
                elif op[0] in "LGl":
                    if t != "V" + op[1:]:
                        problem = "emission inside a local scope (%s) was dispatched to %s, expected the local recorder %s" % (op, t, op[1:])
                elif op[0] == "N":
                    want = "N" if winner is None else "V%s/%s" % (winner, winner)
                    if t != want:
                        problem = "emission with a nested emission from inside the recorder callback gave %s, expected %s (outer/nested target)" % (t, want)
                elif op[0] in "EFDeX":
                    want = "N" if winner is None else "V" + winner
                    if t != want:
                        problem = "emission (%s) was dispatched to %s, expected %s" % (op, t, want)
                elif op[0] == "P":
                    if winner is not None and t != "P0":
                        problem = "parallel phase: %s emissions/installs misbehaved" % t[1:]
            if problem:
                bad.append(dict(script=" ".join(ops), observed=" ".join(toks), problem=problem))
        ctx["coverage"]["global_recorder_scripts"] = len(scripts)
        ctx["coverage"]["global_recorder_sample"] = " ".join(scripts[0])
        if bad:
            return [("global", "the real global recorder (set_global_recorder / with_recorder) violated the property: " + bad[0]["problem"],
                     dict(command="echo 'GLOBAL %s' | .cache/target/release/c02" % bad[0]["script"], failing=bad[:3]))]
        return []


PROP = C02()
