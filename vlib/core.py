"""Shared machinery of ./check: audits, Coq build, pinned theorems, harness build, running the
implementation and the Coq model on the same cases, verdicts, shrinking, evidence, replay files.

A property module (vlib/cNN.py) defines a subclass of Prop.  The flow of one run (DESIGN.md 3.5):
  1 audit the Coq tree, build CNN/{Properties,Exec}.vo, compile CNN/Pins.v (statement pins +
    Print Assumptions);
  2 build the harness binary from /repo's working tree with --cfg metrics_verif;
  3 corpus + generated cases -> implementation -> (case, impl output) pairs -> cases.v -> coqc:
    for every pair the Coq side computes  agree := out_eqb (run_case c) o,  spec := spec_ok c o,
    known := known_class c;
  4 verdict, shrinking, evidence, VIOLATION / KNOWN-FINDING lines.
"""
import hashlib
import json
import os
import re
import subprocess
import sys
import time
from concurrent.futures import ThreadPoolExecutor

VERIF = os.path.dirname(os.path.dirname(os.path.abspath(__file__)))
COQ = os.path.join(VERIF, "coq")
HARNESS = os.environ.get("VERIF_HARNESS", os.path.join(VERIF, "harness"))
OUTDIR = os.environ.get("VERIF_OUTDIR", VERIF)   # evidence/ and replays/ go here (mutation runs redirect it)
CACHE = os.path.join(VERIF, ".cache")
TARGET = os.environ.get("VERIF_CARGO_TARGET", os.path.join(CACHE, "target"))
REPO = os.environ.get("VERIF_REPO", "/repo")
TOOLCHAIN = "+1.74.0"

ALLOWED_AXIOMS = {
    # stdlib axioms a property may rely on; each must also be named in the trusted base
    "functional_extensionality_dep", "proof_irrelevance", "classic", "JMeq_eq", "eq_rect_eq",
    "propositional_extensionality", "constructive_indefinite_description",
}

FORBIDDEN = [
    r"\bAdmitted\b", r"\badmit\b", r"\bAxiom\b", r"\bAxioms\b", r"\bParameter\b", r"\bParameters\b",
    r"\bConjecture\b", r"Admit Obligations", r"Unset Guard", r"bypass_check", r"type-in-type",
    r"impredicative-set", r"Unset Universe", r"Unset Positivity", r"\bnative_compute\b",
]


# ------------------------------------------------------------------------------------------ PRNG
class Rng:
    """xorshift64*; every random choice of a run derives from one of these."""

    def __init__(self, seed):
        self.s = (seed * 0x9E3779B97F4A7C15 + 0x1234567) & 0xFFFFFFFFFFFFFFFF or 88172645463325252

    def next(self):
        x = self.s
        x ^= (x >> 12)
        x ^= (x << 25) & 0xFFFFFFFFFFFFFFFF
        x ^= (x >> 27)
        self.s = x
        return (x * 0x2545F4914F6CDD1D) & 0xFFFFFFFFFFFFFFFF

    def below(self, n):
        return self.next() % n if n > 0 else 0

    def range(self, lo, hi):  # inclusive
        return lo + self.below(hi - lo + 1)

    def chance(self, num, den):
        return self.below(den) < num

    def pick(self, xs):
        return xs[self.below(len(xs))]

    def weighted(self, pairs):
        tot = sum(w for w, _ in pairs)
        r = self.below(tot)
        for w, x in pairs:
            if r < w:
                return x
            r -= w
        return pairs[-1][1]

    def shuffle(self, xs):
        xs = list(xs)
        for i in range(len(xs) - 1, 0, -1):
            j = self.below(i + 1)
            xs[i], xs[j] = xs[j], xs[i]
        return xs

    def fork(self):
        return Rng(self.next())


# ------------------------------------------------------------------------------- Coq term helpers
def cq_N(n):
    assert n >= 0
    return "%d%%N" % n


def cq_Z(n):
    return "(%d)%%Z" % n


def cq_bool(b):
    return "true" if b else "false"


def cq_list(xs):
    return "[" + "; ".join(xs) + "]"


def cq_opt(x):
    return "None" if x is None else "(Some %s)" % x


def cq_bytes(b):
    """bytes -> list N via the hex decoder of Common/Hex.v (fast to parse)."""
    if isinstance(b, str):
        b = b.encode("utf-8")
    return '(hx "%s")' % b.hex()


def cq_pair(*xs):
    return "(" + ", ".join(xs) + ")"


# ------------------------------------------------------------------------------------- utilities
def sh(cmd, cwd=None, timeout=None, env=None, stdin=None):
    e = dict(os.environ)
    if env:
        e.update(env)
    p = subprocess.run(cmd, cwd=cwd, timeout=timeout, env=e, input=stdin, stdout=subprocess.PIPE,
                       stderr=subprocess.STDOUT, shell=isinstance(cmd, str))
    return p.returncode, p.stdout.decode("utf-8", "replace")


class MachineryBroken(Exception):
    pass


def import_closure(pid):
    """all project .v files the property's Properties/Exec/Pins transitively Require"""
    todo = [os.path.join(COQ, pid, f) for f in os.listdir(os.path.join(COQ, pid)) if f.endswith(".v")]
    todo += [os.path.join(COQ, "Common", f) for f in os.listdir(os.path.join(COQ, "Common")) if f.endswith(".v")]
    seen = set()
    while todo:
        p = todo.pop()
        if p in seen or not os.path.exists(p):
            continue
        seen.add(p)
        for m in re.finditer(r"MV\.(\w+)\.(\w+)", open(p, encoding="utf-8").read()):
            todo.append(os.path.join(COQ, m.group(1), m.group(2) + ".v"))
    return sorted(seen)


def audit_coq(pid=None):
    """grep the Coq files the property depends on (all of its directory, Common/, and everything
    they import) for anything that would declare an axiom or disable a check."""
    problems = []
    section_depth_re = re.compile(r"^\s*(Section|End)\b")
    if pid is None:
        paths = [os.path.join(r, f) for r, _, fs in os.walk(COQ) for f in fs]
    else:
        paths = import_closure(pid)
    for path in paths:
        for f in [os.path.basename(path)]:
            if not f.endswith(".v") or f.startswith("_"):
                continue
            txt = open(path, encoding="utf-8").read()
            # strip comments (nested) before grepping
            out, depth, i = [], 0, 0
            while i < len(txt):
                if txt.startswith("(*", i):
                    depth += 1
                    i += 2
                elif txt.startswith("*)", i) and depth > 0:
                    depth -= 1
                    i += 2
                else:
                    if depth == 0:
                        out.append(txt[i])
                    elif txt[i] == "\n":
                        out.append("\n")
                    i += 1
            code = "".join(out)
            for pat in FORBIDDEN:
                for m in re.finditer(pat, code):
                    ln = code.count("\n", 0, m.start()) + 1
                    problems.append("%s:%d: forbidden `%s`" % (os.path.relpath(path, VERIF), ln, m.group(0)))
            # Variable / Hypothesis / Context outside a section
            depth = 0
            for ln, line in enumerate(code.split("\n"), 1):
                m = section_depth_re.match(line)
                if m:
                    if m.group(1) == "Section":
                        depth += 1
                    elif depth > 0 and re.match(r"^\s*End\s+\w+\s*\.", line):
                        # `End X.` closes a section or a module; modules are not used with Variables
                        depth -= 1
                if depth == 0 and re.match(r"^\s*(Variable|Variables|Hypothesis|Hypotheses|Context)\b", line):
                    problems.append("%s:%d: `%s` outside a section" % (os.path.relpath(path, VERIF), ln, line.strip()[:40]))
    proj = open(os.path.join(COQ, "_CoqProject")).read() if os.path.exists(os.path.join(COQ, "_CoqProject")) else ""
    for bad in ("-type-in-type", "-impredicative-set", "-vos", "-vok", "-noinit"):
        if bad in proj:
            problems.append("_CoqProject contains %s" % bad)
    return problems


def coq_project_files():
    fs = []
    for root, _, files in os.walk(COQ):
        for f in sorted(files):
            if f.endswith(".v") and not f.startswith("_") and f != "Pins.v":
                fs.append(os.path.relpath(os.path.join(root, f), COQ))
    return sorted(fs)


def coq_makefile():
    """(re)generate _CoqProject / Makefile.coq when the file list changed."""
    files = coq_project_files()
    content = "-Q . MV\n" + "\n".join(files) + "\n"
    p = os.path.join(COQ, "_CoqProject")
    mk = os.path.join(COQ, "Makefile.coq")
    if not os.path.exists(p) or open(p).read() != content or not os.path.exists(mk):
        open(p, "w").write(content)
        rc, out = sh(["coq_makefile", "-f", "_CoqProject", "-o", "Makefile.coq"], cwd=COQ, timeout=120)
        if rc != 0:
            raise MachineryBroken("coq_makefile failed:\n" + out)


def coq_build(targets, timeout=1500):
    coq_makefile()
    os.makedirs(CACHE, exist_ok=True)
    # serialise makes per property directory (several checks / builders may run at once; each
    # works in its own directory, Common/ is built first and rarely changes)
    dirs = sorted({t.split("/")[0] for t in targets if "/" in t and not t.startswith("Common/")}) or ["Common"]
    lock = os.path.join(CACHE, "coq-%s.lock" % "-".join(dirs))
    cmd = "ulimit -v 16000000; flock %s timeout %d make -f Makefile.coq -j16 %s" % (lock, timeout, " ".join(targets))
    rc, out = sh(cmd, cwd=COQ, timeout=timeout + 600)
    return rc == 0, out


def coqc_file(path, timeout=900):
    rc, out = sh(["timeout", str(timeout), "coqc", "-noglob", "-Q", COQ, "MV", path], cwd=os.path.dirname(path),
                 timeout=timeout + 30)
    return rc, out


def pins_check(pid):
    """Compile CNN/Pins.v: `Check (thm : statement).` pins each property theorem's statement, and
    `Print Assumptions thm.` reports the axioms.  Returns (obligations, discharged, text, problems)."""
    src = os.path.join(COQ, pid, "Pins.v")
    if not os.path.exists(src):
        raise MachineryBroken("missing %s" % src)
    txt = open(src).read()
    names = re.findall(r"^Print Assumptions\s+([\w.']+)\s*\.", txt, re.M)
    pinned = set(re.findall(r"^Check\s+\(\s*@?([\w.']+)\s*:", txt, re.M))
    problems = []
    for n in names:
        if n not in pinned:
            problems.append("theorem %s has no statement pin" % n)
    tmp = os.path.join(CACHE, "pins", pid)
    os.makedirs(tmp, exist_ok=True)
    dst = os.path.join(tmp, "Pins_%s.v" % pid)
    open(dst, "w").write(txt)
    rc, out = coqc_file(dst)
    if rc != 0:
        return len(names), 0, out, problems + ["Pins.v does not compile (a pinned statement changed or a theorem is missing)"]
    # split the output into one block per Print Assumptions
    blocks = re.split(r"(?=^(?:Closed under the global context|Axioms:))", out, flags=re.M)
    blocks = [b for b in blocks if b.startswith("Closed under") or b.startswith("Axioms:")]
    discharged = 0
    if len(blocks) != len(names):
        problems.append("expected %d Print Assumptions blocks, got %d" % (len(names), len(blocks)))
    for n, b in zip(names, blocks):
        if b.startswith("Closed under"):
            discharged += 1
            continue
        axs = re.findall(r"^([\w.']+)\s*:", b, re.M)
        bad = [a for a in axs if a.split(".")[-1] not in ALLOWED_AXIOMS and a != "Axioms"]
        if bad:
            problems.append("theorem %s depends on non-allowed axioms %s" % (n, bad))
        else:
            discharged += 1
    return len(names), discharged, out, problems


def harness_build(pkg, binname, timeout=1500):
    env = {"RUSTFLAGS": "--cfg metrics_verif", "CARGO_TARGET_DIR": TARGET, "CARGO_NET_OFFLINE": "true"}
    cmd = ["cargo", TOOLCHAIN, "build", "--offline", "--release", "-q", "-p", pkg, "--bin", binname]
    rc, out = sh(cmd, cwd=HARNESS, timeout=timeout, env=env)
    if rc != 0:
        raise MachineryBroken("harness build failed (does /repo compile with --cfg metrics_verif?):\n" + out[-4000:])
    return os.path.join(TARGET, "release", binname)


def run_impl(binpath, lines, args=(), timeout=600, env=None):
    data = ("\n".join(lines) + "\n").encode()
    e = dict(os.environ)
    if env:
        e.update(env)
    p = subprocess.run([binpath] + list(args), input=data, stdout=subprocess.PIPE, stderr=subprocess.PIPE,
                       timeout=timeout, env=e)
    out = p.stdout.decode("utf-8", "replace").split("\n")
    if out and out[-1] == "":
        out.pop()
    return p.returncode, out, p.stderr.decode("utf-8", "replace")


VERDICT_RE = re.compile(r"\((\d+)(?:%N)?,\s*(true|false),\s*(true|false),\s*(None|Some\s+(\d+)(?:%N)?)\)")


def run_model(pid, triples, exec_mod="Exec", shard=250, extra_imports=(), tag="cases"):
    """triples: list of (idx, coq_case_term, coq_out_term).  Returns {idx: (agree, spec, known)}."""
    d = os.path.join(CACHE, "cases", pid)
    os.makedirs(d, exist_ok=True)
    shards = [triples[i:i + shard] for i in range(0, len(triples), shard)]
    try:
        exec_src = open(os.path.join(COQ, pid, exec_mod + ".v")).read()
    except OSError:
        exec_src = ""
    out_ty = " : OUT" if re.search(r"Definition\s+OUT\b", exec_src) else ""

    def one(k_sh):
        k, sh_ = k_sh
        path = os.path.join(d, "%s_%s_%d_%d.v" % (tag, pid, os.getpid(), k))
        with open(path, "w") as f:
            f.write("From Coq Require Import List NArith ZArith String.\nImport ListNotations.\n")
            f.write("Require Import MV.Common.Hex MV.%s.%s.\n" % (pid, exec_mod))
            for imp in extra_imports:
                f.write("Require Import %s.\n" % imp)
            f.write("Set Printing Width 2000000.\nSet Printing Depth 1000000.\nSet Warnings \"-all\".\n")
            f.write("Open Scope N_scope.\n")
            for i, c, o in sh_:
                f.write("Definition c%d : case := %s.\nDefinition o%d%s := %s.\n" % (i, c, i, out_ty, o))
            f.write("Eval vm_compute in verdicts [%s].\n" % "; ".join("(%s, c%d, o%d)" % (cq_N(i), i, i) for i, _, _ in sh_))
        rc, out = coqc_file(path)
        if rc != 0:
            raise MachineryBroken("coqc failed on %s:\n%s" % (path, out[-3000:]))
        res = {}
        for m in VERDICT_RE.finditer(out):
            res[int(m.group(1))] = (m.group(2) == "true", m.group(3) == "true",
                                    None if m.group(4) == "None" else int(m.group(5)))
        for i, _, _ in sh_:
            if i not in res:
                raise MachineryBroken("no verdict for case %d in %s:\n%s" % (i, path, out[-2000:]))
        for ext in (".v", ".vo", ".vok", ".vos", ".glob"):
            try:
                os.remove(path[:-2] + ext)
            except OSError:
                pass
        return res

    res = {}
    with ThreadPoolExecutor(max_workers=16) as ex:
        for r in ex.map(one, list(enumerate(shards))):
            res.update(r)
    return res


def model_output(pid, coq_case_term, exec_mod="Exec"):
    """Pretty-printed model output for one case (for replay files)."""
    d = os.path.join(CACHE, "cases", pid)
    os.makedirs(d, exist_ok=True)
    path = os.path.join(d, "show_%s_%d.v" % (pid, os.getpid()))
    with open(path, "w") as f:
        f.write("From Coq Require Import List NArith ZArith String.\nImport ListNotations.\n")
        f.write("Require Import MV.Common.Hex MV.%s.%s.\nSet Printing Width 200.\nSet Warnings \"-all\".\nOpen Scope N_scope.\n" % (pid, exec_mod))
        f.write("Eval vm_compute in run_case %s.\n" % coq_case_term)
    rc, out = coqc_file(path, timeout=120)
    for ext in (".v", ".vo", ".vok", ".vos", ".glob"):
        try:
            os.remove(path[:-2] + ext)
        except OSError:
            pass
    return out.strip()[:20000]


# ------------------------------------------------------------------------------------ known findings
def load_known():
    """known findings: the per-property fragments known/Cxx.json (from which tools/genmanifest.py
    generates the single committed known_findings.json); read-only at run time"""
    out = []
    kd = os.path.join(VERIF, "known")
    if os.path.isdir(kd):
        for f in sorted(os.listdir(kd)):
            if f.endswith(".json"):
                out += json.load(open(os.path.join(kd, f)))["findings"]
    return out


# ---------------------------------------------------------------------------------------- the Prop
class Prop:
    pid = "C00"
    pkg = "hcore"
    binname = "c00"
    exec_mod = "Exec"
    quick_cases = 1000
    thorough_cases = 20000
    shard = 250
    trusted_extra = []
    assumptions = []
    rule = ""

    # ---- to override
    def gen(self, rng, n):
        """-> list of cases (python objects, JSON-serialisable)."""
        raise NotImplementedError

    def impl_line(self, case):
        raise NotImplementedError

    def parse_out(self, case, line):
        """implementation's output line -> JSON-serialisable object"""
        return line

    def coq_case(self, case):
        raise NotImplementedError

    def coq_out(self, case, out):
        raise NotImplementedError

    def signature(self, case, out):
        """hashable; distinct signatures are counted as distinct non-trivial cases; None = trivial"""
        return json.dumps([case, out], sort_keys=True)

    def shrink(self, case):
        """-> list of smaller candidate cases"""
        return []

    def impl_args(self, tier):
        return []

    def extra_checks(self, ctx):
        """optional additional engines (schedule replay, sockets, stress); returns list of
        (kind, description, replay_obj) violations and may add to ctx['coverage']"""
        return []

    # ---- corpus
    def corpus(self):
        d = os.path.join(VERIF, "corpus", self.pid)
        out = []
        if os.path.isdir(d):
            for f in sorted(os.listdir(d)):
                if f.endswith(".json"):
                    j = json.load(open(os.path.join(d, f)))
                    out.append((f, j))
        return out

    # ---- running
    def evaluate(self, binpath, cases, tier, tag="cases"):
        """run impl + model on cases; returns list of dict(case,out,agree,spec,known)"""
        if not cases:
            return []
        lines = [self.impl_line(c) for c in cases]
        # a driver that does not answer (the code under test spins or dead-locks) ends the run as a
        # broken correspondence; the quick tier's drivers finish within a minute, so do not wait 30 min
        rc, outs, err = run_impl(binpath, lines, args=self.impl_args(tier), timeout=600 if tier == "quick" else 1800)
        if rc != 0 or len(outs) != len(cases):
            raise MachineryBroken("harness binary %s: rc=%s, %d lines for %d cases\nstderr: %s" %
                                  (binpath, rc, len(outs), len(cases), err[-3000:]))
        parsed = [self.parse_out(c, o) for c, o in zip(cases, outs)]
        triples = [(i, self.coq_case(c), self.coq_out(c, o)) for i, (c, o) in enumerate(zip(cases, parsed))]
        res = run_model(self.pid, triples, exec_mod=self.exec_mod, shard=self.shard, tag=tag)
        return [dict(case=c, out=o, agree=res[i][0], spec=res[i][1], known=res[i][2])
                for i, (c, o) in enumerate(zip(cases, parsed))]

    def failing(self, r):
        """a result that needs attention: disagreement, or spec failure outside a known class"""
        return (not r["agree"]) or (not r["spec"] and r["known"] is None)

    shrink_budget_s = 120      # wall-clock budget for shrinking one failing case

    def shrink_result(self, binpath, r, tier, rounds=60):
        def cls(x):
            return (x["agree"], x["spec"])
        best = r
        t_end = time.time() + self.shrink_budget_s
        for _ in range(rounds):
            if time.time() > t_end:
                break
            cands = self.shrink(best["case"])[:400]
            if not cands:
                break
            try:
                rs = self.evaluate(binpath, cands, tier, tag="shrink")
            except MachineryBroken:
                break
            nxt = None
            for x in rs:
                if self.failing(x) and cls(x) == cls(best):
                    nxt = x
                    break
            if nxt is None:
                break
            best = nxt
        return best


def write_replay(prop, kind, obj):
    d = os.path.join(OUTDIR, "replays")
    os.makedirs(d, exist_ok=True)
    h = hashlib.sha1(json.dumps(obj, sort_keys=True, default=str).encode()).hexdigest()[:10]
    path = os.path.join(d, "%s-%s-%s.json" % (prop.pid, kind, h))
    obj = dict(obj)
    obj["property"] = prop.pid
    obj["kind"] = kind
    rel = os.path.relpath(path, VERIF) if OUTDIR == VERIF else path
    obj["replay_cmd"] = "./check %s --replay %s" % (prop.pid, rel)
    json.dump(obj, open(path, "w"), indent=1, default=str)
    return rel


def write_evidence(prop, tier, seed, coverage, wall, violations, extra_assumptions=()):
    d = os.path.join(OUTDIR, "evidence")
    os.makedirs(d, exist_ok=True)
    ev = {
        "property_id": prop.pid, "tier": tier, "seed": seed, "level": "proof",
        "coverage": coverage,
        "assumptions": list(prop.assumptions) + list(extra_assumptions),
        "wall_s": round(wall, 2), "violations": violations,
    }
    json.dump(ev, open(os.path.join(d, prop.pid + ".json"), "w"), indent=1, default=str)


BASE_TRUSTED = [
    "Coq 8.16.1 kernel (coqc); vm_compute used for model evaluation and refutation witnesses; no native_compute",
    "hand-written Gallina model of the anchored code, tied to /repo by this run's correspondence check (model and implementation executed on the same cases)",
    "correspondence harness: Rust driver built from /repo's working tree with --cfg metrics_verif, python generators/diff (vlib), coqc evaluation of cases.v",
    "sequentially consistent interleaving semantics where threads are modelled; std/third-party libraries are exercised, not modelled",
]


def run(prop):
    import argparse
    ap = argparse.ArgumentParser()
    ap.add_argument("--tier", default=os.environ.get("VERIF_TIER", "quick"))
    ap.add_argument("--replay", default=None)
    ap.add_argument("--cases", type=int, default=None)
    a = ap.parse_args(sys.argv[2:])
    tier = a.tier if a.tier in ("quick", "thorough") else "quick"
    seed = int(os.environ.get("VERIF_SEED", "1") or "1")
    t0 = time.time()
    pid = prop.pid
    st = {}
    try:
        return _run(prop, a, tier, seed, t0, st)
    except Exception as e:
        import traceback
        if not st.get("proofs_done") or a.replay:
            # audit / Coq build / pins: independent of /repo, so this is the machinery itself
            print("MACHINERY-BROKEN property=%s: %s" % (pid, e if isinstance(e, MachineryBroken) else traceback.format_exc()))
            return 2
        # The proofs checked, but the correspondence run against /repo's working tree could not be
        # completed (the driver does not build against this tree, crashed, timed out or printed
        # something the encoders cannot read).  The theorems are about the model; with the tie to
        # the code gone the property is no longer shown to hold for this tree.
        msg = str(e) if isinstance(e, MachineryBroken) else traceback.format_exc()
        path = write_replay(prop, "corr-broken", dict(
            what="the correspondence check could not be run to completion against /repo's working tree; no failing input was found because none could be evaluated",
            broken="correspondence %s/%s.v vs harness %s/%s built from /repo (theorems in %s/Properties.v no longer shown to apply)" % (
                pid, prop.exec_mod, prop.pkg, prop.binname, pid),
            detail=msg[-6000:], seed=seed, no_failing_input=True))
        cov = dict(st.get("cov", {}))
        cov.update({"evaluations": 0, "correspondence": "not completed: " + msg[-500:]})
        write_evidence(prop, tier, seed, cov, time.time() - t0, 1)
        print("VIOLATION property=%s replay=%s no-failing-input-found" % (pid, path))
        return 1


def _run(prop, a, tier, seed, t0, st):
    pid = prop.pid
    # 1. audit + proofs
    problems = audit_coq(pid)
    if problems:
        raise MachineryBroken("Coq audit failed:\n  " + "\n  ".join(problems))
    ok, log = coq_build(["Common/Hex.vo", "%s/Properties.vo" % pid, "%s/%s.vo" % (pid, prop.exec_mod)]
                        + list(getattr(prop, "extra_coq_targets", [])))
    if not ok:
        raise MachineryBroken("Coq build of %s failed:\n%s" % (pid, log[-4000:]))
    obligations, discharged, assum_text, pproblems = pins_check(pid)
    if pproblems or discharged != obligations:
        raise MachineryBroken("theorem pins / assumptions:\n  " + "\n  ".join(pproblems) + "\n" + assum_text[-3000:])
    if tier == "thorough" and not a.replay:
        rc, out = sh("timeout 1500 coqchk -silent -o -Q . MV MV.%s.Properties" % pid, cwd=COQ, timeout=1600)
        coqchk = out.strip()[-1500:]
        if rc != 0:
            raise MachineryBroken("coqchk failed:\n" + out[-3000:])
    else:
        coqchk = None
    st["proofs_done"] = True
    st["cov"] = {"obligations": obligations, "discharged": discharged, "print_assumptions": assum_text.strip()[-4000:],
                 "checker_cmd": "make -f Makefile.coq %s/Properties.vo && coqc %s/Pins.v" % (pid, pid),
                 "trusted_base": BASE_TRUSTED + list(prop.trusted_extra)}
    # 2. harness
    binpath = harness_build(prop.pkg, prop.binname)

    if a.replay:
        j = json.load(open(os.path.join(VERIF, a.replay) if not os.path.isabs(a.replay) else a.replay))
        if "case" not in j:
            print("replay file has no case (no-failing-input-found): names %s" % j.get("broken", "?"))
            return 0
        rs = prop.evaluate(binpath, [j["case"]], tier, tag="replay")
        r = rs[0]
        print(json.dumps(dict(agree=r["agree"], spec_ok=r["spec"], known_class=r["known"], impl_out=r["out"]), default=str))
        print("model:", model_output(pid, prop.coq_case(r["case"]), prop.exec_mod))
        if prop.failing(r):
            print("VIOLATION property=%s replay=%s" % (pid, a.replay))
            return 1
        return 0

    # 3. cases
    rng = Rng(seed)
    n = a.cases or (prop.quick_cases if tier == "quick" else prop.thorough_cases)
    corpus = prop.corpus()
    corpus_cases = [j["case"] for _, j in corpus]
    gen_cases = prop.gen(rng, n)
    cases = corpus_cases + gen_cases
    results = prop.evaluate(binpath, cases, tier)

    known = [k for k in load_known() if k["property"] == pid]
    open_known = {k["class_id"]: k for k in known if k["status"] == "open"}
    sigs = set()
    for r in results:
        s = prop.signature(r["case"], r["out"])
        if s is not None:
            sigs.add(s if isinstance(s, str) else json.dumps(s, sort_keys=True, default=str))
    disagreements = [r for r in results if not r["agree"]]
    spec_fail_unknown = [r for r in results if r["agree"] and not r["spec"] and (r["known"] is None or r["known"] not in open_known)]
    spec_fail_known = [r for r in results if not r["spec"] and r["known"] is not None and r["known"] in open_known]

    violations = []
    # a spec failure (on the implementation's own output) outside every open known class
    bad_spec = [r for r in results if not r["spec"] and (r["known"] is None or r["known"] not in open_known)]
    ctx = dict(tier=tier, seed=seed, rng=rng, binpath=binpath, coverage={})
    if bad_spec:
        r = prop.shrink_result(binpath, bad_spec[0], tier)
        path = write_replay(prop, "spec", dict(
            what="the executable form of the property (spec_ok) is false on the implementation's output for this case",
            case=r["case"], impl_out=r["out"], agrees_with_model=r["agree"],
            model_out=model_output(pid, prop.coq_case(r["case"]), prop.exec_mod), seed=seed))
        violations.append("VIOLATION property=%s replay=%s" % (pid, path))
    elif disagreements:
        # correspondence broken; search (second, directed round) for a failing input
        found = None
        near = []
        for r in disagreements[:20]:
            near += prop.shrink(r["case"])[:50]
        near += prop.gen(rng.fork(), min(n, 2000))
        if near:
            rs2 = prop.evaluate(binpath, near, tier, tag="search")
            for x in rs2:
                if not x["spec"] and (x["known"] is None or x["known"] not in open_known):
                    found = x
                    break
        if found is not None:
            r = prop.shrink_result(binpath, found, tier)
            path = write_replay(prop, "spec", dict(
                what="correspondence broke; directed search found an input on which spec_ok is false on the implementation's output",
                case=r["case"], impl_out=r["out"], agrees_with_model=r["agree"],
                model_out=model_output(pid, prop.coq_case(r["case"]), prop.exec_mod), seed=seed))
            violations.append("VIOLATION property=%s replay=%s" % (pid, path))
        else:
            r = prop.shrink_result(binpath, disagreements[0], tier)
            path = write_replay(prop, "corr", dict(
                what="implementation and Coq model disagree on this case; the property theorems are about the model, so the property is no longer shown to hold for the implementation. spec_ok is true on every implementation output explored.",
                broken="correspondence %s/%s.v run_case vs harness %s (theorems in %s/Properties.v no longer apply)" % (pid, prop.exec_mod, prop.binname, pid),
                case=r["case"], impl_out=r["out"],
                model_out=model_output(pid, prop.coq_case(r["case"]), prop.exec_mod), seed=seed,
                disagreeing_cases=len(disagreements)))
            violations.append("VIOLATION property=%s replay=%s no-failing-input-found" % (pid, path))

    for kind, desc, obj in prop.extra_checks(ctx):
        path = write_replay(prop, kind, dict(what=desc, **obj))
        suffix = " no-failing-input-found" if obj.get("no_failing_input") else ""
        violations.append("VIOLATION property=%s replay=%s%s" % (pid, path, suffix))

    # known findings: print one line per open entry whose witness still reproduces
    known_lines = []
    for cid, k in open_known.items():
        hits = [r for r in results if (not r["spec"]) and r["known"] == cid]
        if hits:
            known_lines.append("KNOWN-FINDING: property=%s %s (%s; reproduced on %d case(s) this run)" % (pid, k["id"], k["what"], len(hits)))
        else:
            # an open finding whose witness no longer fails is not an error (the defect may have been fixed)
            pass

    cov = {
        "obligations": obligations, "discharged": discharged,
        "checker_cmd": "make -f Makefile.coq %s/Properties.vo && coqc %s/Pins.v (Check-pinned statements + Print Assumptions)%s" % (pid, pid, "; coqchk -o" if coqchk else ""),
        "trusted_base": BASE_TRUSTED + list(prop.trusted_extra),
        "print_assumptions": assum_text.strip()[-4000:],
        "evaluations": len(results),
        "distinct_nontrivial": len(sigs),
        "rule": prop.rule,
        "traces_validated_against_impl": len(results),
        "corpus_cases": len(corpus_cases),
        "disagreements": len(disagreements),
        "spec_failures_outside_known_classes": len(bad_spec),
        "spec_failures_in_open_known_classes": len(spec_fail_known),
        "samples": [dict(case=r["case"], impl_out=r["out"]) for r in results[len(corpus_cases):len(corpus_cases) + 3]] or
                   [dict(case=r["case"], impl_out=r["out"]) for r in results[:3]],
    }
    if coqchk:
        cov["coqchk"] = coqchk
    cov.update(ctx["coverage"])
    write_evidence(prop, tier, seed, cov, time.time() - t0, len(violations))
    for l in known_lines:
        print(l)
    for v in violations:
        print(v)
    print("%s: %d theorems pinned+closed, %d cases (%d distinct non-trivial), %d disagreements, %d spec failures, %.1fs" %
          (pid, discharged, len(results), len(sigs), len(disagreements), len(bad_spec), time.time() - t0))
    return 1 if violations else 0
