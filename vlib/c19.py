"""C19 — DebuggingRecorder snapshots: histories of Describe / Register / Upd / Snapshot over one or two
recorder instances (each installed locally on its own harness thread)."""
from .core import Prop, cq_N, cq_Z, cq_list, cq_opt, cq_bytes, cq_bool

KIND = {"c": "Counter", "g": "Gauge", "h": "Histogram"}
NAMES = ["a", "b", "ab", "a.b", "", "é"]
LNAMES = ["k", "l", "m", "kk", "", "n0", "n1", "n2", "n3", "n4", "n5"]
LVALS = ["", "v", "w", "vv", "k"]
DESCS = ["", "d", "e", "de", "some text"]
NUNITS = 17
NSTYLES = 7
U64 = (1 << 64) - 1
PANIC_NAME = "panic"
BAD_NUMBER = 1 << 62


def cq_key(name, labels, style):
    return "{| kname := %s; klabels := %s; kstyle := %s |}" % (
        cq_bytes(name), cq_list(["(%s, %s)" % (cq_bytes(k), cq_bytes(v)) for k, v in labels]), cq_N(style))


def hexs(s):
    return s.encode("utf-8").hex()


class C19(Prop):
    pid = "C19"
    pkg = "hcore"
    binname = "c19"
    quick_cases = 2000
    thorough_cases = 20000
    shard = 150
    rule = ("random histories (1..45 ops, plus occasional bursts of 65..140 records into one histogram to cross bucket "
            "block boundaries) of Describe/Register/Upd/Snapshot over one (60%) or two recorder instances; 2..4 base "
            "keys over 6 names x 0..4 (sometimes 9) labels with distinct label names (two-label keys sometimes repeat a name), each registration a random "
            "permutation of the labels and one of 7 construction styles (owned, static, static labels, clone, "
            "with_extra_labels, Arc-shared strings, clone of an unhashed static key), same names across the three kinds, "
            "variants differing in one label value; describes of registered and of never-registered names, with and "
            "without unit; counter values incl. wrap at 2^64 and absolutes below/above the current value; snapshots "
            "taken on the main thread or on the recorder's own thread; a case is non-trivial if some snapshot has at "
            "least one entry; distinct = distinct (history, outputs). Plus 6 (thorough: 72) free-running stress rounds "
            "STRESS <threads> <histograms> <values per thread> <paced snapshots> and 8 (thorough: 48) registration-race rounds "
            "REGRACE <threads> <fresh keys> <concurrent snapshots>, see level_note")
    design_ref = "DESIGN.md 4 C19"
    technique = ("Coq proof: refinement of a map-based model of DebuggingRecorder/Snapshotter to declarative per-metric "
                 "functions of the history, for all histories over two recorder instances; differential correspondence "
                 "against the real DebuggingRecorder installed with with_local_recorder on harness threads; free-running multi-threaded stress "
                 "(record vs snapshot; concurrent first registration of the same key vs update vs snapshot) judged by exactly-once / bounded-loss / exact totals")
    level_text = ("Theorems (Coq, all histories of describe/register/update/snapshot operations over two recorder instances, any keys, "
                  "labels, values): the model of DebuggingRecorder (seen/metadata IndexMaps, one registry map per kind keyed by key "
                  "equality class, atomics, bucket as a bag) produces exactly the snapshots given by declarative functions of the "
                  "history (C19_model_meets_spec): listed metrics = registered (kind,key) classes, each once, first registration's key "
                  "object and order, described-only metrics absent; counter/gauge = fold of the updates addressed to the class; "
                  "histogram = values recorded since the previous snapshot, and over a whole history every recorded value appears in "
                  "exactly one snapshot (the next one) or is still pending; description = latest, unit = latest given; a recorder's "
                  "snapshots depend only on the operations issued to it. The model is tied to /repo by running the real "
                  "DebuggingRecorder and the model on the same generated histories each run (histogram values compared as bags). "
                  "Concurrent use (C19_conc_*, coq/C19/Conc*.v): an interleaving model on Common/Interleave.v -- threads of register / update / "
                  "snapshot operations on one recorder, atomic steps track (seen.insert), get_or_create, one update (RMW or bucket push), collect "
                  "handles, clone seen, one load or one drain per visited key, return -- for which, for EVERY schedule, any number of threads and "
                  "operations: per histogram the lists shown by its successive drains followed by what is still in the bucket are exactly the values "
                  "whose record step happened, each once, in step order (conservation; no duplicate, no invention); a drain shows exactly what was "
                  "recorded after the previous drain of that key; a counter/gauge reading is the fold of the updates whose step preceded the load; "
                  "every snapshot entry is the value of such a step; a key whose get_or_create step precedes a snapshot's first step is listed by "
                  "it, no two entries are equal keys, entries are in first-registration (track-step) order.")
    level_note = ("The model tied to the code by differential execution is the SEQUENTIAL one (operations issued one at a time). The interleaving "
                  "model (Conc*.v) is a SEPARATE model at the granularity of the code's correctness argument and ASSUMES two facts it does not prove: "
                  "(i) from C06, Registry::get_or_create_* is atomic and hands every caller the one storage per (kind, key), never replaced (so a "
                  "handle is identified with its key); (ii) from C05, AtomicBucket push and clear_with are linearizable -- which C05 proves only "
                  "OUTSIDE its open late-claim class: in the code a push that loaded the tail before a concurrent clear_with detached it can be "
                  "lost, so C19_conc_conservation holds for the code only up to those losses (at most one in-flight record per recorder thread per "
                  "drain; reported as C19-concurrent-drain-inherits-C05-late-claim). It also takes the three per-kind handle collections of "
                  "snapshot() as one step and omits describe/metadata. There are no yield points inside DebuggingRecorder and no schedule replay: "
                  "like C11's Wake.v, this model is tied to the code by the two free-running stress engines only, which sample schedules. "
                  "Concurrent record-vs-snapshot on the code: a free-running stress engine (real threads, no scheduler; 1-3 recorder threads "
                  "recording distinct tagged values into 1-2 histograms of one recorder while the main thread takes 20-50 paced snapshots, "
                  ">= 2.6 million values per quick run) judged by the property: a value shown twice, a value never recorded, or a wrong "
                  "final counter/gauge is always a violation; values never shown are tolerated only up to recorder threads x histograms x "
                  "snapshots taken during recording, which is what the open finding C05-late-claim (bucket.rs) can explain, and are then printed "
                  "as the known finding C19-concurrent-drain-inherits-C05-late-claim; losses above that bound are a violation (a non-atomic "
                  "data()+clear() drain loses thousands per round against bounds of 21..306). A second free-running engine races REGISTRATION: "
                  "2-4 threads released together by a spin barrier perform the first registration of the same fresh key (3000 keys per round, "
                  "counter/gauge/histogram in rotation, each thread building the key its own way or using the macros) and update through the handle "
                  "they were given, with snapshots after the join and, in half of the rounds, also during the rounds; every completed update must be "
                  "shown: counters and gauges exactly (nothing excused), histogram values exactly once with no loss excused when no snapshot ran "
                  "concurrently and at most threads x concurrent snapshots otherwise; plus listing, first-registration order and monotone counters. "
                  "The proof-side fact this rests on is C06's theorem (Registry::get_or_create_* hands every caller the one storage per kind and key, "
                  "for every schedule); the model here takes it as its registry abstraction and this engine is its test-side tie through "
                  "DebuggingRecorder. Both stress engines sample schedules, they prove nothing. Key equality is modelled as equality of (name, sorted labels); that this is what Key::eq/Hash compute is C03's "
                  "theorem and is exercised here only for keys whose label names are distinct (or that have at most two labels). The order of "
                  "histogram values inside one snapshot is not modelled (bag comparison).")
    assumptions = [
        "gauge and histogram values are integer-valued f64 of magnitude < 2^53 (exact; generator keeps |values| <= 2^40 and <= 200 ops), so Z arithmetic stands for f64 arithmetic; no NaN/-0.0/fractions",
        "label names are distinct within a key of three or more labels (for such keys, and for all keys of at most two labels, Key::eq is equality up to label order; repeated label names in longer keys are C03's case)",
        "theorems and differential cases: operations are issued one at a time (the harness waits for each to complete); concurrent record/snapshot is only sampled by the free-running stress engine",
        "stress engine: a loss of at most one in-flight record per recorder thread per drained bucket is attributed to the open finding C05-late-claim",
        "histogram values of one snapshot are compared as a multiset (clear_with yields blocks newest-first)",
        "strings are valid UTF-8 and compared as byte sequences",
    ]
    trusted_extra = [
        "indexmap::IndexMap, hashbrown/std HashMap, crossbeam-epoch inside Registry/AtomicBucket (exercised, modelled as association lists / a bag)",
        "metrics::with_local_recorder / with_recorder dispatch (C01's subject) used to reach the recorder from the harness thread",
    ]

    # ------------------------------------------------------------------ free-running stress
    STRESS_ROUNDS = [(1, 1, 300000, 30), (2, 2, 200000, 40), (3, 1, 150000, 25), (3, 2, 200000, 50),
                     (2, 1, 250000, 20), (1, 2, 400000, 35)]

    @staticmethod
    def judge_stress(line):
        """-> (violations: list of str, within_bound_losses, fields).  The unchanged code cannot duplicate
        or invent a value (a block is detached by exactly one successful CAS and read once), and can
        lose only through C05-late-claim: per drain of one bucket at most the one push each recorder
        thread has in flight.  bound = recorder threads x histograms x snapshots begun while a
        recorder thread was still running."""
        if not line.startswith("stress threads="):
            return ["stress driver failed: " + line[:300]], 0, {}
        f = dict(kv.split("=", 1) for kv in line.split()[1:])
        g = {k: int(v) for k, v in f.items() if v.lstrip("-").isdigit()}
        bad = []
        bound = g["threads"] * g["hists"] * g["drains_during"]
        if g["dups"] > 0:
            bad.append("%d histogram value(s) shown more than once (each value must appear in exactly one snapshot)" % g["dups"])
        if g["invented"] > 0:
            bad.append("%d value(s) shown that were never recorded into that histogram" % g["invented"])
        if g["never_empty"] > 0:
            bad.append("histograms still yield values (%d) in the 6th snapshot after all recorders stopped" % g["never_empty"])
        if g["lost"] > bound:
            bad.append("%d of %d recorded values were never shown by any snapshot; the inherited C05-late-claim window explains at most "
                       "%d (= %d recorder threads x %d histograms x %d snapshots taken during recording)"
                       % (g["lost"], g["recorded"], bound, g["threads"], g["hists"], g["drains_during"]))
        if f["counter"] != f["counter_expect"]:
            bad.append("counter shows %s after %s concurrent increments of 1" % (f["counter"], f["counter_expect"]))
        if f["gauge"] == "-" or float(f["gauge"]) != float(f["gauge_expect"]):
            bad.append("gauge shows %s after concurrent increments summing to %s" % (f["gauge"], f["gauge_expect"]))
        return [b for b in bad if b], (g["lost"] if g["lost"] <= bound else 0), g

    REGRACE_ROUNDS = [(4, 3000, 0), (4, 3000, 20), (2, 3000, 0), (3, 3000, 15), (4, 3000, 0), (3, 3000, 0),
                      (4, 3000, 10), (2, 3000, 12)]

    @staticmethod
    def judge_regrace(line):
        """-> (violations, within_bound_histogram_losses, fields).  Registration race: every thread is handed a handle
        by register_* for the same fresh key and updates through it; every completed update must be shown.
        Counters and gauges: nothing is excused (final value = sum of all threads' updates, exactly).
        Histograms: no value twice, none invented; with no snapshot concurrent to the recording (csnaps=0)
        no loss at all is excused; with concurrent snapshots the inherited C05-late-claim can explain at
        most threads x snapshots taken during the rounds (the barrier keeps all threads on ONE key at a
        time and a snapshot drains each bucket once, so per snapshot only the bucket of the round in
        progress can have pushes in flight, one per thread)."""
        if not line.startswith("regrace threads="):
            return ["registration-race driver failed: " + line[:300]], 0, {}
        f = dict(kv.split("=", 1) for kv in line.split()[1:])
        g = {k: int(v) for k, v in f.items() if v.lstrip("-").isdigit()}
        T = g["threads"]
        bad = []
        if g["counters_bad"] > 0:
            bad.append("%d counter(s) registered by %d threads at once do not show the sum of the increments made through the "
                       "handles register_counter returned (examples %s)" % (g["counters_bad"], T, f["ex"]))
        if g["gauges_bad"] > 0:
            bad.append("%d gauge(s) registered by %d threads at once do not show the sum of the increments made through the "
                       "handles register_gauge returned (examples %s)" % (g["gauges_bad"], T, f["ex"]))
        if g["missing"] > 0 or g["listed_twice"] > 0:
            bad.append("%d registered key(s) have no entry and %d have two in the snapshot taken after all threads finished"
                       % (g["missing"], g["listed_twice"]))
        if g["order_bad"] > 0:
            bad.append("%d adjacent entries are not in first-registration order (rounds are barrier-separated)" % g["order_bad"])
        if g["prefix_missing"] > 0:
            bad.append("%d key(s) whose registration had completed before a concurrent snapshot began were not listed by it (%s)"
                       % (g["prefix_missing"], f["ex"]))
        if g["regress"] > 0:
            bad.append("%d counter reading(s) lower than in an earlier snapshot or above the final total (%s)" % (g["regress"], f["ex"]))
        if g["hist_dups"] > 0:
            bad.append("%d histogram value(s) shown more than once" % g["hist_dups"])
        if g["hist_invented"] > 0:
            bad.append("%d value(s)/entries shown that were never recorded/registered" % g["hist_invented"])
        if g["never_empty"] > 0:
            bad.append("histograms still yield values (%d) in the 6th snapshot after all threads stopped" % g["never_empty"])
        bound = T * g["snaps_during"]
        if g["hist_lost"] > bound:
            bad.append("%d of %d values recorded through handles returned by concurrent first registrations of a histogram were never "
                       "shown by any snapshot; the inherited C05-late-claim window explains at most %d (= %d threads x %d snapshots "
                       "taken while the rounds ran) (examples %s)" % (g["hist_lost"], g["hist_values"], bound, T, g["snaps_during"], f["ex"]))
        return bad, (g["hist_lost"] if g["hist_lost"] <= bound else 0), g

    def extra_checks(self, ctx):
        """free-running stress (real threads, no scheduler): recorder threads record distinct tagged values
        into the histograms of one DebuggingRecorder while the main thread snapshots; judged by the
        property (no value twice, none invented, counters/gauges exact) with losses tolerated only up
        to what the open finding C05-late-claim can explain"""
        from .core import run_impl
        reps = 1 if ctx["tier"] == "quick" else 12
        rounds = [r for _ in range(reps) for r in self.STRESS_ROUNDS]
        lines = ["STRESS %d %d %d %d" % r for r in rounds]
        rc, outs, err = run_impl(ctx["binpath"], lines, timeout=900)
        cov = ctx["coverage"]
        viols, within, recorded, drains, worst, under = [], 0, 0, 0, 0, 0
        if rc != 0 or len(outs) != len(lines):
            return [("stress", "stress driver failed (rc=%s, %d lines for %d rounds)" % (rc, len(outs), len(lines)),
                     dict(command="echo '%s' | .cache/target/release/c19" % lines[0], stderr=err[-500:]))]
        for ln, o in zip(lines, outs):
            bad, w, g = self.judge_stress(o)
            within += w
            worst = max(worst, w)
            recorded += g.get("recorded", 0)
            drains += g.get("drains_during", 0)
            under += 1 if g.get("paced", 0) < 10 else 0
            for b in bad:
                viols.append((ln, o, b))
        cov["stress_rounds"] = len(lines)
        cov["stress_values_recorded"] = recorded
        cov["stress_snapshots_during_recording"] = drains
        cov["losses_within_late_claim_bound"] = within
        cov["stress_rounds_with_fewer_than_10_concurrent_snapshots"] = under
        cov["stress_results"] = outs[:3]
        # ---- second engine: registration racing registration / update / snapshot
        reps2 = 1 if ctx["tier"] == "quick" else 6
        lines2 = ["REGRACE %d %d %d" % r for _ in range(reps2) for r in self.REGRACE_ROUNDS]
        rc2, outs2, err2 = run_impl(ctx["binpath"], lines2, timeout=1800)
        if rc2 != 0 or len(outs2) != len(lines2):
            return [("stress", "registration-race driver failed (rc=%s, %d lines for %d rounds)" % (rc2, len(outs2), len(lines2)),
                     dict(command="echo '%s' | .cache/target/release/c19" % lines2[0], stderr=err2[-500:]))]
        rviols, rwithin, rkeys, rsnaps = [], 0, 0, 0
        for ln, o in zip(lines2, outs2):
            bad, w, g = self.judge_regrace(o)
            rwithin += w
            rkeys += g.get("keys", 0)
            rsnaps += g.get("snaps_during", 0)
            for b in bad:
                rviols.append((ln, o, b))
        cov["regrace_rounds"] = len(lines2)
        cov["regrace_keys_first_registered_concurrently"] = rkeys
        cov["regrace_snapshots_during_registration"] = rsnaps
        cov["regrace_histogram_losses_within_late_claim_bound"] = rwithin
        cov["regrace_results"] = outs2[:2]
        if (within or rwithin) and not viols and not rviols:
            print("KNOWN-FINDING: property=C19 C19-concurrent-drain-inherits-C05-late-claim (concurrent record vs snapshot: inherits "
                  "C05-late-claim, bounded by recorders x drains; %d of %d values recorded during %d concurrent snapshots were never shown, "
                  "worst round %d, every round within its bound; registration-race rounds: %d histogram value(s) within their bound; "
                  "no duplicates)" % (within, recorded, drains, worst, rwithin))
        if viols:
            ln, o, b = viols[0]
            return [("stress", "free-running stress of DebuggingRecorder (recorder threads recording while the main thread snapshots) "
                     "violated the property: " + b,
                     dict(command="echo '%s' | .cache/target/release/c19" % ln, observed=[v[1] for v in viols[:5]],
                          judged=[v[2] for v in viols[:5]]))]
        if rviols:
            ln, o, b = rviols[0]
            return [("stress", "registration race on one DebuggingRecorder (threads released together perform the first registration of the "
                     "same fresh key and update through the handle they were given; snapshots after and during) violated the property: " + b,
                     dict(command="echo '%s' | .cache/target/release/c19" % ln, observed=[v[1] for v in rviols[:5]],
                          judged=[v[2] for v in rviols[:5]],
                          note="rests on C06 (get_or_create hands every caller the one storage per key, every schedule); this engine is its test-side tie through DebuggingRecorder"))]
        return []

    # ------------------------------------------------------------------ generator
    def _basekey(self, rng):
        name = rng.weighted([(5, NAMES[0]), (3, NAMES[1]), (2, rng.pick(NAMES))])
        nl = rng.weighted([(3, 0), (3, 1), (4, 2), (3, 3), (1, 4), (1, 9)])
        lns = rng.shuffle(LNAMES)[:nl]
        if nl == 2 and rng.chance(1, 5):
            lns = [lns[0], lns[0]]          # a repeated label name (two-label keys compare as multisets)
        labels = [[ln, rng.pick(LVALS)] for ln in lns]
        return [name, labels]

    def gen(self, rng, n):
        cases = []
        for ci in range(n):
            two = rng.chance(2, 5)
            nbase = rng.range(1, 4)
            base = [self._basekey(rng) for _ in range(nbase)]
            # a variant: same name and label names as base[0], one value changed / one label dropped
            if base[0][1] and rng.chance(1, 2):
                nm, ls = base[0]
                ls2 = [list(x) for x in ls]
                if rng.chance(1, 2):
                    ls2[0][1] = ls2[0][1] + "x"
                else:
                    ls2 = ls2[1:]
                base.append([nm, ls2])
            if rng.chance(1, 3):
                base.append([base[0][0], []])
            names = sorted({b[0] for b in base})
            handles = {0: [], 1: []}
            ops = []
            nops = rng.range(1, 45)
            burst_left = 1 if rng.chance(1, 25) else 0
            for _ in range(nops):
                r = rng.below(2) if two else 0
                x = rng.below(100)
                if x < 14:
                    k = rng.pick("cgh")
                    nm = rng.pick(names) if rng.chance(5, 6) else rng.pick(NAMES)
                    unit = None if rng.chance(1, 2) else rng.below(NUNITS)
                    ops.append(["D", r, k, rng.below(2), nm, unit, rng.pick(DESCS)])
                elif x < 38 or not handles[r]:
                    k = rng.weighted([(3, "c"), (3, "g"), (4, "h")])
                    nm, ls = rng.pick(base)
                    ops.append(["R", r, k, rng.below(NSTYLES), nm, rng.shuffle(ls)])
                    handles[r].append(k)
                elif x < 80:
                    h = rng.below(len(handles[r]))
                    k = handles[r][h]
                    if k == "c":
                        u = rng.pick(["ci", "ci", "ca"])
                        v = rng.weighted([(6, rng.below(10)), (1, 0), (1, U64), (1, U64 - rng.below(5)), (1, 1 << 63), (1, rng.below(1 << 40))])
                    elif k == "g":
                        u = rng.pick(["gs", "gi", "gd"])
                        v = rng.weighted([(6, rng.range(0, 20) - 10), (1, 0), (1, 1 << 40), (1, -(1 << 40)), (1, rng.below(1 << 32))])
                    else:
                        u = "hr"
                        v = rng.weighted([(7, rng.range(0, 6) - 2), (1, 1 << 40), (1, -(1 << 40))])
                    ops.append(["U", r, h, u, v])
                    if k == "h" and burst_left:
                        burst_left = 0
                        for j in range(rng.range(65, 140)):
                            ops.append(["U", r, h, "hr", j % 50])
                else:
                    ops.append(["S", r, rng.pick("mw")])
            if not any(o[0] == "S" for o in ops) or rng.chance(1, 2):
                ops.append(["S", rng.below(2) if two else 0, "m"])
            cases.append(dict(ops=ops))
        return cases

    # ------------------------------------------------------------------ implementation side
    def impl_line(self, c):
        toks = []
        for o in c["ops"]:
            if o[0] == "D":
                toks.append("D:%d:%s:%d:%s:%s:%s" % (o[1], o[2], o[3], hexs(o[4]), "-" if o[5] is None else o[5], hexs(o[6])))
            elif o[0] == "R":
                toks.append("R:%d:%s:%d:%s:%s" % (o[1], o[2], o[3], hexs(o[4]), ",".join("%s=%s" % (hexs(k), hexs(v)) for k, v in o[5])))
            elif o[0] == "U":
                toks.append("U:%d:%d:%s:%d" % (o[1], o[2], o[3], o[4]))
            else:
                toks.append("S:%d:%s" % (o[1], o[2]))
        return " ".join(toks)

    def parse_out(self, c, line):
        toks = line.split(" ")
        if toks[0] != "ok":
            return dict(panic=line[:300])
        snaps = []

        def num(s):
            try:
                return int(s)
            except ValueError:
                return BAD_NUMBER
        for t in toks[1:]:
            r = int(t[1])
            body = t[3:-1]
            es = []
            if body:
                for e in body.split("|"):
                    k, nm, ls, u, d, v = e.split(",")
                    labels = [p.split("=") for p in ls.split(";")] if ls else []
                    if v[0] == "c":
                        val = ["c", int(v[1:])]
                    elif v[0] == "g":
                        val = ["g", num(v[1:])]
                    else:
                        val = ["h", [num(x) for x in v[1:].split("/")] if len(v) > 1 else []]
                    es.append([k, nm, labels, None if u == "-" else int(u), None if d == "-" else d, val])
            snaps.append([r, es])
        return dict(snaps=snaps)

    # ------------------------------------------------------------------ Coq side
    def coq_case(self, c):
        xs = []
        for o in c["ops"]:
            if o[0] == "D":
                t = "Describe %s %s %s %s" % (KIND[o[2]], cq_bytes(o[4]), cq_opt(None if o[5] is None else cq_N(o[5])), cq_bytes(o[6]))
            elif o[0] == "R":
                t = "Register %s %s" % (KIND[o[2]], cq_key(o[4], o[5], o[3]))
            elif o[0] == "U":
                u = {"ci": "CInc", "ca": "CAbs", "gs": "GSet", "gi": "GInc", "gd": "GDec", "hr": "HRec"}[o[3]]
                v = cq_N(o[4]) if o[3][0] == "c" else cq_Z(o[4])
                t = "Upd %s (%s %s)" % (cq_N(o[2]), u, v)
            else:
                t = "Snapshot"
            xs.append("(%s, %s)" % (cq_bool(o[1] == 1), t))
        return cq_list(xs)

    def coq_out(self, c, out):
        if "panic" in out:
            e = "{| e_kind := Counter; e_key := %s; e_unit := None; e_desc := None; e_val := VC 0%%N |}" % cq_key(PANIC_NAME, [], 0)
            return "[(true, [%s])]" % e
        snaps = []
        for r, es in out["snaps"]:
            xs = []
            for k, nm, labels, u, d, val in es:
                key = "{| kname := (hx \"%s\"); klabels := %s; kstyle := 0%%N |}" % (
                    nm, cq_list(["((hx \"%s\"), (hx \"%s\"))" % (a, b) for a, b in labels]))
                if val[0] == "c":
                    v = "VC %s" % cq_N(val[1])
                elif val[0] == "g":
                    v = "VG %s" % cq_Z(val[1])
                else:
                    v = "VH %s" % cq_list([cq_Z(z) for z in val[1]])
                xs.append("{| e_kind := %s; e_key := %s; e_unit := %s; e_desc := %s; e_val := %s |}" % (
                    KIND[k], key, cq_opt(None if u is None else cq_N(u)), cq_opt(None if d is None else '(hx "%s")' % d), v))
            snaps.append("(%s, %s)" % (cq_bool(r == 1), cq_list(xs)))
        return cq_list(snaps)

    def signature(self, c, out):
        if "panic" in out:
            return ["panic", c]
        if not any(es for _, es in out["snaps"]):
            return None
        return [c, out]

    # ------------------------------------------------------------------ shrinking
    @staticmethod
    def _drop(ops, i):
        o = ops[i]
        rest = ops[:i] + ops[i + 1:]
        if o[0] != "R":
            return rest
        r = o[1]
        hnum = sum(1 for p in ops[:i] if p[0] == "R" and p[1] == r)
        out = []
        for p in rest:
            if p[0] == "U" and p[1] == r:
                if p[2] == hnum:
                    continue
                if p[2] > hnum:
                    p = [p[0], p[1], p[2] - 1, p[3], p[4]]
            out.append(p)
        return out

    def shrink(self, c):
        ops = c["ops"]
        cands = []
        if any(o[1] == 1 for o in ops):
            cands.append(dict(ops=[o for o in ops if o[1] == 0]))
            cands.append(dict(ops=[[o[0], 0] + o[2:] for o in ops if o[1] == 1]))
        # drop runs of updates, then single ops
        n = len(ops)
        if n > 8:
            for a in range(0, n, max(n // 8, 1)):
                chunk = [i for i in range(a, min(a + max(n // 8, 1), n)) if ops[i][0] in ("U", "D", "S")]
                if chunk:
                    cands.append(dict(ops=[o for i, o in enumerate(ops) if i not in chunk]))
        for i in range(n):
            cands.append(dict(ops=self._drop(ops, i)))
        for i, o in enumerate(ops):
            if o[0] == "U" and o[4] not in (0, 1):
                cands.append(dict(ops=ops[:i] + [o[:4] + [1]] + ops[i + 1:]))
            if o[0] == "R" and o[3] != 0:
                cands.append(dict(ops=ops[:i] + [o[:3] + [0] + o[4:]] + ops[i + 1:]))
            if o[0] == "R" and len(o[5]) > 2 and False:
                pass
            if o[0] == "S" and o[2] != "m":
                cands.append(dict(ops=ops[:i] + [["S", o[1], "m"]] + ops[i + 1:]))
            if o[0] == "D" and o[3] != 0:
                cands.append(dict(ops=ops[:i] + [o[:3] + [0] + o[4:]] + ops[i + 1:]))
        return cands


PROP = C19()
