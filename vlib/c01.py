"""C01 — programs of guard / scope / emission operations on 1-4 threads against the real
set_default_local_recorder / with_local_recorder / with_recorder / set_global_recorder and every macro form."""
import json
import os
import re

from . import core
from .core import Prop, MachineryBroken, cq_N, cq_list, cq_opt, cq_bool, cq_bytes
from .c01_forms import FORMS, UNITS, COQ_CALLS, uses

UNIT_IX = {s: i for i, (_, s) in enumerate(UNITS)}
NAMES = ["req", "a", "", "nämé", "lat.ms", "x y", "const_name", "q_total"]
VALS = ["v", "", "http", "é", "200", "k"]
KEYS = ["k", "a", "b", "", "svc"]
DESCS = ["", "d", "some text", "bytes → out"]


def analyse(ops):
    """mirror of coq/C01: lower + the scope machine.  -> (wf, non_lifo, has_forget)"""
    nxt = 0
    frames = {}
    fgids = set()
    scopes = []          # newest first: [g, t, r, forgot]
    live = {}
    glob = None
    wf, nonlifo, forget = True, False, False

    def holds(t, g):
        return any(s[1] == t and s[0] == g and not s[3] for s in scopes)

    def top(t):
        for s in scopes:
            if s[1] == t:
                return s
        return None

    def drop(t, g):
        nonlocal wf, nonlifo
        tp = top(t)
        if tp is None or tp[0] != g:
            nonlifo = True
        if not holds(t, g):
            wf = False
            return
        for i, s in enumerate(scopes):
            if s[1] == t and s[0] == g:
                del scopes[i]
                break

    for o in ops:
        k = o[0]
        if k in ("I", "W"):
            t, r = o[1], o[2]
            if not live.get(r, True):
                wf = False
            scopes.insert(0, [nxt, t, r, False])
            if k == "W":
                frames.setdefault(t, []).insert(0, nxt)
                fgids.add(nxt)
            nxt += 1
        elif k == "X":
            fs = frames.get(o[1], [])
            if fs:
                drop(o[1], fs.pop(0))
        elif k == "P":
            fs = frames.get(o[1], [])
            frames[o[1]] = []
            for g in fs:
                drop(o[1], g)
        elif k == "D":
            if o[2] not in fgids:
                drop(o[1], o[2])
        elif k == "F":
            if o[2] not in fgids:
                forget = True
                if not holds(o[1], o[2]):
                    wf = False
                else:
                    for s in scopes:
                        if s[1] == o[1] and s[0] == o[2]:
                            s[3] = True
                            break
        elif k == "B":
            r = o[1]
            if any((not s[3]) and s[2] == r for s in scopes) or glob == r:
                wf = False
            live[r] = False
        elif k == "G":
            if not live.get(o[1], True):
                wf = False
            if glob is None:
                glob = o[1]
    return wf, nonlifo, forget


class Gen:
    """incremental generator of well-formed programs (tracks what the next operation may be)"""

    def __init__(self, rng, nthreads, nrec, lifo):
        self.rng, self.nt, self.nr, self.lifo = rng, nthreads, nrec, lifo
        self.ops = []
        self.nxt = 0
        self.stack = {t: [] for t in range(nthreads)}   # alive guards of t, innermost first: (gid, rid, is_frame)
        self.leaked = []                                  # forgotten (gid, rid)
        self.live = {r: True for r in range(nrec)}
        self.glob = None

    def emit(self, t=None):
        rng = self.rng
        t = rng.below(self.nt) if t is None else t
        site = rng.below(len(FORMS))
        a = dict(n=rng.pick(NAMES), v=[rng.pick(VALS), rng.pick(VALS)], d=rng.pick(DESCS), u=rng.below(len(UNITS)),
                 l=[[rng.pick(KEYS), rng.pick(VALS)] for _ in range(rng.weighted([(3, 0), (4, 1), (3, 2), (1, 3)]))])
        self.ops.append(["E", t, site, a])

    def borrowed(self, r):
        return any(x[1] == r for st in self.stack.values() for x in st) or self.glob == r

    def step(self):
        for _ in range(4):
            if self.attempt():
                return
        self.emit()

    def attempt(self):
        rng = self.rng
        t = rng.below(self.nt)
        st = self.stack[t]
        k = rng.weighted([(5, "I"), (4, "W"), (6 if self.lifo else 9, "D"), (4, "X"), (1, "P"), (3, "B"), (7, "E"),
                          (0 if self.lifo else 3, "F")])
        liverecs = [r for r in range(self.nr) if self.live[r]]
        if k in ("I", "W"):
            if not liverecs or sum(len(s) for s in self.stack.values()) >= 8:
                return False
            r = rng.pick(liverecs)
            self.ops.append([k, t, r])
            st.insert(0, (self.nxt, r, k == "W"))
            self.nxt += 1
        elif k == "D":
            cands = [x for x in st if not x[2]]
            if self.lifo:
                cands = [st[0]] if st and not st[0][2] else []
            if not cands:
                return False
            x = rng.pick(cands)
            if not self.lifo and len(st) > 1 and rng.chance(1, 2):
                older = [y for y in cands if y is not st[0]]
                if older:
                    x = rng.pick(older)          # an older guard while a younger one is alive
            self.ops.append(["D", t, x[0]])
            st.remove(x)
        elif k == "F":
            cands = [x for x in st if not x[2]]
            if not cands:
                return False
            x = rng.pick(cands)
            self.ops.append(["F", t, x[0]])
            st.remove(x)
            self.leaked.append(x)
        elif k == "X":
            fr = [x for x in st if x[2]]
            if not fr or (self.lifo and not st[0][2]):
                return False
            self.ops.append(["X", t])
            st.remove(fr[0])
        elif k == "P":
            fr = [x for x in st if x[2]]
            if self.lifo and fr:
                # every frame must be above every table guard
                nfr = len(fr)
                if not all(x[2] for x in st[:nfr]):
                    return False
            self.ops.append(["P", t])
            for x in fr:
                st.remove(x)
        elif k == "B":
            cands = [r for r in liverecs if not self.borrowed(r)]
            # prefer ending the borrow of a recorder that was installed at some point
            used = [r for r in cands if any(o[0] in ("I", "W") and o[2] == r for o in self.ops)]
            if not cands or (not used and rng.chance(2, 3)):
                return False
            r = rng.pick(used or cands)
            self.ops.append(["B", r])
            self.live[r] = False
            # a dangling pointer is only visible through an emission: make one likely
            if rng.chance(2, 3):
                self.emit(rng.below(self.nt))
        else:
            self.emit(t)
        return True

    def set_global(self):
        liverecs = [r for r in range(self.nr) if self.live[r]]
        if liverecs:
            r = self.rng.pick(liverecs)
            self.ops.append(["G", r])
            if self.glob is None:
                self.glob = r


def strhex(s):
    return "x" + s.encode("utf-8").hex()


class C01(Prop):
    pid = "C01"
    pkg = "hcore"
    binname = "c01"
    quick_cases = 2000
    thorough_cases = 60000
    shard = 150
    design_ref = "DESIGN.md 4 C01"
    technique = ("Coq proof: refinement of the save/restore-pointer model of LocalRecorderGuard + with_recorder to a scope-list reference "
                 "semantics for every well-formed LIFO program (any threads, depth, panics), classification of the only two ways out of it; "
                 "differential correspondence: programs of guard/scope/emission operations on 1-4 real threads through every macro form")
    level_text = ("Theorems (Coq, all programs of Install/DropGuard/Forget/EndBorrow/SetGlobal/Emit on any number of threads, with_local_recorder "
                  "closures and panics lowered to them): for programs safe Rust admits whose guards are closed innermost-first and never leaked, the "
                  "model's dispatch log equals the scope semantics (receiver = recorder of the thread's innermost open scope, else global, else nobody; "
                  "payload = what the call site spells) and no entry reaches a recorder whose borrow ended; every emission is logged exactly once to "
                  "tls > global > no-op with the expanded payload; no operation of a thread changes another thread's pointer; dropping a guard restores "
                  "the pointer saved at its installation and, under LIFO, the pointer is the recorder of the innermost open scope; every nesting of "
                  "with_local_recorder closures with emissions, set_global_recorder and panics (no guards handled by the program) lowers to a "
                  "well-formed LIFO program. A dispatch to a "
                  "dead recorder happens only in the two open known classes (non-LIFO drop, mem::forget), each witnessed in Coq and replayed on the "
                  "real code. The model is tied to /repo by running the real functions and all 204 macro call sites on the same programs each run.")
    level_note = ("wf_prog is an assumption about which programs exist; it is enforced by rustc through the signature of "
                  "set_default_local_recorder/LocalRecorderGuard<'a> and checked each run by compiling the negative programs of "
                  "harness/negative/c01 (a negative program that compiles is a VIOLATION). Four representative shapes, not a proof about the type system. "
                  "The use-after-scope itself is replaced by a flag on leaked recorder doubles (no real dangling dereference); the unsafe transmute is "
                  "not modelled. The macro layer is modelled per token class of each argument position (literal / constant expression / computed "
                  "String / label collection), not by parsing macro_rules!; `spelled` (Spec) and `expand` (Model) are two readings of the same "
                  "call-site description, proved equal. Label collections that reorder (maps) are not in the table. A panic is a scripted "
                  "panic_any caught at the worker's top level; guards made by set_default_local_recorder are kept in a per-thread table outside "
                  "all closures, so unwinding drops only with_local_recorder's own guards.")
    rule = ("random well-formed programs (2-29 ops) on 1-4 threads over <=5 recorder doubles, <=8 open guards: 60% generated under the LIFO "
            "discipline (Install/DropGuard/Enter/Exit/Panic nestings), 40% with arbitrary drop order, guards kept past their closure and "
            "mem::forget (about 22% of all programs end up in a known class), EndBorrow usually followed by an emission, ~5% with SetGlobal "
            "(own process), plus 5% directed shapes around the two findings and their LIFO neighbours; every Emit picks one of 204 macro call "
            "sites and small-alphabet arguments (empty strings, non-ASCII, duplicate/unsorted label keys); corpus first; "
            "non-trivial = at least one emission reached a recorder double; distinct = distinct (program, observed log)")
    assumptions = ["a dispatch to a recorder whose borrow ended is observed through the double's cleared in-scope flag, not executed as a real use-after-free",
                   "workers execute the global operation list in order (commands over channels), so the interleaving is the program order",
                   "RecorderOnceCell::set installs only the first recorder (C02)"]
    trusted_extra = ["rustc 1.74.0 borrow/Send checking: wf_prog (no EndBorrow while a live guard borrows the recorder; guard operations only on "
                     "the installing thread) is tied to the code by the compile-fail engine harness/negative/c01 (4 programs that must be "
                     "rejected with E0597/E0515/E0505/E0277 against /repo, 1 positive control), run on every check",
                     "vlib/c01_forms.py: generates both the Rust call-site table (c01_sites.rs) and its Coq description (C01/Sites.v)",
                     "rustc's macro_rules! matching (which arm a call site takes) is exercised by compiling the 204 sites, not modelled",
                     "std::sync::mpsc, std::thread, catch_unwind (exercised, not modelled)"]

    # ------------------------------------------------------------------ generator
    def gen(self, rng, n):
        cases = []
        for i in range(n):
            r = rng.fork()
            lifo = r.chance(6, 10)
            g = Gen(r, r.range(1, 4), r.range(1, 5), lifo)
            nops = r.range(2, 24)
            with_global = r.chance(1, 20)
            gpos = r.below(nops) if with_global else -1
            for j in range(nops):
                if j == gpos:
                    g.set_global()
                g.step()
            if r.chance(1, 2):
                g.emit()
            if with_global and r.chance(1, 4):
                g.set_global()
                g.emit()
            cases.append(dict(ops=g.ops))
        # directed stream: the shapes around the known findings and their LIFO neighbours
        m = max(1, n // 20)
        for i in range(m):
            r = rng.fork()
            t = r.below(2)
            a, b = r.below(3), r.below(3)
            g = Gen(r, 2, 3, False)
            shape = i % 5
            if shape == 0:
                g.ops += [["I", t, a], ["I", t, b], ["D", t, 0], ["D", t, 1]]
            elif shape == 1:
                g.ops += [["I", t, a], ["I", t, b], ["D", t, 1], ["D", t, 0]]
            elif shape == 2:
                g.ops += [["I", t, a], ["F", t, 0]]
            elif shape == 3:
                g.ops += [["W", t, a], ["I", t, b], ["X", t], ["D", t, 1]]
            else:
                g.ops += [["W", t, a], ["W", t, b], ["E", t, r.below(len(FORMS)), dict(n="a", v=["", ""], d="", u=0, l=[])], ["P", t]]
            g.ops.append(["B", a])
            if b != a:
                g.ops.append(["B", b])
            g.emit(t)
            g.emit(1 - t)
            if analyse(g.ops)[0]:
                cases.append(dict(ops=g.ops))
        return cases

    # ------------------------------------------------------------------ implementation side
    # ------------------------------------------------------------------ compile-fail engine
    # wf_prog (Spec.v) says what safe Rust admits: no EndBorrow r while an Alive guard installed r, guard operations only
    # by the owning thread.  In the real crate these facts are enforced by rustc through the signature of
    # set_default_local_recorder / LocalRecorderGuard<'a> (PhantomData<&'a dyn Recorder>, NonNull => !Send), not by any
    # code that runs.  harness/negative/c01 holds programs that violate them; each must be rejected with the error code
    # named in its first line (`// expect: E0597`), and the positive control must compile.
    def negative_dir(self):
        return os.path.join(core.HARNESS, "negative", "c01")

    def negative_programs(self):
        d = os.path.join(self.negative_dir(), "src", "bin")
        out = []
        for f in sorted(os.listdir(d)):
            if f.endswith(".rs"):
                txt = open(os.path.join(d, f), encoding="utf-8").read()
                m = re.match(r"// expect: (\w+)", txt)
                if not m:
                    raise MachineryBroken("negative program %s has no `// expect:` line" % f)
                out.append((f[:-3], m.group(1), txt))
        return out

    def compile_program(self, name):
        env = {"RUSTFLAGS": "--cfg metrics_verif", "CARGO_TARGET_DIR": core.TARGET, "CARGO_NET_OFFLINE": "true"}
        rc, out = core.sh(["cargo", core.TOOLCHAIN, "build", "--offline", "--release", "--bin", name],
                          cwd=self.negative_dir(), timeout=900, env=env)
        return rc, out

    def negative_verdict(self, name):
        """-> (rejected_as_expected: bool, compiler output).  Raises MachineryBroken when the outcome says nothing
        about the property (control does not compile, or a program is rejected for another reason)."""
        progs = {n: (exp, txt) for n, exp, txt in self.negative_programs()}
        if name not in progs:
            raise MachineryBroken("no negative program %s" % name)
        exp = progs[name][0]
        rc, out = self.compile_program(name)
        if exp == "ok":
            if rc != 0:
                raise MachineryBroken("C01 compile-fail engine: the positive control %s does not compile:\n%s" % (name, out[-2500:]))
            return True, out
        if rc == 0:
            return False, out
        if ("error[%s]" % exp) not in out or ("src/bin/%s.rs" % name) not in out:
            raise MachineryBroken("C01 compile-fail engine: %s is rejected, but not with %s in its own source:\n%s" % (name, exp, out[-2500:]))
        return True, out

    def extra_checks(self, ctx):
        vio = []
        n_rej = 0
        progs = self.negative_programs()
        for name, exp, txt in progs:
            ok, out = self.negative_verdict(name)
            if exp != "ok" and ok:
                n_rej += 1
            if not ok:
                vio.append(("compile",
                            "safe Rust now admits a program in which an emission is dispatched after the installing borrow ended "
                            "(or a guard leaves its thread): harness/negative/c01/src/bin/%s.rs, which rustc must reject with %s, "
                            "compiles against /repo; wf_prog no longer describes the programs the crate accepts, so the C01 "
                            "theorems no longer cover every safe program" % (name, exp),
                            dict(case=dict(negative=name), expected_error=exp, program=txt,
                                 build_cmd="cd harness/negative/c01 && RUSTFLAGS='--cfg metrics_verif' cargo +1.74.0 build --offline --release --bin %s" % name)))
        ctx["coverage"]["compile_fail_programs_rejected"] = n_rej
        ctx["coverage"]["compile_fail_programs"] = [n for n, e, _ in progs if e != "ok"]
        ctx["coverage"]["compile_positive_controls"] = [n for n, e, _ in progs if e == "ok"]
        return vio

    def evaluate(self, binpath, cases, tier, tag="cases"):
        neg = [c for c in cases if "negative" in c]
        if neg:
            # replay of a compile-fail violation: spec = "the program is rejected as expected"
            rs = []
            for c in cases:
                if "negative" in c:
                    ok, out = self.negative_verdict(c["negative"])
                    rs.append(dict(case=c, out=out[-1500:], agree=True, spec=ok, known=None))
                else:
                    rs += self.evaluate(binpath, [c], tier, tag)
            return rs
        rs = super().evaluate(binpath, cases, tier, tag)
        for r in rs:
            if r["known"] == 99:
                # the Coq side says this is not a program safe Rust admits: spec_ok is vacuous on it
                raise MachineryBroken("C01 generator/shrinker produced a case that wf_prog rejects: %s" % json.dumps(r["case"]))
        return rs

    def impl_line(self, c):
        toks = []
        for o in c["ops"]:
            k = o[0]
            if k in ("I", "W", "D", "F"):
                toks.append("%s%d:%d" % (k, o[1], o[2]))
            elif k in ("X", "P", "B", "G"):
                toks.append("%s%d" % (k, o[1]))
            else:
                a = o[3]
                toks.append("E%d:%d:%s:%s:%s:%s:%d:%s" % (o[1], o[2], strhex(a["n"]), strhex(a["v"][0]), strhex(a["v"][1]),
                                                        strhex(a["d"]), a["u"], ",".join("%s=%s" % (strhex(k2), strhex(v)) for k2, v in a["l"])))
        return " ".join(toks)

    def parse_out(self, c, line):
        try:
            return json.loads(line)
        except ValueError:
            return {"error": line[:200]}

    # ------------------------------------------------------------------ Coq side
    def coq_case(self, c):
        xs = []
        if "negative" in c:
            return "[]"
        for o in c["ops"]:
            k = o[0]
            if k == "I":
                xs.append("SInstall %d %d" % (o[1], o[2]))
            elif k == "W":
                xs.append("SEnter %d %d" % (o[1], o[2]))
            elif k == "D":
                xs.append("SDrop %d %d" % (o[1], o[2]))
            elif k == "F":
                xs.append("SForget %d %d" % (o[1], o[2]))
            elif k == "X":
                xs.append("SExit %d" % o[1])
            elif k == "P":
                xs.append("SPanic %d" % o[1])
            elif k == "B":
                xs.append("SEndBorrow %d" % o[1])
            elif k == "G":
                xs.append("SSetGlobal %d" % o[1])
            else:
                a = o[3]
                args = "{| a_strs := %s; a_lbls := %s; a_unit := %d |}" % (
                    cq_list([cq_bytes(a["n"]), cq_bytes(a["v"][0]), cq_bytes(a["v"][1]), cq_bytes(a["d"])]),
                    cq_list(["(%s, %s)" % (cq_bytes(k2), cq_bytes(v)) for k2, v in a["l"]]), a["u"])
                xs.append("SEmit %d (site %d) %s" % (o[1], o[2], args))
        return cq_list(xs)

    def coq_out(self, c, out):
        def hb(h):
            return '(hx "%s")' % h

        def entry(e):
            m = "None"
            if e["m"] is not None:
                m = "(Some {| m_target := %s; m_level := %d; m_module := %s |})" % (
                    hb(e["m"][0]), e["m"][1], "None" if e["m"][2] is None else "(Some %s)" % hb(e["m"][2]))
            u = "None" if e["u"] is None else "(Some %d)" % UNIT_IX.get(e["u"], 99)
            p = "{| p_call := %s; p_name := %s; p_labels := %s; p_meta := %s; p_unit := %s; p_desc := %s |}" % (
                COQ_CALLS[e["c"]], hb(e["n"]), cq_list(["(%s, %s)" % (hb(k), hb(v)) for k, v in e["l"]]), m, u, hb(e["d"]))
            return "{| o_rid := %d; o_tid := %d; o_payload := %s; o_dead := %s |}" % (e["r"], e["t"], p, cq_bool(e["x"]))

        if isinstance(out, dict):     # the driver reported an error: an output no specification allows
            bad = dict(r=4294967295, t=4294967295, c=0, n="", l=[], m=None, u=None, d="", x=1)
            return cq_list([cq_list([entry(bad)])])
        return cq_list([cq_list([entry(e) for e in es]) for es in out])

    def signature(self, c, out):
        if isinstance(out, dict) or not any(es for es in out):
            return None
        return [c, out]

    def shrink(self, c):
        if "negative" in c:
            return []
        ops = c["ops"]
        cands = []
        for i, o in enumerate(ops):
            rest = [list(x) for x in ops[:i] + ops[i + 1:]]
            if o[0] in ("I", "W"):
                g = sum(1 for x in ops[:i] if x[0] in ("I", "W"))
                rest = [x for x in rest if not (x[0] in ("D", "F") and x[2] == g)]
                for x in rest:
                    if x[0] in ("D", "F") and x[2] > g:
                        x[2] -= 1
            cands.append(dict(ops=rest))
        for i, o in enumerate(ops):
            if o[0] == "E":
                a = o[3]
                if o[2] != 0:
                    cands.append(dict(ops=ops[:i] + [["E", o[1], 0, a]] + ops[i + 1:]))
                plain = dict(n="a", v=["", ""], d="", u=0, l=[])
                if a != plain:
                    cands.append(dict(ops=ops[:i] + [["E", o[1], o[2], plain]] + ops[i + 1:]))
            if o[0] == "W":
                # a with_local_recorder scope as a plain guard
                pass
        return [x for x in cands if analyse(x["ops"])[0]]


PROP = C01()
